"""./check <Cxx> [--tier quick|thorough] [--replay file]  — generic runner, see common.py"""
from __future__ import annotations

import argparse
import collections
import hashlib
import importlib
import itertools
import json
import os
import random
import sys
import time

sys.path.insert(0, os.path.dirname(os.path.dirname(os.path.abspath(__file__))))

from harness import common as C  # noqa: E402
from tools import gen_lean  # noqa: E402

BASE_TRUST = [
    "Lean 4.33.0 kernel (theorems elaborated by `lake build`; thorough tier re-checks .olean files with leanchecker)",
    "axioms per theorem as reported by Lean.collectAxioms: subset of {propext, Classical.choice, Quot.sound}; no native_decide, bv_decide, sorry, own axioms",
    "tools/gen_*.py (source -> Pendulum/Gen/*.lean translators, run on every check; DESIGN.md section 3 lists them) are trusted to read the Python/Rust "
    "subset they accept faithfully — tables, closed-form expressions, and statement-level control flow with callees as parameters; each generated file's "
    "header states its reading (integer casts, floor/truncation, fuel bounds); source outside the subset is reported as a fallback and breaks the tie; the "
    "tie theorems (*_source_eq_model) prove generated definition = hand model, the correspondence run cross-checks the hand model against the code",
    "harness correspondence run (differential test of model driver vs implementation) ties the hand-written model to the code; it is as strong as the generated inputs",
    "CPython datetime/zoneinfo/timedelta, tzdata, re, pickle are modelled (DESIGN.md section 5), not verified",
]
BATCH = 200_000


def replay_file(pid, payload):
    h = hashlib.sha256(json.dumps(payload, sort_keys=True, default=str).encode()).hexdigest()[:12]
    path = C.REPLAYS / f"{pid}-{h}.json"
    C.write_json(path, payload)
    return os.path.relpath(path, C.ROOT)


def batches(it, n=BATCH):
    it = iter(it)
    while True:
        b = list(itertools.islice(it, n))
        if not b:
            return
        yield b


class Acc:
    """accumulates everything a run observes"""

    def __init__(self, P, pid):
        self.P, self.pid = P, pid
        self.findings = [f for f in C.load_findings() if f["property"] == pid and f.get("status", "known") == "known"]
        self.n_ops = 0
        self.n_model = 0
        self.diffs = []
        self.n_diffs = 0
        self.new = []
        self.n_new = 0
        self.known = collections.OrderedDict()
        self.tags = collections.Counter()
        self.distinct = set()
        self.samples = []
        self.driver_err = None

    def classify(self, ops, results, differs=()):
        """a failing input is excused by a known finding only when its matcher accepts it AND the model — which reproduces the
        recorded behaviour of the unchanged code — still agrees with the implementation on it: a known finding cannot mask a
        change of behaviour inside its own region"""
        P = self.P
        for b, res in results.items():
            for i, (op, (out, viol)) in enumerate(zip(ops, res)):
                if viol is None:
                    continue
                hit = None
                for f in self.findings:
                    m = getattr(P, "MATCHERS", {}).get(f["matcher"])
                    if m and m(op, b, out, viol):
                        hit = f
                        break
                if hit and (b, i) in differs:
                    viol = f"{viol} [inside the region of known finding {hit['id']}, but the implementation no longer behaves as recorded there: model {differs[(b, i)]!r}]"
                    hit = None
                if hit:
                    self.known.setdefault(hit["id"], [hit, 0, (op, b, out, viol)])[1] += 1
                else:
                    self.n_new += 1
                    if len(self.new) < 200:
                        self.new.append((op, b, out, viol))

    def batch(self, impl, ops, use_driver=True, count=True):
        P = self.P
        results = impl.run(ops)
        norm = getattr(P, "normalize", None)
        differs = {}
        if use_driver:
            for b in P.BACKENDS:
                res = results[b]
                idx, lines = [], []
                for i, op in enumerate(ops):
                    ln = P.line(op, b)
                    if ln is not None:
                        idx.append(i)
                        lines.append(ln)
                try:
                    pre = P.preamble() if hasattr(P, "preamble") else []
                    outs = C.run_driver(pre + lines)
                    for j, o in enumerate(outs[:len(pre)]):
                        if not o.startswith("ok"):
                            self.n_diffs += 1
                            self.diffs.append(dict(backend=b, op=["preamble", pre[j][:200]], model=o, impl="ok"))
                    outs = outs[len(pre):]
                except C.Infra as e:
                    self.driver_err = str(e)
                    continue
                self.n_model += len(lines)
                for i, o in zip(idx, outs):
                    if res[i][0] == "skip":      # the harness could not set this case up (no regular base value)
                        self.n_model -= 1
                        continue
                    a, b2 = o, res[i][0]
                    if norm is not None:
                        a, b2 = norm(ops[i], a), norm(ops[i], b2)
                    if a != b2:
                        differs[(b, i)] = o[:200]
                        self.n_diffs += 1
                        if len(self.diffs) < 2000:
                            self.diffs.append(dict(backend=b, op=list(ops[i]), model=o, impl=res[i][0], line=P.line(ops[i], b)))
        self.classify(ops, results, differs)
        if count:
            self.n_ops += len(ops)
            b0 = P.BACKENDS[0]
            has_tag = hasattr(P, "tag")
            triv = getattr(P, "TRIVIAL_TAGS", ())
            for b, res in results.items():
                for op, (out, _) in zip(ops, res):
                    t = P.tag(op, out) if has_tag else op[0]
                    self.tags[str(t)] += 1
                    if t is not None and t not in triv:
                        self.distinct.add(hash(op))
            step = max(1, len(ops) // 3)
            for i in range(0, len(ops), step):
                if len(self.samples) < 12:
                    self.samples.append(dict(op=list(ops[i]), request=P.line(ops[i], b0), impl=results[b0][i][0]))


def main():
    ap = argparse.ArgumentParser()
    ap.add_argument("pid")
    ap.add_argument("--tier", default=os.environ.get("VERIF_TIER", "quick"))
    ap.add_argument("--replay")
    a = ap.parse_args()
    pid = a.pid.upper()
    tier = a.tier if a.tier in ("quick", "thorough") else "quick"
    seed = int(os.environ.get("VERIF_SEED", "1") or 1)
    modname = f"harness.props.{pid.lower()}"
    P = importlib.import_module(modname)
    t0 = time.time()

    if a.replay:
        return replay(P, modname, a.replay)

    tie_broken = []   # reasons why "proved + tied" no longer holds
    # 1. regenerate
    try:
        gen = gen_lean.regenerate()
    except Exception as e:  # noqa: BLE001
        gen = dict(changed=[], fallbacks=[f"generator failed: {e!r}"], selftest=0)
    relevant = getattr(P, "GEN_MODULES", None)
    for fb in gen["fallbacks"]:
        if relevant is None or any(fb.startswith(r) for r in relevant) or fb.startswith("generator failed"):
            tie_broken.append("regeneration: " + fb)
    # 2. rust
    so = C.build_rust() if "rs" in P.BACKENDS else None
    # 3. lean
    rc, log = C.lake(["build", "driver"])
    driver_ok = rc == 0
    if not driver_ok:
        tie_broken.append("lean: model driver does not build: " + log[-1500:])
    lean = C.lean_check(pid)
    if not lean["build_ok"]:
        tie_broken.append("lean: Pendulum.Props.%s does not build: %s" % (pid, lean["log"][-2500:]))
    for n in lean["bad"]:
        tie_broken.append(f"lean: theorem {n} depends on axioms {lean['theorems'][n]}")
    for h in lean["forbidden"]:
        tie_broken.append("lean: forbidden construct " + h)
    obligations = len(lean["theorems"])
    if lean["build_ok"] and obligations < getattr(P, "MIN_THEOREMS", 1):
        tie_broken.append(f"lean: only {obligations} property theorems found, expected at least {P.MIN_THEOREMS}")
    discharged = obligations - len(lean["bad"]) if lean["build_ok"] else 0
    pmods = " ".join(C.prop_modules(pid))
    checker = f"cd lean && lake build {pmods} && lake env lean ../.cache/Audit_{pid}.lean"
    if tier == "thorough" and lean["build_ok"]:
        t1 = time.time()
        with C.Lock("lake"):
            import subprocess
            p = subprocess.run(["lake", "env", "leanchecker"] + C.prop_modules(pid), cwd=C.LEAN, capture_output=True, text=True)
        if p.returncode != 0:
            tie_broken.append("leanchecker rejected Pendulum.Props.%s: %s" % (pid, (p.stdout + p.stderr)[-800:]))
        checker += f" && lake env leanchecker {pmods}  # {time.time() - t1:.0f}s"

    # 4/5. correspondence + oracle
    acc = Acc(P, pid)
    impl = C.Impl(modname, P.BACKENDS, so)
    try:
        rng = random.Random(seed)
        corpus = P.corpus() if hasattr(P, "corpus") else []
        for ops in batches(itertools.chain(corpus, P.gen_ops(rng, tier))):
            acc.batch(impl, ops, use_driver=driver_ok)
        if acc.driver_err:
            tie_broken.append("driver: " + acc.driver_err)
        if acc.n_diffs:
            tie_broken.append(f"correspondence: {acc.n_diffs} of {acc.n_model} model/implementation comparisons differ; first: "
                              + json.dumps(acc.diffs[0], default=str)[:600])
        widened = 0
        if tie_broken and not acc.new:
            # the proof or the tie broke: search harder for a concrete failing input
            rng2 = random.Random(seed + 7919)
            ops2 = [tuple(tuple(x) if isinstance(x, list) else x for x in d["op"]) for d in acc.diffs if d["op"][0] != "preamble"]
            for ops in batches(itertools.chain(ops2, P.gen_ops(rng2, "widen"))):
                acc.batch(impl, ops, use_driver=False, count=False)
                widened += len(ops)
                if acc.new:
                    break
    finally:
        impl.close()

    nb = len(P.BACKENDS)
    violations = 0
    exit_code = 0
    out_lines = []
    for fid, (f, cnt, ex) in acc.known.items():
        out_lines.append(f"KNOWN-FINDING: property={pid} {f['id']} {f['what']} ({cnt} inputs this run, e.g. {list(ex[0])})")
    if acc.new:
        violations = acc.n_new
        op, b, out, viol = min(acc.new, key=lambda x: len(json.dumps(x[0], default=str)))
        path = replay_file(pid, dict(
            property=pid, kind="failing-input", backend=b, op=list(op), observed=out, violation=viol,
            tie_broken=tie_broken[:5], count=acc.n_new,
            more=[dict(op=list(o), backend=bb, observed=oo, violation=vv) for o, bb, oo, vv in acc.new[1:6]],
            reproduce=f"cd /verif && ./check {pid} --replay <this file>"))
        out_lines.append(f"VIOLATION property={pid} replay={path}")
        exit_code = 1
    elif tie_broken:
        violations = 1
        path = replay_file(pid, dict(
            property=pid, kind="tie-broken", broken=tie_broken[:10],
            failed_theorems=lean.get("failed_decls", []), first_diffs=acc.diffs[:5],
            searched=(acc.n_ops + widened) * nb,
            note="no input on which the property's oracle fails was found; the named theorem or correspondence no longer checks"))
        out_lines.append(f"VIOLATION property={pid} replay={path} no-failing-input-found")
        exit_code = 1

    wall = time.time() - t0
    ev = dict(
        property_id=pid, tier=tier, seed=seed, level="proof",
        coverage=dict(
            obligations=max(obligations, 1),
            discharged=discharged,
            checker_cmd=checker,
            trusted_base=BASE_TRUST + list(getattr(P, "TRUSTED", [])),
            generated_modules=list(getattr(P, "GEN_MODULES", None) or []),
            lean_modules=C.prop_modules(pid),
            theorems={k: v for k, v in lean["theorems"].items()},
            partial_theorems=[k for k in lean["theorems"] if k.endswith("_partial")],
            lean_build_ok=lean["build_ok"], lean_build_s=lean.get("build_s"),
            generated_modules_changed=gen["changed"], generator_selftest_cases=gen.get("selftest", 0),
            evaluations=(acc.n_ops + widened) * nb,
            distinct_nontrivial=len(acc.distinct),
            rule=getattr(P, "RULE", ""),
            samples=acc.samples[:10],
            branch_histogram=dict(acc.tags.most_common(60)),
            traces_validated_against_impl=acc.n_model if driver_ok and not acc.driver_err else 0,
            correspondence_differences=acc.n_diffs,
            backends=list(P.BACKENDS),
            known_findings_seen={k: v[1] for k, v in acc.known.items()},
            tie_broken=tie_broken[:10],
            exhaustive=bool(getattr(P, "EXHAUSTIVE", {}).get(tier, False)),
        ),
        assumptions=list(getattr(P, "ASSUMPTIONS", [])),
        wall_s=round(wall, 2),
        violations=violations,
    )
    if hasattr(P, "extra_evidence"):
        ev["coverage"].update(P.extra_evidence(tier))
    C.write_json(C.EVID / f"{pid}.json", ev)
    for ln in out_lines:
        print(ln)
    print(f"{pid} tier={tier} seed={seed} theorems={obligations} discharged={discharged} ops={acc.n_ops}x{nb} "
          f"model-compared={acc.n_model} diffs={acc.n_diffs} known={sum(v[1] for v in acc.known.values())} "
          f"new={acc.n_new} wall={wall:.1f}s " + ("OK" if exit_code == 0 else "FAIL"))
    return exit_code


def replay(P, modname, path):
    d = json.load(open(path))
    if d.get("kind") != "failing-input":
        print("replay file names a broken proof/correspondence, no input to run:")
        print(json.dumps(d.get("broken"), indent=1)[:3000])
        return 1
    so = C.build_rust() if "rs" in P.BACKENDS else None

    def tup(x):
        return tuple(tup(y) for y in x) if isinstance(x, list) else x
    op = tup(d["op"])
    impl = C.Impl(modname, [d["backend"]], so, nproc=1)
    try:
        out, viol = impl.run([op])[d["backend"]][0]
    finally:
        impl.close()
    print("op       :", op)
    print("backend  :", d["backend"])
    print("observed :", out)
    print("violation:", viol)
    return 1 if viol else 0


if __name__ == "__main__":
    try:
        sys.exit(main())
    except C.Infra as e:
        print("INFRA-FAILURE:", e, file=sys.stderr)
        sys.exit(2)
