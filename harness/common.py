"""Shared machinery for every property check.

Flow of one check (see DESIGN.md section 4):
  1. regenerate lean/Pendulum/Gen/*.lean from /repo's working tree (tools/gen_lean.py)
  2. rebuild the Rust extension from /repo/rust (compiled backend) into .cache/rust
  3. lake build the property's theorem module + the model driver; audit axioms
  4. correspondence: run generated operations through the real implementation (both helper
     backends, in worker processes) and through the Lean model driver; diff the outputs
  5. oracle: evaluate the property's executable statement on the implementation's outputs
  6. verdict + evidence/<id>.json (+ evidence/replays/*.json on violation)

Only the standard library is used here; pendulum itself is imported only inside workers.
"""
from __future__ import annotations

import fcntl
import hashlib
import importlib
import importlib.machinery
import importlib.util
import json
import multiprocessing
import os
import random
import re
import subprocess
import sys
import time
import traceback
from pathlib import Path

ROOT = Path(__file__).resolve().parent.parent
REPO = Path(os.environ.get("VERIF_REPO", "/repo"))
LEAN = ROOT / "lean"
CACHE = ROOT / ".cache"
EVID = ROOT / "evidence"
REPLAYS = EVID / "replays"
PY = "/venv/bin/python"
NPROC = int(os.environ.get("VERIF_NPROC", "14"))
ALLOWED_AXIOMS = {"propext", "Classical.choice", "Quot.sound"}
FORBIDDEN = re.compile(
    r"\b(sorry|admit|native_decide|bv_decide|implemented_by)\b|^\s*axiom\s|^\s*unsafe\s|maxHeartbeats\s+0\b"
)


class Infra(Exception):
    """tool failure: exit 2, not a verdict"""


# ----------------------------------------------------------------------------- locking

class Lock:
    def __init__(self, name):
        CACHE.mkdir(exist_ok=True)
        self.path = CACHE / (name + ".lock")

    def __enter__(self):
        self.f = open(self.path, "w")
        fcntl.flock(self.f, fcntl.LOCK_EX)
        return self

    def __exit__(self, *a):
        fcntl.flock(self.f, fcntl.LOCK_UN)
        self.f.close()


# ----------------------------------------------------------------------------- rust

def _rust_src_hash() -> str:
    h = hashlib.sha256()
    root = REPO / "rust"
    files = sorted(list((root / "src").rglob("*.rs")) + [root / "Cargo.toml", root / "Cargo.lock"])
    for f in files:
        if f.exists():
            h.update(str(f.relative_to(root)).encode())
            h.update(b"\0")
            h.update(f.read_bytes())
            h.update(b"\0")
    return h.hexdigest()[:20]


def build_rust() -> str:
    """Build the compiled extension from /repo/rust *as it is now*; returns the path of the .so.
    The result is cached by the content hash of the Rust sources (cargo's own mtime-based freshness
    check is not trusted: the sources are copied to a scratch directory with fresh mtimes and built
    there, sharing only the dependency cache). A compile error is an infrastructure failure."""
    import shutil
    target = CACHE / "rust"
    sodir = CACHE / "so"
    with Lock("rust"):
        sodir.mkdir(parents=True, exist_ok=True)
        h = _rust_src_hash()
        dst = sodir / f"_pendulum_{h}.so"
        if dst.exists():
            os.utime(dst)
            return str(dst)
        scratch = CACHE / "rustsrc" / h
        if scratch.exists():
            shutil.rmtree(scratch)
        scratch.parent.mkdir(parents=True, exist_ok=True)
        shutil.copytree(REPO / "rust", scratch, ignore=shutil.ignore_patterns("target"))
        for f in scratch.rglob("*"):
            if f.is_file():
                os.utime(f)
        env = dict(os.environ, PYO3_PYTHON=PY, CARGO_TARGET_DIR=str(target), CARGO_NET_OFFLINE="true")
        try:
            p = subprocess.run(
                ["cargo", "build", "--release", "--offline", "--manifest-path", str(scratch / "Cargo.toml")],
                env=env, capture_output=True, text=True)
            if p.returncode != 0:
                raise Infra("cargo build failed:\n" + p.stderr[-3000:])
            so = target / "release" / "lib_pendulum.so"
            if not so.exists():
                raise Infra("lib_pendulum.so missing after cargo build")
            tmp = dst.with_suffix(".tmp%d" % os.getpid())
            shutil.copyfile(so, tmp)
            os.replace(tmp, dst)
        finally:
            shutil.rmtree(scratch, ignore_errors=True)
        olds = sorted(sodir.glob("_pendulum_*.so"), key=lambda q: q.stat().st_mtime)
        for q in olds[:-6]:
            if q != dst:
                try:
                    q.unlink()
                except OSError:
                    pass
        return str(dst)


# ----------------------------------------------------------------------------- lean

def lake(args, timeout=3000):
    with Lock("lake"):
        p = subprocess.run(["lake"] + args, cwd=LEAN, capture_output=True, text=True, timeout=timeout)
    return p.returncode, p.stdout + p.stderr


def scan_forbidden():
    """grep the Lean sources for escape hatches outside comments"""
    hits = []
    for f in list((LEAN / "Pendulum").rglob("*.lean")) + [LEAN / "Driver.lean"]:
        txt = f.read_text()
        # strip block comments and line comments
        txt2 = re.sub(r"/-.*?-/", lambda m: "\n" * m.group(0).count("\n"), txt, flags=re.S)
        for i, line in enumerate(txt2.split("\n"), 1):
            line = line.split("--")[0]
            if FORBIDDEN.search(line):
                hits.append(f"{f.relative_to(LEAN)}:{i}: {line.strip()[:120]}")
    return hits


AUDIT_TMPL = """import Lean
{imports}
open Lean Elab Command
run_cmd do
  let env ← getEnv
  for m in [{mods}] do
    let some idx := env.getModuleIdx? m | throwError "module not found"
    for n in env.header.moduleData[idx.toNat]!.constNames do
      if n.isInternalDetail then continue
      match env.find? n with
      | some (.thmInfo _) =>
        let axs ← Lean.collectAxioms n
        logInfo m!"AXIOMS {{n}} :: {{axs.toList}}"
      | _ => pure ()
"""


def prop_modules(pid: str):
    """the Lean modules holding the property theorems of `pid`: Props/Cxx.lean (theorems about the hand model) and, where present,
    Props/Cxx_Ties.lean (generated definition = hand model)"""
    mods = [f"Pendulum.Props.{pid}"]
    if (LEAN / "Pendulum" / "Props" / f"{pid}_Ties.lean").exists():
        mods.append(f"Pendulum.Props.{pid}_Ties")
    return mods


def lean_check(pid: str, extra_targets=()):
    """Build the property module and the driver, then audit axioms.
    Returns dict(build_ok, log, theorems={name:[axioms]}, bad=[names], forbidden=[...])."""
    mods = prop_modules(pid)
    targets = mods + ["driver"] + list(extra_targets)
    t0 = time.time()
    rc, log = lake(["build"] + targets)
    res = dict(build_ok=(rc == 0), log=log[-6000:], theorems={}, bad=[], forbidden=scan_forbidden(),
               build_s=round(time.time() - t0, 2), failed_decls=[])
    if rc != 0:
        res["failed_decls"] = sorted(set(re.findall(r"error: ([^\s:]+\.lean:\d+:\d+)", log)))
        notes = sorted(set(re.findall(r"(?:GENERATED-MODEL )?TIE BROKEN[^\n]*", log)))
        if notes:          # keep the names of the broken tie theorems at the very end of the excerpt the caller quotes
            res["log"] = (res["log"] + "\n" + "\n".join(n[:400] for n in notes[:8]))[-6000:]
        return res
    audit = CACHE / f"Audit_{pid}.lean"
    audit.write_text(AUDIT_TMPL.format(imports="\n".join("import " + m for m in mods), mods=", ".join("`" + m for m in mods)))
    with Lock("lake"):
        p = subprocess.run(["lake", "env", "lean", str(audit)], cwd=LEAN, capture_output=True, text=True)
    out = p.stdout + p.stderr
    if p.returncode != 0:
        res["build_ok"] = False
        res["log"] = out[-6000:]
        return res
    for m in re.finditer(r"AXIOMS (\S+) :: \[(.*?)\]", out, flags=re.S):
        axs = [a.strip() for a in m.group(2).replace("\n", " ").split(",") if a.strip()]
        res["theorems"][m.group(1)] = axs
        if not set(axs) <= ALLOWED_AXIOMS:
            res["bad"].append(m.group(1))
    return res


def driver_path():
    p = LEAN / ".lake" / "build" / "bin" / "driver"
    if not p.exists():
        raise Infra("driver executable missing (lake build driver failed?)")
    return str(p)


def run_driver(lines):
    """feed request lines to the Lean model, one reply per line"""
    if not lines:
        return []
    data = ("\n".join(lines) + "\n").encode()
    p = subprocess.run([driver_path()], input=data, capture_output=True)
    if p.returncode != 0:
        raise Infra("driver crashed: " + p.stderr.decode()[-2000:])
    out = p.stdout.decode().split("\n")
    if out and out[-1] == "":
        out.pop()
    if len(out) != len(lines):
        raise Infra(f"driver returned {len(out)} lines for {len(lines)} requests; stderr={p.stderr.decode()[-500:]}")
    return out


# ----------------------------------------------------------------------------- workers

_W = {}


def _init_worker(backend, so, modname):
    os.environ["PENDULUM_EXTENSIONS"] = "1" if backend == "rs" else "0"
    os.environ.pop("PYTHONHASHSEED", None)
    sys.path.insert(0, str(REPO / "src"))
    if backend == "rs":
        loader = importlib.machinery.ExtensionFileLoader("pendulum._pendulum", so)
        spec = importlib.util.spec_from_file_location("pendulum._pendulum", so, loader=loader)
        mod = importlib.util.module_from_spec(spec)
        loader.exec_module(mod)
        sys.modules["pendulum._pendulum"] = mod
    import pendulum
    import pendulum.helpers as H
    import pendulum.parsing as PP
    assert str(Path(pendulum.__file__).resolve()).startswith(str(REPO.resolve())), pendulum.__file__
    assert H.with_extensions == (backend == "rs")
    if backend == "rs":
        assert H.local_time.__module__ != "pendulum._helpers", "compiled helpers not active"
        assert PP.parse_iso8601.__module__ != "pendulum.parsing.iso8601"
    else:
        assert H.local_time.__module__ == "pendulum._helpers"
    P = importlib.import_module(modname)
    _W["P"] = P
    _W["backend"] = backend
    if hasattr(P, "worker_init"):
        P.worker_init(backend)


def exc_kind(e: BaseException) -> str:
    """canonical error kind: ValueError family and the pendulum exceptions by name, others Other:<Type>"""
    n = type(e).__name__
    return n


def _work(chunk):
    P = _W["P"]
    backend = _W["backend"]
    out = []
    for op in chunk:
        try:
            r = P.impl(op, backend)
        except BaseException as e:  # noqa: BLE001
            if isinstance(e, (KeyboardInterrupt, SystemExit, MemoryError)):
                raise
            r = "err " + exc_kind(e)
        try:
            v = P.oracle(op, r, backend)
        except BaseException as e:  # noqa: BLE001
            if isinstance(e, (KeyboardInterrupt, SystemExit, MemoryError)):
                raise
            v = "ORACLE-CRASH " + repr(e) + " " + traceback.format_exc()[-600:]
        out.append((r, v))
    return out


class Impl:
    """worker pools, one per helper backend, each process has the real pendulum imported"""

    def __init__(self, modname, backends, so, nproc=None):
        self.backends = list(backends)
        per = nproc or max(1, NPROC // len(self.backends))
        self.per = per
        ctx = multiprocessing.get_context("fork")
        self.pools = {b: ctx.Pool(per, initializer=_init_worker, initargs=(b, so, modname)) for b in self.backends}

    def run(self, ops):
        """returns {backend: [(impl_output, oracle_violation_or_None)]} aligned with ops"""
        if not ops:
            return {b: [] for b in self.backends}
        n = len(ops)
        csz = max(1, min(5000, n // (self.per * 4) + 1))
        chunks = [ops[i:i + csz] for i in range(0, n, csz)]
        asyncs = {b: self.pools[b].map_async(_work, chunks) for b in self.backends}
        return {b: [x for c in a.get() for x in c] for b, a in asyncs.items()}

    def close(self):
        for p in self.pools.values():
            p.terminate()
            p.join()


# ----------------------------------------------------------------------------- strings on the wire

def enc_str(s: str) -> str:
    """strings travel as comma-separated code points; '-' is the empty string"""
    return ",".join(str(ord(c)) for c in s) if s else "-"


def dec_str(w: str) -> str:
    return "" if w == "-" else "".join(chr(int(x)) for x in w.split(","))


# ----------------------------------------------------------------------------- findings

def load_findings():
    f = ROOT / "known_findings.json"
    if not f.exists():
        return []
    return json.loads(f.read_text()).get("findings", [])


# ----------------------------------------------------------------------------- evidence

def write_json(path: Path, obj):
    path.parent.mkdir(parents=True, exist_ok=True)
    tmp = path.with_suffix(".tmp%d" % os.getpid())
    tmp.write_text(json.dumps(obj, indent=1, sort_keys=False, default=str) + "\n")
    os.replace(tmp, path)
