"""C09 — Duration normalisation is consistent with timedelta and with itself."""
from __future__ import annotations

from datetime import timedelta
from fractions import Fraction

ID = "C09"
BACKENDS = ("py",)          # duration.py does not touch the helper backends
GEN_MODULES = ("Duration",)
MIN_THEOREMS = 16
RULE = ("ops: dur/absdur with 9 integer arguments (years months weeks days hours minutes seconds milliseconds microseconds) of mixed "
        "sign: small mixed tuples, single large components up to 10^6 (10^9 days for days), sign-cancelling tuples whose total is "
        "0 / +-1 us / +-1 s, negative totals with a sub-second part, unit multiples +-1 us, totals straddling 2^31, 2^32, 2^33, 2^34 "
        "seconds (+- 0, 1, 999999 us), years/months up to +-10^6. Model comparison on the whole range; "
        "outside it the oracle still checks the native slots and years/months. non-trivial = distinct tuple with negative part, "
        "non-zero sub-second part, cancelling components, years/months, or a boundary total")
EXHAUSTIVE = {"quick": False, "thorough": False}
TRUSTED = [
    "Model/Dur.lean is a hand model of duration.py in exact integer microseconds, tied by this correspondence run",
    "Model/DurFloat.lean (float-faithful model of the *pre-fix* normalisation) is kept for the Lean counterexamples of the former "
    "findings F17/F18; it is no longer used by the correspondence run and no theorem depends on it",
    "native datetime.timedelta is the reference (exact integer arithmetic for integer arguments)",
]
ASSUMPTIONS = [
    "since the fix 'Duration normalisation ... exact to the microsecond' Duration.__new__ computes on the integer microseconds of the "
    "native slots, so the exact model is compared with the code on the whole input range (no float bridge any more); the only float left "
    "is total_*(): in_weeks..in_seconds = int(total_*()) are compared with the model below 2^53 us (285 years) and checked by the oracle "
    "against total_seconds() everywhere (normalize())",
    "property C09 quantifies over integer arguments only; float arguments are not generated",
]

US = 10 ** 6
DAY = 86400 * US
B31, B32, B33, B34 = (2 ** 31) * US, (2 ** 32) * US, (2 ** 33) * US, (2 ** 34) * US
MAXUS = 999999999 * DAY
UNITS = (("w", 7 * DAY), ("d", DAY), ("h", 3600 * US), ("mi", 60 * US), ("s", US), ("ms", 1000), ("us", 1))
FIELDS = ("y", "mo", "w", "d", "h", "mi", "s", "ms", "us")

_stats = {"max_compared_us": 0}


def part_us(op):
    _, y, mo, w, d, h, mi, s, ms, us = op
    return ((((w * 7 + d) * 24 + h) * 60 + mi) * 60 + s) * US + ms * 1000 + us


def native_us(op):
    return part_us(op) + (op[1] * 365 + op[2] * 30) * DAY


def in_domain(op):
    p, n = part_us(op), native_us(op)
    if op[0] == "absdur":
        return abs(p) < B33
    if op[1] == 0 and op[2] == 0:
        return abs(p) < B33
    return abs(p) < B32 and abs(n) < B32


def in_range(op):
    n = part_us(op) if op[0] == "absdur" else native_us(op)
    # every partial sum inside timedelta.__new__ stays far from the limit as well
    return abs(n) <= MAXUS and abs(op[4] + op[1] * 365 + op[2] * 30) <= 999999999 and abs(op[3]) * 7 <= 999999999


def split(rng, total, style):
    """write an integer microsecond total as a 7-tuple (w d h mi s ms us) of mixed sign"""
    if style == 0:
        return (0, 0, 0, 0, 0, 0, total)
    if style == 1:
        s, us = divmod(total, US)
        return (0, 0, 0, 0, s, 0, us)
    if style == 2:                      # canonical split, sign carried by every component
        m = -1 if total < 0 else 1
        a = abs(total)
        out = []
        for _, u in UNITS:
            out.append(a // u * m)
            a %= u
        return tuple(out)
    # random mixed-sign split: draw all but one component, solve for the rest in us and seconds
    w = rng.randint(-3, 3) if style == 3 else rng.randint(-2000, 2000)
    d = rng.randint(-10, 10) if style == 3 else rng.randint(-10 ** 4, 10 ** 4)
    h = rng.randint(-30, 30)
    mi = rng.randint(-100, 100)
    ms = rng.randint(-2000, 2000)
    us = rng.randint(-2 * US, 2 * US)
    rest = total - (((w * 7 + d) * 24 + h) * 60 + mi) * 60 * US - ms * 1000 - us
    r = rest % US
    us += r
    s = (rest - r) // US
    return (w, d, h, mi, s, ms, us)


def gen_ops(rng, tier):
    n = {"quick": 1, "thorough": 25, "widen": 10}[tier]
    kinds = ("dur", "dur", "dur", "absdur")

    def emit(kind, y, mo, t7):
        op = (kind, y, mo) + tuple(t7)
        if in_range(op):
            return op
        return None

    # 1. small mixed-sign tuples (exhaustive-ish over a tiny grid first)
    small = (-1, 0, 1)
    for d in small:
        for h in (-25, -24, 0, 23, 24):
            for s in (-61, -1, 0, 1, 59):
                for us in (-1000001, -1, 0, 1, 999999):
                    for kind in ("dur", "absdur"):
                        yield (kind, 0, 0, 0, d, h, 0, s, 0, us)
    for _ in range(30000 * n):
        kind = rng.choice(kinds)
        t = [rng.choice((0, 0, rng.randint(-3, 3), rng.randint(-100, 100))) for _ in range(7)]
        y = rng.choice((0, 0, 0, rng.randint(-3, 3)))
        mo = rng.choice((0, 0, 0, rng.randint(-14, 14)))
        op = emit(kind, y, mo, t)
        if op:
            yield op
    # 2. single large components, and every component large
    for _ in range(10000 * n):
        kind = rng.choice(kinds)
        t = [0] * 7
        for i in range(7):
            if rng.random() < 0.35:
                t[i] = rng.randint(-10 ** 6, 10 ** 6)
        if rng.random() < 0.3:
            # keep inside the float-exact range: shrink the big units
            t[0] = rng.randint(-5000, 5000)
            t[1] = rng.randint(-40000, 40000)
            t[2] = rng.randint(-10 ** 6, 10 ** 6)
        y = rng.choice((0, 0, rng.randint(-100, 100)))
        mo = rng.choice((0, 0, rng.randint(-1000, 1000)))
        op = emit(kind, y, mo, t)
        if op:
            yield op
    # 3. cancelling tuples: total is 0, +-1 us, +-1 s, +- sub-second
    for _ in range(20000 * n):
        kind = rng.choice(kinds)
        total = rng.choice((0, 0, 1, -1, US, -US, 999999, -999999, 1000001, -1000001, rng.randint(-US, US),
                            rng.randint(-2 * DAY, 2 * DAY)))
        t = split(rng, total, rng.choice((3, 3, 4)))
        y = rng.choice((0, 0, 0, 1, -1, rng.randint(-50, 50)))
        mo = rng.choice((0, 0, 0, 1, -1, -12 * y, rng.randint(-50, 50)))
        op = emit(kind, y, mo, t)
        if op:
            yield op
    # 3b. years / months cancelled by the other components: the NATIVE total (a year = 365 days, a month = 30 days) is 0, +-1 us, +-1 s
    #     while years, months and the part without them are not
    for _ in range(4000 * n):
        kind = rng.choice(kinds)
        y = rng.choice((0, 1, -1, 2, rng.randint(-40, 40)))
        mo = rng.choice((0, 1, -1, 12, -11, rng.randint(-60, 60)))
        if not (y or mo):
            continue
        total = -(y * 365 + mo * 30) * DAY + rng.choice((0, 0, 0, 1, -1, US, -US, 999999, -999999))
        op = emit(kind, y, mo, split(rng, total, rng.choice((0, 1, 2, 3, 4))))
        if op:
            yield op
    # 4. unit multiples +- 1 us, either sign (truncation of in_*(), carries between components)
    for _ in range(20000 * n):
        kind = rng.choice(kinds)
        u = rng.choice(UNITS[:5])[1]
        k = rng.randint(0, B33 // u)
        total = rng.choice((-1, 1)) * (k * u + rng.choice((-1, 0, 1, -999999, 999999, -US, US)))
        op = emit(kind, 0, 0, split(rng, total, rng.choice((0, 1, 2, 3, 4))))
        if op:
            yield op
    # 5. the float boundary: totals straddling 2^31, 2^32, 2^33, 2^34 s, and up to 10^9 days
    for _ in range(20000 * n):
        kind = rng.choice(kinds)
        b = rng.choice((B31, B32, B33, B33, B33, B34))
        off = rng.choice((0, 1, -1, 999999, -999999, US, -US, rng.randint(-5 * US, 5 * US), rng.randint(-DAY, DAY)))
        total = rng.choice((-1, 1)) * (b + off)
        op = emit(kind, 0, 0, split(rng, total, rng.choice((0, 1, 2, 3, 4))))
        if op:
            yield op
    for _ in range(10000 * n):
        kind = rng.choice(kinds)
        total = rng.randint(-B33, B33) if rng.random() < 0.7 else rng.randint(-MAXUS, MAXUS)
        op = emit(kind, 0, 0, split(rng, total, rng.choice((0, 1, 2, 3, 4))))
        if op:
            yield op
    # 6. years / months: native total and part both inside, and straddling, the 2^32 s range
    for _ in range(30000 * n):
        kind = rng.choice(kinds)
        r = rng.random()
        if r < 0.5:
            y, mo = rng.randint(-130, 130), rng.randint(-200, 200)
        elif r < 0.8:
            y, mo = rng.randint(-300, 300), rng.randint(-3000, 3000)
        else:
            y, mo = rng.randint(-10 ** 6, 10 ** 6), rng.randint(-10 ** 6, 10 ** 6)
        ym = (y * 365 + mo * 30) * DAY
        r = rng.random()
        if r < 0.4:
            total = rng.randint(-B32, B32)                      # part anywhere
        elif r < 0.7:
            total = rng.randint(-B32, B32) - ym                 # native anywhere (part compensates)
        elif r < 0.85:
            total = rng.choice((-1, 1)) * (B32 + rng.choice((-1, 0, 1, -US, US)))
        else:
            total = rng.choice((-1, 1)) * (B32 + rng.choice((-1, 0, 1, -US, US))) - ym
        op = emit(kind, y, mo, split(rng, total, rng.choice((0, 1, 2, 3, 4))))
        if op:
            yield op


def corpus():
    return [
        ("dur", 0, 0, 0, 0, 0, 0, 0, 0, 0),
        ("dur", 0, 0, 0, 0, 0, 0, 0, 0, -1),
        ("dur", 0, 0, 0, 0, 0, 0, -1, 0, 1),
        ("dur", 0, 0, 0, 1, -24, 0, 0, 0, -1),
        ("dur", 1, 2, 3, 4, 5, 6, 7, 8, 9),
        ("dur", -1, -2, -3, -4, -5, -6, -7, -8, -9),
        ("dur", 1, -12, 0, -5, 0, 0, 0, 0, 0),
        ("dur", 0, 0, 0, -1177, 0, 0, -7284, 0, -1000001),
        ("absdur", 0, 0, 0, -1177, 0, 0, -7284, 0, -1000001),
        ("absdur", 2, -3, 0, 0, 0, 0, 0, 0, -1),
        ("dur", 0, 0, 0, 0, 0, 0, 2 ** 33 - 1, 0, 999999),
        ("dur", 0, 0, 0, 0, 0, 0, -(2 ** 33) + 1, 0, -999999),
        ("dur", 0, 0, 0, 0, 0, 0, 2 ** 33, 0, 1),
    ]


def line(op, backend):
    if False and not in_domain(op):   # since the exact-normalisation fix the exact model applies everywhere
        # outside the float-exact range the exact model (the one the theorems are about) does not apply; the request goes to
        # the float-faithful model (Model/DurFloat.lean) so that the code is still compared with a model everywhere
        return " ".join([op[0] + "f"] + [str(x) for x in op[1:]])
    return " ".join(str(x) for x in op)


def normalize(op, out):
    """in_weeks..in_seconds are `int(total_*())`, i.e. truncations of a *float*: beyond 2^53 us (285 years) the float
    quotient can round across an integer (17179869184.999999 s -> 17179869185.0), which the exact-integer model does not
    follow; those five fields are compared only below that size (the oracle still checks them against total_seconds())."""
    f = out.split()
    if f[0] != "ok" or len(f) < 18:
        return out
    days, secs, us = int(f[1]), int(f[2]), int(f[3])
    if abs((days * 86400 + secs) * US + us) < 2 ** 53:
        return out
    return " ".join(f[:13] + ["*"] * 5 + f[18:])


_H = {}


def worker_init(backend):
    import pendulum
    from pendulum.duration import AbsoluteDuration
    _H["Duration"] = pendulum.Duration
    _H["AbsoluteDuration"] = AbsoluteDuration


_TD_DAYS = timedelta.days.__get__
_TD_SECS = timedelta.seconds.__get__
_TD_US = timedelta.microseconds.__get__
_UNIT_US = (("weeks", 7 * DAY), ("days", DAY), ("hours", 3600 * US), ("minutes", 60 * US), ("seconds", US))


def triple(x):
    """native timedelta slots (Duration overrides the .seconds/.microseconds properties)"""
    return (_TD_DAYS(x), _TD_SECS(x), _TD_US(x))


_ACC = ("years", "months", "weeks", "remaining_days", "hours", "minutes", "remaining_seconds", "microseconds")


def fields(d, order=0):
    """native triple + public components of a Duration. The accessors are lazily cached on the instance, so the ORDER in
    which they are first read is part of the input space: `order` (derived from the op) selects a permutation of the reads;
    the reply is always assembled in the canonical order."""
    if order == 0:
        seq = range(8)
    else:
        seq = list(range(8))
        # a deterministic permutation per order value: rotate + optional reversal + one swap
        k = order % 8
        seq = seq[k:] + seq[:k]
        if (order // 8) % 2:
            seq.reverse()
        i, j = (order // 16) % 8, (order // 128) % 8
        seq[i], seq[j] = seq[j], seq[i]
    vals = [None] * 8
    for i in seq:
        vals[i] = getattr(d, _ACC[i])
    return triple(d) + tuple(vals)


def impl(op, backend):
    kind, y, mo, w, dd, h, mi, s, ms, us = op
    cls = _H["Duration"] if kind == "dur" else _H["AbsoluteDuration"]
    d = cls(years=y, months=mo, weeks=w, days=dd, hours=h, minutes=mi, seconds=s, milliseconds=ms, microseconds=us)
    # access order derived from the arguments (deterministic, varied): see fields()
    order = (abs(y) * 7 + abs(mo) * 3 + abs(w) + abs(dd) * 5 + abs(h) * 11 + abs(mi) * 13 + abs(s) * 17 + abs(ms) + abs(us)) % 1024
    f = fields(d, order)
    d0 = cls(years=y, months=mo, weeks=w, days=dd, hours=h, minutes=mi, seconds=s, milliseconds=ms, microseconds=us)
    if fields(d0, 0) != f:
        return "err AccessOrderDependence %r %r" % (fields(d0, 0), f)
    ins = (d.in_weeks(), d.in_days(), d.in_hours(), d.in_minutes(), d.in_seconds())
    for v in f + ins:
        if type(v) is not int:
            return "err NonIntComponent"
    if kind == "absdur":
        return "ok " + " ".join(str(x) for x in f + (int(d.invert),) + ins + (d._days,))
    # rebuilding from its own components
    r = cls(years=d.years, months=d.months, weeks=d.weeks, days=d.remaining_days, hours=d.hours, minutes=d.minutes,
            seconds=d.remaining_seconds, microseconds=d.microseconds)
    rebuilt = int(r == d and fields(r) == f and r.invert == d.invert)
    # ... and through the rebuild paths of the class itself (deepcopy rebuilds from the components, -(-d) from the negated ones)
    import copy
    for r2 in (copy.deepcopy(d), -(-d)):
        rebuilt &= int(type(r2) is type(d) and r2 == d and fields(r2) == f and r2.invert == d.invert)
    # public view agrees with the native slots; total_*() agree with total_seconds()
    plain = timedelta(days=f[0], seconds=f[1], microseconds=f[2])
    pub = int(d == plain and hash(d) == hash(plain) and d.total_seconds() == plain.total_seconds()
              and d.as_timedelta() == timedelta(seconds=plain.total_seconds()))
    ts = Fraction(d.total_seconds())
    tot = 1
    for name, u in _UNIT_US:
        v = Fraction(getattr(d, "total_" + name)())
        exp = ts * US / u
        if abs(v - exp) > abs(exp) * Fraction(1, 2 ** 50):
            tot = 0
    return "ok " + " ".join(str(x) for x in f + (int(d.invert),) + ins + (rebuilt, pub, tot))


def _trunc(n, u):
    q = abs(n) // u
    return -q if n < 0 else q


def oracle(op, out, backend):
    """C09's statement with the native timedelta as the only reference"""
    kind, y, mo, w, dd, h, mi, s, ms, us = op
    if not out.startswith("ok "):
        return f"construction failed: {out}"
    o = [int(x) for x in out.split()[1:]]
    part = timedelta(days=dd, seconds=s, microseconds=us, milliseconds=ms, minutes=mi, hours=h, weeks=w)
    P = (part.days * 86400 + part.seconds) * US + part.microseconds
    if kind == "dur":
        nat = timedelta(days=dd + y * 365 + mo * 30, seconds=s, microseconds=us, milliseconds=ms, minutes=mi, hours=h, weeks=w)
        if tuple(o[0:3]) != (nat.days, nat.seconds, nat.microseconds):
            return f"native slots {o[0:3]} != timedelta of the arguments {(nat.days, nat.seconds, nat.microseconds)}"
        if (o[3], o[4]) != (y, mo):
            return f"years/months reported {o[3:5]} given {(y, mo)}"
        N = (nat.days * 86400 + nat.seconds) * US + nat.microseconds
        if o[18] != 1:
            return "Duration ==/hash/total_seconds()/as_timedelta() disagree with the native slots"
        target = P
    else:
        if tuple(o[0:3]) != (part.days, part.seconds, part.microseconds):
            return f"native slots {o[0:3]} != timedelta of the arguments"
        if (o[3], o[4]) != (abs(y), abs(mo)):
            return f"years/months reported {o[3:5]} given |{(y, mo)}|"
        N = abs(P)
        target = abs(P)
    # beyond the float-exact range the integer statements (sign, canonical ranges, exact sum, rebuild) are still checked:
    # since the fix "Duration normalisation is exact" the breakdown is computed on integer microseconds on the whole range;
    # only the float-valued total_*() / in_*() are left to the float-exact range
    wide = not in_domain(op)
    wk, rd, hh, mm, ss, uu = o[5:11]
    sg = -1 if target < 0 else 1
    for name, v, lim in (("weeks", wk, None), ("remaining_days", rd, 7), ("hours", hh, 24), ("minutes", mm, 60),
                         ("remaining_seconds", ss, 60), ("microseconds", uu, US)):
        if v * sg < 0:
            return f"{name}={v} does not carry the sign of the part without years/months ({target} us)"
        if lim is not None and v * sg >= lim:
            return f"{name}={v} outside its canonical range"
    total = ((((wk * 7 + rd) * 24 + hh) * 60 + mm) * 60 + ss) * US + uu
    if total != target:
        return f"components sum to {total} us, expected {target} us"
    inv = int(N < 0) if kind == "dur" else int(P < 0)
    if o[11] != inv:
        return f"invert={o[11]} expected {inv}"
    exp_in = [_trunc(N, u) for _, u in _UNIT_US]
    if wide:
        return None if (kind != "dur" or o[17] == 1) else "rebuilding the Duration from its own components gives a different Duration"
    if o[12:17] != exp_in:
        return f"in_weeks..in_seconds {o[12:17]} expected {exp_in} (truncation of total_seconds())"
    if kind == "dur":
        if o[17] != 1:
            return "rebuilding the Duration from its own components gives a different Duration"
        if o[19] != 1:
            return "total_weeks/days/hours/minutes() inconsistent with total_seconds()"
    return None


def tag(op, out):
    p = part_us(op)
    t = op[0]
    if not in_domain(op):
        return t + ":beyond-float-range"
    if op[1] or op[2]:
        t += ":ym"
    a = abs(p)
    if any(abs(a - b) <= DAY for b in (B31, B32, B33)):
        return t + ":boundary"
    if p == 0:
        return t + (":cancel-zero" if any(op[3:]) else ":zero")
    t += ":neg" if p < 0 else ":pos"
    if p % US:
        t += ":subsec"
    signs = {(-1 if x < 0 else 1) for x in op[3:] if x}
    if len(signs) == 2:
        t += ":mixed"
    return t


TRIVIAL_TAGS = ("dur:pos", "absdur:pos", "dur:zero", "absdur:zero")
MATCHERS = {}


def extra_evidence(tier):
    return {"float_bridge": "model compared with the code for |part| < 2^33 s (no years/months) resp. |part|,|native| < 2^32 s; "
                            "generator straddles 2^31/2^32/2^33/2^34 s with +-0/1/999999 us and reaches 10^9 days for the native-slot oracle"}
