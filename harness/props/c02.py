"""C02 — wall-clock construction is normalised by the documented DST rules."""
from __future__ import annotations

import datetime as dt

from harness import dtutil as D
from harness import zones as Z

ID = "C02"
BACKENDS = ("py", "rs")
GEN_MODULES = ("Convert", "DTConv")
MIN_THEOREMS = 20
US = D.US
YMAX = Z.YMAX_QUICK
ENTRIES = ("datetime", "tzconvert", "tzconvert_pdt", "tzdatetime", "set", "on", "at", "replace", "replace_fold", "parse", "local", "instance", "naivefn",
           "set_partial", "replace_partial")
FIELDS = ("year", "month", "day", "hour", "minute", "second", "microsecond")
RULE = ("every gap and overlap of every zone enumerated from the tzdata tables (quick: up to 24 per zone to year 2100, "
        "always including Lord_Howe 30-min, Kiritimati/Apia whole-day skips, LMT second-granularity changes; thorough: all) "
        "x wall positions {lo-1us, lo, mid, hi-1us, hi} x fold x raise x entry points " + ",".join(ENTRIES) +
        "; plus random ordinary wall times and fixed offsets/naive. non-trivial = wall value is skipped or repeated")
EXHAUSTIVE = {"quick": False, "thorough": False}
TRUSTED = [
    "zone tables extracted with the pure-Python zoneinfo reader (harness/zones.py); all satisfy the decidable WF predicate (driver replies ok for each zone line)",
    "Model/Zone.lean convertNaive = Timezone.convert on a naive value; DTOps.create = DateTime.create; tied by this correspondence run",
]
ASSUMPTIONS = ["POSIX rule tails are expanded to year 2100 (quick) / 2500 (thorough); generated wall values stay below that"]

SPECIAL = ["Australia/Lord_Howe", "Pacific/Kiritimati", "Pacific/Apia", "Europe/Paris", "America/Sao_Paulo",
           "Europe/Amsterdam", "Africa/Monrovia", "America/St_Johns", "Asia/Kathmandu", "Antarctica/Troll"]


def preamble():
    return D.preamble(YMAX)


def _probe(rng, name, zi, irr):
    kind, lo, hi, t, ob, oa = irr
    frac = rng.choice((0, 0, 1, 500000, 999999))
    for ws in (lo - 1, lo, (lo + hi) // 2, hi - 1, hi):
        w = ws * US + (frac if ws not in (lo - 1, hi - 1) else 999999)
        if not (D.MIN_US + 2 * 86400 * US < w < Z.limit_us(YMAX)):
            continue
        for fold in (0, 1):
            for rz in (0, 1):
                for e in ENTRIES:
                    if e == "naivefn":
                        continue
                    if e in ("tzdatetime", "local", "parse", "naivefn") and (rz or not fold):
                        continue      # these entry points have no fold/raise argument
                    if e in ("set", "on", "at", "replace", "replace_fold", "instance", "set_partial", "replace_partial") and rz:
                        continue
                    if e in ("set_partial", "replace_partial"):
                        # only some of the fields are passed: the others come from the instance
                        for mask in {rng.choice((16, 32, 64, 48, 96, 112, 8, 24)), rng.randint(1, 127)}:
                            yield ("create", e, str(zi), w, fold, rz, mask, rng.randrange(1 << 30))
                        continue
                    yield ("create", e, str(zi), w, fold, rz)


def gen_ops(rng, tier):
    per_zone = {"quick": 6, "thorough": 10 ** 9, "widen": 40}[tier]
    for zi, name in enumerate(D.ZN):
        irr = Z.irregular(name, YMAX)
        if not irr:
            continue
        if len(irr) > per_zone and name not in SPECIAL:
            # always keep the first (LMT) and last transitions, sample the rest
            pick = [irr[0], irr[-1]] + rng.sample(irr[1:-1], max(0, per_zone - 2))
        elif len(irr) > 4 * per_zone and tier != "thorough":
            pick = [irr[0], irr[-1]] + rng.sample(irr[1:-1], 4 * per_zone)
        else:
            pick = irr
        for it in pick:
            yield from _probe(rng, name, zi, it)
    # ordinary wall times, fixed offsets, naive
    n = {"quick": 3000, "thorough": 200000, "widen": 30000}[tier]
    for _ in range(n):
        zi = rng.randrange(len(D.ZN))
        w = rng.randint(D.MIN_US + 3 * 86400 * US, Z.limit_us(YMAX))
        zr = rng.choice((str(zi), str(zi), "f%d" % (rng.randint(-86399, 86399) * US), "n", "f0"))
        e = rng.choice(("datetime", "set", "replace", "replace_fold", "tzconvert", "tzconvert_pdt", "set_partial", "replace_partial")
                       if zr != "n" else ("naivefn",))
        fold = rng.randint(0, 1)
        if e in ("set_partial", "replace_partial"):
            yield ("create", e, zr, w, fold, 0, rng.randint(1, 127), rng.randrange(1 << 30))
            continue
        yield ("create", e, zr, w, fold if e != "naivefn" else 1, 0)


def _mfold(op):
    _, e, zr, w, fold, rz = op[:6]
    if e in ("tzdatetime", "local", "parse", "naivefn"):
        return 1, 0
    return fold, rz


def line(op, backend):
    _, e, zr, w, fold, rz = op[:6]
    f, r = _mfold(op)
    return "%s %s %d %d %d" % ("createp" if e == "tzconvert_pdt" else "create", zr, w, f, r)


_P = {}


def worker_init(backend):
    import pendulum
    from pendulum.tz.exceptions import AmbiguousTime, NonExistingTime
    _P.update(p=pendulum, A=AmbiguousTime, N=NonExistingTime)


def _regular_base(zr, w, fold):
    """a DateTime in the same zone, with the requested fold bit, on an ordinary wall time near w"""
    p = _P["p"]
    name = D.zname(zr)
    for delta_days in (-9, -16, 11, -30, 45, -200, 200):
        b = w + delta_days * 86400 * US
        if name is not None and len(D.wall_solutions(name, b, YMAX)) != 1:
            continue
        if not (D.MIN_US < b < D.MAX_US):
            continue
        return p.DateTime(*D.fields(b), tzinfo=D.tzobj(zr), fold=fold), b
    return None, None


def _partial_base(zr, w, fold, mask, salt):
    """a valid DateTime in the zone that differs from the wall value w exactly in (some of) the fields selected by mask"""
    import calendar
    import random
    p = _P["p"]
    rng = random.Random(salt)
    name = D.zname(zr)
    f = list(D.fields(w))
    for _ in range(40):
        g = list(f)
        for i in range(7):
            if mask >> i & 1:
                g[i] = (rng.randint(max(2, f[0] - 3), min(YMAX - 1, f[0] + 3)), rng.randint(1, 12), rng.randint(1, 28), rng.randint(0, 23),
                        rng.randint(0, 59), rng.randint(0, 59), rng.choice((0, 1, 999999, rng.randint(0, 999999))))[i]
        if g[2] > calendar.monthrange(g[0], g[1])[1]:
            continue
        b = Z.to_us(dt.datetime(*g))
        if name is not None and len(D.wall_solutions(name, b, YMAX)) != 1:
            continue
        if not (D.MIN_US + 2 * 86400 * US < b < Z.limit_us(YMAX)):
            continue
        return p.DateTime(*g, tzinfo=D.tzobj(zr), fold=fold)
    return None


def impl(op, backend):
    p = _P["p"]
    _, e, zr, w, fold, rz = op[:6]
    tz = D.tzobj(zr)
    f = D.fields(w)
    try:
        if e == "datetime":
            import zlib
            if zr[0] not in "nf" and zlib.crc32(("local" + repr(op)).encode()) % 8 == 0:
                # the zone given as the string "local" while it is the configured local timezone (which changes from op to op)
                p.set_local_timezone(tz)
                try:
                    r = p.datetime(*f, tz="local", fold=fold, raise_on_unknown_times=bool(rz))
                finally:
                    p.set_local_timezone()
            else:
                r = p.datetime(*f, tz=tz, fold=fold, raise_on_unknown_times=bool(rz))
        elif e == "tzconvert":
            r = tz.convert(dt.datetime(*f, fold=fold), raise_on_unknown_times=bool(rz))
        elif e == "tzconvert_pdt":
            # the naive value handed to convert() is itself a pendulum DateTime (its replace() is the overridden one)
            r = tz.convert(p.DateTime(*f, fold=fold), raise_on_unknown_times=bool(rz))
        elif e == "tzdatetime":
            r = tz.datetime(*f)
        elif e == "naivefn":
            r = p.naive(*f)
        elif e == "local":
            p.set_local_timezone(tz)
            try:
                r = p.local(*f)
            finally:
                p.set_local_timezone()
        elif e == "parse":
            s = "%04d-%02d-%02dT%02d:%02d:%02d.%06d" % f
            import zlib
            if zr[0] not in "nf" and zlib.crc32(("local" + repr(op)).encode()) % 8 == 0:
                p.set_local_timezone(tz)
                try:
                    r = p.parse(s, tz="local")
                finally:
                    p.set_local_timezone()
            else:
                r = p.parse(s, tz=tz)
        elif e == "instance":
            r = p.instance(dt.datetime(*f, fold=fold), tz=tz)
        elif e == "replace_fold":
            # explicit fold= argument that differs from the instance's own fold
            base, _ = _regular_base(zr, w, 1 - fold)
            if base is None:
                return "skip"
            r = base.replace(year=f[0], month=f[1], day=f[2], hour=f[3], minute=f[4], second=f[5], microsecond=f[6], fold=fold)
        elif e in ("set_partial", "replace_partial"):
            mask, salt = op[6], op[7]
            base = _partial_base(zr, w, fold, mask, salt)
            if base is None:
                return "skip"
            kw = {FIELDS[i]: f[i] for i in range(7) if mask >> i & 1}
            r = base.set(**kw) if e == "set_partial" else base.replace(**kw)
        elif e in ("set", "replace"):
            base, _ = _regular_base(zr, w, fold)
            if base is None:
                return "skip"
            if e == "set":
                r = base.set(year=f[0], month=f[1], day=f[2], hour=f[3], minute=f[4], second=f[5], microsecond=f[6])
            else:
                r = base.replace(year=f[0], month=f[1], day=f[2], hour=f[3], minute=f[4], second=f[5], microsecond=f[6])
        elif e == "on":
            # base: same time of day, another date
            base, b = _regular_base(zr, w, fold)
            if base is None:
                return "skip"
            r = base.on(f[0], f[1], f[2])
        elif e == "at":
            # base: same date, another time of day that is ordinary
            name = D.zname(zr)
            day0 = w - (w % (86400 * US))
            base = None
            for hh in (12, 18, 6, 9, 15, 21):
                b = day0 + hh * 3600 * US + 1
                if name is None or len(D.wall_solutions(name, b, YMAX)) == 1:
                    base = p.DateTime(*D.fields(b), tzinfo=tz, fold=fold)
                    break
            if base is None:
                return "skip"
            r = base.at(f[3], f[4], f[5], f[6])
        else:
            raise ValueError(e)
    except _P["N"]:
        return "err NonExistingTime"
    except _P["A"]:
        return "err AmbiguousTime"
    if zr != "n" and e not in ("tzconvert", "tzconvert_pdt", "tzdatetime"):
        if r.tzinfo is not tz or type(r) is not p.DateTime:
            return "err WrongZoneOrType"
    return D.outv(r)


def oracle(op, out, backend):
    """independent statement of C02: classify the wall value from the tz table only"""
    _, e, zr, w, fold, rz = op[:6]
    if out == "skip":
        return None
    f, r = _mfold(op)
    if zr == "n":
        exp = "ok %d 0 " % w
        return None if out.startswith(exp) else f"naive value changed: {out}"
    if zr[0] == "f":
        off = int(zr[1:])
        return None if out.startswith("ok %d %d " % (w, off)) else f"fixed offset: expected wall {w} offset {off}, got {out}"
    name = D.zname(zr)
    sols = D.wall_solutions(name, w, YMAX)
    if len(sols) == 1:
        want = (w, w - sols[0])
        exp_err = None
    elif len(sols) == 2:
        u = max(sols) if f else min(sols)
        want = (w, w - u)
        exp_err = "err AmbiguousTime" if r else None
    elif len(sols) == 0:
        gap = next(g for g in Z.irregular(name, YMAX) if g[0] == "gap" and g[1] <= w // US < g[2])
        ob, oa = gap[4] * US, gap[5] * US
        if f:
            u = w - ob           # moved forward by the gap: the instant read with the pre-gap offset
            want = (w + (oa - ob), oa)
        else:
            u = w - oa
            want = (w - (oa - ob), ob)
        exp_err = "err NonExistingTime" if r else None
    else:
        return f"oracle: {len(sols)} preimages?"
    if exp_err:
        return None if out == exp_err else f"expected {exp_err}, got {out}"
    if not out.startswith("ok "):
        return f"unexpected {out}; wall has {len(sols)} preimages"
    gw, goff, gfold = (int(x) for x in out.split()[1:])
    if (gw, goff) != want:
        return f"expected wall/offset {want}, got {(gw, goff)} ({len(sols)} preimages, fold={f})"
    # every returned value is a valid local time: survives a round trip through UTC (checked with zoneinfo itself)
    import zoneinfo
    z = zoneinfo.ZoneInfo(name)
    x = dt.datetime(*D.fields(gw), tzinfo=z, fold=gfold)
    y = x.astimezone(dt.timezone.utc).astimezone(z)
    if (y.replace(tzinfo=None), y.utcoffset()) != (x.replace(tzinfo=None), x.utcoffset()) or D.off_us_of(y) != goff:
        return f"result {out} does not survive a UTC round trip: {y.isoformat()}"
    return None


def tag(op, out):
    _, e, zr, w, fold, rz = op[:6]
    if zr[0] in "nf":
        return "plain:" + ("naive" if zr == "n" else "fixed")
    n = len(D.wall_solutions(D.zname(zr), w, YMAX))
    return {0: "skipped", 1: "unique", 2: "repeated"}[n] + ":" + e


TRIVIAL_TAGS = tuple("unique:" + e for e in ENTRIES) + ("plain:naive", "plain:fixed")
MATCHERS = {}
