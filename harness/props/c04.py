"""C04 — calendar-unit arithmetic follows the wall clock with end-of-month clamping."""
from __future__ import annotations

import calendar
import datetime as dt

from harness import dtutil as D
from harness import zones as Z

ID = "C04"
BACKENDS = ("py", "rs")
GEN_MODULES = ("Tables", "Helpers", "DTArith")
MIN_THEOREMS = 24
US = D.US
DAY = 86400 * US
YMAX = Z.YMAX_QUICK
ADD_MODES = ("add", "subtract")
DUR_MODES = ("plus", "radd", "minus", "plusneg", "subcomp")
RULE = ("DateTime and Date sources: (a) every month x days {1, 28..31} of a leap-400, non-leap-100, leap-4 and common year x month "
        "counts -30..30 (quick: 4 pattern years; thorough: 40 years), (b) for every zone, sampled gaps/overlaps with the TARGET wall "
        "value placed at {lo-1us, lo, mid, hi-1us, hi} and the source derived backwards from random amounts, (c) random naive/UTC/"
        "fixed-offset values over years 1..9999 incl. the range edges; amounts: integer (years, months, weeks, days, h, m, s, us) of "
        "either sign, |months| up to 60, |days| up to 800, multi-unit carries; modes add/subtract, operators +, radd, -, +(-d), "
        "subtract(components) with Durations built from random signatures, Date variants, DateTime - Interval, Duration component "
        "normalisation. non-trivial = day clamped, month index leaves the year, target skipped/repeated, or a Duration operator")
EXHAUSTIVE = {"quick": False, "thorough": False}
TRUSTED = [
    "Model/AddDur.lean (add_duration) + Model/DTOps.add + Model/CalOps.lean (subtract, _add_timedelta_, _subtract_timedelta, "
    "Duration signature/normalisation/__neg__, Date.add and friends) tied by this correspondence run",
    "oracle: dateutil.relativedelta(years, months) on naive stdlib fields, integer microsecond arithmetic for the rest, then the "
    "C02 classification of the wall value from the extracted tz tables",
]
ASSUMPTIONS = [
    "float bridge: Duration.__new__ (total_seconds() floats) is exact for the generated |totals| < 2^33 s; add() receives integers",
    "zone tables complete up to year 2100; zone-aware sources and targets are generated below that",
    "a ValueError/OverflowError when the intermediate year or the result leaves 1..9999 is outside the property (both model and code raise)",
]

PATTERN_YEARS = (2000, 1900, 2024, 2023)


def preamble():
    return D.preamble(YMAX)


# ------------------------------------------------------------------------------------------------ reference

def _tot(wk, d, h, mi, s, us):
    return ((((wk * 7 + d) * 24 + h) * 60 + mi) * 60 + s) * US + us


def spec_naive(w, y, mo, wk, d, h, mi, s, us):
    """the property's own statement on naive fields: years+months with clamping (dateutil), then the rest on the calendar.
    None = outside 0001..9999"""
    from dateutil.relativedelta import relativedelta
    try:
        t = Z.from_us(w) + relativedelta(years=y, months=mo)
    except (ValueError, OverflowError):
        return None
    w1 = Z.to_us(t) + _tot(wk, d, h, mi, s, us)
    if not D.MIN_US <= w1 <= D.MAX_US:
        return None
    return w1


def norm_c02(name, w):
    """C02 normalisation of a wall value in a named zone with the default fold=1, non-raising: (wall, offset)"""
    sols = D.wall_solutions(name, w, YMAX)
    if len(sols) == 1:
        return w, w - sols[0]
    if len(sols) == 2:
        return w, w - max(sols)
    gap = next(g for g in Z.irregular(name, YMAX) if g[0] == "gap" and g[1] <= w // US < g[2])
    ob, oa = gap[4] * US, gap[5] * US
    return w + (oa - ob), oa


def src_offset(zr, w, f):
    """offset of the source value (None: not a valid local time)"""
    if zr == "n":
        return 0
    if zr[0] == "f":
        return int(zr[1:])
    sols = D.wall_solutions(D.zname(zr), w, YMAX)
    if not sols:
        return None
    return w - (max(sols) if f else min(sols))


def expected_add(zr, w, f, a):
    """-> ("ok", wall, offset) | ("range",) | ("skip",)   for x.add(*a), a = 8 amounts"""
    y, mo, wk, d, h, mi, s, us = a
    if any((y, mo, wk, d)):
        w1 = spec_naive(w, *a)
        if w1 is None:
            return ("range",)
        if zr == "n":
            return ("ok", w1, 0)
        if zr[0] == "f":
            return ("ok", w1, int(zr[1:]))
        if w1 >= Z.limit_us(YMAX):
            return ("skip",)
        nw, off = norm_c02(D.zname(zr), w1)
        return ("ok", nw, off)
    # fixed units only: elapsed time (C03)
    so = src_offset(zr, w, f)
    if so is None:
        return ("skip",)
    u1 = w - so + _tot(0, 0, h, mi, s, us)
    if zr == "n" or zr[0] == "f":
        w1, off = u1 + so, so
    else:
        if u1 >= Z.limit_us(YMAX):
            return ("skip",)
        off = D.db_offset_at(D.zname(zr), u1, YMAX)
        w1 = u1 + off
    if not D.MIN_US + 2 * DAY <= w1 <= D.MAX_US - 2 * DAY:
        return ("range",)
    return ("ok", w1, off)


def dur_comps(sig):
    """independent integer reading of Duration(**sig): (years, months, weeks, rdays, hours, minutes, rsecs, us, days, secs)"""
    y, mo, wk, d, h, mi, s, us = sig
    t = _tot(wk, d, h, mi, s, us)
    sg = -1 if t < 0 else 1
    a = abs(t)
    micro = a % US
    whole = a // US
    days, secs = divmod(whole, 86400)
    return (y, mo, sg * (days // 7), sg * (days % 7), sg * (secs // 3600), sg * (secs // 60 % 60), sg * (secs % 60), sg * micro,
            sg * days, sg * secs)


def neg8(c):
    return tuple(-x for x in c[:8])


def date_spec(n, y, mo, wk, d):
    w1 = spec_naive(n * DAY, y, mo, wk, d, 0, 0, 0, 0)
    return None if w1 is None else w1 // DAY


# ------------------------------------------------------------------------------------------------ generators

def _amounts(rng):
    r = rng.random()
    if r < 0.15:      # months only, beyond a year
        return (0, rng.randint(-60, 60), 0, 0, 0, 0, 0, 0)
    if r < 0.3:       # years/months + days beyond a month
        return (rng.randint(-3, 3), rng.randint(-40, 40), rng.randint(-9, 9), rng.randint(-800, 800), 0, 0, 0, 0)
    if r < 0.4:       # days / weeks only
        return (0, 0, rng.choice((0, 0, 1, -1, 5, -60)), rng.choice((1, -1, 2, -2, 7, 30, 31, -31, 45, -366, 400)), 0, 0, 0, 0)
    if r < 0.5:       # carries at the unit limits
        return (rng.randint(-1, 1), rng.choice((11, 12, -11, -12, 13, -13, 24, -24)), 0, rng.randint(-2, 2),
                rng.choice((23, 24, -24, 25)), rng.choice((59, 60, -60, -61)), rng.choice((59, 60, -60, 61)),
                rng.choice((999999, 1000000, -1000000, -1000001)))
    vals = [rng.randint(-30, 30), rng.randint(-40, 40), rng.randint(-10, 10), rng.randint(-70, 70),
            rng.randint(-50, 50), rng.randint(-100, 100), rng.randint(-4000, 4000), rng.randint(-3_000_000, 3_000_000)]
    for i in range(8):
        if rng.random() < 0.4:
            vals[i] = 0
    return tuple(vals)


def _sig(rng):
    r = rng.random()
    if r < 0.2:
        return (0, 0, 0, rng.choice((1, -1, 2, 7, -7, 31)), 0, 0, 0, 0)
    if r < 0.35:      # hours that normalise into days (F9 note: Duration(hours=25))
        return (0, 0, 0, 0, rng.choice((24, 25, -25, 48, 49, -72, 23)), rng.choice((0, 0, 59, -61)), 0, 0)
    if r < 0.45:      # cancelling components
        return (rng.randint(-2, 2), rng.randint(-14, 14), 1, -7, rng.choice((0, 1, -1)), 0, rng.choice((0, 1, -1)), rng.choice((0, 1, -1)))
    return _amounts(rng)


def _back_source(w1, a):
    """a source wall value whose add(*a) lands on w1 when no clamping intervenes"""
    y, mo, wk, d, h, mi, s, us = a
    t1 = w1 - _tot(wk, d, h, mi, s, us)
    if not D.MIN_US + 400 * DAY < t1 < D.MAX_US - 400 * DAY:
        return None
    f = Z.from_us(t1)
    k = f.year * 12 + (f.month - 1) - (12 * y + mo)
    yy, mm = divmod(k, 12)
    mm += 1
    if not 2 <= yy <= 9998:
        return None
    dd = min(f.day, calendar.monthrange(yy, mm)[1])
    return Z.to_us(dt.datetime(yy, mm, dd, f.hour, f.minute, f.second, f.microsecond))


def _calendar_stream(rng, tier):
    years = PATTERN_YEARS if tier != "thorough" else tuple(PATTERN_YEARS) + tuple(rng.sample(range(2, 9990), 36))
    for yr in years:
        for m in range(1, 13):
            last = calendar.monthrange(yr, m)[1]
            for day in sorted({1, 28, 29, 30, 31} & set(range(1, last + 1))):
                tod = rng.choice((0, 1, 43200 * US + 5, DAY - 1))
                w = Z.to_us(dt.datetime(yr, m, day)) + tod
                for mo in range(-30, 31):
                    if not 2 <= yr + (mo - 12) // 12 and yr < 9990:
                        continue
                    mode = rng.choice(ADD_MODES)
                    if rng.random() < 0.5:
                        yield ("add", mode, rng.choice(("n", "f0", str(D.ZI["UTC"]))), w, 0, 0, mo, 0, 0, 0, 0, 0, 0)
                    else:
                        yield ("date", mode, w // DAY, 0, mo, 0, 0)
                for yy in (-4, -1, 1, 4, 100):
                    yield ("add", "add", "n", w, 0, yy, rng.randint(-13, 13), 0, rng.choice((0, 1, -1)), 0, 0, 0, 0)
                    yield ("date", rng.choice(ADD_MODES), w // DAY, yy, rng.randint(-13, 13), rng.randint(-1, 1), rng.choice((0, 31, -31)))


def _zone_stream(rng, tier):
    per_zone = {"quick": 3, "thorough": 40, "widen": 10}[tier]
    lim = Z.limit_us(YMAX) - 400 * DAY
    for zi, name in enumerate(D.ZN):
        irr = [g for g in Z.irregular(name, YMAX) if D.MIN_US + 800 * DAY < g[1] * US and g[2] * US < lim]
        if not irr:
            continue
        pick = irr if len(irr) <= per_zone else rng.sample(irr, per_zone)
        for kind, lo, hi, t, ob, oa in pick:
            for ws in (lo - 1, lo, (lo + hi) // 2, hi - 1, hi):
                w1 = ws * US + (999999 if ws in (lo - 1, hi - 1) else rng.choice((0, 0, 1, 500000)))
                for j in range(2):
                    a = _amounts(rng)
                    if not any(a[:4]):
                        a = (0, rng.choice((1, -1, 13)), 0, rng.choice((0, 1, -1)), 0, 0, 0, 0)
                    w = _back_source(w1, a)
                    if w is None or w >= lim:
                        continue
                    mode = rng.choice(ADD_MODES)
                    aa = a if mode == "add" else tuple(-x for x in a)
                    yield ("add", mode, str(zi), w, rng.randint(0, 1)) + aa
                # operators: the Duration's *components* decide the path, so aim the negated components at the target
                sig = _sig(rng)
                c = dur_comps(sig)
                if any(c[:4]):
                    w = _back_source(w1, neg8(c))
                    if w is not None and w < lim:
                        for mode in ("minus", "plusneg", "subcomp"):
                            yield ("dur", mode, str(zi), w, rng.randint(0, 1)) + sig
                if any(sig[:4]):
                    w = _back_source(w1, sig)
                    if w is not None and w < lim:
                        yield ("dur", rng.choice(("plus", "radd")), str(zi), w, rng.randint(0, 1)) + sig
            # sources next to the transition, fixed-length / day-sized Durations (elapsed vs wall clock across the change)
            for du in (-1, 0, 86400 * US // 2, 86400 * US, 2 * 86400 * US - 1):
                u = t * US + du
                off = D.db_offset_at(name, u, YMAX)
                w = u + off
                sols = D.wall_solutions(name, w, YMAX)
                fold = 1 if (len(sols) == 2 and u == max(sols)) else 0
                sig = rng.choice(((0, 0, 0, 1, 0, 0, 0, 0), (0, 0, 0, 0, 24, 0, 0, 0), (0, 0, 0, 0, 25, 0, 0, 0), (0, 0, 0, 0, 0, 0, 86400, 0),
                                  (0, 0, 0, -1, 0, 0, 0, 0), (0, 0, 0, 0, -24, 0, 0, 0), (0, 0, 0, 0, 12, 0, 0, 0), (0, 0, 1, -6, 0, 0, 0, 1),
                                  (0, 1, 0, 0, 0, 0, 0, 0), (0, 0, 0, 2, -23, 0, 0, 0)))
                for mode in rng.sample(DUR_MODES, 3):
                    yield ("dur", mode, str(zi), w, fold) + sig


def _random_stream(rng, tier):
    n = {"quick": 9000, "thorough": 400000, "widen": 90000}[tier]
    for _ in range(n):
        zr = rng.choice(("n", "f0", "f%d" % (rng.randint(-86399, 86399) * US), str(D.ZI["UTC"])))
        w = rng.randint(D.MIN_US + 40 * 366 * DAY, D.MAX_US - 40 * 366 * DAY)
        r = rng.random()
        if r < 0.06:
            w = rng.choice((D.MIN_US + rng.randint(0, 400 * DAY), D.MAX_US - rng.randint(0, 400 * DAY)))
        elif r < 0.3:     # month ends and leap days
            f = Z.from_us(w)
            mm = rng.randint(1, 12)
            yy = rng.choice((f.year, f.year - f.year % 4, 2000, 1900))
            yy = min(max(yy, 2), 9998)
            dd = calendar.monthrange(yy, mm)[1] - rng.choice((0, 0, 1, 2, 3))
            w = Z.to_us(dt.datetime(yy, mm, dd)) + w % DAY
        k = rng.random()
        if k < 0.35:
            yield ("add", rng.choice(ADD_MODES), zr, w, rng.randint(0, 1)) + _amounts(rng)
        elif k < 0.65:
            yield ("dur", rng.choice(DUR_MODES), zr, w, rng.randint(0, 1)) + _sig(rng)
        elif k < 0.8:
            a = _amounts(rng)
            yield ("date", rng.choice(ADD_MODES), w // DAY) + a[:4]
        elif k < 0.95:
            yield ("datedur", rng.choice(("plus", "minus", "plusneg", "subcomp")), w // DAY) + _sig(rng)
        else:
            yield ("comps",) + _sig(rng)
    # float-bridge neighbourhood of Duration.__new__ (still inside the exact domain)
    for _ in range(n // 30):
        s = rng.choice((1, -1)) * (2 ** 33 - rng.randint(1, 10 ** 6))
        yield ("comps", 0, 0, 0, 0, 0, 0, s, rng.choice((0, 1, -1, 999999, -999999)))


def _interval_stream(rng, tier):
    n = {"quick": 1500, "thorough": 40000, "widen": 8000}[tier]
    names = ["Europe/Paris", "America/Toronto", "Australia/Lord_Howe", "America/Sao_Paulo", "UTC", "Asia/Kathmandu"]
    lo, hi = Z.to_us(dt.datetime(1950, 1, 1)), Z.to_us(dt.datetime(2090, 1, 1))
    for _ in range(n):
        zr = rng.choice([str(D.ZI[x]) for x in names] + ["n", "f3600000000"])
        a = rng.randint(lo, hi)
        span = rng.choice((1, -1)) * rng.choice((rng.randint(0, 3 * DAY), rng.randint(0, 70 * DAY), rng.randint(0, 1500 * DAY)))
        b = a + span
        x = rng.choice((b, a, rng.randint(lo, hi)))
        yield ("ivsub", zr, a, b, x, rng.randint(0, 1))


def gen_ops(rng, tier):
    yield from _calendar_stream(rng, tier)
    yield from _zone_stream(rng, tier)
    yield from _random_stream(rng, tier)
    yield from _interval_stream(rng, tier)
    for n in (0, 11016, 19782):
        yield ("datereject", n)


def corpus():
    paris = str(D.ZI["Europe/Paris"])
    w = Z.to_us(dt.datetime(2013, 4, 1, 2, 30))
    out = [("dur", m, paris, w, 0, 0, 0, 0, 1, 0, 0, 0, 0) for m in DUR_MODES]            # F9
    out += [("dur", m, paris, w, 0, 0, 0, 0, 0, 25, 0, 0, 0) for m in DUR_MODES]          # F9 note: hours=25
    out += [("ivsub", str(D.ZI["UTC"]), Z.to_us(dt.datetime(2020, 1, 31)), Z.to_us(dt.datetime(2021, 3, 5, 12)),
             Z.to_us(dt.datetime(2021, 3, 5, 12)), 0)]
    return out


# ------------------------------------------------------------------------------------------------ model requests

def line(op, backend):
    k = op[0]
    if k == "add":
        _, mode, zr, w, f = op[:5]
        a = op[5:]
        if mode == "subtract":       # the model's `subtract` is `add` of the negated arguments (CalOps.subtract)
            a = tuple(-x for x in a)
        return "add %s %d %d %s" % (zr, w, f, " ".join(map(str, a)))
    if k == "dur":
        _, mode, zr, w, f = op[:5]
        m = "plus" if mode == "radd" else mode
        return "c04dur %s %s %d %d %s" % (m, zr, w, f, " ".join(map(str, op[5:])))
    if k == "date":
        return "c04date %s %d %s" % (op[1], op[2], " ".join(map(str, op[3:])))
    if k == "datedur":
        return "c04datedur %s %d %s" % (op[1], op[2], " ".join(map(str, op[3:])))
    if k == "comps":
        return "c04comps " + " ".join(map(str, op[1:]))
    return None


# ------------------------------------------------------------------------------------------------ real code

_P = {}
KW = ("years", "months", "weeks", "days", "hours", "minutes", "seconds", "microseconds")


def worker_init(backend):
    import pendulum
    _P["p"] = pendulum


def _comps_of(d):
    return (d.years, d.months, d.weeks, d.remaining_days, d.hours, d.minutes, d.remaining_seconds, d.microseconds)


def _mkdate(n):
    p = _P["p"]
    d = dt.date.fromordinal(n + 719163)
    return p.Date(d.year, d.month, d.day)


def _outdate(r):
    p = _P["p"]
    if type(r) is not p.Date:
        return "err WrongType"
    return "ok %d" % (dt.date(r.year, r.month, r.day).toordinal() - 719163)


def impl(op, backend):
    p = _P["p"]
    k = op[0]
    try:
        if k == "add":
            _, mode, zr, w, f = op[:5]
            x = D.mk(zr, w, f)
            r = getattr(x, mode)(**dict(zip(KW, op[5:])))
        elif k == "dur":
            _, mode, zr, w, f = op[:5]
            x = D.mk(zr, w, f)
            d = p.Duration(**dict(zip(KW, op[5:])))
            if mode == "plus":
                r = x + d
            elif mode == "radd":
                r = d + x
            elif mode == "minus":
                r = x - d
            elif mode == "plusneg":
                r = x + (-d)
            else:
                r = x.subtract(**dict(zip(KW, _comps_of(d))))
        elif k == "date":
            _, mode, n = op[:3]
            return _outdate(getattr(_mkdate(n), mode)(**dict(zip(KW[:4], op[3:]))))
        elif k == "datedur":
            _, mode, n = op[:3]
            x = _mkdate(n)
            d = p.Duration(**dict(zip(KW, op[3:])))
            if mode == "plus":
                r = x + d
            elif mode == "minus":
                r = x - d
            elif mode == "plusneg":
                r = x + (-d)
            else:
                r = x.subtract(**dict(zip(KW[:4], _comps_of(d)[:4])))
            return _outdate(r)
        elif k == "comps":
            d = p.Duration(**dict(zip(KW, op[1:])))
            nd = -d
            sig = nd._signature
            if tuple(sig[x] for x in KW) != (nd.years, nd.months, nd.weeks, nd.remaining_days, 0, 0, nd.seconds, nd.microseconds):
                return "err NegSignature"
            return "ok " + " ".join(str(int(v)) for dd in (d, nd) for v in _comps_of(dd) + (dd._days, dd.seconds))
        elif k == "ivsub":
            _, zr, a, b, xw, absolute = op
            A, B, x = D.mk(zr, a, 1), D.mk(zr, b, 1), D.mk(zr, xw, 1)
            iv = p.Interval(A, B, absolute=bool(absolute))
            r1 = x - iv
            r2 = x.subtract(**dict(zip(KW, _comps_of(iv))))
            r3 = x + (-iv)
            return "ok " + " ".join("%d %d" % tuple(int(v) for v in D.outv(r).split()[1:3]) for r in (r1, r2, r3))
        elif k == "datereject":
            x = _mkdate(op[1])
            res = []
            for kw in KW[4:]:
                try:
                    x.add(**{kw: 1})
                    res.append("0")
                except TypeError:
                    res.append("1")
            from pendulum.helpers import add_duration
            try:
                add_duration(dt.date(2020, 1, 1), hours=1)
                res.append("0")
            except RuntimeError:
                res.append("1")
            return "ok " + " ".join(res)
        else:
            raise ValueError(k)
    except OverflowError:
        return "err OverflowError"
    except ValueError:
        return "err ValueError"
    if type(r) is not p.DateTime or r.tzinfo is not x.tzinfo:
        return "err WrongZoneOrType"
    return D.outv(r)


# ------------------------------------------------------------------------------------------------ oracle

def _judge(exp, out, what):
    if exp[0] == "skip":
        return None
    if exp[0] == "range":
        if out.startswith("err OverflowError") or out.startswith("err ValueError"):
            return None
        return None if out.startswith("ok ") else f"{what}: unexpected {out}"
    if not out.startswith("ok "):
        if not D.MIN_US + 2 * DAY <= exp[1] <= D.MAX_US - 2 * DAY:
            return None
        return f"{what}: unexpected {out}; expected wall {exp[1]} offset {exp[2]}"
    gw, goff, _ = (int(x) for x in out.split()[1:])
    if (gw, goff) != (exp[1], exp[2]):
        return (f"{what}: expected {Z.from_us(exp[1]).isoformat()} offset {exp[2] // US}s, "
                f"got {Z.from_us(gw).isoformat()} offset {goff // US}s")
    return None


def oracle(op, out, backend):
    k = op[0]
    if k == "add":
        _, mode, zr, w, f = op[:5]
        a = op[5:] if mode == "add" else tuple(-x for x in op[5:])
        return _judge(expected_add(zr, w, f, a), out, mode)
    if k == "dur":
        _, mode, zr, w, f = op[:5]
        sig = op[5:]
        if mode in ("plus", "radd"):
            a = sig
        else:
            # dt - d == dt + (-d) == dt.subtract(<d's components>): one reference value for all three
            a = neg8(dur_comps(sig))
        return _judge(expected_add(zr, w, f, a), out, "dt %s Duration%r" % (mode, sig))
    if k in ("date", "datedur"):
        mode, n = op[1], op[2]
        if k == "date":
            a = op[3:] if mode == "add" else tuple(-x for x in op[3:])
        else:
            c = dur_comps(op[3:])[:4]
            a = c if mode == "plus" else tuple(-x for x in c)
        e = date_spec(n, *a)
        if e is None:
            return None       # the year leaves 1..9999 on the way: outside the property
        if out != "ok %d" % e:
            return f"Date {mode}{a}: expected day {e} ({dt.date.fromordinal(e + 719163)}), got {out}"
        return None
    if k == "comps":
        c = dur_comps(op[1:])
        nc = dur_comps(neg8(c))
        want = "ok " + " ".join(map(str, c + nc))
        if tuple(-x for x in c) != nc:
            return "oracle: negation is not component-wise"
        return None if out == want else f"Duration components: expected {want}, got {out}"
    if k == "ivsub":
        if not out.startswith("ok "):
            return None
        v = [int(x) for x in out.split()[1:]]
        _, zr, a, b, xw, absolute = op
        if v[0:2] != v[2:4]:
            return f"dt - interval {v[0:2]} != dt.subtract(interval components) {v[2:4]}"
        if not absolute and v[0:2] != v[4:6]:
            return f"dt - interval {v[0:2]} != dt + (-interval) {v[4:6]}"
        return None
    if k == "datereject":
        return None if out == "ok 1 1 1 1 1" else f"time parts accepted by Date.add/add_duration(date): {out}"
    return None


# ------------------------------------------------------------------------------------------------ coverage tags

def tag(op, out):
    k = op[0]
    if k == "add" or k == "dur":
        _, mode, zr, w, f = op[:5]
        if k == "dur":
            return "dur:" + mode
        a = op[5:] if mode == "add" else tuple(-x for x in op[5:])
        if not any(a[:4]):
            return mode + ":fixed-units"
        if not out.startswith("ok "):
            return mode + ":range-error"
        w1 = spec_naive(w, *a)
        if zr[0] not in "nf" and w1 is not None and w1 < Z.limit_us(YMAX):
            n = len(D.wall_solutions(D.zname(zr), w1, YMAX))
            if n != 1:
                return mode + (":target-skipped" if n == 0 else ":target-repeated")
        f0 = Z.from_us(w)
        kidx = f0.year * 12 + f0.month - 1 + 12 * a[0] + a[1]
        yy, mm = divmod(kidx, 12)
        if 1 <= yy <= 9999 and f0.day > calendar.monthrange(yy, mm + 1)[1]:
            return mode + ":clamped"
        if abs(a[1]) > 11:
            return mode + ":months-beyond-year"
        if yy != f0.year:
            return mode + ":year-crossed"
        return mode + ":plain"
    if k == "date":
        return "date:" + op[1]
    return k


TRIVIAL_TAGS = tuple(m + ":plain" for m in ADD_MODES) + tuple(m + ":fixed-units" for m in ADD_MODES) + ("comps", "datereject")


MATCHERS = {}
