"""C06 — Interval components are canonical and rebuild the end from the start."""
from __future__ import annotations

import calendar
import datetime as dt

from harness import dtutil as D
from harness import zones as Z

ID = "C06"
BACKENDS = ("py", "rs")
GEN_MODULES = ("Tables", "Helpers", "RsHelpers", "PreciseDiff", "RsPreciseDiff", "Interval:source", "Interval:init", "Interval:components", "Interval:units")
MIN_THEOREMS = 28
US = D.US
DAY = 86400 * US
YMAX = Z.YMAX_QUICK
RULE = ("(every other aware op is preceded by intervals between the same two instants rendered in four other zones: history) "
        "pd ops: direct calls of the active precise_diff (py worker: pendulum._helpers, rs worker: pendulum._pendulum, and the "
        "rs worker also calls the Python helper on the same arguments) on native date/datetime pairs: grid of (start month/day) x "
        "(end month/day) x 6 leap patterns of the year pair x 4 time-of-day borrow shapes (quick: days 1,2,15,27..31 of every "
        "month + random grid cells; thorough: every day of every month), both argument orders; modes native/naive/nameless "
        "tzinfo/DateTime-subclass/date. iv ops: pendulum.Interval(a, b, absolute) getters + start+interval + reversed interval, "
        "random pairs over years 1..9999 for naive/UTC/fixed/Date and to 2099 for named zones (same zone, cross zone), spans "
        "0/seconds/days/month-ends/years/millennia, and endpoints placed around every kind of gap/overlap of 40 zones (fold 0/1). "
        "non-trivial = the pair needs a time or day borrow, ends on a month end, changes zone/offset or is inverted")
EXHAUSTIVE = {"quick": False, "thorough": True}
TRUSTED = [
    "Model/PreciseDiff.lean (preciseDiffPy, preciseDiffRs), Model/Interval.lean are hand models of _helpers.precise_diff, "
    "rust/src/python/helpers.rs::precise_diff and Interval.__new__/__init__/getters, tied by this correspondence run",
    "in addition the integer layer of both precise_diff implementations (borrow cascade, month/year borrow, signed tuple, total_days) "
    "and the plain logic of their object layer (sign/swap, zone-name test, condition and position of the UTC shift, the unix time of "
    "shift_to_utc) are regenerated from the source on every run (tools/gen_precisediff.py -> Gen/PreciseDiff.lean, tools/gen_rust_pd.py "
    "-> Gen/RsPreciseDiff.lean) and proved equal to the model for all integers (Proofs/PDGen.lean, Proofs/PDGenRs.lean, theorems "
    "precise_diff_*source_eq_model); hand-modelled and tied by the correspondence run only: datetime == and >, d - utcoffset (pyShift), "
    "pyo3 field extraction, helpers::local_time, the derived tuple ordering of DateTimeInfo (their source text is pinned)",
    "Model/AddDur.lean + Model/DTOps.lean (add) model helpers.add_duration / DateTime.add (shared with C03/C04); the reply of an "
    "iv op contains start+interval computed by the model, so the composition add∘precise_diff is tied here as well",
    "CPython datetime comparison is modelled as: same tzinfo object => field comparison, else comparison of wall-offset; "
    "d - utcoffset as proleptic Gregorian field arithmetic (Model/Cal.lean)",
    "oracle: own month-index/clamp/timedelta calendar add on stdlib datetime + zoneinfo conversion to UTC (no pendulum code)",
]
ASSUMPTIONS = [
    "tzinfo objects with equal names are the same object (pendulum.timezone() caches); zone tags on the wire encode both",
    "natives handed to precise_diff directly carry fold=0 (what Interval.__init__ builds)",
    "PEP 495's exception for inter-zone equality (== is False when an operand's utcoffset depends on fold) is not modelled: pairs of "
    "differently named zones with equal fold-0 instants and an endpoint on a repeated/skipped wall time have no model line "
    "(only total_days of the Python helper is affected); the oracle still runs on them",
    "UTC offsets are whole seconds (tz database); Rust i32 arithmetic modelled on unbounded Int (no overflow for years 1..9999)",
    "named zones: POSIX rule tails expanded to year 2100; generated wall values for named zones stay below that",
]

ZONES = ["UTC", "Europe/Paris", "America/New_York", "Asia/Kathmandu", "Australia/Lord_Howe", "Pacific/Apia",
         "Pacific/Kiritimati", "Africa/Monrovia", "America/St_Johns", "America/Sao_Paulo", "Europe/Amsterdam",
         "Asia/Tokyo", "Antarctica/Troll", "Europe/London", "Africa/Casablanca", "America/Caracas", "Asia/Tehran",
         "Pacific/Chatham", "Europe/Dublin", "America/Havana", "Asia/Kolkata", "Australia/Sydney", "Pacific/Tongatapu",
         "America/Argentina/Buenos_Aires", "Asia/Pyongyang", "Europe/Moscow", "Africa/Cairo", "America/Anchorage",
         "Atlantic/Azores", "Asia/Gaza", "America/Godthab", "Pacific/Norfolk", "Asia/Dhaka", "Europe/Lisbon",
         "America/Santiago", "Africa/Windhoek", "Asia/Amman", "Pacific/Fiji", "America/Mexico_City", "Europe/Istanbul"]
ZIDX = [str(D.ZI[n]) for n in ZONES if n in D.ZI]
FIXED = ["f0", "f%d" % (3600 * US), "f%d" % (-5 * 3600 * US - 1800 * US), "f%d" % ((45 * 60 + 17) * US), "f%d" % (14 * 3600 * US),
         "f%d" % (-12 * 3600 * US), "f%d" % (86399 * US), "f%d" % (-86399 * US)]

YEAR_PAIRS = [(2021, 2021), (2024, 2024), (2023, 2024), (2024, 2025), (1899, 1900), (2000, 2001)]
TIME_SHAPES = [((12, 0, 0, 0), (12, 0, 0, 0)), ((12, 0, 0, 0), (11, 59, 59, 999999)),
               ((0, 0, 0, 1), (0, 0, 0, 0)), ((0, 0, 0, 0), (23, 59, 59, 999999))]


def preamble():
    return D.preamble(YMAX)


def _w(y, m, d, h=0, mi=0, s=0, us=0):
    return Z.to_us(dt.datetime(y, m, d, h, mi, s, us))


def _grid(rng, tier):
    days_q = (1, 2, 15, 27, 28, 29, 30, 31)
    cells = []
    for m in range(1, 13):
        for d in (range(1, 32) if tier == "thorough" else days_q):
            cells.append((m, d))
    modes = ("naive", "native", "nameless", "sub", "date")
    k = 0
    for (y1, y2) in YEAR_PAIRS:
        for (m1, d1) in cells:
            if d1 > calendar.monthrange(y1, m1)[1]:
                continue
            for (m2, d2) in cells:
                if d2 > calendar.monthrange(y2, m2)[1]:
                    continue
                for ti, (t1, t2) in enumerate(TIME_SHAPES):
                    k += 1
                    if tier != "thorough" and (k % 3) and not (d1 >= 27 and d2 in (1, 28, 29, 30, 31) and abs(m2 - m1) in (0, 1, 11)):
                        continue
                    mode = modes[k % 5] if k % 4 == 0 else "naive"
                    if mode == "date":
                        yield ("pd", "date", "d", _w(y1, m1, d1), "d", _w(y2, m2, d2))
                    elif mode == "naive":
                        yield ("pd", "naive", "n", _w(y1, m1, d1, *t1), "n", _w(y2, m2, d2, *t2))
                    else:
                        zr = rng.choice(FIXED + [ZIDX[0]])
                        yield ("pd", mode, zr, _w(y1, m1, d1, *t1), zr, _w(y2, m2, d2, *t2))
                    if k % 16 == 0:
                        zr = rng.choice(["n", "d", ZIDX[0], "f0", FIXED[2]])
                        if zr == "d":
                            yield ("iv", "d", _w(y1, m1, d1), 0, "d", _w(y2, m2, d2), 0, int(k % 32 == 0))
                        else:
                            yield ("iv", zr, _w(y1, m1, d1, *t1), 0, zr, _w(y2, m2, d2, *t2), 0, int(k % 32 == 0))


def _rand_wall(rng, lo, hi):
    w = rng.randint(lo, hi)
    r = rng.random()
    if r < 0.25:
        w -= w % DAY                                    # midnight
        w += rng.choice((0, 1, DAY - 1, DAY // 2))
    elif r < 0.4:
        w -= w % US
    return max(lo, min(hi, w))


SPANS = (0, 1, 999999, US, 59 * US, 60 * US, 3599 * US, 3600 * US, DAY - 1, DAY, DAY + 1, 27 * DAY, 28 * DAY, 29 * DAY, 30 * DAY,
         31 * DAY, 32 * DAY, 59 * DAY, 60 * DAY, 61 * DAY, 365 * DAY, 366 * DAY, 730 * DAY, 1461 * DAY, 36524 * DAY, 146097 * DAY)


def _rand_pairs(rng, n):
    lo_all, hi_all = D.MIN_US + 3 * DAY, D.MAX_US - 3 * DAY
    hi_named = Z.limit_us(YMAX) - 3 * DAY
    lo_named = _w(1800, 1, 1)
    for i in range(n):
        kind = rng.choice(("naive", "utc", "fixed", "date", "same", "same", "cross", "cross", "fixedcross"))
        named = kind in ("same", "cross")
        lo, hi = (lo_named, hi_named) if named else (lo_all, hi_all)
        wa = _rand_wall(rng, lo, hi)
        r = rng.random()
        if r < 0.45:
            span = rng.choice(SPANS) + rng.choice((0, 0, 1, -1, rng.randint(-DAY, DAY)))
        elif r < 0.8:
            span = rng.randint(0, 800 * DAY)
        elif r < 0.9:
            span = rng.randint(0, 2 ** 33 * US + 10 * DAY)
        else:
            span = rng.randint(0, hi - lo)
        if rng.random() < 0.3:
            span = -span
        wb = wa + span
        if not (lo <= wb <= hi):
            wb = wa - span
            if not (lo <= wb <= hi):
                continue
        absolute = int(rng.random() < 0.15)
        if kind == "naive":
            za = zb = "n"
        elif kind == "utc":
            za = zb = ZIDX[0]
        elif kind == "fixed":
            za = zb = rng.choice(FIXED)
        elif kind == "date":
            za = zb = "d"
            wa -= wa % DAY
            wb -= wb % DAY
        elif kind == "same":
            za = zb = rng.choice(ZIDX)
        elif kind == "cross":
            za, zb = rng.choice(ZIDX), rng.choice(ZIDX)
        else:
            za, zb = rng.choice(FIXED + ZIDX[:1]), rng.choice(FIXED)
            if rng.random() < 0.25:
                # mirrored offsets of less than an hour (+00:MM / -00:MM): differently named zones, whatever their names look like
                m = rng.choice((60, 300, 900, 1800, 2700, 3540, rng.randint(1, 59) * 60)) * US
                za, zb = ("f%d" % m, "f%d" % -m) if rng.random() < 0.5 else ("f%d" % -m, "f%d" % m)
        fa, fb = (rng.randint(0, 1), rng.randint(0, 1)) if named else (0, 0)
        if i % 5 == 0 and kind != "date":
            mode = {"naive": "naive"}.get(kind, rng.choice(("native", "native", "sub", "nameless")))
            yield ("pd", mode, za, wa, zb, wb)
        else:
            yield ("iv", za, wa, fa, zb, wb, fb, absolute)


def _around_transitions(rng, per_zone):
    lim = Z.limit_us(YMAX)
    for zi in ZIDX:
        name = D.ZN[int(zi)]
        irr = [x for x in Z.irregular(name, YMAX) if x[1] * US > D.MIN_US + 400 * DAY and x[2] * US < lim - 400 * DAY]
        if not irr:
            continue
        pick = irr if len(irr) <= per_zone else [irr[0], irr[-1]] + rng.sample(irr[1:-1], per_zone - 2)
        for kind, lo, hi, t, ob, oa in pick:
            lo, hi = lo * US, hi * US
            mid = (lo + hi) // 2
            inside = [(mid, 0), (mid, 1)] if kind == "fold" else []
            before = [(lo - 1, 0), (lo - 3600 * US, 0), (lo - DAY, 0), (lo - 31 * DAY - 7, 0)]
            after = [(hi, 0), (hi + 1800 * US, 0), (hi + DAY, 0), (hi + 40 * DAY + 11, 0)]
            pts = before + inside + after
            for _ in range(6):
                (wa, fa), (wb, fb) = rng.sample(pts, 2)
                other = rng.choice((zi, zi, ZIDX[0], rng.choice(ZIDX), rng.choice(FIXED)))
                if rng.random() < 0.5:
                    yield ("iv", zi, wa, fa, other, wb if other == zi else wb - rng.choice((0, 3600 * US, 7200 * US)), fb if other == zi else 0,
                           int(rng.random() < 0.2))
                else:
                    yield ("iv", other, wb if other == zi else wb - rng.choice((0, 3600 * US)), fb if other == zi else 0, zi, wa, fa,
                           int(rng.random() < 0.2))
            if kind == "fold":
                # both endpoints inside the overlap on the same day, every fold combination
                for fa in (0, 1):
                    for fb in (0, 1):
                        yield ("iv", zi, lo + (hi - lo) // 4, fa, zi, lo + 3 * (hi - lo) // 4, fb, 0)
            # equal instants seen from two zones, ordinary times
            u = (lo - 40 * DAY) - ob * US
            yield ("iv", zi, lo - 40 * DAY, 0, ZIDX[0], u, 0, 0)
            yield ("pd", "native", zi, lo - 40 * DAY, ZIDX[0], u)


def _exists(zr, w):
    """a genuine local time of the zone: pendulum never produces values inside a gap (create/convert normalise them)"""
    return zr[0] in "nfd" or len(D.wall_solutions(D.ZN[int(zr)], w, YMAX)) >= 1


def _endpoints(op):
    return ((op[2], op[3]), (op[4], op[5])) if op[0] == "pd" else ((op[1], op[2]), (op[4], op[5]))


def gen_ops(rng, tier):
    import itertools
    for op in itertools.chain(_grid(rng, tier),
                              _around_transitions(rng, {"quick": 6, "thorough": 60, "widen": 20}[tier]),
                              _rand_pairs(rng, {"quick": 60_000, "thorough": 2_000_000, "widen": 300_000}[tier])):
        if all(_exists(z, w) for z, w in _endpoints(op)):
            yield op


def corpus():
    return [
        ("pd", "date", "d", _w(2021, 5, 2), "d", _w(2021, 6, 1)),                      # F8: "1 month", rebuild gives Jun 2
        ("iv", "d", _w(2021, 5, 2), 0, "d", _w(2021, 6, 1), 0, 0),
        ("iv", "n", _w(2021, 1, 31, 10), 0, "n", _w(2021, 2, 28, 9), 0, 0),
        ("iv", "n", _w(2021, 1, 30, 10), 0, "n", _w(2021, 3, 1, 9), 0, 0),
        ("pd", "native", "f%d" % (5 * 3600 * US), _w(2020, 3, 1, 2), ZIDX[0], _w(2020, 4, 1)),   # F14
        ("pd", "sub", "n", _w(2020, 1, 1, 1), "n", _w(2020, 1, 2, 5)),                 # datetime subclass as 2nd argument
        ("iv", "n", _w(1, 1, 1, 0, 0, 0, 1), 0, "n", _w(9000, 1, 1), 0, 0),             # float total_seconds loses the µs
        ("iv", str(D.ZI["Europe/Paris"]), _w(2013, 10, 27, 2, 30), 1, ZIDX[0], _w(2013, 10, 27, 3), 0, 0),   # fold dropped
        # pendulum.DateTime arguments: the UTC shift must not follow the zone's own transitions
        ("pd", "sub", str(D.ZI["Asia/Dhaka"]), _w(2014, 6, 4, 2, 34, 47), str(D.ZI["Africa/Cairo"]), _w(2014, 6, 27, 0, 42, 19, 634720)),
    ]


# ------------------------------------------------------------------------------------------------ wire

def _tag(zr, mode=None):
    if zr in ("n", "d"):
        return 0
    if zr[0] == "f":
        t = 10 ** 12 + int(zr[1:])
    else:
        t = int(zr) + 1
    return -t if mode == "nameless" else t


def _off_s(zr, w):
    """fold=0 utcoffset (seconds) of a wall value, read with the stdlib"""
    if zr in ("n", "d"):
        return 0
    if zr[0] == "f":
        return int(zr[1:]) // US
    return Z.off_us(D.native(zr, w, 0)) // US


def _mode(op):
    """nameless tzinfo objects (datetime.timezone) exist for fixed offsets and UTC only"""
    _, mode, za, wa, zb, wb = op
    if mode == "nameless" and any(z[0] != "f" and D.ZN[int(z)] != "UTC" for z in (za, zb)):
        return "native"
    return mode


def line(op, backend):
    if op[0] == "pd":
        _, mode, za, wa, zb, wb = op
        mode = _mode(op)
        isdt = int(mode != "date")
        out = ["c06pd", backend]
        for zr, w in ((za, wa), (zb, wb)):
            f = D.fields(w)
            out += [str(x) for x in f] + [str(_off_s(zr, w)), str(_tag(zr, mode)), str(isdt)]
        return " ".join(out)
    _, za, wa, fa, zb, wb, fb, ab = op
    if za != zb and za[0] not in "nd" and (_ambiguous(za, wa) or _ambiguous(zb, wb)) and _inst(za, wa, 0) == _inst(zb, wb, 0):
        return None       # PEP 495: inter-zone `==` is False when an operand's utcoffset depends on fold (not modelled)
    return "c06iv %s %s %d %d %s %d %d %d" % (backend, za, wa, fa, zb, wb, fb, ab)


_P = {}


def worker_init(backend):
    import pendulum
    import pendulum.helpers as H
    from pendulum import _helpers
    _P.update(p=pendulum, active=H.precise_diff, py=_helpers.precise_diff)


def _mk_native(zr, w, mode):
    p = _P["p"]
    f = D.fields(w)
    if mode == "date":
        return dt.date(*f[:3])
    if mode == "naive":
        return dt.datetime(*f)
    if mode == "nameless":
        if zr[0] == "f":
            o = int(zr[1:]) // US
            tz = dt.timezone.utc if o == 0 else dt.timezone(dt.timedelta(seconds=o))
        else:
            tz = dt.timezone.utc          # only generated for the UTC zone
        return dt.datetime(*f, tzinfo=tz)
    if mode == "sub":
        return p.DateTime(*f, tzinfo=D.tzobj(zr))
    return dt.datetime(*f, tzinfo=D.tzobj(zr))


def _distinct_tz(op, za, zb, b):
    """two endpoints at the same fixed offset: for every other such op the second endpoint carries an equal but DISTINCT
    FixedTimezone object (what two parse() calls, a pickled endpoint or FixedTimezone(n) built twice give) — equal zones must be
    treated as the same zone whichever object carries them"""
    import zlib
    if za != zb or za[0] != "f" or not isinstance(b, dt.datetime) or b.tzinfo is None or type(b.tzinfo).__name__ != "FixedTimezone":
        return b
    if zlib.crc32(("tzobj" + repr(op)).encode()) & 1:
        return b
    from pendulum.tz.timezone import FixedTimezone
    return b.replace(tzinfo=FixedTimezone(int(za[1:]) // US)) if type(b) is dt.datetime else \
        type(b)(b.year, b.month, b.day, b.hour, b.minute, b.second, b.microsecond, tzinfo=FixedTimezone(int(za[1:]) // US), fold=b.fold)


def _pd8(r):
    return (r.years, r.months, r.days, r.hours, r.minutes, r.seconds, r.microseconds, r.total_days)


def _mk_val(zr, w, fold):
    p = _P["p"]
    if zr == "d":
        f = D.fields(w)
        return p.Date(*f[:3])
    return D.mk(zr, w, fold)


def _comps(iv):
    return (iv.years, iv.months, iv.weeks, iv.remaining_days, iv.hours, iv.minutes, iv.remaining_seconds, iv.microseconds,
            iv.in_months(), iv.in_days())


def _outv(x):
    if isinstance(x, dt.datetime):
        o = x.utcoffset()
        off = 0 if o is None else (o.days * 86400 + o.seconds) * US + o.microseconds
        return "%d %d" % (Z.to_us(x), off)
    return "%d 0" % ((x.toordinal() - 719163) * DAY)


def impl(op, backend):
    p = _P["p"]
    if op[0] == "pd":
        _, mode, za, wa, zb, wb = op
        mode = _mode(op)
        a, b = _mk_native(za, wa, mode), _mk_native(zb, wb, mode)
        b = _distinct_tz(op, za, zb, b)
        r = _pd8(_P["active"](a, b))
        out = "ok " + " ".join(str(x) for x in r)
        if backend == "rs":
            q = _pd8(_P["py"](a, b))
            if q[:7] != r[:7]:
                out += " PY " + " ".join(str(x) for x in q)
        return out
    _, za, wa, fa, zb, wb, fb, ab = op
    a, b = _mk_val(za, wa, fa), _mk_val(zb, wb, fb)
    b = _distinct_tz(op, za, zb, b)
    # history: the components must depend on the two values only, not on intervals built before in this process. For aware
    # DateTimes, every other op first builds the interval between the SAME two instants rendered in other zones (a different wall
    # clock decomposition), touching its components.
    import zlib
    if zlib.crc32(repr(op).encode()) & 1 and isinstance(a, p.DateTime) and isinstance(b, p.DateTime) and a.tzinfo is not None and b.tzinfo is not None:
        for tzname in ("Asia/Tokyo", "UTC", "America/Los_Angeles", "Pacific/Kiritimati"):
            try:
                w0 = p.Interval(a.in_timezone(tzname), b.in_timezone(tzname), absolute=bool(ab))
                w0.years, w0.months, w0.remaining_days, w0.hours
            except (OverflowError, ValueError):
                pass
    if ab:
        iv = p.Interval(a, b, absolute=True)
        rv = p.Interval(b, a, absolute=True)
    else:
        iv = b - a
        rv = a - b
    try:
        reb = " R " + _outv(iv.start + iv)
    except (OverflowError, ValueError) as e:
        reb = " E " + type(e).__name__
    out = "ok " + " ".join(str(x) for x in _comps(iv)) + reb + " V " + " ".join(str(x) for x in _comps(rv))
    if backend == "rs":
        # the pure-Python helper on the natives Interval.__init__ hands to precise_diff
        def nat(x):
            if isinstance(x, dt.datetime):
                return dt.datetime(x.year, x.month, x.day, x.hour, x.minute, x.second, x.microsecond, tzinfo=x.tzinfo)
            return dt.date(x.year, x.month, x.day)
        q = _pd8(_P["py"](nat(iv.start), nat(iv.end)))
        if q[:7] != _pd8(iv._delta)[:7]:
            out += " PY " + " ".join(str(x) for x in q)
    return out


# ------------------------------------------------------------------------------------------------ oracle

def _ref_add(x, y, mo, w, d, h=0, mi=0, s=0, us=0):
    """independent calendar add on a naive stdlib value: month index arithmetic, clamp, then a timedelta"""
    k = x.year * 12 + (x.month - 1) + 12 * y + mo
    yy, mm = divmod(k, 12)
    mm += 1
    if not (1 <= yy <= 9999):
        return None
    dd = min(x.day, calendar.monthrange(yy, mm)[1])
    try:
        return x.replace(year=yy, month=mm, day=dd) + dt.timedelta(days=7 * w + d, hours=h, minutes=mi, seconds=s, microseconds=us)
    except OverflowError:
        return None


def _canon(c):
    y, mo, w, rd, h, mi, s, us = c[:8]
    return (y >= 0 and 0 <= mo <= 11 and w >= 0 and 0 <= rd <= 6 and 0 <= 7 * w + rd <= 30 and 0 <= h <= 23
            and 0 <= mi <= 59 and 0 <= s <= 59 and 0 <= us <= 999999)


def _inst(zr, w, fold):
    """instant in µs (None for naive / date): independent zoneinfo reading"""
    if zr in ("n", "d"):
        return None
    if zr[0] == "f":
        return w - int(zr[1:])
    return w - Z.off_us(D.native(zr, w, fold))


def _ambiguous(zr, w):
    return zr[0] not in "nfd" and len(D.wall_solutions(D.ZN[int(zr)], w, YMAX)) != 1


def _name(zr):
    return None if zr in ("n", "d") else zr      # equal wire references <=> equal zone names


def _check_pair(za, wa, fa, zb, wb, fb, comps, what):
    """ranges + independent rebuild for an ordered pair a <= b, components comps (8 getters)"""
    isdate = za == "d"
    same_name = za == zb
    if same_name:
        ia, ib = _inst(za, wa, fa), _inst(zb, wb, fb)
        if ia is not None:
            if (wa - ia) != (wb - ib) or _ambiguous(zb, wb) or _ambiguous(za, wa):
                return None                       # outside the property's domain (offset change / ambiguous wall time)
        if wa > wb:
            return None
        if not _canon(comps):
            return f"{what}: components not canonical {comps[:8]}"
        x = Z.from_us(wa)
        r = _ref_add(x, *comps[:8]) if not isdate else _ref_add(x, *comps[:4])
        if r is None or Z.to_us(r) != wb:
            return f"{what}: start + components = {r} != end {Z.from_us(wb)} (components {comps[:8]})"
        return None
    # differently named zones: the decomposition must be that of the two instants in UTC
    ia, ib = _inst(za, wa, fa), _inst(zb, wb, fb)
    if ia > ib:
        return None
    if not _canon(comps):
        return f"cross-zone {what}: components not canonical {comps[:8]}"
    r = _ref_add(Z.from_us(ia), *comps[:8])
    if r is None or Z.to_us(r) != ib:
        return f"cross-zone {what}: UTC start + components = {r} != UTC end {Z.from_us(ib)} (components {comps[:8]})"
    return None


def _domain(za, wa, fa, zb, wb, fb):
    """the pairs the property speaks about: naive/Date/fixed/UTC pairs, same-zone pairs with equal offsets and
    unambiguous wall times, and every pair of differently named zones"""
    if za != zb:
        return True
    ia, ib = _inst(za, wa, fa), _inst(zb, wb, fb)
    if ia is None:
        return True
    return (wa - ia) == (wb - ib) and not _ambiguous(za, wa) and not _ambiguous(zb, wb)


def oracle(op, out, backend):
    if " PY " in out:
        return "backends differ: compiled " + out.split(" PY ")[0] + " python " + out.split(" PY ")[1]
    if not out.startswith("ok "):
        return "unexpected " + out
    if op[0] == "pd":
        _, mode, za, wa, zb, wb = op
        mode = _mode(op)
        if mode == "date":
            za = zb = "d"
        if mode == "nameless":
            # tzinfo objects without a name: the helper cannot tell they are the same zone => UTC decomposition
            wa, wb = _inst(za, wa, 0), _inst(zb, wb, 0)
            za = zb = "f0"
        c = [int(x) for x in out.split()[1:9]]
        if not _domain(za, wa, 0, zb, wb, 0):
            return None
        if za == zb:
            ka, kb = wa, wb
        else:
            ka, kb = _inst(za, wa, 0), _inst(zb, wb, 0)
        sg = 1 if ka <= kb else -1
        if any(x * sg < 0 for x in c[:7]):
            return f"sign of the components does not follow the order of the arguments: {c}"
        pos = [x * sg for x in c[:7]]
        comps = pos[:2] + [pos[2] // 7, pos[2] % 7] + pos[3:]
        first, second = ((za, wa, 0), (zb, wb, 0)) if sg == 1 else ((zb, wb, 0), (za, wa, 0))
        return _check_pair(*first, *second, comps, "precise_diff")
    _, za, wa, fa, zb, wb, fb, ab = op
    body, rev = out[3:].split(" V ")
    rev = [int(x) for x in rev.split()]
    if " R " in body:
        cs, reb = body.split(" R ")
        reb = [int(x) for x in reb.split()]
    else:
        cs, reb = body.split(" E ")[0], None
    c = [int(x) for x in cs.split()]
    if c[8] != 12 * c[0] + c[1] or rev[8] != 12 * rev[0] + rev[1]:
        return f"in_months {c[8]} != 12*{c[0]}+{c[1]}"
    if not _domain(za, wa, fa, zb, wb, fb):
        return None
    if za == zb:
        fwd = wa <= wb
    else:
        fwd = _inst(za, wa, fa) <= _inst(zb, wb, fb)
    first, second = ((za, wa, fa), (zb, wb, fb)) if fwd else ((zb, wb, fb), (za, wa, fa))
    if ab:
        if rev[:8] != c[:8]:
            return f"absolute interval differs when the endpoints are swapped: {c[:8]} vs {rev[:8]}"
        v = _check_pair(*first, *second, c, "absolute interval")
    else:
        if [-x for x in rev[:8]] != c[:8]:
            return f"reversed interval is not the negation: {c[:8]} vs {rev[:8]}"
        v = _check_pair(*first, *second, c if fwd else rev, "interval")
    if v:
        return v
    # a + (b - a) computed by the implementation itself (same timezone, a <= b)
    if za == zb and (fwd or ab):
        end = second
        want_off = 0 if end[0] in ("n", "d") else end[1] - _inst(*end)
        if reb is None or reb != [end[1], want_off]:
            return f"start + interval = {reb}, the end is wall {end[1]} offset {want_off}"
    return None


def tag(op, out):
    if op[0] == "pd":
        _, mode, za, wa, zb, wb = op
        t = "pd:" + mode
        if za != zb:
            return t + ":cross"
        fa, fb = D.fields(wa), D.fields(wb)
        if wa > wb:
            return t + ":inverted"
        if fb[2] < fa[2]:
            last = calendar.monthrange(fb[0], fb[1])[1]
            return t + (":dayborrow-monthend" if fb[2] == last else ":dayborrow")
        if fb[3:] < fa[3:]:
            return t + ":timeborrow"
        return t + ":plain"
    _, za, wa, fa, zb, wb, fb, ab = op
    if za != zb:
        return "iv:cross" + (":fold" if (fa or fb) else "")
    k = "naive" if za == "n" else "date" if za == "d" else "fixed" if za[0] == "f" else "zone"
    t = "iv:" + k + (":abs" if ab else "")
    if wa > wb:
        return t + ":inverted"
    f1, f2 = D.fields(wa), D.fields(wb)
    if f2[2] < f1[2]:
        return t + ":dayborrow"
    if f2[3:] < f1[3:]:
        return t + ":timeborrow"
    return t + ":plain"


TRIVIAL_TAGS = ("pd:naive:plain", "pd:native:plain", "pd:date:plain", "pd:sub:plain", "pd:nameless:plain",
                "iv:naive:plain", "iv:date:plain", "iv:fixed:plain", "iv:zone:plain")


def _m_fold_dropped(op, backend, out, viol):
    """differently named zones and an endpoint in the second pass of an overlap (fold=1 on an ambiguous wall time)"""
    if op[0] != "iv":
        return False
    _, za, wa, fa, zb, wb, fb, ab = op
    return za != zb and ((fa == 1 and _ambiguous(za, wa)) or (fb == 1 and _ambiguous(zb, wb)))


MATCHERS = {"c06_cross_zone_fold1_ambiguous": _m_fold_dropped}
