"""C16 — weekday navigation lands on the right day inside the right unit (Date and DateTime)."""
from __future__ import annotations

import calendar
import datetime as dt
import signal
import zlib

from harness import dtutil as D
from harness import zones as Z

ID = "C16"
BACKENDS = ("py", "rs")          # Date.add / DateTime.add run through helpers.add_duration (is_leap of the backend)
GEN_MODULES = ("WeekNav", "StartOf")
MIN_THEOREMS = 38
US = D.US
DAY = 86400 * US
EPOCH_ORD = 719163
YMAX = Z.YMAX_QUICK
RULE = ("Date ops (dnext/dprev/dfirst/dlast/dnth) on every month shape: 16 pattern years covering the 14 (Jan-1 weekday x leap) "
        "year shapes + century years + years 1/2/9998, every month, days {1, 15, last}, all 7 weekdays (+ 'no weekday'), "
        "units month/quarter/year, n in 1..6 (month), {1,2,5,12..15} (quarter), {1,2,27,52..54} (year), plus random dates "
        "over years 1..9998 with random n <= 54. DateTime ops (tnext/tprev with and without keep_time, tfirst/tlast/tnth) on "
        "naive, fixed-offset and named zones: random wall times 1800..2090, and for 16 zones every day whose midnight (or a "
        "wall time within +-1 h of it) is skipped/repeated (sampled per zone): instances placed on, before and after that day, "
        "both folds, weekday/n chosen so that the irregular day is the start, the target or on the way. The weekday argument is passed as a "
        "WeekDay member or as a plain int 0..6 (alternating by a checksum of the op). non-trivial = distinct "
        "op that is not a mid-month Date op: month/unit boundary, n at or beyond the count, or zone-aware")
EXHAUSTIVE = {"quick": False, "thorough": False}
TRUSTED = [
    "Model/WeekNav.lean is a hand model of date.py:463-718 and of the repaired datetime.py weekday navigation (loops, monthcalendar "
    "lookups, the three different membership tests of _nth_of_month/_quarter/_year; DateTime results built by _boundary), tied by this correspondence run",
    "a date is modelled as its proleptic ordinal; Cal.ymd2ord/ord2ymd = CPython's algorithms, proved mutually inverse (Proofs/CalRT.lean)",
    "DateTime._boundary = StartOf.edge (C12's model, Model/StartOf.lean); DateTime.create/Timezone.convert = DTOps.create/Zone.convertNaive (C02's model); "
    "zone tables extracted from tzdata by harness/zones.py",
    "add(days=n) (keep_time path) is modelled as wall clock + n days re-created with fold=1 (the days-only path of helpers.add_duration; C04 models the general path)",
    "oracle = day-by-day scan with datetime.date/calendar; expected wall time 00:00 (or the kept time) normalised forward by the gap length when skipped (tz tables only)",
]
ASSUMPTIONS = [
    "dates stay inside years 1..9998 (9999 for inputs without forward walking): the OverflowError of datetime at the ends of the range is not part of the model",
    "weekday arguments are 0..6 and n >= 1 (the property's domain); named-zone values lie in 1800..2090 (zone tables expanded to 2100)",
    "a calendar day that does not exist in the zone (skipped entirely: Pacific/Kiritimati 1994-12-31, Pacific/Apia 2011-12-30, Pacific/Kosrae 1844-12-31) has no "
    "'n-th weekday' reading in the property: the oracle accepts the first existing moment after it, and for nth_of also PendulumException (the unit then holds fewer such days)",
    "the code is the repaired tree (fix commits: next()/previous() in one step; results built with _boundary); on the unrepaired code the oracle fails (F11)",
]

ZONES = ["UTC", "Europe/Paris", "America/New_York", "America/Sao_Paulo", "America/Havana", "America/Santiago",
         "Asia/Beirut", "Asia/Tehran", "Pacific/Apia", "Pacific/Kiritimati", "Africa/Cairo", "America/Asuncion",
         "Australia/Lord_Howe", "America/Toronto", "Asia/Amman", "America/Scoresbysund"]


class Timeout(Exception):
    pass


def preamble():
    return D.preamble(YMAX)


# ----------------------------------------------------------------------------- calendar (independent reference)

def unit_range(d, u):
    y = d.year
    if u == 0:
        return dt.date(y, d.month, 1), dt.date(y, d.month, calendar.monthrange(y, d.month)[1])
    if u == 1:
        m0 = 3 * ((d.month - 1) // 3) + 1
        return dt.date(y, m0, 1), dt.date(y, m0 + 2, calendar.monthrange(y, m0 + 2)[1])
    return dt.date(y, 1, 1), dt.date(y, 12, 31)


def scan(lo, hi, wd):
    """all dates in [lo, hi] falling on weekday wd, by walking day by day"""
    out = []
    o = lo.toordinal()
    end = hi.toordinal()
    while o <= end:
        if dt.date.fromordinal(o).weekday() == wd:
            out.append(o)
        o += 1
    return out


def expected_date(kind, d, u, n, wd):
    """proleptic ordinal of the date the property demands, or None when nth_of must raise"""
    o = d.toordinal()
    if kind == "next":
        k = o + 1
        while dt.date.fromordinal(k).weekday() != wd:
            k += 1
        return k
    if kind == "prev":
        k = o - 1
        while dt.date.fromordinal(k).weekday() != wd:
            k -= 1
        return k
    lo, hi = unit_range(d, u)
    if kind == "first":
        return lo.toordinal() if wd < 0 else scan(lo, hi, wd)[0]
    if kind == "last":
        return hi.toordinal() if wd < 0 else scan(lo, hi, wd)[-1]
    occ = scan(lo, hi, wd)
    return occ[n - 1] if n <= len(occ) else None


# ----------------------------------------------------------------------------- generators

def _pattern_years():
    seen = {}
    for y in range(1995, 2040):
        key = (dt.date(y, 1, 1).weekday(), calendar.isleap(y))
        seen.setdefault(key, y)
    ys = sorted(seen.values())
    assert len(ys) == 14
    return ys + [1900, 2000, 2, 9998]


def _date_ops(o, rng=None, full=True):
    for wd in range(7):
        yield ("dnext", o, wd)
        yield ("dprev", o, wd)
    for u in range(3):
        for wd in range(-1, 7):
            yield ("dfirst", u, o, wd)
            yield ("dlast", u, o, wd)
    for wd in range(7):
        for n in (1, 2, 3, 4, 5, 6):
            yield ("dnth", 0, o, n, wd)
        for n in (1, 2, 5, 12, 13, 14, 15):
            yield ("dnth", 1, o, n, wd)
        for n in ((1, 2, 27, 52, 53, 54) if full else (1, 53)):
            yield ("dnth", 2, o, n, wd)


def _midnight_irregulars(name):
    """days of the zone on which a wall time in [00:00 - 1h, 00:00 + 1h] is skipped or repeated:
    [(ordinal of the day whose midnight is concerned, kind)]"""
    out = []
    for kind, lo, hi, t, ob, oa in Z.irregular(name, YMAX):
        first_mid = -(-(lo - 3600) // 86400)
        last_mid = (hi + 3600) // 86400
        for m in range(first_mid, last_mid + 1):
            if lo - 3600 <= m * 86400 <= hi + 3600:
                o = EPOCH_ORD + m
                if dt.date(1800, 1, 1).toordinal() < o < dt.date(2090, 1, 1).toordinal():
                    out.append((o, kind))
    return out


def _exists(name, w):
    return name is None or len(D.wall_solutions(name, w, YMAX)) >= 1


def _val(rng, zr, name, o, tod=None, fold=None):
    """an existing wall value on day o (None if that wall time is skipped)"""
    if tod is None:
        tod = rng.choice((0, 0, 30 * 60 * US, 12 * 3600 * US, 23 * 3600 * US + 1800 * US, rng.randrange(DAY)))
    w = (o - EPOCH_ORD) * DAY + tod
    if not _exists(name, w):
        return None
    return (zr, w, rng.randint(0, 1) if fold is None else fold)


def _dt_ops_around(rng, zr, name, o_irr):
    """DateTime ops whose start day, target day or path touches day o_irr"""
    wd_irr = (o_irr + 6) % 7
    d_irr = dt.date.fromordinal(o_irr)
    for delta in (0, 0, -1, 1, -3, -7, 7, rng.randint(-12, -1), rng.randint(1, 12)):
        o = o_irr + delta
        v = _val(rng, zr, name, o)
        if v is None:
            continue
        for wd in {wd_irr, (wd_irr + 1) % 7, rng.randrange(7)}:
            keep = rng.random() < 0.25
            yield ("tnext",) + v + (wd, int(keep))
            yield ("tprev",) + v + (wd, int(keep))
    # instances anywhere in the month / quarter / year of the irregular day
    lo, hi = unit_range(d_irr, 0)
    occ = scan(lo, hi, wd_irr)
    k = occ.index(o_irr) + 1
    for _ in range(4):
        o = rng.randint(lo.toordinal(), hi.toordinal())
        v = _val(rng, zr, name, o)
        if v is None:
            continue
        for n in {k, k + 1, 1, rng.randint(1, 6)}:
            yield ("tnth", 0) + v + (n, wd_irr)
        yield ("tnth", 0) + v + (rng.randint(1, 5), rng.randrange(7))
        for wd in (wd_irr, -1, rng.randrange(7)):
            yield ("tfirst", 0) + v + (wd,)
            yield ("tlast", 0) + v + (wd,)
    for u in (1, 2):
        lo, hi = unit_range(d_irr, u)
        occ = scan(lo, hi, wd_irr)
        k = occ.index(o_irr) + 1
        for _ in range(2):
            v = _val(rng, zr, name, rng.randint(lo.toordinal(), hi.toordinal()))
            if v is None:
                continue
            for n in {k, k + 1, len(occ), len(occ) + 1}:
                yield ("tnth", u) + v + (n, wd_irr)
            for wd in (wd_irr, -1):
                yield ("tfirst", u) + v + (wd,)
                yield ("tlast", u) + v + (wd,)
    # the irregular day itself as the instance, both folds, several times of day
    for tod in (0, 1800 * US, 3600 * US, 12 * 3600 * US, DAY - 1):
        for fold in (0, 1):
            v = _val(rng, zr, name, o_irr, tod, fold)
            if v is None:
                continue
            wd = rng.randrange(7)
            yield ("tnext",) + v + (wd, 0)
            yield ("tprev",) + v + (wd_irr, 0)
            yield ("tfirst", 0) + v + (rng.choice((-1, wd)),)
            yield ("tlast", 0) + v + (rng.choice((-1, wd)),)
            yield ("tnth", 0) + v + (rng.randint(1, 5), wd)


def _random_dt_op(rng, zr, name):
    o = rng.randint(dt.date(1800, 1, 10).toordinal(), dt.date(2089, 12, 1).toordinal())
    v = _val(rng, zr, name, o)
    if v is None:
        return None
    r = rng.random()
    wd = rng.randrange(7)
    if r < 0.2:
        return ("tnext",) + v + (wd, rng.randint(0, 1))
    if r < 0.4:
        return ("tprev",) + v + (wd, rng.randint(0, 1))
    u = rng.choice((0, 0, 1, 2))
    if r < 0.55:
        return ("tfirst", u) + v + (rng.choice((-1, wd)),)
    if r < 0.7:
        return ("tlast", u) + v + (rng.choice((-1, wd)),)
    n = rng.choice(((1, 2, 3, 4, 5, 6), (1, 2, 12, 13, 14, 15), (1, 2, 27, 52, 53, 54))[u])
    return ("tnth", u) + v + (n, wd)


def gen_ops(rng, tier):
    big = tier != "quick"
    years = _pattern_years() if tier != "thorough" else sorted(set(_pattern_years() + list(range(1583, 2400, 3))))
    for y in years:
        for m in range(1, 13):
            last = calendar.monthrange(y, m)[1]
            for d in (1, 15, last):
                if y == 2 and m == 1 and d == 1:
                    continue
                yield from _date_ops(dt.date(y, m, d).toordinal(), full=(tier != "thorough" or y % 7 == 0))
    for _ in range({"quick": 6000, "thorough": 300000, "widen": 60000}[tier]):
        o = rng.randint(400, dt.date(9998, 12, 20).toordinal())
        r = rng.random()
        wd = rng.randrange(7)
        if r < 0.15:
            yield ("dnext", o, wd)
        elif r < 0.3:
            yield ("dprev", o, wd)
        elif r < 0.45:
            yield ("dfirst", rng.randrange(3), o, rng.choice((-1, wd)))
        elif r < 0.6:
            yield ("dlast", rng.randrange(3), o, rng.choice((-1, wd)))
        else:
            u = rng.randrange(3)
            yield ("dnth", u, o, rng.randint(1, (6, 15, 54)[u]), wd)
    # DateTime: regular values
    zrefs = [("n", None), ("f0", None), ("f%d" % (19800 * US), None), ("f%d" % (-12600 * US), None)]
    zrefs += [(str(D.ZI[z]), z) for z in ZONES]
    for _ in range({"quick": 9000, "thorough": 150000, "widen": 90000}[tier]):
        zr, name = rng.choice(zrefs)
        op = _random_dt_op(rng, zr, name)
        if op is not None:
            yield op
    # DateTime: around irregular midnights
    per_zone = {"quick": 7, "thorough": 10 ** 6, "widen": 40}[tier]
    for z in ZONES:
        irr = _midnight_irregulars(z)
        if len(irr) > per_zone:
            irr = rng.sample(irr, per_zone)
        for o_irr, _kind in irr:
            yield from _dt_ops_around(rng, str(D.ZI[z]), z, o_irr)
    if big:
        # every zone of the database: a few irregular midnights each
        for z in D.ZN:
            if z in ZONES:
                continue
            irr = _midnight_irregulars(z)
            for o_irr, _kind in (rng.sample(irr, 2) if len(irr) > 2 else irr):
                yield from _dt_ops_around(rng, str(D.ZI[z]), z, o_irr)


def corpus():
    sp = str(D.ZI["America/Sao_Paulo"])
    ki = str(D.ZI["Pacific/Kiritimati"])
    pa = str(D.ZI["Europe/Paris"])

    def w(y, m, d, h=0, mi=0):
        return (dt.date(y, m, d).toordinal() - EPOCH_ORD) * DAY + (h * 3600 + mi * 60) * US
    return [
        ("tfirst", 0, sp, w(2013, 10, 20, 12), 1, -1),          # F11 (repaired): kept 01:00 on 2013-10-01
        ("tnth", 0, sp, w(2013, 10, 1, 12), 1, 4, 6),           # F11 (repaired): 4th Sunday was reported as 2013-10-20
        ("tnth", 0, sp, w(2013, 10, 1, 12), 1, 3, 6),
        ("tnext", sp, w(2013, 10, 20, 1), 0, 6, 0),             # F11 (repaired): start_of('day') of a fold=0 value on the gap day went to 23:00 the day before
        ("tprev", ki, w(1995, 1, 1, 12), 1, 0, 0),              # looped forever before the next()/previous() repair
        ("tnext", ki, w(1994, 12, 30, 12), 1, 5, 0),
        ("tnext", pa, w(2013, 3, 27, 2, 30), 1, 1, 1),          # keep_time drifted to 03:30 before the repair
        ("dnth", 0, dt.date(2021, 2, 1).toordinal(), 5, 0),
        ("dnth", 2, dt.date(2024, 1, 1).toordinal(), 53, 0),
    ]


# ----------------------------------------------------------------------------- wire

def line(op, backend):
    return " ".join(str(x) for x in op)


# ----------------------------------------------------------------------------- real code

_P = {}


def _on_alarm(*a):
    raise Timeout()


def worker_init(backend):
    import pendulum
    from pendulum.exceptions import PendulumException
    _P.update(p=pendulum, E=PendulumException, WD=pendulum.WeekDay)
    signal.signal(signal.SIGALRM, _on_alarm)


UNITS = ("month", "quarter", "year")


_FORM = [0]


def _wd(x):
    """the weekday argument, as a `WeekDay` member or (every other op, decided by a checksum of the op) as a plain int"""
    if x < 0:
        return None
    return int(x) if _FORM[0] else _P["WD"](x)


def impl(op, backend):
    p = _P["p"]
    k = op[0]
    h = zlib.crc32(repr(op).encode())
    _FORM[0] = h & 1
    # weekday navigation does not depend on the configured first / last day of the week: a deterministic quarter of the ops runs
    # under a non-default pendulum.week_starts_at / week_ends_at (restored afterwards, together with the stdlib calendar setting)
    import calendar
    cfg = (h >> 3) % 4 == 0
    if cfg:
        p.week_starts_at(p.WeekDay((h >> 5) % 7))
        p.week_ends_at(p.WeekDay(((h >> 5) + 6) % 7))
    signal.setitimer(signal.ITIMER_REAL, 5.0)
    try:
        return _impl(op, p, k)
    finally:
        signal.setitimer(signal.ITIMER_REAL, 0)
        if cfg:
            p.week_starts_at(p.MONDAY)
            p.week_ends_at(p.SUNDAY)
            calendar.setfirstweekday(calendar.MONDAY)


def _impl(op, p, k):
    try:
        if k[0] == "d":
            if k in ("dnext", "dprev"):
                d = dt.date.fromordinal(op[1])
                x = p.Date(d.year, d.month, d.day)
                r = x.next(_wd(op[2])) if k == "dnext" else x.previous(_wd(op[2]))
            else:
                d = dt.date.fromordinal(op[2])
                x = p.Date(d.year, d.month, d.day)
                if k == "dfirst":
                    r = x.first_of(UNITS[op[1]], _wd(op[3]))
                elif k == "dlast":
                    r = x.last_of(UNITS[op[1]], _wd(op[3]))
                else:
                    r = x.nth_of(UNITS[op[1]], op[3], _wd(op[4]))
            if type(r) is not p.Date:
                return "err NotADate:" + type(r).__name__
            return "ok %d" % r.toordinal()
        if k in ("tnext", "tprev"):
            zr, w, fold, wd, keep = op[1:]
            x = D.mk(zr, w, fold)
            r = x.next(_wd(wd), keep_time=bool(keep)) if k == "tnext" else x.previous(_wd(wd), keep_time=bool(keep))
        else:
            u, zr, w, fold = op[1:5]
            x = D.mk(zr, w, fold)
            if k == "tfirst":
                r = x.first_of(UNITS[u], _wd(op[5]))
            elif k == "tlast":
                r = x.last_of(UNITS[u], _wd(op[5]))
            else:
                r = x.nth_of(UNITS[u], op[5], _wd(op[6]))
        if type(r) is not p.DateTime:
            return "err NotADateTime:" + type(r).__name__
        if (r.tzinfo is None) != (x.tzinfo is None) or (x.tzinfo is not None and r.timezone_name != x.timezone_name):
            return "err TimezoneChanged"
        return D.outv(r)
    finally:
        pass


# ----------------------------------------------------------------------------- oracle

def _decode(op):
    """(kind, unit, n, wd, keep, value or date ordinal)"""
    k = op[0]
    if k in ("dnext", "dprev"):
        return k[1:], 0, 0, op[2], 0, op[1]
    if k in ("dfirst", "dlast"):
        return k[1:], op[1], 0, op[3], 0, op[2]
    if k == "dnth":
        return "nth", op[1], op[3], op[4], 0, op[2]
    if k in ("tnext", "tprev"):
        return k[1:], 0, 0, op[4], op[5], op[1:4]
    if k in ("tfirst", "tlast"):
        return k[1:], op[1], 0, op[5], 0, op[2:5]
    return "nth", op[1], op[5], op[6], 0, op[2:5]


def _normalise(name, w):
    """the wall value a skipped local time is moved to by the documented rule (forward by the length of the gap)"""
    if name is None or D.wall_solutions(name, w, YMAX):
        return w
    ws = w // US
    for kind, lo, hi, t, ob, oa in Z.irregular(name, YMAX):
        if kind == "gap" and lo <= ws < hi:
            return w + (hi - lo) * US
    raise AssertionError("skipped wall value without a gap")


def oracle(op, out, backend):
    kind, u, n, wd, keep, x = _decode(op)
    if op[0][0] == "d":
        e = expected_date(kind, dt.date.fromordinal(x), u, n, wd)
        exp = "err PendulumException" if e is None else "ok %d" % e
        return None if out == exp else f"expected {exp} got {out}"
    zr, w, fold = x
    name = D.zname(zr)
    o = EPOCH_ORD + w // DAY
    e = expected_date(kind, dt.date.fromordinal(o), u, n, wd)
    if e is None:
        return None if out == "err PendulumException" else f"expected err PendulumException got {out}"
    tod = (w % DAY) if keep else 0
    ew = _normalise(name, (e - EPOCH_ORD) * DAY + tod)
    if kind == "nth" and out == "err PendulumException" and name is not None \
            and EPOCH_ORD + _normalise(name, (e - EPOCH_ORD) * DAY) // DAY != e:
        return None      # the n-th such calendar day does not exist in the zone (skipped entirely): see ASSUMPTIONS
    if not out.startswith("ok "):
        return f"expected wall {D.fields(ew)} got {out}"
    rw, roff, rfold = (int(v) for v in out.split()[1:])
    if rw != ew:
        return f"expected wall {D.fields(ew)} got {D.fields(rw)}"
    if name is not None:
        offs = {rw - s for s in D.wall_solutions(name, rw, YMAX)}
        if roff not in offs:
            return f"offset {roff} is not a database offset for wall {D.fields(rw)} (valid: {sorted(offs)})"
    elif zr[0] == "f" and roff != int(zr[1:]):
        return f"fixed offset changed to {roff}"
    return None


# ----------------------------------------------------------------------------- irregular region (coverage tag only)

def constructed_walls(op):
    """wall times (day ordinal, time of day) of the days the DateTime algorithm touches for this op: the instance's day,
    the first day of the unit, every occurrence it steps on up to the expected result (one past the unit when nth_of must
    fail) and the result day — at 00:00 and, for keep_time, at the instance's time of day. Before the repair (finding F11,
    now fixed) a skipped wall time among them broke the result; kept to tag the ops that exercise that region."""
    kind, u, n, wd, keep, x = _decode(op)
    zr, w, fold = x
    o = EPOCH_ORD + w // DAY
    tod = w % DAY
    d = dt.date.fromordinal(o)
    out = [(o, 0)]
    e = expected_date(kind, d, u, n, wd)
    if kind in ("next", "prev"):
        out.append((e, tod if keep else 0))
        return out
    lo, hi = unit_range(d, u)
    out.append((lo.toordinal(), 0))
    if u == 1:
        out.append((dt.date(d.year, hi.month, 1).toordinal(), 0))
    if u == 2:
        out.append((dt.date(d.year, 12, 1).toordinal(), 0))
    if kind == "nth":
        occ = scan(lo, hi, wd)
        steps = occ[:n] if n <= len(occ) else occ + [occ[-1] + 7]
        out.extend((k, 0) for k in steps)
    if e is not None:
        out.append((e, 0))
    return out


def touches_skipped(op):
    """zone-aware DateTime op for which a wall time of constructed_walls(op) is skipped in the value's zone"""
    if op[0][0] != "t":
        return False
    kind, u, n, wd, keep, x = _decode(op)
    name = D.zname(x[0])
    if name is None:
        return False
    for o, tod in constructed_walls(op):
        if len(D.wall_solutions(name, (o - EPOCH_ORD) * DAY + tod, YMAX)) == 0:
            return True
    return False


MATCHERS = {}      # F11 is repaired: no known finding is left for C16


# ----------------------------------------------------------------------------- coverage tags

def tag(op, out):
    kind, u, n, wd, keep, x = _decode(op)
    base = op[0] + (":%s" % UNITS[u] if kind in ("first", "last", "nth") else "")
    if out.startswith("err"):
        return base + ":" + out[4:]
    if op[0][0] == "t":
        name = D.zname(x[0])
        if name is not None and touches_skipped(op):
            return base + ":skipped-wall-time"
        return base + (":zone" if name else ":naive-or-fixed") + (":keep" if keep else "")
    d = dt.date.fromordinal(x)
    if kind in ("next", "prev"):
        e = int(out[3:])
        return base + (":crosses-month" if dt.date.fromordinal(e).month != d.month else ":plain")
    if kind == "nth":
        lo, hi = unit_range(d, u)
        cnt = len(scan(lo, hi, wd))
        return base + (":last-occurrence" if n == cnt else ":plain")
    if wd < 0:
        return base + ":no-weekday"
    return base + (":unit-starts-on-wd" if unit_range(d, u)[0 if kind == "first" else 1].weekday() == wd else ":plain")


TRIVIAL_TAGS = ("dnext:plain", "dprev:plain")
