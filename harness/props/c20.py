"""C20 — Time-of-day arithmetic wraps modulo 24 hours exactly."""
from __future__ import annotations

import datetime as dt

ID = "C20"
BACKENDS = ("py", "rs")          # Time.add runs through DateTime.add -> helpers.add_duration (is_leap of the backend)
GEN_MODULES = ("TimeOfDay",)
MIN_THEOREMS = 27
RULE = ("ops: tadd/tsub/tinv = Time.add/subtract/(add then subtract) with integer (h, m, s, us) of either sign, drawn "
        "per component from carry thresholds (59/60/61, 23/24/25, 999999/10^6/10^6+1), whole-day multiples, random "
        "magnitudes up to several days and cancelling mixtures, plus a few amounts that overflow the carrier date; taddf/tsubf = the same "
        "with `seconds` given as a float k/64 of either sign; "
        "taddtd/tsubtd = +/- a timedelta (method and operator entry points; stdlib timedelta and pendulum.Duration) "
        "with and without a day component (incl. every negative timedelta); tdiff/tminus/trminus = diff(abs) and the "
        "two operator forms on pairs incl. sub-second-only differences, with Time or datetime.time operands; "
        "tclosest/tfarthest on triples incl. candidates less than a second apart and ties. Times of day are sampled from "
        "boundaries (0, 1us, 23:59:59.999999, second/minute/hour edges) and uniformly. non-trivial = distinct op that "
        "wraps past midnight, triggers a carry, is rejected, has a sub-second difference or a tie")
EXHAUSTIVE = {"quick": False, "thorough": False}
TRUSTED = [
    "Model/TimeOfDay.lean is a hand model of src/pendulum/time.py (add/subtract through DateTime.EPOCH.at().add().time() with the "
    "carry code of helpers.add_duration; add_timedelta/subtract_timedelta/__add__/__sub__/__rsub__; diff; closest/farthest), tied by this correspondence run",
    "Gen/TimeOfDay.lean is regenerated from time.py by tools/gen_time.py on every run (diff, closest/farthest, the timedelta guards, "
    "operator dispatch per operand kind, the shape of add/subtract over the carrier) and proved equal to the model (*_source_eq_model); "
    "trusted there: the translator's reading of Python (isinstance over Time < time, timedelta; int truthiness; keyword binding), "
    "DateTime.add on the carrier (parameter dtAdd, hypothesis DtAddOk = the model's add) and total_seconds() of the two Duration classes (klassUs)",
    "datetime + timedelta on 1970-01-01T..Z and the years 1..9999 range check are the standard library's (modelled, not verified)",
    "the microsecond total of the returned Duration is read back from its components and from total_seconds(); both must agree",
    "oracle = integer arithmetic modulo 86_400_000_000 in this file (no pendulum, no datetime arithmetic)",
]
ASSUMPTIONS = [
    "amounts are Python ints, plus float `seconds` that are exact multiples of 1/64 s (taddf/tsubf; sent to the model as their exact "
    "value in microseconds); other floats are not exercised; Time operands are naive (tzinfo None)",
    "the model covers the repaired diff()/closest()/farthest() (fix commits in the repo); on the unrepaired code the oracle fails (F5)",
]

DAY = 86_400_000_000
US = 1_000_000
EPOCH_ORD, MAX_ORD = 719163, 3652059


# ----------------------------------------------------------------------------- generators

def _tod(rng):
    r = rng.random()
    if r < 0.25:
        return rng.choice((0, 1, DAY - 1, DAY - US, DAY - US + 1, US - 1, US, 59 * US, 60 * US, 3599 * US + 999999,
                           3600 * US, 12 * 3600 * US, 43_199_999_999, 3723000004))
    if r < 0.4:
        # close to a second / minute / hour edge
        base = rng.choice((US, 60 * US, 3600 * US)) * rng.randint(0, 23)
        return (base + rng.randint(-3, 3)) % DAY
    return rng.randrange(DAY)


def _comp(rng, kind):
    """one signed component; kind in h, m, s, u"""
    lim = {"h": 24, "m": 60, "s": 60, "u": US}[kind]
    r = rng.random()
    if r < 0.3:
        return 0
    sign = rng.choice((1, -1))
    if r < 0.45:
        return sign * rng.choice((1, lim - 1, lim, lim + 1, 2 * lim - 1, 2 * lim, 2 * lim + 1))
    if r < 0.6:
        return sign * lim * rng.randint(1, 9)            # whole multiples: carries with zero remainder
    if r < 0.85:
        return sign * rng.randint(1, lim * 7)
    big = {"h": 24 * 40, "m": 1440 * 9, "s": 86400 * 9, "u": DAY * 5}[kind]
    return sign * rng.randint(1, big)


def _amount(rng):
    r = rng.random()
    if r < 0.08:
        # cancelling mixture: total is small although components are large
        h = rng.randint(-50, 50)
        return (h, -60 * h + rng.randint(-2, 2), rng.randint(-61, 61), rng.randint(-2 * US, 2 * US))
    return (_comp(rng, "h"), _comp(rng, "m"), _comp(rng, "s"), _comp(rng, "u"))


def _td_us(rng):
    """a timedelta as total microseconds; about half without a day component"""
    r = rng.random()
    if r < 0.45:
        return rng.randrange(DAY)
    if r < 0.55:
        return rng.choice((0, 1, DAY - 1, DAY, DAY + 1, -1, -US, -DAY, 2 * DAY, US, 999999))
    if r < 0.75:
        return -rng.randrange(1, DAY)                     # negative: days == -1
    return rng.randint(-5 * DAY, 5 * DAY)


def gen_ops(rng, tier):
    n = {"quick": 60_000, "thorough": 1_500_000, "widen": 300_000}.get(tier, 30_000)
    # fixed boundary block
    edges = (0, 1, US - 1, US, DAY - 1, DAY - US, 3723500000, 3724250000)
    for a in edges:
        for b in edges:
            for ab in (0, 1):
                yield ("tdiff", a, b, ab, 0)
            yield ("tminus", a, b, 0)
            yield ("trminus", a, b)
    for t in edges:
        for amt in ((0, 0, 0, -1), (0, 0, 0, 1), (-24, 0, 0, 0), (24, 0, 0, 0), (-25, 61, -61, 1000001), (0, 0, -86401, 1500000),
                    (0, -1441, 0, 0), (23, 59, 59, 999999), (-23, -59, -59, -999999), (10 ** 8, 0, 0, 0), (-10 ** 8, 0, 0, 0),
                    (0, 0, 0, -719163 * DAY), (0, 0, 0, -719162 * DAY), (0, 0, 2932897 * 86400, 0), (0, 0, 2932896 * 86400, 0)):
            yield ("tadd", t) + amt
            yield ("tsub", t) + amt
    for _ in range(n):
        t = _tod(rng)
        yield ("tadd", t) + _amount(rng)
        yield ("tsub", t) + _amount(rng)
        yield ("tinv", _tod(rng)) + _amount(rng)
        if rng.random() < 0.3:
            # float `seconds` (what DateTime.add accepts): k/64 s, exactly representable, mostly non-integral, either sign
            h, m, _s, u = _amount(rng)
            k64 = rng.choice((rng.randint(-64 * 200, 64 * 200), rng.choice((-1, 1)) * rng.choice((1, 16, 32, 63, 65, 96, 3839, 3841)),
                              rng.randint(-3, 3) * 64))
            yield (rng.choice(("taddf", "tsubf")), _tod(rng), max(-99, min(99, h)), max(-999, min(999, m)), k64, max(-10 ** 7, min(10 ** 7, u)))
        x = _td_us(rng)
        yield ("taddtd", _tod(rng), x, rng.randint(0, 2))
        yield ("tsubtd", _tod(rng), x, rng.randint(0, 2))
        a = _tod(rng)
        r = rng.random()
        if r < 0.35:
            b = (a + rng.randint(-999999, 999999)) % DAY       # sub-second difference (what the suite never observes)
        elif r < 0.5:
            b = (a // US) * US + rng.randrange(US)             # same second
        else:
            b = _tod(rng)
        yield ("tdiff", a, b, rng.randint(0, 1), rng.randint(0, 1))
        yield ("tminus", a, b, rng.randint(0, 1))
        yield ("trminus", a, b)
        # closest / farthest: candidates often within one second of each other's distance
        t = _tod(rng)
        c1 = _tod(rng)
        r = rng.random()
        if r < 0.5:
            d1 = abs(c1 - t)
            d2 = d1 + rng.randint(-999999, 999999)
            c2 = rng.choice((t + d2, t - d2))
            if not 0 <= c2 < DAY:
                c2 = _tod(rng)
        elif r < 0.6:
            c2 = 2 * t - c1 if 0 <= 2 * t - c1 < DAY else c1   # exact tie
        else:
            c2 = _tod(rng)
        yield ("tclosest", t, c1, c2, rng.randint(0, 1))
        yield ("tfarthest", t, c1, c2, rng.randint(0, 1))


def corpus():
    return [
        ("tdiff", 3723500000, 3724250000, 1, 0),               # F5: Time(1,2,3,500000).diff(Time(1,2,4,250000))
        ("tdiff", 3724250000, 3723500000, 0, 0),
        ("tclosest", 0, 1200000, 1900000, 0),
        ("tfarthest", 0, 1900000, 1200000, 0),
        ("tadd", 3723000004, -30, 0, 0, 0),
        ("taddtd", 3723000000, -US, 1),
    ]


# ----------------------------------------------------------------------------- wire

def _td_fields(x):
    """(days, seconds, microseconds) of the standard library's floor-normalised timedelta. On CPython a
    pendulum.Duration reports the inherited `days` (so a negative Duration has days == -1 and is rejected like a
    timedelta) and, when days == 0, the same seconds/microseconds"""
    return x // DAY, x % DAY // US, x % US


def line(op, backend):
    k = op[0]
    if k in ("tadd", "tsub", "tinv"):
        return " ".join(str(v) for v in op)
    if k in ("taddf", "tsubf"):
        # the model takes integer amounts: the float seconds k/64 travel as their exact value in microseconds
        return "%s %d %d %d 0 %d" % ("tadd" if k == "taddf" else "tsub", op[1], op[2], op[3], op[5] + op[4] * 15625)
    if k in ("taddtd", "tsubtd"):
        d, s, u = _td_fields(op[2])
        return f"{k} {op[1]} {d} {s} {u}"
    if k == "tdiff":
        return f"tdiff {op[1]} {op[2]} {op[3]}"
    if k in ("tminus", "trminus"):
        return f"{k} {op[1]} {op[2]}"
    if k in ("tclosest", "tfarthest"):
        return f"{k} {op[1]} {op[2]} {op[3]}"
    return None


# ----------------------------------------------------------------------------- real code

_P = {}


def worker_init(backend):
    import pendulum
    _P["pendulum"] = pendulum
    _P["Time"] = pendulum.Time
    _P["Duration"] = pendulum.Duration


def _mk(t, native=False):
    h, r = divmod(t, 3600 * US)
    m, r = divmod(r, 60 * US)
    s, u = divmod(r, US)
    return dt.time(h, m, s, u) if native else _P["Time"](h, m, s, u)


def _us_of_time(x):
    if type(x) is not _P["Time"]:
        raise TypeError("NotATime:" + type(x).__name__)
    if x.tzinfo is not None:
        raise TypeError("AwareResult")
    return ((x.hour * 60 + x.minute) * 60 + x.second) * US + x.microsecond


def _us_of_duration(d):
    """total microseconds of a pendulum Duration, read from its components and cross-checked with total_seconds()"""
    if not isinstance(d, _P["Duration"]):
        raise TypeError("NotADuration:" + type(d).__name__)
    comp = (((d.weeks * 7 + d.remaining_days) * 24 + d.hours) * 60 + d.minutes) * 60 + d.remaining_seconds
    comp = comp * US + d.microseconds
    if d.years or d.months:
        raise ValueError("YearsMonthsInTimeDiff")
    tot = round(d.total_seconds() * US)
    if d.invert and comp > 0 and type(d).__name__ == "AbsoluteDuration":
        comp = -comp                                   # AbsoluteDuration keeps positive components + invert flag (a plain Duration
                                                       # carries the sign on its components)
    if abs(comp) != abs(tot) or (type(d).__name__ != "AbsoluteDuration" and comp != tot):
        raise ValueError("DurationInconsistent")       # a plain Duration: components (sign included) and total_seconds() are one value
    return tot


def impl(op, backend):
    k = op[0]
    if k in ("tadd", "tsub"):
        t = _mk(op[1])
        f = t.add if k == "tadd" else t.subtract
        return "ok %d" % _us_of_time(f(hours=op[2], minutes=op[3], seconds=op[4], microseconds=op[5]))
    if k in ("taddf", "tsubf"):
        t = _mk(op[1])
        f = t.add if k == "taddf" else t.subtract
        return "ok %d" % _us_of_time(f(hours=op[2], minutes=op[3], seconds=op[4] / 64, microseconds=op[5]))
    if k == "tinv":
        t = _mk(op[1])
        kw = dict(hours=op[2], minutes=op[3], seconds=op[4], microseconds=op[5])
        r = t.add(**kw)
        r2 = r.subtract(**kw)
        return "ok %d %d" % (_us_of_time(r), _us_of_time(r2))
    if k in ("taddtd", "tsubtd"):
        t = _mk(op[1])
        variant = op[3]
        if variant == 2:
            delta = _P["Duration"](microseconds=op[2])
        else:
            delta = dt.timedelta(microseconds=op[2])
        if k == "taddtd":
            r = (t + delta) if variant else t.add_timedelta(delta)
        else:
            r = (t - delta) if variant else t.subtract_timedelta(delta)
        return "ok %d" % _us_of_time(r)
    if k == "tdiff":
        d = _mk(op[1]).diff(_mk(op[2], native=bool(op[4])), bool(op[3]))
        us = _us_of_duration(d)
        if op[3] and d.total_seconds() < 0:
            return "err NegativeAbsolute"
        return "ok %d" % us
    if k == "tminus":
        return "ok %d" % _us_of_duration(_mk(op[1]) - _mk(op[2], native=bool(op[3])))
    if k == "trminus":
        # native time on the left: datetime.time.__sub__ is missing, so Time.__rsub__ runs
        return "ok %d" % _us_of_duration(_mk(op[1], native=True) - _mk(op[2]))
    if k in ("tclosest", "tfarthest"):
        t = _mk(op[1])
        a, b = _mk(op[2], native=bool(op[4])), _mk(op[3], native=bool(op[4]))
        r = t.closest(a, b) if k == "tclosest" else t.farthest(a, b)
        return "ok %d" % _us_of_time(r)
    raise ValueError(k)


# ----------------------------------------------------------------------------- oracle (integers only)

def _delta(op):
    if op[0] in ("taddf", "tsubf"):
        return (op[2] * 60 + op[3]) * 60 * US + op[4] * 15625 + op[5]
    return ((op[2] * 60 + op[3]) * 60 + op[4]) * US + op[5]


def _in_range(total):
    return 1 <= EPOCH_ORD + total // DAY <= MAX_ORD


def oracle(op, out, backend):
    k = op[0]
    if k in ("tadd", "tsub", "taddf", "tsubf"):
        total = op[1] + (_delta(op) if k in ("tadd", "taddf") else -_delta(op))
        if out == "err OverflowError":
            # allowed only when 1970-01-01 + amount leaves the representable dates (outside "several days")
            return None if not _in_range(total) else f"OverflowError for an amount of {total // DAY} days"
        exp = "ok %d" % (total % DAY)
        return None if out == exp else f"expected {exp} got {out}"
    if k == "tinv":
        total = op[1] + _delta(op)
        if out == "err OverflowError":
            return None if abs(_delta(op)) > 700000 * DAY else "OverflowError inside the domain"
        exp = "ok %d %d" % (total % DAY, op[1])
        return None if out == exp else f"expected {exp} got {out} (subtract does not undo add)"
    if k in ("taddtd", "tsubtd"):
        x = op[2]
        # a timedelta (or Duration) has a day component iff it is negative or >= 24 h
        if x < 0 or x >= DAY:
            return None if out == "err TypeError" else f"timedelta with a day component ({x} us) not rejected: {out}"
        exp = "ok %d" % ((op[1] + (x if k == "taddtd" else -x)) % DAY)
        return None if out == exp else f"expected {exp} got {out}"
    if k == "tdiff":
        d = op[2] - op[1]
        exp = "ok %d" % (abs(d) if op[3] else d)
        return None if out == exp else f"expected {exp} got {out}"
    if k in ("tminus", "trminus"):
        exp = "ok %d" % (op[1] - op[2])
        return None if out == exp else f"expected {exp} got {out}"
    if k in ("tclosest", "tfarthest"):
        t, a, b = op[1], op[2], op[3]
        da, db = abs(a - t), abs(b - t)
        if not out.startswith("ok "):
            return f"unexpected {out}"
        r = int(out[3:])
        if r not in (a, b):
            return f"result {r} is neither candidate"
        best = min(da, db) if k == "tclosest" else max(da, db)
        return None if abs(r - t) == best else f"chose distance {abs(r - t)} although {best} was available"
    return None


def tag(op, out):
    k = op[0]
    if out.startswith("err"):
        return k + ":" + out[4:]
    if k in ("taddf", "tsubf"):
        return k + (":integral" if op[4] % 64 == 0 else ":negative-fraction" if op[4] < 0 else ":positive-fraction")
    if k in ("tadd", "tsub", "tinv"):
        total = op[1] + (_delta(op) if k != "tsub" else -_delta(op))
        carry = abs(op[2]) > 23 or abs(op[3]) > 59 or abs(op[4]) > 59 or abs(op[5]) > 999999
        if total < 0:
            return k + (":wrap-back+carry" if carry else ":wrap-back")
        if total >= DAY:
            return k + (":wrap-forward+carry" if carry else ":wrap-forward")
        return k + (":carry" if carry else ":plain")
    if k in ("taddtd", "tsubtd"):
        total = op[1] + (op[2] if k == "taddtd" else -op[2])
        return k + (":wrap" if not 0 <= total < DAY else ":plain")
    if k in ("tdiff", "tminus", "trminus"):
        d = op[2] - op[1]
        if d == 0:
            return k + ":equal"
        if abs(d) < US:
            return k + ":subsecond"
        return k + (":fraction" if d % US else ":whole-seconds")
    if k in ("tclosest", "tfarthest"):
        da, db = abs(op[2] - op[1]), abs(op[3] - op[1])
        if da == db:
            return k + ":tie"
        return k + (":within-1s" if abs(da - db) < US else ":plain")
    return k


TRIVIAL_TAGS = ("tadd:plain", "tsub:plain", "tinv:plain", "taddtd:plain", "tsubtd:plain", "tdiff:whole-seconds",
                "tminus:whole-seconds", "trminus:whole-seconds", "tclosest:plain", "tfarthest:plain")
MATCHERS = {}
