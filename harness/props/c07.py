"""C07 — ISO 8601 / RFC 3339 date and time strings parse to the value they denote (both parser backends)."""
from __future__ import annotations

import calendar
import datetime as dt

from harness.common import enc_str

ID = "C07"
BACKENDS = ("py", "rs")
GEN_MODULES = ("Tables", "Helpers", "RsHelpers", "Parser", "IsoPy:datetime", "IsoRs:datetime", "IsoRs:glue")
MIN_THEOREMS = 37
RULE = ("ops: ('p', opts, string, expected, form). Strings are RENDERED from a value (date / time / fraction digits / offset) "
        "by this module with the standard library only; expected = that value. quick: every date of 10 pattern years "
        "(leap, long, century, 0001, 9999) in the 6 date forms (calendar/ordinal/week x basic/extended) + YYYY-MM, YYYY, "
        "YYYY-Www; month starts/ends of every 7th year 1..9999; random date-times (fraction 0-9 digits, '.'/',', 'T'/' ', "
        "Z/+-hh/+-hhmm/+-hh:mm to +-23:59, basic and extended); stand-alone times; impossible dates/ordinals/weeks/"
        "weekdays/times (expected = rejected); formatter round trips (isoformat, str, to_iso8601/rfc3339/atom/w3c_string) "
        "of UTC / fixed-offset DateTimes; a mutated (malformed) stream compared model-vs-code only. Each string is parsed "
        "by parse_iso8601 of the backend and by pendulum.parse(exact=..., tz=...). thorough: every date 1583..9999 x 6 forms. "
        "non-trivial = ordinal/week form, month or year boundary, fraction, offset, rejection or malformed input")
EXHAUSTIVE = {"quick": False, "thorough": True}
TRUSTED = [
    "Model/Iso.lean is a hand model of rust/src/parsing.rs (+ python/parsing.rs conversion), parsing/iso8601.py "
    "(regex ISO8601_DT as a deterministic first-match recogniser + post-processing), parsing/__init__.py "
    "(COMMON, fallback chain, _normalize) and parser.py; tied to the code by this correspondence run",
    "calendar arithmetic of the model goes through the regenerated Gen.Helpers/Gen.Tables (python) and Model/Rs.lean + "
    "Gen.rs_MONTHS_OFFSETS (rust); the theorems use C15's week_day_correct / days_in_year_spec / is_long_year_iff",
    "CPython datetime constructors (range checks), re, strptime('%Y-%j'), str.isdecimal digit table are modelled, not verified",
    "oracle: the value each string was rendered from (datetime.date.isocalendar / timetuple for week and ordinal forms)",
]
ASSUMPTIONS = [
    "durations (P...), intervals (a/b) and 'now' are outside this property's model (C13/C17); such strings are not sent to the model",
    "the `tz` option is exercised with fixed offsets and the default (UTC) only",
    "Rust u32/i32 arithmetic is modelled on unbounded integers (fields have at most 4 digits)",
]

NOW = (2001, 2, 3)

# ----------------------------------------------------------------------------- rendering (independent of pendulum)


def r_cal(ext, y, m, d):
    return f"{y:04d}-{m:02d}-{d:02d}" if ext else f"{y:04d}{m:02d}{d:02d}"


def r_ord(ext, y, n):
    return f"{y:04d}-{n:03d}" if ext else f"{y:04d}{n:03d}"


def r_week(ext, y, w, wd=None):
    if wd is None:
        return f"{y:04d}-W{w:02d}" if ext else f"{y:04d}W{w:02d}"
    return f"{y:04d}-W{w:02d}-{wd}" if ext else f"{y:04d}W{w:02d}{wd}"


def r_time(ext, h, mi, s, prec, frac=None, comma=False):
    c = ":" if ext else ""
    if prec == "h":
        return f"{h:02d}"
    if prec == "hm":
        return f"{h:02d}{c}{mi:02d}"
    t = f"{h:02d}{c}{mi:02d}{c}{s:02d}"
    if prec == "f":
        t += ("," if comma else ".") + frac
    return t


def r_off(off):
    """off = None | 'Z' | (neg, h, m|None, colon)"""
    if off is None:
        return ""
    if off == "Z":
        return "Z"
    neg, h, m, colon = off
    s = ("-" if neg else "+") + f"{h:02d}"
    if m is not None:
        s += (":" if colon else "") + f"{m:02d}"
    return s


def off_seconds(off):
    if off is None:
        return None
    if off == "Z":
        return 0
    neg, h, m, _ = off
    v = h * 3600 + (m or 0) * 60
    return -v if neg else v


def micros(frac):
    return int((frac + "000000")[:6]) if frac else 0


def show_off(o):
    return "none" if o is None else str(o)


def expect(opts, kind, date=None, time=None, off=None):
    """canonical reply for value (date=(y,m,d), time=(h,mi,s,us), off seconds|None) under the given options"""
    if opts == "iso":
        if kind == "date":
            return "ok date %d %d %d" % date
        if kind == "time":
            return "ok time %d %d %d %d %s" % (time + (show_off(off),))
        return "ok datetime %d %d %d %d %d %d %d %s" % (date + time + (show_off(off),))
    _, ex, tz = opts.split(":")
    dflt = 0 if tz == "none" else int(tz)
    if kind == "date":
        if ex == "1":
            return "ok date %d %d %d" % date
        return "ok datetime %d %d %d 0 0 0 0 %d" % (date + (dflt,))
    if kind == "time":
        if ex == "1":
            return "ok time %d %d %d %d none" % time
        return "ok datetime %d %d %d %d %d %d %d %d" % (NOW + time + (dflt,))
    return "ok datetime %d %d %d %d %d %d %d %d" % (date + time + (dflt if off is None else off,))


OPTS = ("iso", "pub:1:none", "pub:0:none", "pub:1:3600", "pub:0:-16200")


def date_forms(d: dt.date, with_reduced=False):
    """(form tag, string) for the six full date forms of a date"""
    y, m, dd = d.year, d.month, d.day
    n = d.timetuple().tm_yday
    iy, iw, iwd = d.isocalendar()
    out = [("cal-ext", r_cal(True, y, m, dd)), ("cal-basic", r_cal(False, y, m, dd)),
           ("ord-ext", r_ord(True, y, n)), ("ord-basic", r_ord(False, y, n))]
    if 1 <= iy <= 9999:
        out += [("week-ext", r_week(True, iy, iw, iwd)), ("week-basic", r_week(False, iy, iw, iwd))]
    return out


def p(opts, s, exp, form):
    return ("p", opts, s, exp, form)


def date_ops(d, rot, all_opts=False):
    """parse ops for one date in all forms; options rotate with `rot` unless all_opts"""
    dv = (d.year, d.month, d.day)
    for i, (form, s) in enumerate(date_forms(d)):
        if all_opts:
            for o in OPTS:
                yield p(o, s, expect(o, "date", dv), form)
        else:
            yield p("iso", s, expect("iso", "date", dv), form)
            o = OPTS[1 + (rot + i) % 4]
            yield p(o, s, expect(o, "date", dv), form)


def boundary(d):
    return d.day == 1 or d.day >= 28


def rand_off(rng):
    k = rng.randrange(8)
    if k == 0:
        return None
    if k == 1:
        return "Z"
    neg = rng.random() < 0.5
    h = rng.choice((0, 0, 1, 5, 12, 14, 23, rng.randint(0, 23)))
    if k == 2:
        return (neg, h, None, False)
    m = rng.choice((0, 30, 45, 59, rng.randint(0, 59)))
    return (neg, h, m, k % 2 == 0)


def rand_frac(rng):
    k = rng.randint(1, 9)
    if rng.random() < 0.2:
        return rng.choice(("0", "9", "000000", "999999", "000001", "0000001", "9999999", "999999999", "000000999", "5"))
    return "".join(rng.choice("0123456789") for _ in range(k))


def rand_time(rng):
    h = rng.choice((0, 23, 12, rng.randint(0, 23)))
    mi = rng.choice((0, 59, rng.randint(0, 59)))
    s = rng.choice((0, 59, rng.randint(0, 59)))
    return h, mi, s


def datetime_op(rng, d, opts=None):
    """one random well-formed date-time string for date d"""
    ext = rng.random() < 0.5
    forms = date_forms(d)
    form, ds = rng.choice([f for f in forms if f[0].endswith("ext" if ext else "basic")])
    h, mi, s = rand_time(rng)
    prec = rng.choice(("h", "hm", "hms", "f", "f", "f"))
    frac = rand_frac(rng) if prec == "f" else None
    comma = rng.random() < 0.4
    off = rand_off(rng)
    sep = rng.choice("T ")
    st = ds + sep + r_time(ext, h, mi, s, prec, frac, comma) + r_off(off)
    tv = (h, mi if prec != "h" else 0, s if prec in ("hms", "f") else 0, micros(frac))
    o = opts or rng.choice(OPTS)
    return p(o, st, expect(o, "datetime", (d.year, d.month, d.day), tv, off_seconds(off)), "dt:" + form + ":" + prec)


def time_ops(rng, n):
    for _ in range(n):
        ext = rng.random() < 0.6
        h, mi, s = rand_time(rng)
        prec = rng.choice(("hm", "hms", "f", "f")) if ext else rng.choice(("h", "hm", "hms", "f"))
        frac = rand_frac(rng) if prec == "f" else None
        off = rand_off(rng)
        tprefix = "T" if (not ext or rng.random() < 0.4) else ""
        st = tprefix + r_time(ext, h, mi, s, prec, frac, rng.random() < 0.4) + r_off(off)
        tv = (h, mi if prec != "h" else 0, s if prec in ("hms", "f") else 0, micros(frac))
        o = rng.choice(OPTS)
        yield p(o, st, expect(o, "time", None, tv, off_seconds(off)), "time:" + ("ext" if ext else "basic") + ("T" if tprefix else "") + ":" + prec)
    # bare basic times (no T designator): 'hh' and 'hhmmss' (hhmm is read as a year by both parsers)
    for _ in range(max(4, n // 50)):
        h, mi, s = rand_time(rng)
        for st, tv in ((f"{h:02d}", (h, 0, 0, 0)), (f"{h:02d}{mi:02d}{s:02d}", (h, mi, s, 0))):
            o = rng.choice(("iso", "pub:1:none"))
            yield p(o, st, expect(o, "time", None, tv, None), "time:bare-basic")


def reduced_ops(y, m):
    """YYYY-MM, YYYY (public parse only: the compiled parse_iso8601 leaves YYYY to the fallback), YYYY-Www / YYYYWww"""
    for o in OPTS:
        yield p(o, f"{y:04d}-{m:02d}", expect(o, "date", (y, m, 1)), "cal-ym")
    for o in OPTS[1:]:
        yield p(o, f"{y:04d}", expect(o, "date", (y, 1, 1)), "cal-y")
    yield p("iso", f"{y:04d}", None, "cal-y-iso")


def week_monday_ops(y):
    """YYYY-Www (no weekday) = Monday of that week, all weeks of ISO year y"""
    nweeks = dt.date(y, 12, 28).isocalendar()[1]
    for w in range(1, nweeks + 1):
        try:
            d = dt.date.fromisocalendar(y, w, 1)
        except ValueError:
            continue
        for ext in (True, False):
            for o in ("iso", "pub:1:none"):
                yield p(o, r_week(ext, y, w), expect(o, "date", (d.year, d.month, d.day)), "week-nowd-" + ("ext" if ext else "basic"))


def reject_ops(y):
    """impossible dates / ordinals / weeks / weekdays / times of year y: must be rejected"""
    leap = calendar.isleap(y)
    long_ = dt.date(y, 12, 28).isocalendar()[1] == 53
    bad = []
    for m in range(1, 13):
        last = calendar.monthrange(y, m)[1]
        for dd in (0, last + 1, 32):
            bad.append(("rej:day", r_cal(True, y, m, dd)))
            bad.append(("rej:day", r_cal(False, y, m, dd)))
    for m in (0, 13):
        bad.append(("rej:month", r_cal(True, y, m, 1)))
        bad.append(("rej:month", r_cal(False, y, m, 1)))
        bad.append(("rej:month", f"{y:04d}-{m:02d}"))
    for n in (0, 366 + (1 if leap else 0), 367, 400, 999):
        bad.append(("rej:ordinal", r_ord(True, y, n)))
        bad.append(("rej:ordinal", r_ord(False, y, n)))
    for w in (0, 54, 60, 99) + (() if long_ else (53,)):
        for wd in (None, 1, 7):
            bad.append(("rej:week", r_week(True, y, w, wd)))
            bad.append(("rej:week", r_week(False, y, w, wd)))
    for w in (1, 30, 52):
        for wd in (0, 8, 9):
            bad.append(("rej:weekday", r_week(True, y, w, wd)))
            bad.append(("rej:weekday", r_week(False, y, w, wd)))
    d0 = r_cal(True, y, 6, 15)
    for t in ("24:00", "24:00:00", "25:00", "12:60", "12:30:60", "12:30:61", "99:99:99"):
        bad.append(("rej:time", d0 + "T" + t))
        bad.append(("rej:time", t))
    for t in ("T2400", "T240000", "T1260", "T123060"):
        bad.append(("rej:time", r_cal(False, y, 6, 15) + t))
        bad.append(("rej:time", t))
    for form, s in bad:
        for o in ("iso", "pub:1:none", "pub:0:none"):
            yield p(o, s, "reject", form)


FMT_METHODS = ("isoformat", "str", "iso8601", "rfc3339", "atom", "w3c")


def fmt_ops(rng, n):
    for _ in range(n):
        o = rng.randint(1, 3652059)
        d = dt.date.fromordinal(o)
        h, mi, s = rand_time(rng)
        us = rng.choice((0, 0, 1, 999999, 500000, rng.randint(0, 999999)))
        off = rng.choice(("utc", 0, 3600, -3600, 19800, -16200, 86340, -86340, 60 * rng.randint(-1439, 1439)))
        meth = rng.choice(FMT_METHODS)
        if meth in ("atom", "w3c") and d.year < 1000:
            # the formatter's YYYY token does not zero-pad years < 1000 (property C08), the result is not an ISO string
            meth = "isoformat"
        yield ("fmt", meth, d.year, d.month, d.day, h, mi, s, us, off)


ALPH = "0123456789-:TW., +Z"


def mutate(rng, s):
    k = rng.randrange(4)
    i = rng.randrange(len(s) + 1)
    if k == 0 and s:
        i = min(i, len(s) - 1)
        return s[:i] + s[i + 1:]
    if k == 1:
        return s[:i] + rng.choice(ALPH) + s[i:]
    if k == 2 and s:
        i = min(i, len(s) - 1)
        return s[:i] + rng.choice(ALPH) + s[i + 1:]
    if k == 3 and len(s) > 1:
        return s[:i]
    return s + rng.choice(ALPH)


def fuzz_ops(rng, n):
    """malformed / unusual strings: model-vs-code comparison only (no expectation)"""
    seeds = ["2021-03-04", "20210304", "2021-063", "2021063", "2021-W09-4", "2021W094", "2021-W09", "2021-03", "2021",
             "2021-03-04T12:34:56.123456+01:00", "20210304T123456,5-0130", "2021-03-04 12:34", "T12:34:56Z", "12:34",
             "T1234", "123456", "12", "2021-063T12:34Z", "2021W094T12", "2021-03-04T12:34:56+01", "202103",
             "2021-03-04T12.5", "2021-03-04T12:34.5", "1:2:3", "2021-3-4", "0000-01-01", "9999-W52-6", "0999-W01-1"]
    for s in seeds:
        for o in ("iso", "pub:1:none", "pub:0:none"):
            yield p(o, s, None, "fuzz")
    specials = ["", " ", "\n", "2021-03-04\n", "٢٠٢١-٠٣-٠٤", "２０２１-03-04", "2021-03-04T12:34:56.1234567890", "2021-03-04T12:34:56+24:00",
                "2021-03-04T12:34:56+24:01", "2021-03-04T12:34:56-24:01", "2021-03-04T12:34:56+99:99", "2021-03-04T12:34:56+01:",
                "2021:03:04", "2021/03/04", "2021/03/04 12:34:56.5", "20210304 1:2", "2021 12:30", "12:", "12::30", "1:2|5",
                "20210230", "20211301", "2021-W04-", "2021-W041", "2021W04-1", "T", "T1", "Z", "+01:00", "2021-03-04T",
                "2021-03-04Z", "2021-03-04+01:00", "\x00", "2021-03-04T12:34:56\x00"]
    for s in specials:
        for o in ("iso", "pub:1:none"):
            yield p(o, s, None, "fuzz")
    for _ in range(n):
        s = rng.choice(seeds)
        for _ in range(rng.choice((1, 1, 2, 3))):
            s = mutate(rng, s)
        if rng.random() < 0.02:
            s = s.replace("0", "٠", 1)
        yield p(rng.choice(("iso", "iso", "pub:1:none", "pub:0:none")), s, None, "fuzz")


def exhaustive_small(maxlen=5, alphabet="12:-TW.+Z "):
    """all strings over a small alphabet up to a length: pins the regex first-match model"""
    import itertools
    for n in range(1, maxlen + 1):
        for t in itertools.product(alphabet, repeat=n):
            yield p("iso", "".join(t), None, "fuzz")


PATTERN_YEARS = (1, 4, 1000, 1583, 1600, 1900, 2000, 2020, 2021, 2024, 9998, 9999)


def gen_ops(rng, tier):
    if tier == "widen":
        for y in range(1583, 10000, 3):
            for m in range(1, 13):
                last = calendar.monthrange(y, m)[1]
                for dd in (1, last):
                    yield from date_ops(dt.date(y, m, dd), y + m, all_opts=False)
        for _ in range(200_000):
            yield datetime_op(rng, dt.date.fromordinal(rng.randint(577736, 3652059)))
        yield from time_ops(rng, 20000)
        return
    # --- every date of the pattern years, all six forms
    if tier == "thorough":
        first, last = dt.date(1583, 1, 1).toordinal(), dt.date(9999, 12, 31).toordinal()
        for o in range(first, last + 1):
            d = dt.date.fromordinal(o)
            dv = (d.year, d.month, d.day)
            bnd = boundary(d)
            for i, (form, s) in enumerate(date_forms(d)):
                yield p("iso", s, "ok date %d %d %d" % dv, form)
                if bnd:
                    oo = OPTS[1 + (o + i) % 4]
                    yield p(oo, s, expect(oo, "date", dv), form)
            if o % 97 == 0:
                yield datetime_op(rng, d)
        years = PATTERN_YEARS
    else:
        years = PATTERN_YEARS
    for y in years:
        d = dt.date(y, 1, 1)
        while True:
            yield from date_ops(d, d.toordinal(), all_opts=(d.day in (1, 28, 29, 30, 31)))
            if d.month == 12 and d.day == 31:
                break
            d += dt.timedelta(days=1)
        yield from week_monday_ops(y)
        for m in range(1, 13):
            yield from reduced_ops(y, m)
        yield from reject_ops(y)
    # --- month starts/ends of many years
    step = 7 if tier == "quick" else 1
    for y in range(1, 10000, step):
        for m in range(1, 13):
            lastd = calendar.monthrange(y, m)[1]
            for dd in (1, lastd):
                yield from date_ops(dt.date(y, m, dd), y + m)
        if y % 50 == 0 or tier != "quick":
            yield from reduced_ops(y, 1 + y % 12)
        if y % 200 == 3:
            yield from reject_ops(y)
            yield from week_monday_ops(y)
    # --- random date-times, times, formatter round trips, malformed stream
    n = 40_000 if tier == "quick" else 600_000
    for _ in range(n):
        lo = 1 if rng.random() < 0.2 else 577736   # 1583-01-01
        yield datetime_op(rng, dt.date.fromordinal(rng.randint(lo, 3652059)))
    yield from time_ops(rng, n // 4)
    yield from fmt_ops(rng, n // 4)
    yield from fuzz_ops(rng, n // 2)
    yield from exhaustive_small(5 if tier == "quick" else 6)


def corpus():
    out = []
    for s, dv in (("2021-031", (2021, 1, 31)), ("2021-059", (2021, 2, 28)), ("2021-365", (2021, 12, 31)), ("2020-366", (2020, 12, 31)),
                  ("2021-W04-7", (2021, 1, 31)), ("2021031", (2021, 1, 31)), ("2021W047", (2021, 1, 31)), ("9999-W52-5", (9999, 12, 31))):
        for o in ("iso", "pub:1:none"):
            out.append(p(o, s, expect(o, "date", dv), "corpus:F1"))
    for s in ("2021-W00", "2021-W00-1", "2021-W01-0", "2021W010", "2021W00"):
        for o in ("iso", "pub:1:none"):
            out.append(p(o, s, "reject", "corpus:F07a"))
    for s, tv in (("T12:34:56", (12, 34, 56, 0)), ("T12:34:56.5", (12, 34, 56, 500000))):
        for o in ("iso", "pub:1:none"):
            out.append(p(o, s, expect(o, "time", None, tv, None), "corpus:F07b"))
    return out


def modelled(s):
    return not (s.startswith("P") or "/" in s or s == "now")


def line(op, backend):
    if op[0] == "p":
        if not modelled(op[2]):
            return None
        return " ".join(("parse", backend, op[1], enc_str(op[2])))
    if op[0] == "fmt":
        return " ".join(["fmt", backend] + [str(x) for x in op[1:]])
    return None


_H = {}


def worker_init(backend):
    import pendulum
    from pendulum.parsing import parse_iso8601
    from pendulum.parsing.exceptions import ParserError
    from pendulum.tz.timezone import FixedTimezone
    _H.update(pendulum=pendulum, iso=parse_iso8601, PE=ParserError, FT=FixedTimezone,
              now=dt.datetime(*NOW, 4, 5, 6))


def _off(v):
    if v.tzinfo is None:
        return "none"
    try:
        o = v.utcoffset()
    except ValueError:
        return "x"
    if o is None:
        return "none"
    sec = o.days * 86400 + o.seconds
    if o.microseconds:
        return "frac"
    return str(sec)


def show(v, public):
    P = _H["pendulum"]
    if isinstance(v, dt.datetime):
        if public and not isinstance(v, P.DateTime):
            return "err WrongType"
        return "ok datetime %d %d %d %d %d %d %d %s" % (v.year, v.month, v.day, v.hour, v.minute, v.second, v.microsecond, _off(v))
    if isinstance(v, dt.date):
        if public and not isinstance(v, P.Date):
            return "err WrongType"
        return "ok date %d %d %d" % (v.year, v.month, v.day)
    if isinstance(v, dt.time):
        if public and not isinstance(v, P.Time):
            return "err WrongType"
        return "ok time %d %d %d %d %s" % (v.hour, v.minute, v.second, v.microsecond, _off(v))
    return "ok other " + type(v).__name__


def _parse(opts, s):
    if opts == "iso":
        return show(_H["iso"](s), False)
    _, ex, tz = opts.split(":")
    kw = dict(exact=(ex == "1"), now=_H["now"])
    if tz != "none":
        kw["tz"] = _H["FT"](int(tz))
    return show(_H["pendulum"].parse(s, **kw), True)


def impl(op, backend):
    if op[0] == "p":
        try:
            return _parse(op[1], op[2])
        except Exception as e:  # noqa: BLE001
            return "err " + type(e).__name__
    if op[0] == "fmt":
        P = _H["pendulum"]
        _, meth, y, m, d, h, mi, s, us, off = op
        tz = P.UTC if off == "utc" else _H["FT"](off)
        v = P.datetime(y, m, d, h, mi, s, us, tz=tz)
        st = {"isoformat": v.isoformat, "str": v.__str__, "iso8601": v.to_iso8601_string, "rfc3339": v.to_rfc3339_string,
              "atom": v.to_atom_string, "w3c": v.to_w3c_string}[meth]()
        try:
            r = show(P.parse(st), True)
        except Exception as e:  # noqa: BLE001
            r = "err " + type(e).__name__
        return "ok " + enc_str(st) + " " + r[3:] if r.startswith("ok ") else r + " " + enc_str(st)
    raise ValueError(op[0])


REJECT = ("err ParserError", "err ValueError")


def oracle(op, out, backend):
    if op[0] == "p":
        exp = op[3]
        if exp is None:
            return None
        if exp == "reject":
            return None if out in REJECT else f"impossible value accepted or wrong error: {out!r} for {op[2]!r}"
        if out != exp:
            return f"{op[2]!r} [{op[1]}] expected {exp!r} got {out!r}"
        return None
    if op[0] == "fmt":
        _, meth, y, m, d, h, mi, s, us, off = op
        if meth in ("atom", "w3c"):
            us = 0
        o = 0 if off == "utc" else off
        want = "datetime %d %d %d %d %d %d %d %d" % (y, m, d, h, mi, s, us, o)
        parts = out.split(" ", 2)
        if len(parts) < 3 or parts[0] != "ok" or parts[2] != want:
            return f"parse({meth}(value)) != value: want {want!r} got {out!r}"
        return None
    return None


def tag(op, out):
    if op[0] == "fmt":
        return "fmt:" + op[1]
    form = op[4]
    if form == "fuzz":
        return "fuzz:" + out.split(" ")[1 if out.startswith("ok") else 1]
    if form.startswith(("cal-ext", "cal-basic")):
        s = op[2]
        return form + (":boundary" if s[-2:] in ("01", "28", "29", "30", "31") else ":mid")
    return form.split(":")[0] + (":" + form.split(":")[1] if ":" in form else "")


TRIVIAL_TAGS = ("cal-ext:mid", "cal-basic:mid")

MATCHERS = {
    # F20: the compiled parser needs the `T` designator (or a colon) to read a time; bare `hh` / `hhmmss` are read as a
    # truncated year -> rejected, while the pure-Python parser returns a Time
    "bare_basic_time_rs": lambda op, backend, out, viol: op[0] == "p" and op[4] == "time:bare-basic" and backend == "rs"
    and out in REJECT,
}
