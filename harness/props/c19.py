"""C19 — Interval.range() steps from the start without drift and stays inside."""
from __future__ import annotations

import calendar
import datetime as dt

from harness import dtutil as D
from harness import zones as Z

ID = "C19"
BACKENDS = ("py", "rs")
GEN_MODULES = ("Interval:source", "Interval:range", "Interval:endpoints")
MIN_THEOREMS = 25
US = D.US
DAY = 86400 * US
YMAX = Z.YMAX_QUICK
UNITS = ("years", "months", "weeks", "days", "hours", "minutes", "seconds", "microseconds")
UNIT_US = {2: 7 * DAY, 3: DAY, 4: 3600 * US, 5: 60 * US, 6: US, 7: 1}
M61 = 2305843009213693951
RULE = ("range ops: Interval(a, b, absolute).range(unit, amount) (and plain iteration for days/1): forward / inverted / absolute x 8 "
        "units (4 for Date) x amounts 1..12 x target lengths 0..limit (quick 10^3, thorough 10^4; mostly short, a share long) x "
        "ends placed exactly on / 1 us before / after / between reachable values x starts on days 28-31 for month and year stepping x "
        "naive/UTC/fixed/Date/named zones (same zone and end in another zone), plus ranges in minutes/hours/days through every "
        "kind of gap/overlap of 40 zones with the end before/inside (fold 0/1)/after, and day ranges across the whole-day skips of "
        "Kiritimati/Apia/Kwajalein/Tongatapu. in ops: x in interval for x at/around both endpoints and yielded values. "
        "non-trivial = zone-aware, month-end clamping, inverted/absolute or crossing a transition")
EXHAUSTIVE = {"quick": False, "thorough": False}
TRUSTED = [
    "Model/Range.lean (rangeLoop, stepOf, insideOf, containsIv) is a hand model of Interval.range/__iter__/__contains__ over "
    "Model/DTOps.add (shared with C03/C04), tied by this correspondence run (count, hash of all (wall, offset) pairs, first two and last value)",
    "oracle: own calendar add on stdlib datetime + tz tables (gap: forward by the gap, ambiguous: second pass, as documented for add()), "
    "list cut at the end by instant comparison",
]
ASSUMPTIONS = [
    "amount >= 1 (range() with amount <= 0 does not terminate; not part of the property)",
    "named zones: POSIX rule tails expanded to year 2100; generated values stay below that",
]

ZONES = ["UTC", "Europe/Paris", "America/New_York", "Asia/Kathmandu", "Australia/Lord_Howe", "Pacific/Apia",
         "Pacific/Kiritimati", "Africa/Monrovia", "America/St_Johns", "America/Sao_Paulo", "Europe/Amsterdam",
         "Asia/Tokyo", "Antarctica/Troll", "Europe/London", "Africa/Casablanca", "America/Caracas", "Asia/Tehran",
         "Pacific/Chatham", "Europe/Dublin", "America/Havana", "Asia/Kolkata", "Australia/Sydney", "Pacific/Tongatapu",
         "America/Argentina/Buenos_Aires", "Asia/Pyongyang", "Europe/Moscow", "Africa/Cairo", "America/Anchorage",
         "Atlantic/Azores", "Asia/Gaza", "America/Godthab", "Pacific/Norfolk", "Asia/Dhaka", "Europe/Lisbon",
         "America/Santiago", "Africa/Windhoek", "Asia/Amman", "Pacific/Fiji", "America/Mexico_City", "Pacific/Kwajalein"]
ZIDX = [str(D.ZI[n]) for n in ZONES if n in D.ZI]
FIXED = ["f0", "f%d" % (3600 * US), "f%d" % (-5 * 3600 * US - 1800 * US), "f%d" % ((45 * 60 + 17) * US), "f%d" % (14 * 3600 * US)]


def preamble():
    return D.preamble(YMAX)


def _w(y, m, d, h=0, mi=0, s=0, us=0):
    return Z.to_us(dt.datetime(y, m, d, h, mi, s, us))


def _ref_add_wall(w, unit, k):
    """independent calendar/clock add on a naive wall value (µs); None when out of range"""
    if unit >= 2:
        r = w + k * UNIT_US[unit]
        return r if D.MIN_US <= r <= D.MAX_US else None
    x = Z.from_us(w)
    idx = x.year * 12 + (x.month - 1) + (12 * k if unit == 0 else k)
    yy, mm = divmod(idx, 12)
    mm += 1
    if not (1 <= yy <= 9999):
        return None
    dd = min(x.day, calendar.monthrange(yy, mm)[1])
    return Z.to_us(x.replace(year=yy, month=mm, day=dd))


def _exists(zr, w):
    """the wall value is a genuine local time of the zone (pendulum never produces values inside a gap)"""
    return zr[0] in "nfd" or len(D.wall_solutions(D.ZN[int(zr)], w, YMAX)) >= 1


def _limit(tier):
    return 10_000 if tier == "thorough" else 1_000


def _gen_plain(rng, tier, n):
    limit = _limit(tier)
    lo_named, hi_named = _w(1850, 1, 1), Z.limit_us(YMAX) - 3 * DAY
    for _ in range(n):
        kind = rng.choice(("naive", "utc", "fixed", "date", "zone", "zone", "cross"))
        unit = rng.randrange(4 if kind == "date" else 8)
        amount = rng.randint(1, 12)
        r = rng.random()
        count = rng.randint(0, 40) if r < 0.9 else rng.randint(0, limit - 2) if r < 0.97 else limit - rng.randint(2, 4)
        if unit == 0:
            count = min(count, 600 // amount)
        elif unit == 1:
            count = min(count, 7000 // amount)
        named = kind in ("zone", "cross")
        if named:
            count = min(count, {0: 200 // amount, 1: 2400 // amount}.get(unit, count))
        direction = rng.choice(("fwd", "fwd", "inv", "abs", "absinv"))
        sgn = -1 if direction in ("inv", "absinv") else 1
        lo, hi = (lo_named, hi_named) if named else (D.MIN_US + 3 * DAY, D.MAX_US - 3 * DAY)
        for _try in range(6):
            wa = rng.randint(lo, hi)
            if rng.random() < 0.5:
                wa -= wa % US
            if unit <= 1 and rng.random() < 0.7:
                x = Z.from_us(wa)
                wa = Z.to_us(x.replace(day=min(rng.choice((28, 29, 30, 31)), calendar.monthrange(x.year, x.month)[1])))
            if kind == "date":
                wa -= wa % DAY
            wb = _ref_add_wall(wa, unit, sgn * amount * count)
            if wb is None or not (lo <= wb <= hi):
                continue
            break
        else:
            continue
        # place the end: exactly reachable / just short / just beyond / in between
        step_us = amount * UNIT_US.get(unit, 31 * DAY)
        jit = rng.choice((0, 0, 0, -1, 1, rng.randint(-step_us, step_us), rng.randint(-step_us, step_us) // 2))
        if kind == "date":
            jit = rng.choice((0, 0, -DAY, DAY))
        wb = max(lo, min(hi, wb + jit))
        if kind == "naive":
            za = zb = "n"
        elif kind == "utc":
            za = zb = ZIDX[0]
        elif kind == "fixed":
            za = zb = rng.choice(FIXED)
        elif kind == "date":
            za = zb = "d"
        elif kind == "zone":
            za = zb = rng.choice(ZIDX)
        else:
            za, zb = rng.choice(ZIDX), rng.choice(ZIDX + FIXED)
        fa, fb = (rng.randint(0, 1), rng.randint(0, 1)) if named else (0, 0)
        ab = int(direction in ("abs", "absinv"))
        if not (_exists(za, wa) and _exists(zb, wb)):
            continue
        yield ("range", unit, amount, za, wa, fa, zb, wb, fb, ab, limit)
        if rng.random() < 0.3:
            # containment of points around the interval
            for wx in (wa, wb, wa - 1, wb + 1, (wa + wb) // 2, wa + rng.randint(-DAY, DAY)):
                if kind == "date":
                    wx -= wx % DAY
                if lo <= wx <= hi:
                    zx = za if rng.random() < 0.7 or kind in ("naive", "date") else rng.choice((ZIDX if named else []) + FIXED)
                    if not _exists(zx, wx):
                        continue
                    yield ("in", za, wa, fa, zb, wb, fb, ab, zx, wx, rng.randint(0, 1) if zx[0] not in "nfd" else 0)


def _gen_transitions(rng, per_zone):
    lim = Z.limit_us(YMAX)
    for zi in ZIDX:
        name = D.ZN[int(zi)]
        irr = [x for x in Z.irregular(name, YMAX) if x[1] * US > _w(1850, 1, 1) and x[2] * US < lim - 400 * DAY]
        if not irr:
            continue
        pick = irr if len(irr) <= per_zone else [irr[0], irr[-1]] + rng.sample(irr[1:-1], per_zone - 2)
        for kind, lo, hi, t, ob, oa in pick:
            lo, hi = lo * US, hi * US
            size = hi - lo
            for unit, amount in ((5, rng.choice((1, 7, 10, 15, 30))), (4, 1), (3, 1), (6, rng.choice((600, 900, 1800)))):
                if unit == 6 and size > 2 * 3600 * US:
                    continue
                back = {5: 3 * 3600 * US, 4: 5 * 3600 * US, 3: 3 * DAY, 6: 3600 * US}[unit]
                wa = lo - back + rng.choice((0, 0, 60 * US, 1))
                ends = [(lo - 1, 0), (hi, 0), (hi + back, 0), (lo + size // 2, 0), (lo + size // 2, 1), (lo, 0), (lo, 1), (hi - 1, 1)]
                if kind == "gap":
                    ends = [e for e in ends if not (lo <= e[0] < hi)] + [(hi + 1800 * US, 0), (lo - 60 * US, 0)]
                for wb, fb in rng.sample(ends, 4):
                    ab = int(rng.random() < 0.15)
                    if rng.random() < 0.25:
                        yield ("range", unit, amount, zi, wb, fb, zi, wa, 0, ab, 2000)      # inverted
                    else:
                        yield ("range", unit, amount, zi, wa, 0, zi, wb, fb, ab, 2000)
                    if rng.random() < 0.2:
                        yield ("range", unit, amount, zi, wa, 0, ZIDX[0], wb - ob * US, 0, ab, 2000)   # end given in UTC
            # containment around the transition
            for wx, fx in ((lo + size // 2, 0), (lo + size // 2, 1), (lo - 1, 0), (hi, 0)):
                if kind == "gap" and lo <= wx < hi:
                    continue
                wend = lo + size // 4 if kind == "fold" else hi + size // 4
                yield ("in", zi, lo - 3600 * US, 0, zi, wend, rng.randint(0, 1), 0, zi, wx, fx)
                yield ("in", zi, lo - 3600 * US, 0, ZIDX[0], wend - ob * US, 0, 0, zi, wx, fx)
            # time of day inside the gap/overlap, stepping by days/weeks/months across it
            wa = lo + size // 2 - 5 * DAY
            for unit, amount in ((3, 1), (3, 2), (2, 1), (1, 1)):
                if unit == 1:
                    x = Z.from_us(lo + size // 2)
                    if x.month <= 3 or x.year < 1852:
                        continue
                    wa1 = Z.to_us(x.replace(month=x.month - 3, day=min(x.day, 28))) if x.day <= 28 else None
                    if wa1 is None:
                        continue
                    yield ("range", unit, amount, zi, wa1, 0, zi, _ref_add_wall(wa1, 1, 6), 0, 0, 2000)
                else:
                    yield ("range", unit, amount, zi, wa, 0, zi, wa + 12 * DAY, 0, 0, 2000)


def _endpoints(op):
    if op[0] == "range":
        return ((op[3], op[4]), (op[6], op[7]))
    return ((op[1], op[2]), (op[4], op[5]), (op[8], op[9]))


def gen_ops(rng, tier):
    import itertools
    for op in itertools.chain(_gen_transitions(rng, {"quick": 6, "thorough": 40, "widen": 15}[tier]),
                              _gen_plain(rng, tier, {"quick": 12_000, "thorough": 60_000, "widen": 60_000}[tier])):
        if all(_exists(z, w) for z, w in _endpoints(op)):
            yield op


def corpus():
    kir, apia, paris = str(D.ZI["Pacific/Kiritimati"]), str(D.ZI["Pacific/Apia"]), str(D.ZI["Europe/Paris"])
    return [
        ("range", 3, 1, kir, _w(1994, 12, 29, 12), 0, kir, _w(1995, 1, 3, 12), 0, 0, 1000),     # F15 whole-day skip
        ("range", 3, 1, apia, _w(2011, 12, 28, 12), 0, apia, _w(2012, 1, 2, 12), 0, 0, 1000),    # F15
        ("range", 5, 10, paris, _w(2013, 10, 27, 1, 0), 0, paris, _w(2013, 10, 27, 2, 30), 0, 0, 1000),   # F16: end in the first pass
        ("range", 1, 1, "n", _w(2021, 1, 31), 0, "n", _w(2021, 12, 31), 0, 0, 1000),            # month-end clamping without drift
        ("range", 0, 1, "d", _w(2020, 2, 29), 0, "d", _w(2032, 2, 29), 0, 0, 1000),
        ("range", 3, 1, "d", _w(2021, 3, 5), 0, "d", _w(2021, 3, 1), 0, 0, 1000),               # inverted Date interval
        ("in", paris, _w(2013, 10, 27, 1, 0), 0, paris, _w(2013, 10, 27, 2, 30), 0, 0, paris, _w(2013, 10, 27, 2, 10), 1),
    ]


# ------------------------------------------------------------------------------------------------ wire

def line(op, backend):
    if op[0] == "range":
        return "c19range " + " ".join(str(x) for x in op[1:])
    return "c19in " + " ".join(str(x) for x in op[1:])


_P = {}


def worker_init(backend):
    import pendulum
    _P.update(p=pendulum)


def _mk_val(zr, w, fold):
    p = _P["p"]
    if zr == "d":
        return p.Date(*D.fields(w)[:3])
    return D.mk(zr, w, fold)


def _wo(x):
    if isinstance(x, dt.datetime):
        o = x.utcoffset()
        off = 0 if o is None else (o.days * 86400 + o.seconds) * US + o.microseconds
        return Z.to_us(x), off
    return (x.toordinal() - 719163) * DAY, 0


def _hash(pairs):
    h = 7
    for w, o in pairs:
        h = (h * 1000003 + w % M61) % M61
        h = (h * 1000003 + o % M61) % M61
    return h


def _fmt(pairs):
    n = len(pairs)
    pick = lambda i: pairs[i] if 0 <= i < n else (0, 0)      # noqa: E731
    a, b, c = pick(0), pick(1), pick(n - 1)
    return "ok %d %d %d %d %d %d %d %d" % (n, _hash(pairs), a[0], a[1], b[0], b[1], c[0], c[1])


def impl(op, backend):
    p = _P["p"]
    if op[0] == "in":
        _, za, wa, fa, zb, wb, fb, ab, zx, wx, fx = op
        iv = p.Interval(_mk_val(za, wa, fa), _mk_val(zb, wb, fb), absolute=bool(ab))
        return "ok %d" % int(_mk_val(zx, wx, fx) in iv)
    _, unit, amount, za, wa, fa, zb, wb, fb, ab, limit = op
    iv = p.Interval(_mk_val(za, wa, fa), _mk_val(zb, wb, fb), absolute=bool(ab))
    # An Interval can be iterated any number of times, also after an abandoned or a still-running iteration: a
    # deterministic function of the op chooses a HISTORY on the same object before the measured iteration.
    hist = (wa // 1000003 + wb // 7 + unit + amount) % 4
    try:
        if hist == 1:
            g = iv.range(UNITS[unit], amount)
            next(g, None)
            next(g, None)          # abandoned after two values
        elif hist == 2:
            for k, _x in enumerate(iv.range(UNITS[unit], amount)):
                if k > limit:
                    break          # a complete (or capped) earlier iteration
        elif hist == 3:
            g1 = iv.range(UNITS[unit], amount)
            next(g1, None)         # a generator still in flight while the measured one runs
            _ = (_mk_val(za, wa, fa) in iv)
    except (OverflowError, ValueError):
        pass
    it = iter(iv) if (unit == 3 and amount == 1 and (wa + wb) % 2 == 0) else iv.range(UNITS[unit], amount)
    if unit == 3 and amount == 1 and (wa + wb) % 2 == 0 and (wa + wb) % 4 == 0:
        # direct iteration through consumers that ask the interval for a length hint first (list / tuple / unpacking)
        it = (list(iv), tuple(iv), [*iv])[(wa // 4 + wb) % 3]
    pairs = []
    for x in it:
        pairs.append(_wo(x))
        if len(pairs) > limit:
            return "err TooMany"
    return _fmt(pairs)


# ------------------------------------------------------------------------------------------------ oracle

def _inst_of(zr, w, fold):
    if zr in ("n", "d"):
        return w
    if zr[0] == "f":
        return w - int(zr[1:])
    return w - Z.off_us(D.native(zr, w, fold))


def _normalise(zr, w):
    """(wall, offset) of the wall value w requested in zone zr, by the documented rule of add():
    skipped time -> moved forward by the gap, repeated time -> second pass"""
    if zr in ("n", "d"):
        return w, 0
    if zr[0] == "f":
        return w, int(zr[1:])
    name = D.ZN[int(zr)]
    sols = D.wall_solutions(name, w, YMAX)
    if len(sols) >= 1:
        return w, w - max(sols)
    g = next(g for g in Z.irregular(name, YMAX) if g[0] == "gap" and g[1] <= w // US < g[2])
    return w + (g[5] - g[4]) * US, g[5] * US


def _from_instant(zr, u):
    if zr[0] == "f":
        o = int(zr[1:])
    else:
        o = Z.offset_at(D.ZN[int(zr)], u // US, YMAX) * US
    return u + o, o


def _candidates(op, upto, beyond=2):
    """[(wall, off, instant)] for k = 0.. : start.add(unit = ±k*amount) computed independently, from the start each
    time; stops `beyond` elements after the first one past the end (or at `upto`)"""
    _, unit, amount, za, wa, fa, zb, wb, fb, ab, limit = op
    ia, ib = _inst_of(za, wa, fa), _inst_of(zb, wb, fb)
    inv = ia > ib
    if ab and inv:
        za, wa, fa, ia, zb, wb, fb, ib = zb, wb, fb, ib, za, wa, fa, ia
    sgn = -1 if (inv and not ab) else 1
    start_off = wa - ia if za not in ("n", "d") else 0
    out = []
    past = 0
    for k in range(upto):
        if k == 0:
            w, o = wa, start_off
        elif unit >= 4 and za not in ("n", "d"):
            u = ia + sgn * k * amount * UNIT_US[unit]
            w, o = _from_instant(za, u)
        else:
            r = _ref_add_wall(wa, unit, sgn * k * amount)
            if r is None:
                break
            w, o = _normalise(za, r)
        out.append((w, o, w - o))
        if (w - o - ib) * sgn > 0:
            past += 1
            if past > beyond:
                break
    return out, (za, wa, fa, ia), (zb, wb, fb, ib), sgn


def _expected(op):
    limit = op[-1]
    cands, st, en, sgn = _candidates(op, limit + 3)
    exp = []
    for (w, o, i) in cands:
        if (i - en[3]) * sgn > 0:
            break
        exp.append((w, o, i))
    return exp, cands, st, en, sgn


def oracle(op, out, backend):
    if op[0] == "in":
        _, za, wa, fa, zb, wb, fb, ab, zx, wx, fx = op
        ia, ib, ix = _inst_of(za, wa, fa), _inst_of(zb, wb, fb), _inst_of(zx, wx, fx)
        if ab and ia > ib:
            ia, ib = ib, ia
        want = int(ia <= ix <= ib)
        return None if out == "ok %d" % want else f"x in interval: expected {want} (start <= x <= end by instants), got {out}"
    exp, cands, st, en, sgn = _expected(op)
    if len(exp) > op[-1]:
        return None if out == "err TooMany" else f"expected more than {op[-1]} values, got {out}"
    # the property's own requirements on the sequence
    for j in range(1, len(exp)):
        if (exp[j][2] - exp[j - 1][2]) * sgn <= 0:
            why = ("two consecutive requested wall times normalise to the same value" if exp[j][:2] == exp[j - 1][:2]
                   else "the requested values are not strictly monotone")
            if out == _fmt([e[:2] for e in exp]):
                return f"{why}: elements {j - 1},{j} = {exp[j - 1][:2]},{exp[j][:2]}"
    want = _fmt([e[:2] for e in exp])
    if out != want:
        return (f"sequence differs from [start.add({UNITS[op[1]]}=k*{op[2]})] cut at the end by instants: got {out[:90]}, expected "
                f"{want[:90]}")
    return None


def _wall_order_differs(zr1, w1, i1, zr2, w2, i2):
    return zr1 == zr2 and zr1[0] not in "nfd" and ((w1 > w2) - (w1 < w2)) != ((i1 > i2) - (i1 < i2))


def _m_wallorder(op, backend, out, viol):
    """both compared values carry the same tzinfo and their wall-clock order differs from their instant order"""
    if op[0] == "in":
        _, za, wa, fa, zb, wb, fb, ab, zx, wx, fx = op
        ia, ib, ix = _inst_of(za, wa, fa), _inst_of(zb, wb, fb), _inst_of(zx, wx, fx)
        return (_wall_order_differs(za, wa, ia, zx, wx, ix) or _wall_order_differs(zb, wb, ib, zx, wx, ix)
                or (ab and _wall_order_differs(za, wa, ia, zb, wb, ib)))
    _, unit, amount, za, wa, fa, zb, wb, fb, ab, limit = op
    ia, ib = _inst_of(za, wa, fa), _inst_of(zb, wb, fb)
    if _wall_order_differs(za, wa, ia, zb, wb, ib):
        return True
    n_out = int(out.split()[1]) if out.startswith("ok ") else 0
    cands, st, en, sgn = _candidates(op, min(limit + 3, max(n_out, 1) + 3), beyond=10 ** 9)
    return any(_wall_order_differs(st[0], w, i, en[0], en[1], en[3]) for (w, o, i) in cands)


def _m_dayskip(op, backend, out, viol):
    """two consecutive requested wall times of the range normalise to the same value"""
    if op[0] != "range":
        return False
    exp = _expected(op)[0]
    return any(exp[j][:2] == exp[j - 1][:2] for j in range(1, len(exp)))


def _m_out_of_range(op, backend, out, viol):
    """the candidate after the last value inside the interval is not representable (year < 1 or > 9999): the loop computes
    it before comparing and the exception ends the iteration"""
    if op[0] != "range" or out not in ("err ValueError", "err OverflowError"):
        return False
    cands, st, en, sgn = _candidates(op, op[-1] + 3)
    return len(cands) < op[-1] + 3 and bool(cands) and (cands[-1][2] - en[3]) * sgn <= 0


MATCHERS = {"c19_next_candidate_out_of_range": _m_out_of_range, "c19_same_tzinfo_wall_order_differs": _m_wallorder, "c19_consecutive_requests_normalise_equal": _m_dayskip}


def tag(op, out):
    if op[0] == "in":
        return "in:" + ("same" if op[1] == op[8] else "cross")
    _, unit, amount, za, wa, fa, zb, wb, fb, ab, limit = op
    k = "naive" if za == "n" else "date" if za == "d" else "fixed" if za[0] == "f" else "zone" if za == zb else "cross"
    d = "abs" if ab else "inv" if wa > wb else "fwd"
    n = int(out.split()[1]) if out.startswith("ok ") else -1
    size = "err" if n < 0 else "0" if n == 0 else "1" if n == 1 else "short" if n <= 50 else "long"
    return f"range:{k}:{d}:{UNITS[unit]}:{size}"


TRIVIAL_TAGS = tuple(f"range:naive:fwd:{u}:{s}" for u in UNITS for s in ("0", "1"))
