"""C11 — DateTime, Date and Time are drop-in replacements for the native classes.

The larger half of this property is DIFFERENTIAL TESTING of the real pendulum objects against the
standard library's `datetime.datetime/date/time` (the oracle below); the model half (Model/Native.lean,
Props/C11.lean) covers the overrides (`astimezone`, `replace`, `__sub__`, `date()/time()`) and the inherited
comparison rule.

For a pendulum value p the native counterparts are
  nA = datetime(<same fields>, tzinfo=<p's own tzinfo object>, fold=p.fold)     "same fields and tzinfo"
  nB = datetime(<same fields>, tzinfo=zoneinfo.ZoneInfo(name) / datetime.timezone(offset), fold=p.fold)

op kinds (zref as in harness/dtutil.py: "n" | "f<µs>" | "<zone index>"):
  ("u",   zr, w, fold)                           every unary accessor, hash/== with the counterparts
  ("az",  zr, w, fold, zr2, kind)                astimezone; kind 0 = pendulum tz object (the value's own if zr2 == zr), 1 = native tzinfo
  ("cmp", zrA, wA, fA, zrB, wB, fB, fresh)       six comparisons, hash; fresh=1: B carries a distinct tzinfo object of the same zone
  ("sub", zrA, wA, fA, zrB, wB, fB, fresh)       a - b
  ("repl", zr, w, fold, w2, fold2)               replace(all fields, fold)
  ("date", ordA, ordB) ("time", todA, todB, zr)  Date / Time accessors and operators
  ("ty",  zr, w, fold)                           result types of every method returning date/time/datetime
  ("parts", zr, w, fold)                         date() / time() / timetz(): class, fields, tzinfo object, fold
  ("comb", zrT, w, fold, zrArg)                  DateTime.combine(date, time carrying tzinfo zrT and fold[, tzinfo=zrArg])
  ("dford", n) ("drepl", ord, y|"x", m|"x", d|"x") ("dsub", ordA, ordB, nat)     Date.fromordinal / replace / __sub__(date)
  ("trepl", tod, zr, fold, h|"x", m|"x", s|"x", us|"x", "k"|"c"|zr2, fold2|"x")  Time.replace
  ("tsub", "s"|"r", todSelf, zrSelf, todOther, zrOther, nat)                     Time.__sub__(time) / __rsub__
"""
from __future__ import annotations

import datetime as dt
import itertools
import zlib
import zoneinfo

from harness import common as C
from harness import dtutil as D
from harness import zones as Z

ID = "C11"
BACKENDS = ("py", "rs")
GEN_MODULES = ("DTArith",)
MIN_THEOREMS = 42
US = D.US
DAY = 86400 * US
YMAX = Z.YMAX_QUICK
RULE = ("differential run against the native classes (classmethods taking an instant also compared on fold and utcoffset): for every zone, its gaps/overlaps (quick: 3 per zone, thorough: 24 per zone, 6x for the special zones) x wall "
        "positions {lo-1us, lo, mid, hi-1us, hi} x fold x {unary accessors, astimezone to same/UTC/other zone/fixed/native tzinfo, "
        "pairs (two passes of one wall time, wall order != instant order, across the transition, other zone, distinct tzinfo "
        "object of the same zone) for the six comparisons, hash and subtraction, replace}; random ordinary values incl. naive and "
        "fixed offsets; Date pairs over all ordinals incl. year boundaries; Time pairs with and without tzinfo; result types of "
        "24 methods. non-trivial = wall time repeated/skipped, different zones, or distinct tzinfo objects")
EXHAUSTIVE = {"quick": False, "thorough": False}
TRUSTED = [
    "this property's oracle IS the standard library: every answer of the pendulum object is compared with the answer of "
    "datetime.datetime/date/time built from the same fields and tzinfo (differential testing, reported as such)",
    "Model/Native.lean states datetime's comparison/subtraction/astimezone rules as read from CPython's _pydatetime/_datetimemodule; "
    "tied to the real classes by this correspondence run",
]
ASSUMPTIONS = [
    "the native counterpart carries the pendulum value's own tzinfo object (property text: 'same fields and tzinfo'); a second "
    "counterpart with zoneinfo.ZoneInfo(name)/datetime.timezone is compared wherever datetime itself would call the two equal",
    "strings (isoformat, strftime, ctime, tzname) and hash are compared between the real objects only (not modelled)",
    "interval lengths below 2**33 s; system local timezone is whatever the box has (used by naive timestamp()/astimezone on both sides alike)",
]

_P = {}
# format(x, spec) / f"{x:spec}" with a strftime spec (any spec containing '%' is a strftime spec, flags and colon forms included)
FSPEC = ("%Y-%m-%d %H:%M", "%:z", "%-d/%-m", "%_H|%^a", "%%", "%e")
STRF = ("%Y-%m-%dT%H:%M:%S.%f%z", "%a %A %b %B %d %j %U %W %w %y %p %I", "%c|%x|%X|%Z|%%", "%G-%V-%u %H:%M:%S %z %Z")


def preamble():
    return D.preamble(YMAX)


def worker_init(backend):
    import pendulum
    from pendulum.tz.timezone import FixedTimezone, Timezone
    _P.update(p=pendulum, F=FixedTimezone, T=Timezone)


def _name(zr):
    return D.zname(zr)


def _fresh_tz(zr):
    """a distinct tzinfo object with the same rules (pendulum class)"""
    if zr[0] == "f":
        return _P["F"](int(zr[1:]) // US)
    return _P["T"].no_cache(D.ZN[int(zr)])


def _pn(zr, w, fold, fresh=False):
    """(pendulum value, nA with the same tzinfo object, nB with the zoneinfo/timezone tzinfo)"""
    p = _P["p"]
    f = D.fields(w)
    tz = None if zr == "n" else (_fresh_tz(zr) if fresh else D.tzobj(zr))
    pv = p.DateTime(*f, tzinfo=tz, fold=fold)
    na = dt.datetime(*f, tzinfo=tz, fold=fold)
    nb = D.native(zr, w, fold)
    return pv, na, nb


def _us(td):
    return (td.days * 86400 + td.seconds) * US + td.microseconds


def _exp_off(zr, w, fold):
    if zr == "n":
        return 0, False
    if zr[0] == "f":
        return int(zr[1:]), False
    sols = D.wall_solutions(_name(zr), w, YMAX)
    if len(sols) == 1:
        return w - sols[0], False
    if len(sols) == 2:
        return w - (max(sols) if fold else min(sols)), True
    gap = next(g for g in Z.irregular(_name(zr), YMAX) if g[0] == "gap" and g[1] <= w // US < g[2])
    return (gap[5] if fold else gap[4]) * US, True


def _same(op):
    zrA, zrB, fresh = op[1], op[4], op[7]
    if zrA == "n" and zrB == "n":
        return 1
    return int(zrA == zrB and not fresh)


# ----------------------------------------------------------------------------- implementation side

def _safe(f):
    try:
        return f()
    except Exception as e:  # noqa: BLE001
        return "raises " + type(e).__name__


def _unary(x):
    """every stdlib accessor of the property, on a datetime-like"""
    fs = [x.isoformat, lambda: x.isoformat(" ", "seconds"), lambda: x.isoformat(timespec="milliseconds"),
          x.timetuple, x.utctimetuple, x.toordinal, x.weekday, x.isoweekday, lambda: tuple(x.isocalendar()),
          x.timestamp, x.utcoffset, x.tzname, x.dst, x.ctime,
          lambda: (lambda d: (d.year, d.month, d.day))(x.date()),
          lambda: (lambda t: (t.hour, t.minute, t.second, t.microsecond, t.tzinfo))(x.time()),   # a time's fold selects nothing (C14)
          lambda: (lambda t: (t.hour, t.minute, t.second, t.microsecond, t.tzinfo))(x.timetz()),
          lambda: hash(x), lambda: (x.year, x.month, x.day, x.hour, x.minute, x.second, x.microsecond, x.fold, x.tzinfo)]
    fs += [(lambda fmt: (lambda: x.strftime(fmt)))(fmt) for fmt in STRF]
    fs += [(lambda fmt: (lambda: format(x, fmt)))(fmt) for fmt in FSPEC]
    return [_safe(f) for f in fs]


UNARY_NAMES = ["isoformat", "isoformat(' ','seconds')", "isoformat(timespec=ms)", "timetuple", "utctimetuple", "toordinal", "weekday",
               "isoweekday", "isocalendar", "timestamp", "utcoffset", "tzname", "dst", "ctime", "date()", "time()", "timetz()",
               "hash", "fields"] + ["strftime(%r)" % f for f in STRF] + ["format(x, %r)" % f for f in FSPEC]
# against the zoneinfo/datetime.timezone counterpart: tzinfo objects differ; datetime.timezone names a fixed offset
# "UTC+01:00" and has dst() None where FixedTimezone says "+01:00" and timedelta(0)
NB_SKIP_ALWAYS = {"fields", "time()", "timetz()"}
NB_SKIP_FIXED = {"tzname", "dst", "timetuple", "strftime(%r)" % STRF[2], "strftime(%r)" % STRF[3]}


def _ord_of(tt):
    return dt.date(tt.tm_year, tt.tm_mon, tt.tm_mday).toordinal()


def impl(op, backend):
    p = _P["p"]
    k = op[0]
    if k == "u":
        _, zr, w, fold = op
        x = D.mk(zr, w, fold)
        off = _us(x.utcoffset()) if x.utcoffset() is not None else 0
        ic = x.isocalendar()
        d, t = x.date(), x.time()
        tt, ut = x.timetuple(), x.utctimetuple()
        return "ok %d %d %d %d %d %d %d %d %d %d %d %d %d %d" % (
            off, Z.to_us(x) - off, x.toordinal(), x.weekday(), ic[0], ic[1], ic[2], d.year, d.month, d.day,
            ((t.hour * 60 + t.minute) * 60 + t.second) * US + t.microsecond, tt.tm_yday,
            _ord_of(ut), ((ut.tm_hour * 60 + ut.tm_min) * 60 + ut.tm_sec) * US + x.microsecond)
    if k == "az":
        _, zr, w, fold, zr2, kind = op
        x = D.mk(zr, w, fold)
        target = _target(x, zr, zr2, kind)
        r = x.astimezone(target)
        if type(r) is not p.DateTime:
            return "err WrongType:" + type(r).__name__
        if r.tzinfo is not target:
            return "err WrongTzinfo"
        return D.outv(r)
    if k in ("cmp", "sub"):
        _, za, wa, fa, zb, wb, fb, fresh = op
        a = _pn(za, wa, fa)[0]
        b = _pn(zb, wb, fb, fresh)[0]
        if k == "cmp":
            return "ok %d %d" % (int(a > b) - int(a < b), int(a == b))
        r = a - b
        if type(r) is not p.Interval:
            return "err WrongType:" + type(r).__name__
        td = dt.timedelta
        return "ok %d" % ((td.days.__get__(r) * 86400 + td.seconds.__get__(r)) * US + td.microseconds.__get__(r))
    if k == "repl":
        _, zr, w, fold, w2, fold2 = op
        x = D.mk(zr, w, fold)
        f = D.fields(w2)
        r = x.replace(year=f[0], month=f[1], day=f[2], hour=f[3], minute=f[4], second=f[5], microsecond=f[6], fold=fold2)
        if type(r) is not p.DateTime:
            return "err WrongType:" + type(r).__name__
        return D.outv(r)
    if k == "date":
        d0 = dt.date.fromordinal(op[1])
        x = p.Date(d0.year, d0.month, d0.day)
        ic, tt = x.isocalendar(), x.timetuple()
        w = (x.toordinal() - 719163) * DAY
        return "ok 0 %d %d %d %d %d %d %d %d %d 0 %d %d 0" % (w, x.toordinal(), x.weekday(), ic[0], ic[1], ic[2], x.year, x.month, x.day,
                                                              tt.tm_yday, x.toordinal())
    if k == "parts":
        _, zr, w, fold = op
        x = D.mk(zr, w, fold)
        d, t, tz = x.date(), x.time(), x.timetz()
        return "ok %d %d %s %s" % (_tyc(d), d.toordinal(), _tv_words(t, x.tzinfo, None), _tv_words(tz, x.tzinfo, None))
    if k == "comb":
        _, zrt, w, fold, zra = op
        d, t = _comb_args(op, pend=zlib.crc32(repr(op).encode()) % 2 == 0)
        r = p.DateTime.combine(d, t) if zra == "n" else p.DateTime.combine(d, t, D.tzobj(zra))
        return "ok %d %s" % (_tyc(r), D.outv(r)[3:])
    if k == "dford":
        r = p.Date.fromordinal(op[1])
        return "ok %d %d" % (_tyc(r), r.toordinal())
    if k == "drepl":
        _, n, y, m, d = op
        d0 = dt.date.fromordinal(n)
        r = p.Date(d0.year, d0.month, d0.day).replace(**_kw(("year", y), ("month", m), ("day", d)))
        return "ok %d %d" % (_tyc(r), r.toordinal())
    if k == "dsub":
        _, oa, ob, nat = op
        a0, b0 = dt.date.fromordinal(oa), dt.date.fromordinal(ob)
        r = p.Date(a0.year, a0.month, a0.day) - (b0 if nat else p.Date(b0.year, b0.month, b0.day))
        return "ok %d %d" % (_tyc(r), _us_any(r))
    if k == "dtd":
        # Date +/- a plain timedelta (with a sub-day part of either sign): what the native date gives, as a pendulum Date
        _, o, tdus, sub = op
        d0 = dt.date.fromordinal(o)
        td = dt.timedelta(microseconds=tdus)
        x = p.Date(d0.year, d0.month, d0.day)
        r = (x - td) if sub == 1 else (td + x) if sub == 2 else (x + td)
        if type(r) is not p.Date:
            return "err WrongType:" + type(r).__name__
        return "ok %d" % r.toordinal()
    if k == "trepl":
        _, tod, zr, fold, h, m, s_, us, ta, fa = op
        tz = D.tzobj(zr)
        x = p.Time(*D.fields(tod)[3:], tzinfo=tz, fold=fold)
        kw = _kw(("hour", h), ("minute", m), ("second", s_), ("microsecond", us), ("fold", fa))
        arg = None
        if ta == "c":
            kw["tzinfo"] = None
        elif ta != "k":
            arg = kw["tzinfo"] = D.tzobj(ta)
        return "ok " + _tv_words(x.replace(**kw), tz, arg)
    if k == "tsub":
        _, how, ta, za, tb, zb, nat = op
        a = p.Time(*D.fields(ta)[3:], tzinfo=D.tzobj(za))
        b = (dt.time if (nat or how == "r") else p.Time)(*D.fields(tb)[3:], tzinfo=D.tzobj(zb))
        r = (b - a) if how == "r" else (a - b)
        return "ok %d %d" % (_tyc(r), _us_any(r))
    return "ok"


def _tyc(r):
    """class of an answer (Native.Ty.code)"""
    p = _P["p"]
    codes = {p.Date: 1, p.Time: 2, p.DateTime: 3, p.Interval: 4, p.Duration: 5, dt.date: 11, dt.time: 12, dt.datetime: 13, dt.timedelta: 14}
    return codes.get(type(r), 99)


def _kw(*pairs):
    return {k: v for k, v in pairs if v != "x"}


def _tod(t):
    return ((t.hour * 60 + t.minute) * 60 + t.second) * US + t.microsecond


def _tv_words(t, own, arg):
    """<ty> <tod> <tz identity: 0 None, 2 the tzinfo argument, 1 the receiver's own object, 9 something else> <fold>"""
    tzid = 0 if t.tzinfo is None else 2 if (arg is not None and t.tzinfo is arg) else 1 if t.tzinfo is own else 9
    return "%d %d %d %d" % (_tyc(t), _tod(t), tzid, t.fold)


def _comb_args(op, pend):
    """(date, time) operands of combine, pendulum or native classes"""
    p = _P["p"]
    _, zrt, w, fold, zra = op
    f = D.fields(w)
    if pend:
        return p.Date(*f[:3]), p.Time(*f[3:], tzinfo=D.tzobj(zrt), fold=fold)
    return dt.date(*f[:3]), dt.time(*f[3:], tzinfo=D.tzobj(zrt), fold=fold)


def _target(x, zr, zr2, kind):
    if kind == 0:
        return x.tzinfo if zr2 == zr else D.tzobj(zr2)
    if zr2[0] == "f":
        return dt.timezone(dt.timedelta(microseconds=int(zr2[1:])))
    return zoneinfo.ZoneInfo(D.ZN[int(zr2)])


def line(op, backend):
    k = op[0]
    if k == "u":
        return "c11u %s %d %d" % op[1:]
    if k == "az":
        _, zr, w, fold, zr2, kind = op
        if zr == "n":
            return None         # naive.astimezone() goes through the system local zone
        return "c11az %s %d %d %s %d" % (zr, w, fold, zr2, int(kind == 0 and zr2 == zr))
    if k in ("cmp", "sub"):
        _, za, wa, fa, zb, wb, fb, fresh = op
        return "c11%s %d %s %d %d %s %d %d" % (k, _same(op), za, wa, fa, zb, wb, fb)
    if k == "repl":
        return "c11repl %s %d %d %d %d" % op[1:]
    if k == "date":
        return "c11u n %d 0" % ((op[1] - 719163) * DAY)      # a Date is a naive midnight for the calendar accessors
    if k == "parts":
        return "c11parts %s %d %d" % op[1:]
    if k == "comb":
        _, zrt, w, fold, zra = op
        return "c11comb %s %d %d %d %s" % (zrt, w // DAY + 719163, w % DAY, fold, zra)
    if k == "dford":
        return "c11dford %d" % op[1]
    if k == "drepl":
        return "c11drepl %d %s %s %s" % op[1:]
    if k == "dsub":
        return "c11dsub %d %d" % op[1:3]
    if k == "trepl":
        _, tod, zr, fold, h, m, s_, us, ta, fa = op
        return "c11trepl %d %d %d %s %s %s %s %s %s" % (tod, int(zr != "n"), fold, h, m, s_, us, ta if ta in "kc" else "2", fa)
    if k == "tsub":
        _, how, ta, za, tb, zb, nat = op
        return "c11tsub %s %d %d %d %d" % (how, ta, int(za != "n"), tb, int(zb != "n"))
    return None


# ----------------------------------------------------------------------------- oracle: the native classes

def _cmp6(a, b):
    return (_safe(lambda: a < b), _safe(lambda: a <= b), _safe(lambda: a == b), _safe(lambda: a != b),
            _safe(lambda: a > b), _safe(lambda: a >= b))


def _sgn(x):
    return (x > 0) - (x < 0)


def _o_unary(op):
    _, zr, w, fold = op
    pv, na, nb = _pn(zr, w, fold)
    up, ua, ub = _unary(pv), _unary(na), _unary(nb)
    for i, nm in enumerate(UNARY_NAMES):
        if up[i] != ua[i]:
            return f"{nm}: pendulum {up[i]!r} != native {ua[i]!r}"
        if zr != "n" and (nm in NB_SKIP_ALWAYS or (zr[0] == "f" and nm in NB_SKIP_FIXED)):
            continue
        if nm == "hash" and _exp_off(zr, w, fold)[1]:
            continue
        if up[i] != ub[i]:
            return f"{nm}: pendulum {up[i]!r} != native(zoneinfo) {ub[i]!r}"
    if not (pv == na and na == pv and not (pv != na) and hash(pv) == hash(na)):
        return "does not compare/hash equal to the native object with the same fields and tzinfo"
    # against the zoneinfo counterpart datetime's own answer is the reference (PEP 495: never equal across tzinfo objects in a fold/gap)
    if (pv == nb) != (na == nb) or (nb == pv) != (nb == na) or (pv != nb) != (na != nb):
        return f"== with the zoneinfo counterpart: pendulum {pv == nb}, native {na == nb}"
    if na == nb and hash(pv) != hash(nb):
        return "hash differs from the equal zoneinfo counterpart"
    p = _P["p"]
    if type(pv.date()) is not p.Date:
        return "date() returns " + type(pv.date()).__name__
    if type(pv.time()) is not p.Time:
        return "time() returns " + type(pv.time()).__name__
    if type(pv.timetz()) is not p.Time:
        return "timetz() returns " + type(pv.timetz()).__module__ + "." + type(pv.timetz()).__name__
    return None


def _o_az(op, out):
    _, zr, w, fold, zr2, kind = op
    pv, na, nb = _pn(zr, w, fold)
    target = _target(pv, zr, zr2, kind)
    r = pv.astimezone(target)
    nr = na.astimezone(target)
    if type(r) is not _P["p"].DateTime:
        return "astimezone returns " + type(r).__name__
    fr = (r.year, r.month, r.day, r.hour, r.minute, r.second, r.microsecond, r.fold, r.utcoffset(), r.tzinfo is nr.tzinfo)
    fn = (nr.year, nr.month, nr.day, nr.hour, nr.minute, nr.second, nr.microsecond, nr.fold, nr.utcoffset(), True)
    if fr != fn:
        return f"astimezone: pendulum {fr} != native {fn}"
    if zr != "n":
        off, _ = _exp_off(zr, w, fold)
        if D.instant_us(r) != w - off:
            return f"astimezone changed the instant: {D.instant_us(r)} != {w - off}"
    return None


def _o_pair(op, out):
    k, za, wa, fa, zb, wb, fb, fresh = op
    pa, naa, nba = _pn(za, wa, fa)
    if fresh:
        tzb = _fresh_tz(zb)
        f = D.fields(wb)
        pb = _P["p"].DateTime(*f, tzinfo=tzb, fold=fb)
        nab = dt.datetime(*f, tzinfo=tzb, fold=fb)
        nbb = D.native(zb, wb, fb)
    else:
        pb, nab, nbb = _pn(zb, wb, fb)
    offa, proba = _exp_off(za, wa, fa)
    offb, probb = _exp_off(zb, wb, fb)
    ia, ib = wa - offa, wb - offb
    if k == "cmp":
        ref = _cmp6(naa, nab)
        for nm, x, y in (("p?p", pa, pb), ("p?n", pa, nab), ("n?p", naa, pb)):
            got = _cmp6(x, y)
            if got != ref:
                return f"comparisons {nm} (<,<=,==,!=,>,>=) {got} != native {ref}"
        ref2 = _cmp6(naa, nbb)
        got2 = _cmp6(pa, nbb)
        if got2 != ref2:
            return f"comparisons with a zoneinfo operand {got2} != native {ref2}"
        if ref[2] is True and hash(pa) != hash(pb):
            return "equal values hash differently"
        if hash(pa) != hash(naa) or hash(pb) != hash(nab):
            return "hash differs from the native counterpart"
        if za != "n":
            c = int(pa > pb) - int(pa < pb)
            if c != _sgn(ia - ib):
                return f"ordering: compares as {c} but the instants order as {_sgn(ia - ib)} (wall order {_sgn(wa - wb)})"
        return None
    # sub
    ref = naa - nab
    for nm, x, y in (("p-p", pa, pb), ("p-n", pa, nab), ("n-p", naa, pb)):
        got = x - y
        if not (got == ref and ref == got) or _us_any(got) != _us(ref):
            return f"sub {nm}: {_us_any(got)} us != native {_us(ref)} us (elapsed {ia - ib} us)"
    if _us_any(pa - nbb) != _us(naa - nbb):
        return f"sub with a zoneinfo operand: {_us_any(pa - nbb)} != native {_us(naa - nbb)}"
    return None


def _us_any(d):
    td = dt.timedelta
    return (td.days.__get__(d) * 86400 + td.seconds.__get__(d)) * US + td.microseconds.__get__(d)


def _o_repl(op, out):
    _, zr, w, fold, w2, fold2 = op
    pv, na, nb = _pn(zr, w, fold)
    f = D.fields(w2)
    if zr not in ("n",) and zr[0] != "f" and len(D.wall_solutions(_name(zr), w2, YMAX)) == 0:
        return None      # skipped wall time: pendulum normalises it (C02); datetime.replace does not
    kw = dict(year=f[0], month=f[1], day=f[2], hour=f[3], minute=f[4], second=f[5], microsecond=f[6], fold=fold2)
    r, nr = pv.replace(**kw), na.replace(**kw)
    if type(r) is not _P["p"].DateTime:
        return "replace returns " + type(r).__name__
    fold_free = zr == "n" or zr[0] == "f"
    fr = (r.year, r.month, r.day, r.hour, r.minute, r.second, r.microsecond, r.utcoffset(), r.tzinfo is nr.tzinfo)
    fn = (nr.year, nr.month, nr.day, nr.hour, nr.minute, nr.second, nr.microsecond, nr.utcoffset(), True)
    if fr != fn:
        return f"replace: pendulum {fr} != native {fn}"
    if not fold_free and _exp_off(zr, w2, fold2)[1] and r.fold != nr.fold:
        return f"replace: fold {r.fold} != native {nr.fold} on a repeated wall time"
    return None


def _o_date(op):
    p = _P["p"]
    _, oa, ob = op
    na, nb = dt.date.fromordinal(oa), dt.date.fromordinal(ob)
    pa, pb = p.Date(na.year, na.month, na.day), p.Date(nb.year, nb.month, nb.day)
    fs = [lambda x: x.isoformat(), lambda x: x.timetuple(), lambda x: x.toordinal(), lambda x: x.weekday(), lambda x: x.isoweekday(),
          lambda x: tuple(x.isocalendar()), lambda x: x.ctime(), lambda x: hash(x), lambda x: (x.year, x.month, x.day),
          lambda x: x.strftime("%Y-%m-%d %a %A %b %B %j %U %W %G-%V-%u %c|%x"),
          lambda x: format(x, "%-d/%-m"), lambda x: format(x, "%e|%^a"), lambda x: f"{x:%Y-%m-%d}", lambda x: format(x, "%%")]
    for i, f in enumerate(fs):
        a, b = _safe(lambda: f(pa)), _safe(lambda: f(na))
        if a != b:
            return f"Date accessor #{i}: pendulum {a!r} != native {b!r}"
    if not (pa == na and na == pa and hash(pa) == hash(na)):
        return "Date does not compare/hash equal to the native date"
    ref = _cmp6(na, nb)
    for nm, x, y in (("p?p", pa, pb), ("p?n", pa, nb), ("n?p", na, pb)):
        if _cmp6(x, y) != ref:
            return f"Date comparisons {nm} {_cmp6(x, y)} != native {ref}"
    for nm, x, y in (("p-p", pa, pb), ("p-n", pa, nb), ("n-p", na, pb)):
        got = x - y
        if not (got == na - nb) or _us_any(got) != _us(na - nb):
            return f"Date sub {nm}: {_us_any(got)} != native {_us(na - nb)}"
    one = dt.timedelta(days=(ob % 19) - 9)
    try:
        nr = na + one
    except OverflowError:
        nr = None
    if nr is not None:
        r, r2 = pa + one, pa - (-one)
        if type(r) is not p.Date or type(r2) is not p.Date or (r.year, r.month, r.day) != (nr.year, nr.month, nr.day) or r2 != r:
            return f"Date + timedelta: {r!r} vs native {nr!r}"
    y2 = min(max(nb.year, 1), 9999)
    d2 = min(na.day, 28)
    r, nr = pa.replace(year=y2, day=d2), na.replace(year=y2, day=d2)
    if type(r) is not p.Date or (r.year, r.month, r.day) != (nr.year, nr.month, nr.day):
        return f"Date.replace: {r!r} vs {nr!r}"
    for nm, v in (("fromordinal", p.Date.fromordinal(oa)), ("fromisoformat", p.Date.fromisoformat(na.isoformat())),
                  ("fromisocalendar", p.Date.fromisocalendar(*na.isocalendar())),
                  ("fromtimestamp", p.Date.fromtimestamp(86400 * (oa % 20000)))):
        if type(v) is not p.Date:
            return f"Date.{nm} returns {type(v).__name__}"
        if nm != "fromtimestamp" and v != na:
            return f"Date.{nm} = {v!r}, native {na!r}"
    return None


def _o_time(op):
    p = _P["p"]
    _, ta, tb, zr = op
    tz = None if zr == "n" else D.tzobj(zr)
    fa, fb = D.fields(ta)[3:], D.fields(tb)[3:]
    pa, pb = p.Time(*fa, tzinfo=tz), p.Time(*fb, tzinfo=tz)
    na, nb = dt.time(*fa, tzinfo=tz), dt.time(*fb, tzinfo=tz)
    fs = [lambda x: x.isoformat(), lambda x: x.isoformat("milliseconds"), lambda x: x.utcoffset(), lambda x: x.tzname(), lambda x: x.dst(),
          lambda x: hash(x), lambda x: (x.hour, x.minute, x.second, x.microsecond, x.tzinfo, x.fold),
          lambda x: x.strftime("%H:%M:%S.%f %p %I %z %Z"),
          lambda x: format(x, "%-H|%_M"), lambda x: format(x, "%:z"), lambda x: f"{x:%H:%M}", lambda x: format(x, "%%")]
    for i, f in enumerate(fs):
        a, b = _safe(lambda: f(pa)), _safe(lambda: f(na))
        if a != b:
            return f"Time accessor #{i}: pendulum {a!r} != native {b!r}"
    if not (pa == na and na == pa and _safe(lambda: hash(pa)) == _safe(lambda: hash(na))):
        return "Time does not compare/hash equal to the native time"
    if zr[0] not in "nf":
        # ... and against the native time on the zoneinfo zone of the same name (a regional zone has no offset without a date:
        # utcoffset()/dst()/tzname() are None there, isoformat() carries no offset, the value compares like a naive time)
        import zoneinfo
        nz = dt.time(*fa, tzinfo=zoneinfo.ZoneInfo(D.zname(zr)))
        for i, f in enumerate((lambda x: x.utcoffset(), lambda x: x.dst(), lambda x: x.tzname(), lambda x: x.isoformat(),
                               lambda x: x.strftime("%H:%M:%S.%f %z %Z"), lambda x: hash(x))):
            a, b = _safe(lambda: f(pa)), _safe(lambda: f(nz))
            if a != b:
                return f"aware Time accessor #{i} on {D.zname(zr)}: pendulum {a!r} != native time on ZoneInfo {b!r}"
        if _safe(lambda: pa == nz) != _safe(lambda: na == nz) or _safe(lambda: pa == dt.time(*fa)) != _safe(lambda: nz == dt.time(*fa)):
            return f"aware Time on {D.zname(zr)} compares differently from the native time on ZoneInfo"
    ref = _cmp6(na, nb)
    for nm, x, y in (("p?p", pa, pb), ("p?n", pa, nb), ("n?p", na, pb)):
        if _cmp6(x, y) != ref:
            return f"Time comparisons {nm} {_cmp6(x, y)} != native {ref}"
    r, nr = pa.replace(hour=fb[0], microsecond=fb[3]), na.replace(hour=fb[0], microsecond=fb[3])
    if type(r) is not p.Time or (r.hour, r.minute, r.second, r.microsecond, r.tzinfo) != (nr.hour, nr.minute, nr.second, nr.microsecond, nr.tzinfo):
        return f"Time.replace: {r!r} vs {nr!r}"
    v = p.Time.fromisoformat(dt.time(*fa).isoformat())
    if type(v) is not p.Time or v != dt.time(*fa):
        return f"Time.fromisoformat: {v!r}"
    return None


def _o_types(op):
    p = _P["p"]
    _, zr, w, fold = op
    pv, na, nb = _pn(zr, w, fold)
    DT, DA, TI = p.DateTime, p.Date, p.Time
    ts = (w - _exp_off(zr, w, fold)[0]) / US
    one = dt.timedelta(hours=5, microseconds=1)
    # a float timestamp that is not a whole number of microseconds: less than half a microsecond below / above a whole second, a
    # half-way case, a tiny negative one (the native constructors round half-even to the microsecond and carry into the seconds)
    import zlib
    hq = zlib.crc32(("tf" + repr(op)).encode())
    whole = float(int(ts))
    tf = (whole - 4e-07, whole + 0.9999996, whole - 2.4e-07, whole + 4e-07, whole + 0.0000005, whole + 0.9999995, -4e-07, 0.9999996,
          59.9999997, -1.0000003, ts + 3e-07, ts - 3e-07)[hq % 12]
    checks = [
        ("date()", DA, lambda: pv.date(), lambda: na.date()),
        ("time()", TI, lambda: pv.time(), lambda: na.time()),
        ("timetz()", TI, lambda: pv.timetz(), lambda: na.timetz()),
        ("replace(microsecond)", DT, lambda: pv.replace(microsecond=5), None),
        ("astimezone(utc)", DT, lambda: pv.astimezone(dt.timezone.utc) if zr != "n" else pv.astimezone(), lambda: na.astimezone(dt.timezone.utc) if zr != "n" else na.astimezone()),
        ("+ timedelta", DT, lambda: pv + one, None),
        ("timedelta +", DT, lambda: one + pv, None),
        ("- timedelta", DT, lambda: pv - one, None),
        ("fromtimestamp", DT, lambda: DT.fromtimestamp(ts), lambda: dt.datetime.fromtimestamp(ts)),
        ("fromtimestamp(tz)", DT, lambda: DT.fromtimestamp(ts, pv.tzinfo), lambda: dt.datetime.fromtimestamp(ts, na.tzinfo)),
        ("utcfromtimestamp", DT, lambda: DT.utcfromtimestamp(ts), lambda: dt.datetime.utcfromtimestamp(ts)),
        ("fromtimestamp(sub-us)", DT, lambda: DT.fromtimestamp(tf), lambda: dt.datetime.fromtimestamp(tf)),
        ("fromtimestamp(sub-us, tz)", DT, lambda: DT.fromtimestamp(tf, pv.tzinfo), lambda: dt.datetime.fromtimestamp(tf, na.tzinfo)),
        ("utcfromtimestamp(sub-us)", DT, lambda: DT.utcfromtimestamp(tf), lambda: dt.datetime.utcfromtimestamp(tf)),
        ("fromordinal", DT, lambda: DT.fromordinal(pv.toordinal()), lambda: dt.datetime.fromordinal(na.toordinal())),
        ("combine", DT, lambda: DT.combine(na.date(), na.time()), lambda: dt.datetime.combine(na.date(), na.time())),
        ("combine(pendulum)", DT, lambda: DT.combine(pv.date(), pv.time()), lambda: dt.datetime.combine(na.date(), na.time())),
        ("strptime", DT, lambda: DT.strptime(na.strftime("%Y %m %d %H %M %S %f").zfill(27), "%Y %m %d %H %M %S %f"),
         lambda: dt.datetime.strptime(na.strftime("%Y %m %d %H %M %S %f").zfill(27), "%Y %m %d %H %M %S %f")),
        ("fromisoformat", DT, lambda: DT.fromisoformat(na.replace(tzinfo=None).isoformat()), lambda: na.replace(tzinfo=None)),
        ("fromisocalendar", DT, lambda: DT.fromisocalendar(*na.isocalendar()), lambda: dt.datetime.fromisocalendar(*na.isocalendar())),
        ("now", DT, lambda: DT.now(), None), ("today", DT, lambda: DT.today(), None), ("utcnow", DT, lambda: DT.utcnow(), None),
        ("now(tz)", DT, lambda: DT.now(pv.tzinfo), None),
        ("min", DT, lambda: DT.min, None), ("max", DT, lambda: DT.max, None),
    ]
    import warnings
    with warnings.catch_warnings():
        warnings.simplefilter("ignore")
        for nm, typ, f, g in checks:
            try:
                r = f()
            except (OverflowError, OSError, ValueError) as e:
                try:
                    if g is not None:
                        g()
                except type(e):
                    continue
                if g is None:
                    continue
                return f"{nm}: pendulum raises {type(e).__name__}, native does not"
            if type(r) is not typ:
                return f"{nm} returns {type(r).__module__}.{type(r).__name__}, expected pendulum {typ.__name__}"
            if g is not None:
                nr = g()
                fl = ("year", "month", "day") if typ is DA else ("hour", "minute", "second", "microsecond") if typ is TI else \
                    ("year", "month", "day", "hour", "minute", "second", "microsecond")
                a, b = tuple(getattr(r, x) for x in fl), tuple(getattr(nr, x) for x in fl)
                if a != b:
                    return f"{nm}: fields {a} != native {b}"
                if typ is DT and nm in _SAME_MOMENT:
                    # the constructors that take an instant (or carry no occurrence information): same occurrence and offset as native
                    # (pendulum's fromtimestamp()/utcfromtimestamp() without tz return aware values by design: offset compared only
                    # where the native result is aware)
                    a, b = (r.fold, r.utcoffset() if nr.utcoffset() is not None else None), (nr.fold, nr.utcoffset())
                    if a != b:
                        return f"{nm}: (fold, utcoffset) {a} != native {b}"
    return None


_SAME_MOMENT = ("fromtimestamp", "fromtimestamp(tz)", "utcfromtimestamp", "fromtimestamp(sub-us)", "fromtimestamp(sub-us, tz)",
                "utcfromtimestamp(sub-us)", "astimezone(utc)", "fromordinal", "strptime",
                "fromisocalendar")


def _raises(f):
    try:
        return None, f()
    except Exception as e:  # noqa: BLE001
        return type(e).__name__, None


def _o_parts(op, out):
    p = _P["p"]
    _, zr, w, fold = op
    pv, na, nb = _pn(zr, w, fold)
    d, t, tz = pv.date(), pv.time(), pv.timetz()
    nd, nt, ntz = na.date(), na.time(), na.timetz()
    if type(d) is not p.Date or type(t) is not p.Time or type(tz) is not p.Time:
        return f"date()/time()/timetz() return {type(d).__name__}/{type(t).__name__}/{type(tz).__name__}"
    if (d.year, d.month, d.day) != (nd.year, nd.month, nd.day) or not (d == nd and nd == d):
        return f"date(): {d!r} != native {nd!r}"
    if (t.hour, t.minute, t.second, t.microsecond, t.tzinfo) != (nt.hour, nt.minute, nt.second, nt.microsecond, None) or not (t == nt and nt == t):
        return f"time(): {t!r} != native {nt!r}"
    if (tz.hour, tz.minute, tz.second, tz.microsecond, tz.fold) != (ntz.hour, ntz.minute, ntz.second, ntz.microsecond, ntz.fold) \
            or tz.tzinfo is not ntz.tzinfo or _safe(lambda: tz == ntz) is not True:
        return f"timetz(): {tz!r} fold {tz.fold} != native {ntz!r} fold {ntz.fold}"
    exp = "ok 1 %d 2 %d 0 0 2 %d %d %d" % (w // DAY + 719163, w % DAY, w % DAY, int(zr != "n"), fold)
    if out != exp:
        return f"date()/time()/timetz() observed {out}, the value was built as {exp}"
    return None


def _o_comb(op, out):
    p = _P["p"]
    _, zrt, w, fold, zra = op
    if not out.startswith("ok 3 "):
        return "combine returns class code " + out
    for pend in (True, False):
        d, t = _comb_args(op, pend)
        r = p.DateTime.combine(d, t) if zra == "n" else p.DateTime.combine(d, t, D.tzobj(zra))
        if type(r) is not p.DateTime:
            return "combine returns " + type(r).__name__
        if zrt != "n" and zra != "n":
            continue        # aware time AND a tzinfo argument: pendulum keeps the time's tzinfo (instance(): `dt.tzinfo or tz`); class only
        nd, nt = _comb_args(op, False)
        nr = dt.datetime.combine(nd, nt) if zra == "n" else dt.datetime.combine(nd, nt, D.tzobj(zra))
        zr = zrt if zrt != "n" else zra
        if zr not in ("n",) and zr[0] != "f" and len(D.wall_solutions(_name(zr), w, YMAX)) == 0:
            continue        # skipped wall time: pendulum normalises it (C02)
        fr = (r.year, r.month, r.day, r.hour, r.minute, r.second, r.microsecond, r.utcoffset(), r.tzinfo is nr.tzinfo)
        fn = (nr.year, nr.month, nr.day, nr.hour, nr.minute, nr.second, nr.microsecond, nr.utcoffset(), True)
        if fr != fn:
            return f"combine: pendulum {fr} != native {fn}"
        if _exp_off(zr, w, fold)[1] and r.fold != nr.fold:
            return f"combine: fold {r.fold} != native {nr.fold} on a repeated wall time"
        if not (r == nr and nr == r and hash(r) == hash(nr)):
            return "combine: result does not compare/hash equal to the native result"
    return None


def _o_dateops(op, out):
    p = _P["p"]
    k = op[0]
    if k == "dford":
        f, g = (lambda: p.Date.fromordinal(op[1])), (lambda: dt.date.fromordinal(op[1]))
    elif k == "drepl":
        d0 = dt.date.fromordinal(op[1])
        kw = _kw(("year", op[2]), ("month", op[3]), ("day", op[4]))
        f, g = (lambda: p.Date(d0.year, d0.month, d0.day).replace(**kw)), (lambda: d0.replace(**kw))
    else:
        a0, b0 = dt.date.fromordinal(op[1]), dt.date.fromordinal(op[2])
        pa = p.Date(a0.year, a0.month, a0.day)
        pb = b0 if op[3] else p.Date(b0.year, b0.month, b0.day)
        f, g = (lambda: pa - pb), (lambda: a0 - b0)
    (e1, r), (e2, nr) = _raises(f), _raises(g)
    if e1 != e2:
        return f"{k}: pendulum raises {e1}, native raises {e2}"
    if e1 is not None:
        return None if out == "err " + e2 else f"{k}: observed {out}, native raises {e2}"
    if k == "dsub":
        if type(r) is not p.Interval:
            return "Date - date returns " + type(r).__name__
        if not (r == nr and nr == r) or _us_any(r) != _us(nr):
            return f"Date - date: {_us_any(r)} us != native {_us(nr)} us"
        exp = "ok 4 %d" % ((op[1] - op[2]) * DAY)
    else:
        if type(r) is not p.Date:
            return f"{k} returns {type(r).__name__}"
        if (r.year, r.month, r.day) != (nr.year, nr.month, nr.day) or not (r == nr and nr == r and hash(r) == hash(nr)):
            return f"{k}: {r!r} != native {nr!r}"
        exp = "ok 1 %d" % nr.toordinal()
    return None if out == exp else f"{k}: observed {out}, native gives {exp}"


def _o_trepl(op, out):
    p = _P["p"]
    _, tod, zr, fold, h, m, s_, us, ta, fa = op
    tz = D.tzobj(zr)
    f0 = D.fields(tod)[3:]
    kw = _kw(("hour", h), ("minute", m), ("second", s_), ("microsecond", us), ("fold", fa))
    if ta == "c":
        kw["tzinfo"] = None
    elif ta != "k":
        kw["tzinfo"] = D.tzobj(ta)
    (e1, r), (e2, nr) = _raises(lambda: p.Time(*f0, tzinfo=tz, fold=fold).replace(**kw)), _raises(lambda: dt.time(*f0, tzinfo=tz, fold=fold).replace(**kw))
    if e1 != e2:
        return f"Time.replace: pendulum raises {e1}, native raises {e2}"
    if e1 is not None:
        return None if out == "err " + e2 else f"Time.replace: observed {out}, native raises {e2}"
    if type(r) is not p.Time:
        return "Time.replace returns " + type(r).__name__
    if (r.hour, r.minute, r.second, r.microsecond) != (nr.hour, nr.minute, nr.second, nr.microsecond) or r.tzinfo is not nr.tzinfo:
        return f"Time.replace: {r!r} != native {nr!r}"
    if _safe(lambda: r == nr and nr == r) is not True or _safe(lambda: hash(r)) != _safe(lambda: hash(nr)):
        return "Time.replace: result does not compare/hash equal to the native result"
    # a time's fold selects nothing (utcoffset(None)); it is not compared (C14's assumption)
    return None


def _o_tsub(op, out):
    p = _P["p"]
    _, how, ta, za, tb, zb, nat = op
    if out == "err TypeError":
        return None          # what the native class answers for every time - time
    if out.startswith("err"):
        return "time - time raises " + out[4:]
    d0 = dt.date(2001, 2, 3)
    ref = dt.datetime.combine(d0, dt.time(*D.fields(ta)[3:])) - dt.datetime.combine(d0, dt.time(*D.fields(tb)[3:]))
    if how == "r":
        ref = -ref
    a = p.Time(*D.fields(ta)[3:], tzinfo=D.tzobj(za))
    b = (dt.time if (nat or how == "r") else p.Time)(*D.fields(tb)[3:], tzinfo=D.tzobj(zb))
    r = (b - a) if how == "r" else (a - b)
    if type(r) is not p.Duration:
        return "time - time returns " + type(r).__name__
    if not (r == ref and ref == r) or _us_any(r) != _us(ref) or out != "ok 5 %d" % _us(ref):
        return f"time - time: {_us_any(r)} us ({out}) != {_us(ref)} us (difference of the two times on one day)"
    return None


def oracle(op, out, backend):
    k = op[0]
    if k == "parts":
        return _o_parts(op, out)
    if k == "comb":
        return _o_comb(op, out)
    if k in ("dford", "drepl", "dsub"):
        return _o_dateops(op, out)
    if k == "dtd":
        _, o, tdus, sub = op
        td = dt.timedelta(microseconds=tdus)
        try:
            n = dt.date.fromordinal(o) - td if sub == 1 else dt.date.fromordinal(o) + td
            exp = "ok %d" % n.toordinal()
        except OverflowError:
            exp = "err OverflowError"
        return None if out == exp else f"Date {'-' if sub == 1 else '+'} timedelta({tdus} us): observed {out}, native date gives {exp}"
    if k == "trepl":
        return _o_trepl(op, out)
    if k == "tsub":
        return _o_tsub(op, out)
    if out.startswith("err"):
        return "implementation: " + out
    if k == "u":
        return _o_unary(op)
    if k == "az":
        return _o_az(op, out)
    if k in ("cmp", "sub"):
        return _o_pair(op, out)
    if k == "repl":
        return _o_repl(op, out)
    if k == "date":
        return _o_date(op)
    if k == "time":
        return _o_time(op)
    if k == "ty":
        return _o_types(op)
    return "unknown op"


# ----------------------------------------------------------------------------- generation

SPECIAL = ("Australia/Lord_Howe", "Pacific/Kiritimati", "Pacific/Apia", "Europe/Paris", "America/Sao_Paulo",
           "Africa/Monrovia", "America/St_Johns", "Antarctica/Troll", "Europe/Dublin", "Africa/Casablanca")
LO_W = D.MIN_US + 5 * DAY
HI_W = Z.limit_us(YMAX) - 5 * DAY
FLOAT_LO = Z.to_us(dt.datetime(1850, 1, 1))     # pairs for subtraction stay within 2**33 s of each other


def _ok(w):
    return LO_W < w < HI_W


def _rand_zr(rng, kinds="zzzfn"):
    k = rng.choice(kinds)
    if k == "n":
        return "n"
    if k == "f":
        return "f%d" % (rng.choice((0, 3600, -3600, 19800, -12600, 86399, -86399, rng.randint(-86399, 86399))) * US)
    return str(rng.randrange(len(D.ZN)))


def _irr_pick(rng, name, per_zone):
    irr = [i for i in Z.irregular(name, YMAX) if _ok(i[1] * US) and _ok(i[2] * US)]
    if len(irr) <= per_zone:
        return irr
    if name in SPECIAL and len(irr) <= 6 * per_zone:
        return irr
    return [irr[0], irr[-1]] + rng.sample(irr[1:-1], max(0, per_zone - 2))


def gen_ops(rng, tier):
    per_zone = {"quick": 3, "thorough": 24, "widen": 10}[tier]       # SPECIAL zones: up to 6x as many
    utc = str(D.ZI["UTC"])
    for zi, name in enumerate(D.ZN):
        zr = str(zi)
        for kind, lo, hi, t, ob, oa in _irr_pick(rng, name, per_zone):
            frac = rng.choice((0, 1, 500000, 999999))
            pts = [lo * US - 1, lo * US + frac, ((lo + hi) // 2) * US + frac, (hi - 1) * US + 999999, hi * US]
            mid = pts[2]
            other = _rand_zr(rng, "zzf")
            for w in pts:
                for fold in (0, 1):
                    yield ("u", zr, w, fold)
                    for zr2, knd in ((zr, 0), (utc, 0), (other, 0), (other, 1), (zr, 1)):
                        if tier == "quick" and rng.random() < 0.5:
                            continue
                        yield ("az", zr, w, fold, zr2, knd)
                    if rng.random() < 0.3:
                        yield ("ty", zr, w, fold)
                    yield ("parts", zr, w, fold)
                    yield ("comb", zr, w, fold, "n")
                    if fold == 0 or rng.random() < 0.3:
                        yield ("comb", "n", w, fold, zr)
                    if rng.random() < 0.2:
                        yield ("comb", zr, w, fold, other)
            span = (hi - lo) * US
            pairs = [(zr, mid, 0, zr, mid, 1, 0), (zr, mid, 1, zr, mid, 0, 0), (zr, mid, 1, zr, mid, 0, 1),
                     (zr, mid, 1, zr, mid + max(1, span // 4), 0, 0), (zr, mid, 1, zr, mid + max(1, span // 4), 0, 1),
                     (zr, pts[0], 0, zr, pts[4], 1, 0), (zr, pts[4], 0, zr, pts[1], 1, 0), (zr, pts[1], 0, zr, pts[3], 1, 0),
                     (zr, mid, rng.randint(0, 1), other, mid + rng.randint(-2 * span, 2 * span), rng.randint(0, 1), 0),
                     (other, mid + rng.randint(-span, span), 0, zr, mid, 1, 0),
                     (zr, mid, 0, zr, mid + rng.choice((-1, 1)) * rng.randint(0, 400 * DAY), rng.randint(0, 1), rng.randint(0, 1))]
            for pr in pairs:
                if _ok(pr[1]) and _ok(pr[4]):
                    yield ("cmp",) + pr
                    if min(pr[1], pr[4]) > FLOAT_LO or abs(pr[1] - pr[4]) < 1000 * DAY:
                        yield ("sub",) + pr
            w2 = rng.choice(pts)
            yield ("repl", zr, mid + 40 * DAY, rng.randint(0, 1), w2, rng.randint(0, 1))
            yield ("repl", zr, mid, 1, w2 + rng.randint(-DAY, DAY), rng.randint(0, 1))
    n = {"quick": 4000, "thorough": 150000, "widen": 40000}[tier]
    for _ in range(n):
        zr = _rand_zr(rng)
        w = rng.randint(LO_W, HI_W)
        fold = rng.randint(0, 1)
        yield ("u", zr, w, fold)
        if zr != "n" or rng.random() < 0.2:
            yield ("az", zr, w, fold, _rand_zr(rng, "zzf"), rng.randint(0, 1))
        zr2 = "n" if zr == "n" else rng.choice((zr, _rand_zr(rng, "zzf")))
        w2 = w + rng.choice((-1, 1)) * rng.choice((0, 1, rng.randint(0, DAY), rng.randint(0, 100 * 365 * DAY)))
        if _ok(w2):
            fresh = int(zr2 == zr and zr != "n" and rng.random() < 0.3)
            yield ("cmp", zr, w, fold, zr2, w2, rng.randint(0, 1), fresh)
            yield ("sub", zr, w, fold, zr2, w2, rng.randint(0, 1), fresh)
            yield ("repl", zr, w, fold, w2, rng.randint(0, 1))
        if rng.random() < 0.1:
            yield ("ty", zr, w, fold)
        if rng.random() < 0.4:
            yield ("parts", zr, w, fold)
            yield ("comb", zr, w, fold, "n")
            yield ("comb", "n", w, fold, _rand_zr(rng, "zfn"))
    m = {"quick": 2000, "thorough": 100000, "widen": 20000}[tier]
    edge = [1, 2, 365, 366, 3652059, 3652058, 719163, 737484]
    for i in range(m):
        oa = edge[i] if i < len(edge) else rng.randint(1, 3652059)
        ob = rng.choice((oa, oa + rng.randint(-400, 400), rng.randint(1, 3652059)))
        ob = min(max(ob, 1), 3652059)
        yield ("date", oa, ob)
        yield ("dsub", oa, ob, i % 2)
        tdus = rng.choice((rng.randint(-400, 400) * DAY, rng.randint(-400 * DAY, 400 * DAY), rng.choice((1, -1)) * rng.choice((1, 3600 * 10**6, DAY - 1, DAY + 1)),
                           rng.randint(-3, 3) * DAY + rng.choice((1, -1, 43200 * 10**6))))
        yield ("dtd", oa, tdus, i % 3)
        yield ("dford", oa if i % 7 else rng.choice((0, -1, -400, 3652060, 3652061, 4000000, oa)))
        nd = dt.date.fromordinal(ob)
        pick = lambda good, bad: "x" if rng.random() < 0.4 else (good if rng.random() < 0.8 else rng.choice(bad))   # noqa: E731
        yield ("drepl", oa, pick(nd.year, (0, 10000, -1)), pick(nd.month, (0, 13, 2)), pick(nd.day, (0, 29, 30, 31, 32)))
    for i in range(m):
        ta = rng.choice((0, DAY - 1, rng.randrange(DAY)))
        tb = rng.choice((ta, 0, DAY - 1, rng.randrange(DAY)))
        zr = _rand_zr(rng, "nnzf")
        yield ("time", ta, tb, zr)
        fb = D.fields(tb)[3:]
        pick = lambda good, bad: "x" if rng.random() < 0.5 else (good if rng.random() < 0.85 else rng.choice(bad))   # noqa: E731
        zr2 = _rand_zr(rng, "zf")
        yield ("trepl", ta, zr, rng.randint(0, 1), pick(fb[0], (24, -1)), pick(fb[1], (60, -1)), pick(fb[2], (60, -1)), pick(fb[3], (1000000, -1)),
               rng.choice(("k", "k", "c", zr2 if zr2 != zr else "c")), rng.choice(("x", "x", 0, 1)))
        zo = rng.choice(("n", "n", "n", zr2))
        yield ("tsub", "s", ta, zr, tb, zo, i % 2)
        yield ("tsub", "r", ta, zr, tb, zo, 1)


def corpus():
    paris = str(D.ZI["Europe/Paris"])
    w = Z.to_us(dt.datetime(2013, 10, 27, 2, 30))
    g = Z.to_us(dt.datetime(2013, 3, 31, 2, 30))
    return [("u", paris, w, 1), ("u", paris, w, 0), ("u", paris, g, 1), ("u", "n", w, 0), ("u", "f3600000000", w, 1),
            ("cmp", paris, w, 0, paris, w, 1, 0), ("cmp", paris, w, 1, paris, w + 600 * US, 0, 0), ("cmp", paris, w, 1, paris, w, 0, 1),
            ("sub", paris, w, 1, paris, w, 0, 0), ("sub", paris, g + DAY, 0, paris, g - DAY, 0, 0), ("sub", paris, w, 1, paris, w, 0, 1),
            ("az", paris, w, 1, paris, 0), ("az", paris, w, 1, str(D.ZI["America/New_York"]), 1), ("ty", paris, w, 1),
            ("repl", paris, w + DAY, 0, w, 1), ("date", 1, 3652059), ("time", 0, DAY - 1, paris),
            ("parts", paris, w, 1), ("parts", paris, g, 0), ("comb", paris, w, 1, "n"), ("comb", paris, w, 0, "n"), ("comb", "n", w, 1, paris),
            ("comb", paris, g, 1, "n"), ("comb", "n", w, 1, "n"), ("comb", paris, w, 1, str(D.ZI["America/New_York"])),
            ("dford", 0), ("dford", 3652059), ("dford", 3652060), ("drepl", 737484, "x", 2, 30), ("drepl", 737484, 10000, "x", "x"),
            ("drepl", 737484, "x", "x", "x"), ("dsub", 1, 3652059, 0), ("dsub", 3652059, 1, 1),
            ("trepl", 9000 * US + 5, paris, 1, "x", "x", "x", "x", "k", 1), ("trepl", 9000 * US + 5, paris, 1, 24, "x", "x", "x", "k", "x"),
            ("trepl", 9000 * US + 5, "n", 0, 3, "x", "x", 7, str(D.ZI["America/New_York"]), "x"), ("trepl", 5, paris, 0, "x", "x", "x", "x", "c", "x"),
            ("tsub", "s", 5 * 3600 * US + 1, "n", 9000 * US, "n", 0), ("tsub", "s", 5, "n", 9000 * US, paris, 1), ("tsub", "s", 5, paris, 9000 * US, "n", 0),
            ("tsub", "r", 5, "n", 9000 * US, "n", 1), ("tsub", "r", 5, paris, 9000 * US, "n", 1), ("tsub", "r", 5, "n", 9000 * US, paris, 1)]


# ----------------------------------------------------------------------------- tags, findings

def _wc(zr, w):
    if zr == "n":
        return "naive"
    if zr[0] == "f":
        return "fixed"
    return {0: "skipped", 1: "unique", 2: "repeated"}[len(D.wall_solutions(_name(zr), w, YMAX))]


def tag(op, out):
    if op[0] == "dtd":
        return "dtd:" + ("whole-days" if op[2] % DAY == 0 else "sub-day-part")
    k = op[0]
    if k in ("u", "ty"):
        return "%s:%s:fold%d" % (k, _wc(op[1], op[2]), op[3])
    if k == "az":
        return "az:%s:%s" % (_wc(op[1], op[2]), "same" if (op[5] == 0 and op[4] == op[1]) else ("native-tz" if op[5] else "pendulum-tz"))
    if k in ("cmp", "sub"):
        return "%s:%s/%s:%s" % (k, _wc(op[1], op[2]), _wc(op[4], op[5]), "same" if _same(op) else ("fresh" if op[7] else "diff"))
    if k == "repl":
        return "repl:" + _wc(op[1], op[4])
    if k == "parts":
        return "parts:%s:fold%d" % (_wc(op[1], op[2]), op[3])
    if k == "comb":
        zr = op[1] if op[1] != "n" else op[4]
        return "comb:%s:%s:fold%d" % ("time-tz" if op[1] != "n" else ("arg-tz" if op[4] != "n" else "naive"), _wc(zr, op[2]), op[3]) + \
            (":both" if op[1] != "n" and op[4] != "n" else "")
    if k in ("dford", "drepl", "trepl", "tsub"):
        return k + (":err" if out.startswith("err") else ":ok") + (":" + op[1] if k == "tsub" else "")
    return k


TRIVIAL_TAGS = ("u:unique:fold0", "u:naive:fold0", "date", "time", "cmp:naive/naive:same", "sub:naive/naive:same")


def _m_wall_order(op, backend, out, viol):
    """F12: both operands carry the same tzinfo object and their wall-clock order differs from the order of their
    instants (or they are equal on the wall and differ as instants)"""
    if op[0] != "cmp" or not viol.startswith("ordering:") or not _same(op) or op[1] == "n":
        return False
    _, za, wa, fa, zb, wb, fb, fresh = op
    ia, ib = wa - _exp_off(za, wa, fa)[0], wb - _exp_off(zb, wb, fb)[0]
    return _sgn(wa - wb) != _sgn(ia - ib)


def _m_sub_same(op, backend, out, viol):
    """`a - b` with the same tzinfo object and different UTC offsets: pendulum answers with the elapsed time (C05),
    datetime subtracts the wall clocks"""
    if op[0] != "sub" or not viol.startswith("sub ") or not _same(op) or op[1] == "n":
        return False
    _, za, wa, fa, zb, wb, fb, fresh = op
    oa, ob = _exp_off(za, wa, fa)[0], _exp_off(zb, wb, fb)[0]
    return oa != ob and out == "ok %d" % ((wa - oa) - (wb - ob))


def _m_mixed_sub_skipped(op, backend, out, viol):
    """pendulum - native / native - pendulum where the NATIVE operand's wall time is skipped in its zone: the operand goes
    through DateTime.instance(), which normalises a non-existing time (C02's rule), datetime reads it with its fold's offset"""
    if op[0] != "sub":
        return False
    _, za, wa, fa, zb, wb, fb, fresh = op
    if viol.startswith("sub p-n"):
        zr, w = zb, wb
    elif viol.startswith("sub n-p") or viol.startswith("sub with a zoneinfo operand"):
        zr, w = (za, wa) if viol.startswith("sub n-p") else (zb, wb)
    else:
        return False
    return zr != "n" and zr[0] != "f" and len(D.wall_solutions(_name(zr), w, YMAX)) == 0


MATCHERS = {"c11_wall_order": _m_wall_order, "c11_sub_same_tzinfo": _m_sub_same, "c11_mixed_sub_skipped": _m_mixed_sub_skipped}
