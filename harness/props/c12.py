"""C12 — start_of/end_of delimit exactly the calendar unit that contains the value."""
from __future__ import annotations

import bisect
import calendar
import datetime as dt
import signal

from harness import dtutil as D
from harness import zones as Z

ID = "C12"
BACKENDS = ("py", "rs")
GEN_MODULES = ("StartOf",)
MIN_THEOREMS = 47
US = D.US
DAY = 86400 * US
YMAX = Z.YMAX_QUICK
UNITS = ("second", "minute", "hour", "day", "week", "month", "year", "decade", "century")
SUBDAY = ("second", "minute", "hour")
DATE_UNITS = UNITS[3:]
ORIGINS = ("mk", "ctor", "conv", "parse")
RULE = ("ops startof|endof x 9 units x 7 consistent week configurations on values x = (zone, instant) obtained by class "
        "constructor (both fold bits), pendulum.datetime(), UTC->in_tz conversion and parse().in_tz(); x placed around "
        "every gap/overlap of every zone whose skipped/repeated wall interval touches a day boundary (quick: a seeded "
        "sample of them + every zone's first/last + all whole-day skips and straddling gaps; thorough: all), around "
        "general transitions (sub-day units, Lord_Howe 30 min, LMT odd seconds), random instants x zones, fixed "
        "offsets, naive values, Dates incl. years 1..9 and 9990..9999. non-trivial = the unit's first or last wall "
        "label, or some label inside a sub-day unit, is skipped or repeated in the zone")
EXHAUSTIVE = {"quick": False, "thorough": False}
TRUSTED = [
    "zone tables extracted with the pure-Python zoneinfo reader (harness/zones.py); all satisfy the decidable WF predicate",
    "oracle: the unit of x is the set of instants whose rendering in the zone (offset from the extracted tz table) has the "
    "same truncated label as x — second/minute/hour: label and UTC offset, day and longer: date label only; "
    "start_of must be its minimum, end_of its maximum; labels computed with stdlib datetime/calendar only",
    "Model/StartOf.lean is a hand model of DateTime/Date.start_of/end_of (repaired tree), tied by this correspondence run",
]
ASSUMPTIONS = [
    "POSIX rule tails are expanded to year 2100; generated zone-aware values stay below 2099-01-01",
    "only the 7 consistent week configurations (week_ends_at = week_starts_at - 1 mod 7) are in the property's domain",
]

SPECIAL = ["Australia/Lord_Howe", "Pacific/Kiritimati", "Pacific/Apia", "Europe/Paris", "America/Sao_Paulo",
           "America/Toronto", "Africa/Monrovia", "America/St_Johns", "Asia/Kathmandu", "Antarctica/Troll",
           "America/Juneau", "Pacific/Kwajalein", "Asia/Manila", "America/Havana", "Asia/Beirut", "Africa/Cairo"]


def preamble():
    return D.preamble(YMAX)


# ----------------------------------------------------------------------------- independent reference

_TT = {}


def _tab(name):
    """(sorted transition instants µs, offsets µs with offsets[i] in force on [tt[i-1], tt[i]))"""
    r = _TT.get(name)
    if r is None:
        init, trs = Z.tables(YMAX)[name]
        r = ([t * US for t, _ in trs], [init * US] + [o * US for _, o in trs])
        _TT[name] = r
    return r


def _ztab(zr):
    if zr in ("n", "d"):
        return ([], [0])
    if zr[0] == "f":
        return ([], [int(zr[1:])])
    return _tab(D.zname(zr))


def wall_sols(zr, w):
    """instants u with u + off(u) == w, from the table (offsets are within +-26 h)"""
    tt, oo = _ztab(zr)
    i0 = bisect.bisect_right(tt, w - 2 * DAY)
    i1 = bisect.bisect_right(tt, w + 2 * DAY)
    out = []
    for i in range(i0, i1 + 1):
        u = w - oo[i]
        if (i == 0 or tt[i - 1] <= u) and (i == len(tt) or u < tt[i]):
            out.append(u)
    return out


def irr_near(zr, a, b):
    """gaps/overlaps (kind, wall_lo, wall_hi) in µs whose transition instant lies in [a - 2 d, b + 2 d]"""
    tt, oo = _ztab(zr)
    i0 = bisect.bisect_left(tt, a - 2 * DAY)
    i1 = bisect.bisect_right(tt, b + 2 * DAY)
    out = []
    for i in range(i0, i1):
        p, o = oo[i], oo[i + 1]
        if o > p:
            out.append(("gap", tt[i] + p, tt[i] + o))
        elif o < p:
            out.append(("fold", tt[i] + o, tt[i] + p))
    return out


def off_at(tab, u):
    tt, oo = tab
    return oo[bisect.bisect_right(tt, u)]


def ord_of_year(y):
    """proleptic ordinal of January 1st of year y (any integer year)"""
    p = y - 1
    return p * 365 + p // 4 - p // 100 + p // 400 + 1


def unit_labels(unit, wks, w):
    """first and last wall label (µs) of the calendar unit containing wall label w, plus the years the unit's
    first/last day fall in (to recognise units reaching outside 1..9999). stdlib only."""
    day0 = w - w % DAY
    if unit == "second":
        L = w - w % US
        return L, L + US - 1
    if unit == "minute":
        L = w - w % (60 * US)
        return L, L + 60 * US - 1
    if unit == "hour":
        L = w - w % (3600 * US)
        return L, L + 3600 * US - 1
    if unit == "day":
        return day0, day0 + DAY - 1
    o = w // DAY + 719163
    d = dt.date.fromordinal(o)
    if unit == "week":
        a = o - (d.weekday() - wks) % 7
        b = a + 6
    elif unit == "month":
        a = dt.date(d.year, d.month, 1).toordinal()
        b = a + calendar.monthrange(d.year, d.month)[1] - 1
    else:
        if unit == "year":
            y0, y1 = d.year, d.year
        elif unit == "decade":
            y0 = d.year // 10 * 10
            y1 = y0 + 9
        else:
            y0 = (d.year - 1) // 100 * 100 + 1
            y1 = y0 + 99
        a = ord_of_year(y0)
        b = ord_of_year(y1 + 1) - 1
    return (a - 719163) * DAY, (b - 719163) * DAY + DAY - 1


def unit_bounds(tab, L, H, ux, offx):
    """(min, max) of {u : L <= u + off(u) <= H [and off(u) == offx]} ; ux is known to be a member"""
    tt, oo = tab
    lo_u, hi_u = ux, ux
    W = 3 * DAY
    for centre, is_min in ((L, True), (H, False)):
        i0 = bisect.bisect_right(tt, centre - W)
        i1 = bisect.bisect_right(tt, centre + W)
        for i in range(i0, i1 + 1):
            o = oo[i]
            if offx is not None and o != offx:
                continue
            a = L - o
            b = H - o
            if i > 0:
                a = max(a, tt[i - 1])
            if i < len(tt):
                b = min(b, tt[i] - 1)
            if a <= b:
                if is_min:
                    lo_u = min(lo_u, a)
                else:
                    hi_u = max(hi_u, b)
    return lo_u, hi_u


def in_unit(tab, L, H, offx, u):
    o = off_at(tab, u)
    return L <= u + o <= H and (offx is None or o == offx)


# ----------------------------------------------------------------------------- ops
# op = (kind, unit, wks, zr, wall, fold, origin); (wall, fold) denotes the instant; origin says how x is obtained


def _wke(wks):
    return (wks + 6) % 7


def x_instant(zr, w, fold):
    """instant denoted by (wall, fold), or None when the wall value does not exist"""
    if zr[0] in "nfd":
        return w - _ztab(zr)[1][0]
    sols = wall_sols(zr, w)
    if not sols:
        return None
    return max(sols) if fold else min(sols)


def x_fold(op):
    """the fold bit the value carries, by origin"""
    kind, unit, wks, zr, w, fold, origin = op
    if zr[0] in "nd":
        return 0 if zr == "d" else fold
    if origin in ("mk", "ctor"):
        return fold if zr[0] != "f" or origin == "mk" else 0
    if zr[0] == "f":
        return 0
    sols = wall_sols(zr, w)
    return 1 if len(sols) == 2 and fold else 0


def line(op, backend):
    kind, unit, wks, zr, w, fold, origin = op
    if kind.startswith("bad"):
        return None                      # oracle only
    return "%s %s %d %d %s %d %d" % (kind, unit, wks, _wke(wks), zr, w, x_fold(op))


def _irregular_touching_midnight(irr):
    kind, lo, hi, t, ob, oa = irr
    # the skipped/repeated wall interval [lo, hi) contains or abuts a day boundary
    return lo % 86400 == 0 or hi % 86400 == 0 or lo // 86400 != (hi - 1) // 86400


def _straddling_gap(irr):
    kind, lo, hi, t, ob, oa = irr
    return kind == "gap" and lo % 86400 != 0 and hi % 86400 != 0 and lo // 86400 != (hi - 1) // 86400


def _probes(rng, zi, irr, units, n_inst, both):
    """values around one gap/overlap: just before/after the transition, at the far end of the skipped/repeated
    interval, and some hours away; `both` = emit start_of and end_of for every value (else one of them)"""
    kind, lo, hi, t, ob, oa = irr
    lim = Z.limit_us(YMAX)
    tu = t * US
    g = abs(oa - ob) * US
    insts = [tu - 1, tu, tu + g - 1, tu + g, tu - g, tu - 7 * 3600 * US, tu + 9 * 3600 * US, tu + 30 * 3600 * US,
             tu - 26 * 3600 * US + 1]
    if n_inst < len(insts):
        insts = insts[:2] + rng.sample(insts[2:], n_inst - 2)
    zr = str(zi)
    tab = _tab(D.ZN[zi])
    for u in insts:
        w = u + off_at(tab, u)
        if not (D.MIN_US + 400 * DAY < w < lim - 400 * DAY):
            continue
        sols = wall_sols(zr, w)
        fold = 1 if len(sols) == 2 and u == max(sols) else 0
        folds = (fold,) if len(sols) == 2 else (0, 1)
        for unit in units:
            wks = rng.randrange(7) if unit == "week" else 0
            for f in folds:
                ks = ("startof", "endof") if both else (rng.choice(("startof", "endof")),)
                for k in ks:
                    yield (k, unit, wks, zr, w, f, rng.choice(ORIGINS))


def _near_unit_edge(irr, unit):
    """does the transition lie within a day of a boundary of this (long) unit?"""
    kind, lo, hi, t, ob, oa = irr
    for s in (lo, hi):
        for delta in (-86400, 0, 86400):
            d = Z.from_us((s + delta) * US)
            if unit == "month" and (d.day == 1 or d.day >= 28):
                return True
            if unit in ("year", "decade", "century") and ((d.month, d.day) in ((1, 1), (12, 31))):
                if unit == "year":
                    return True
                y = d.year if d.month == 1 else d.year + 1
                if unit == "decade" and y % 10 == 0:
                    return True
                if unit == "century" and y % 100 == 1:
                    return True
    return False


BAD_UNITS = ("", "days", "Day", "DAY", "weeks", "quarter", "millisecond", "microsecond", "millennium", "centuries", "sec", "mins", "hours",
             "second ", " day", "d", "é", "none", "None")


def _bad_unit_ops(rng):
    """unknown unit names (and, for a Date, the three time-of-day units): ValueError, whatever the value"""
    for u in BAD_UNITS:
        for k in ("startof", "endof"):
            yield ("bad" + k, u, 0, "d", (rng.randint(1, 3652059) - 719163) * 86400 * US, 0, "bad")
            yield ("bad" + k, u, 0, rng.choice(("n", "f3600", str(rng.randrange(len(D.ZN))))), rng.randint(-10 ** 15, 4 * 10 ** 15), 1, "bad")
    for u in ("second", "minute", "hour"):
        for k in ("startof", "endof"):
            for _ in range(3):
                yield ("bad" + k, u, 0, "d", (rng.randint(1, 3652059) - 719163) * 86400 * US, 0, "bad")


def gen_ops(rng, tier):
    yield from _bad_unit_ops(rng)
    per_zone = {"quick": 4, "thorough": 10 ** 9, "widen": 8}[tier]
    n_mid = {"quick": 1500, "thorough": 10 ** 9, "widen": 5000}[tier]
    n_special = {"quick": 10, "thorough": 10 ** 9, "widen": 40}[tier]
    n_inst = {"quick": 5, "thorough": 6, "widen": 7}[tier]
    LONG = ("day", "week", "month", "year", "decade", "century")
    mids = []
    for zi, name in enumerate(D.ZN):
        irr = Z.irregular(name, YMAX)
        if not irr:
            continue
        keep, gen = [], []
        for it in irr:
            if _straddling_gap(it) or (it[2] - it[1]) >= 86400:
                keep.append(it)            # always: whole-day skips/repeats and gaps straddling midnight
            else:
                gen.append(it)
                if _irregular_touching_midnight(it):
                    mids.append((zi, it))
        cap = n_special if name in SPECIAL else per_zone
        if len(gen) > cap:
            gen = [gen[0], gen[-1]] + rng.sample(gen[1:-1], max(0, cap - 2))
        for it in keep:
            yield from _probes(rng, zi, it, LONG + SUBDAY, 9, True)
        for it in gen:
            longs = ("day",) + tuple(u for u in ("month", "year", "decade", "century") if _near_unit_edge(it, u))
            if rng.random() < 0.3:
                longs += ("week",)
            yield from _probes(rng, zi, it, longs + SUBDAY, n_inst, False)
    if len(mids) > n_mid:
        mids = rng.sample(mids, n_mid)
    for zi, it in mids:
        longs = ("day", "week") + tuple(u for u in ("month", "year", "decade", "century") if _near_unit_edge(it, u))
        yield from _probes(rng, zi, it, longs + ("hour",), 7, True)
    # random instants x zones / fixed / naive
    n = {"quick": 20000, "thorough": 400000, "widen": 100000}[tier]
    lim = Z.limit_us(YMAX) - 400 * DAY
    for _ in range(n):
        zi = rng.randrange(len(D.ZN))
        zr = rng.choice((str(zi), str(zi), str(zi), "f%d" % (rng.randint(-86399, 86399) * US), "n", "f0"))
        if zr[0] in "nf":
            w = rng.randint(D.MIN_US + 400 * DAY, D.MAX_US - 400 * DAY)
        else:
            w = rng.randint(D.MIN_US + 400 * DAY, lim)
        if rng.random() < 0.3:
            w -= w % rng.choice((US, 60 * US, 3600 * US, DAY))
            w -= rng.choice((0, 0, 1))
        fold = rng.randint(0, 1)
        if x_instant(zr, w, fold) is None:
            continue
        origin = rng.choice(ORIGINS) if zr != "n" else "mk"
        yield (rng.choice(("startof", "endof")), rng.choice(UNITS), rng.randrange(7), zr, w, fold, origin)
    # Dates: all week configurations, month/year ends, edges of the supported range
    nd = {"quick": 8000, "thorough": 200000, "widen": 40000}[tier]
    for _ in range(nd):
        o = rng.choice((rng.randint(1, 3652059), rng.randint(1, 3700), rng.randint(3652059 - 3700, 3652059)))
        yield (rng.choice(("startof", "endof")), rng.choice(DATE_UNITS), rng.randrange(7), "d", (o - 719163) * DAY, 0, "date")
    for y in (1, 2, 9, 10, 11, 99, 100, 101, 1999, 2000, 2001, 9989, 9990, 9999):
        for (m, d_) in ((1, 1), (12, 31), (2, 28), (3, 1), (6, 15)):
            o = dt.date(y, m, d_).toordinal()
            for unit in DATE_UNITS:
                for k in ("startof", "endof"):
                    for wks in ((0, 6) if unit == "week" else (0,)):
                        yield (k, unit, wks, "d", (o - 719163) * DAY, 0, "date")
                        yield (k, unit, wks, "n", (o - 719163) * DAY + 12345678901, 0, "mk")
                        yield (k, unit, wks, "f3600000000", (o - 719163) * DAY + 12345678901, 0, "ctor")


def corpus():
    zi = D.ZI
    sp, ki, ap, lh, to, pa = (str(zi[n]) for n in ("America/Sao_Paulo", "Pacific/Kiritimati", "Pacific/Apia",
                                                  "Australia/Lord_Howe", "America/Toronto", "Europe/Paris"))
    t = lambda *a: Z.to_us(dt.datetime(*a))  # noqa: E731
    out = [
        ("startof", "day", 0, sp, t(2013, 10, 20, 10), 0, "conv"),        # F11
        ("startof", "day", 0, sp, t(2013, 10, 20, 10), 1, "ctor"),
        ("startof", "week", 6, sp, t(2013, 10, 23, 12), 1, "ctor"),
        ("endof", "day", 0, sp, t(2014, 2, 15, 12), 0, "conv"),
        ("endof", "day", 0, sp, t(2014, 2, 15, 12), 1, "ctor"),
        ("startof", "week", 0, ki, t(1995, 1, 1, 12), 1, "ctor"),         # previous() never returned here
        ("endof", "week", 6, ki, t(1994, 12, 30, 12), 1, "ctor"),
        ("endof", "month", 0, ki, t(1994, 12, 30, 12), 1, "ctor"),
        ("endof", "year", 0, ki, t(1994, 12, 30, 12), 0, "conv"),
        ("startof", "week", 5, ap, t(2011, 12, 31, 12), 1, "ctor"),
        ("startof", "hour", 0, pa, t(2013, 10, 27, 2, 30), 1, "conv"),
        ("endof", "hour", 0, pa, t(2013, 10, 27, 2, 30), 0, "conv"),
        ("startof", "hour", 0, lh, t(2013, 4, 7, 1, 45), 1, "conv"),      # partial hour: stays a finding
        ("startof", "day", 0, to, t(1919, 3, 31, 0, 45), 0, "conv"),      # gap straddling midnight: stays a finding
    ]
    return out


# ----------------------------------------------------------------------------- real code

_P = {}


class _Hang(Exception):
    pass


def _alarm(*_):
    raise _Hang()


def worker_init(backend):
    import pendulum
    _P.update(p=pendulum)
    signal.signal(signal.SIGALRM, _alarm)


def _build(op):
    p = _P["p"]
    kind, unit, wks, zr, w, fold, origin = op
    f = D.fields(w)
    if zr == "d":
        return p.Date(f[0], f[1], f[2])
    tz = D.tzobj(zr)
    if zr == "n":
        return p.DateTime(*f, fold=fold)
    if origin == "mk":
        return p.DateTime(*f, tzinfo=tz, fold=fold)
    if origin == "ctor":
        return p.datetime(*f, tz=tz, fold=fold)
    u = x_instant(zr, w, fold)
    if origin == "conv":
        return p.DateTime(*D.fields(u), tzinfo=p.UTC).in_tz(tz)
    # parse: RFC 3339 string carrying the value's own offset, then conversion to the zone
    off = (w - u) // US
    sgn = "-" if off < 0 else "+"
    a = abs(off)
    if a % 60:
        # offsets with seconds (LMT) cannot be written in ISO 8601: write the instant in UTC
        s = "%04d-%02d-%02dT%02d:%02d:%02d.%06dZ" % D.fields(u)
    else:
        s = "%04d-%02d-%02dT%02d:%02d:%02d.%06d" % f + "%s%02d:%02d" % (sgn, a // 3600, a % 3600 // 60)
    return p.parse(s).in_tz(tz)


def impl(op, backend):
    p = _P["p"]
    kind, unit, wks, zr, w, fold, origin = op
    if kind.startswith("bad"):
        if zr == "d":
            f = D.fields(w)
            x = p.Date(f[0], f[1], f[2])
        else:
            sols = D.wall_solutions(D.zname(zr), w, YMAX) if zr[0] not in "nf" else [w]
            if not sols:
                return "skip"
            x = D.mk(zr, w, 1)
        r = x.start_of(unit) if kind == "badstartof" else x.end_of(unit)
        return "ok " + type(r).__name__
    x = _build(op)
    if zr != "d":
        u = x_instant(zr, w, fold)
        exp = "ok %d %d %d" % (w, w - u, x_fold(op))
        if D.outv(x) != exp:
            return "err BadSetup"
    old = (p._WEEK_STARTS_AT, p._WEEK_ENDS_AT)
    signal.setitimer(signal.ITIMER_REAL, 5.0)
    try:
        # The week configuration is global state: reach the requested configuration through different call SEQUENCES
        # (order of the two setters, week operations evaluated in between, a different configuration before), chosen
        # deterministically from the op - the result must depend on the final configuration only.
        hist = (w // 1000003 + wks + len(unit)) % 4

        def probe():
            try:
                x.start_of("week")
                x.end_of("week")
            except Exception:  # noqa: BLE001
                pass
        if hist == 0:
            p.week_starts_at(p.WeekDay(wks))
            p.week_ends_at(p.WeekDay(_wke(wks)))
        elif hist == 1:
            p.week_ends_at(p.WeekDay(_wke(wks)))
            p.week_starts_at(p.WeekDay(wks))
        elif hist == 2:
            p.week_starts_at(p.WeekDay(wks))
            probe()
            p.week_ends_at(p.WeekDay(_wke(wks)))
        else:
            other = (wks + 3) % 7
            p.week_starts_at(p.WeekDay(other))
            p.week_ends_at(p.WeekDay(_wke(other)))
            probe()
            p.week_ends_at(p.WeekDay(_wke(wks)))
            probe()
            p.week_starts_at(p.WeekDay(wks))
        fn = "start_of" if kind == "startof" else "end_of"
        try:
            r = getattr(x, fn)(unit)
            r2 = getattr(r, fn)(unit)
        except _Hang:
            return "err Hang"
    finally:
        signal.setitimer(signal.ITIMER_REAL, 0)
        p.week_starts_at(old[0])
        p.week_ends_at(old[1])
    if zr == "d":
        if type(r) is not p.Date or type(r2) is not p.Date:
            return "err WrongType"
        return "ok %d 0 0 %d 0 0" % ((r.toordinal() - 719163) * DAY, (r2.toordinal() - 719163) * DAY)
    if type(r) is not p.DateTime or type(r2) is not p.DateTime:
        return "err WrongType"
    if zr == "n":
        if r.tzinfo is not None or r2.tzinfo is not None:
            return "err WrongZone"
    elif r.tzinfo is not x.tzinfo or r2.tzinfo is not x.tzinfo or r.timezone_name != x.timezone_name:
        return "err WrongZone"
    return D.outv(r) + D.outv(r2)[2:]


# ----------------------------------------------------------------------------- oracle

def _year_of(w):
    """year of a wall label (any integer year), by ordinal arithmetic"""
    o = w // DAY + 719163
    y = (o - 1) // 366 + 1
    while ord_of_year(y + 1) <= o:
        y += 1
    return y


def oracle(op, out, backend):
    kind, unit, wks, zr, w, fold, origin = op
    if kind.startswith("bad"):
        if out in ("skip", "err ValueError"):
            return None
        return f"{'Date' if zr == 'd' else 'DateTime'}.{kind[3:]}({unit!r}): expected ValueError for an unknown unit, got {out}"
    if out in ("err BadSetup",):
        return "harness: could not build the value (%s)" % out
    tab = _ztab(zr)
    ux = x_instant(zr, w, fold)
    offx = w - ux
    L, H = unit_labels(unit, wks, w)
    start = kind == "startof"
    T = L if start else H
    if not (D.MIN_US <= T <= D.MAX_US):
        # the unit reaches outside years 1..9999: no value can denote its boundary
        return None if out.startswith("err ") and out != "err Hang" else f"boundary outside 1..9999 but got {out}"
    if not out.startswith("ok "):
        return f"{kind}({unit}) raised/failed: {out}"
    rw, ro, rf, w2, o2, f2 = (int(v) for v in out.split()[1:])
    if zr == "d":
        exp = L if start else H - (DAY - 1)
        if rw != exp:
            return f"Date: expected day {Z.from_us(exp).date()}, got {Z.from_us(rw).date()}"
        if w2 != rw:
            return "Date: not idempotent"
        return None
    s = rw - ro
    if off_at(tab, s) != ro:
        return f"result {out} is not a local time of the zone (offset at that instant is {off_at(tab, s)})"
    offu = offx if unit in SUBDAY else None
    if not (L <= rw <= H) or (offu is not None and ro != offu):
        return f"result {Z.from_us(rw)} offset {ro // US} is outside the unit [{Z.from_us(L)} .. {Z.from_us(H)}] of x (offset {offx // US})"
    if start and s > ux:
        return f"start_of is after x as instants by {s - ux} us"
    if not start and s < ux:
        return f"end_of is before x as instants by {ux - s} us"
    nb = s - 1 if start else s + 1
    if in_unit(tab, L, H, offu, nb):
        return f"the microsecond {'before start_of' if start else 'after end_of'} is still in the same unit"
    mn, mx = unit_bounds(tab, L, H, ux, offu)
    if start and s != mn:
        return f"start_of is not the first instant of the unit (off by {s - mn} us)"
    if not start and s != mx:
        return f"end_of is not the last instant of the unit (off by {mx - s} us)"
    if (w2, o2, f2) != (rw, ro, rf):
        return f"not idempotent: second application gives {Z.from_us(w2)} offset {o2 // US} fold {f2}"
    return None


# ----------------------------------------------------------------------------- coverage tags / findings

def _label_class(zr, w):
    if zr[0] in "nfd":
        return "plain"
    n = len(wall_sols(zr, w))
    return {0: "skipped", 1: "unique", 2: "repeated"}[n]


def _inner_irregular(zr, L, H):
    """some label strictly inside [L, H] starts or ends a skipped/repeated interval (sub-day units)"""
    if zr[0] in "nfd":
        return False
    for kind, a, b in irr_near(zr, L, H):
        if a <= H and b > L and not (a <= L and b > H):
            return True
    return False


def tag(op, out):
    kind, unit, wks, zr, w, fold, origin = op
    if kind.startswith("bad"):
        return "badunit:" + ("date" if zr == "d" else "datetime")
    L, H = unit_labels(unit, wks, w)
    T = L if kind == "startof" else H
    c = _label_class(zr, T) if D.MIN_US <= T <= D.MAX_US else "outofrange"
    if c in ("unique",) and unit in SUBDAY and _inner_irregular(zr, L, H):
        c = "partial"
    return f"{unit}:{kind}:{c}"


TRIVIAL_TAGS = tuple(f"{u}:{k}:{c}" for u in UNITS for k in ("startof", "endof") for c in ("unique", "plain"))


def _m_boundary(op, backend, out, viol):
    """F11 residue: the wall label of the unit boundary is skipped or repeated in the zone, or (sub-day units)
    a skipped/repeated interval begins or ends inside the unit"""
    kind, unit, wks, zr, w, fold, origin = op
    if zr[0] in "nfd" or kind not in ("startof", "endof"):
        return False
    L, H = unit_labels(unit, wks, w)
    T = L if kind == "startof" else H
    if unit in SUBDAY:
        # only units that contain an edge of a gap/overlap; a unit lying wholly inside a repeated hour is resolved correctly
        # (theorems subday_*_noedge) and is NOT excused
        return _inner_irregular(zr, L, H)
    # day and longer (repaired): only a boundary label strictly inside a gap is still resolved wrongly
    if _label_class(zr, T) != "skipped":
        return False
    for k, a, b in irr_near(zr, T, T):
        if k == "gap" and a <= T < b:
            return (T != a) if kind == "startof" else (T != b - 1)
    return False


MATCHERS = {"boundary": _m_boundary}


def extra_evidence(tier):
    return dict(
        unit_reading="second/minute/hour: same truncated wall label AND same UTC offset; day and longer: same date label",
        subday_full_theorems="subday_startOf_noedge … subday_passes_disjoint_noedge: full C12 (label-unit AND UTC offset) for second/minute/hour "
                             "whenever no edge of a gap/overlap lies inside the unit (noEdge: labels all ordinary or all repeated)",
        partial_theorems_missing={
            "subday_startOf_partial / subday_endOf_partial": "boundary label of a second/minute/hour unit skipped or repeated, or a gap/overlap "
                                                             "beginning/ending inside the unit (finding F11, matcher 'boundary')",
            "startOf_le … idempotent_end (hypotheses startOK/endOK)": "day-or-longer boundary label strictly inside a gap (gap straddling "
                                                                      "midnight; Lean counterexample straddle_counterexample; finding F11)",
        },
        fix_commits_expected_in_repo=["fix: start_of/end_of of day and longer units resolve a skipped or repeated boundary inside the unit",
                                      "fix: start_of/end_of('week') compute the boundary day arithmetically"],
        week_configurations=[[s, _wke(s)] for s in range(7)],
    )
