"""C18 — human-readable differences are total, localized and correctly directed.

ops
  ("fmt", how, loc, y, mo, w, d, h, mi, s, inv, is_now, absolute)
        how = "dur"  pendulum.duration(...) (canonical, non-negative)      -> pendulum.format_diff
              "neg"  pendulum.duration(...) with every component negated   -> pendulum.format_diff (invert = True)
              "itv"  Interval(base, base.add(...), absolute=True) (inv: swapped) -> pendulum.format_diff
              "raw"  a plain object carrying exactly the attributes `format` reads -> DifferenceFormatter().format
              "def"  like "dur", but the locale is the process-wide default (pendulum.set_locale), locale=None in the call
              "dfh-dt" | "dfh-date" | "dfh-time"   a.diff_for_humans(b, absolute, locale)  (is_now = 0)
  ("words", how, loc, y, mo, w, d, h, mi, s, us, sep)     how = "dur" | "itv" | "itv-"   -> .in_words(locale, separator)
  ("alias", spelled, loc)  Locale.load(spelled) is Locale.load(loc)   (normalisation + cache; no model counterpart)
  ("plural", loc, n)      Locale.plural(n), Locale.ordinal(n)      (self-test of the lambda translation)
  ("ordz", loc, n)        Locale.ordinalize(n)
  ("tok", loc, token, y, m, d, hour)    DateTime.format(token, locale)
Time travel is broken in this environment: `now`-relative phrases go through an explicit other value + the is_now flag.
"""
from __future__ import annotations

import datetime as dt
import re
from fractions import Fraction

from harness.common import dec_str, enc_str

ID = "C18"
BACKENDS = ("py", "rs")
GEN_MODULES = ("Locales", "DiffFmt")
MIN_THEOREMS = 36
RULE = ("every shipped locale x 7 units x counts 0..200 (quick) / 0..1000 (thorough) x is_now x direction x absolute "
        "through format_diff / DifferenceFormatter.format on real Durations, Intervals or attribute carriers; every rounding "
        "threshold neighbourhood; random pairs of instants (month ends and the turn of the year over-sampled) whose English phrase must be within "
        "one unit of the true elapsed time and carry the right direction marker (oracle only); diff_for_humans(other) on DateTime/Date/Time with the reference given as the pendulum class, its native counterpart, or (Date) a pendulum/native datetime; in_words on Durations and Intervals; "
        "plural/ordinal lambdas on -120..1300; 14 locale tokens x 12 months x 7 weekdays x am/pm. non-trivial = distinct op "
        "that is not a plain mid-range count with the default flags")
EXHAUSTIVE = {"quick": False, "thorough": True}
TRUSTED = [
    "Gen/Locales/*.lean are regenerated from src/pendulum/locales/*/locale.py + custom.py each run (tools/gen_locales.py); "
    "templates are pre-split with string.Formatter().parse; plural/ordinal lambdas by the restricted expression translator",
    "Model/Diff.lean is a hand model of DifferenceFormatter.format, in_words, Locale.get/ordinalize, _format_localizable_token, "
    "tied by this correspondence run; strings are lists of code points",
    "oracle: an independent re-statement of the documented rounding and of the marker rule over the locale module's own dictionaries "
    "(placeholders substituted with re, never str.format)",
]
ASSUMPTIONS = [
    "the components of an Interval (precise_diff) are taken as given (C06); ops use start 2000-01-01 and day parts <= 27 so that they are predictable",
    "abs(microseconds)/1e6 formatted with :.2f is modelled as IEEE-754 binary64 division + correctly rounded decimal conversion (exact integer arithmetic)",
    "a Duration with negative components passed to format_diff is only required to render (totality); rounding/direction are specified for absolute differences",
]

UNITS = ("year", "month", "week", "day", "hour", "minute", "second")
TOKENS = ("MMM", "MMMM", "dd", "ddd", "dddd", "e", "Do", "do", "Mo", "Qo", "wo", "DDDo", "eo", "A")
_LOCALES = None


def locales():
    global _LOCALES
    if _LOCALES is None:
        from tools import gen_lean, gen_locales
        _LOCALES = tuple(gen_locales.locale_names(gen_lean.REPO))
    return _LOCALES


# ----------------------------------------------------------------------------- generation

def canonical(c):
    y, mo, w, d, h, mi, s = c
    return (min(c) >= 0 and mo <= 11 and d <= 6 and h <= 23 and mi <= 59 and s <= 59)


def itv_ok(c):
    y, mo, w, d, h, mi, s = c
    return canonical(c) and w * 7 + d <= 27 and y <= 7000


def unit_comps(unit, n):
    c = [0] * 7
    c[UNITS.index(unit)] = n
    return tuple(c)


def pick_how(c, inv, salt):
    """a real object whenever the components are representable, else the attribute carrier"""
    if itv_ok(c) and (any(c) if inv else salt % 2 == 0):
        return "itv"
    if canonical(c) and not inv:
        return "dur"
    return "raw"


def threshold_comps():
    out = []
    for y in (1, 2):
        for mo in (0, 5, 6, 7, 11):
            out.append((y, mo, 0, 0, 0, 0, 0))
    for mo in (1, 2, 10, 11):
        for days in (0, 14, 15, 16, 17, 26, 27, 28, 30):
            out.append((0, mo, days // 7, days % 7, 0, 0, 0))
            out.append((0, mo, 0, days, 0, 0, 0))          # non-canonical carrier: all days in remaining_days
    for w in (1, 2, 3, 52):
        for d in range(0, 7):
            out.append((0, 0, w, d, 0, 0, 0))
    for d in (1, 2, 6):
        for h in (0, 1, 21, 22, 23):
            out.append((0, 0, 0, d, h, 59, 59))
    for h in (1, 23):
        for mi in (0, 29, 30, 59):
            out.append((0, 0, 0, 0, h, mi, 30))
    for mi in (1, 59):
        for s in (0, 29, 30, 59):
            out.append((0, 0, 0, 0, 0, mi, s))
    for s in (0, 1, 9, 10, 11, 12, 58, 59, 60, 61, 100):
        out.append((0, 0, 0, 0, 0, 0, s))
    return out


_EPOCH = dt.datetime(1970, 1, 1)


def _pair_ops(rng, tier):
    """random pairs of instants (UTC, English phrases): the magnitude must be within one unit of the true elapsed time and the
    direction right, whatever components precise_diff reports in between. Month ends and the turn of the year are over-sampled."""
    n = {"quick": 12_000, "thorough": 400_000, "widen": 60_000}[tier]
    lo = int((dt.datetime(1800, 1, 1) - _EPOCH).total_seconds())
    hi = int((dt.datetime(2300, 1, 1) - _EPOCH).total_seconds())
    for _ in range(n):
        r = rng.random()
        if r < 0.35:
            # the later value early in a month, the earlier one late in the month before (January twice as often)
            y, m = rng.randint(1801, 2299), rng.choice((1, 1, 1, 2, 3, 3, 5, 7, 8, 10, 12))
            d2 = rng.randint(1, 12)
            b = dt.datetime(y, m, d2, rng.randint(0, 23), rng.randint(0, 59), rng.randint(0, 59))
            prev_last = dt.datetime(y, m, 1) - dt.timedelta(days=1)
            a = prev_last.replace(day=rng.randint(max(1, d2), prev_last.day), hour=rng.randint(0, 23), minute=rng.randint(0, 59))
            if rng.random() < 0.3:
                a = a.replace(year=a.year - rng.randint(0, 3)) if not (a.month == 2 and a.day == 29) else a
            ta, tb = int((a - _EPOCH).total_seconds()), int((b - _EPOCH).total_seconds())
        else:
            ta = rng.randint(lo, hi)
            span = int(10 ** rng.uniform(0, 8.2)) * rng.choice((1, 1, 1, 60, 3600, 86400))
            tb = ta + min(span, 4 * 366 * 86400)
        if not lo - 5 * 366 * 86400 < ta <= tb < hi:
            continue
        if rng.random() < 0.5:
            ta, tb = tb, ta
        yield ("pair", ta, tb, rng.randint(0, 1))


_NOW_ZONES = ("Asia/Tokyo", "America/Toronto", "Pacific/Kiritimati", "Pacific/Pago_Pago", "Asia/Kolkata", "UTC", "Europe/Paris")


def _now_ops(rng, tier):
    """now-relative phrases (no reference given): an instant `delta` seconds from the real clock, under a configured local timezone
    that differs from the platform's. Oracle only, English: 'ago' / 'from now' and a magnitude within one unit (+ a minute of slack)"""
    for _ in range({"quick": 300, "thorough": 3000, "widen": 600}[tier]):
        mag = rng.choice((rng.randint(90, 3500), rng.randint(3700, 80000), rng.randint(90000, 30 * 86400)))
        yield ("nowrel", rng.choice((-1, 1)) * mag, rng.choice(_NOW_ZONES), rng.randint(0, 2))


def gen_ops(rng, tier):
    yield from _pair_ops(rng, tier)
    yield from _now_ops(rng, tier)
    locs = locales()
    top = 200 if tier == "quick" else 1000
    flags = [(inv, now, ab) for inv in (0, 1) for now in (0, 1) for ab in (0, 1)]
    # 1. every locale x unit x count x flags
    for loc in locs:
        for unit in UNITS:
            for n in range(0, top + 1):
                c = unit_comps(unit, n)
                for k, (inv, now, ab) in enumerate(flags):
                    yield ("fmt", pick_how(c, inv, n + k), loc) + c + (inv, now, ab)
    # 2. rounding thresholds, every locale, all flags
    th = threshold_comps()
    for loc in locs:
        for c in th:
            for k, (inv, now, ab) in enumerate(flags):
                yield ("fmt", pick_how(c, inv, k), loc) + c + (inv, now, ab)
                if canonical(c) and inv and any(c):
                    yield ("fmt", "neg", loc) + tuple(-x for x in c) + (1, now, ab)
    # 2b. the process-wide default locale (helpers.set_locale / _LOCALE) and spelling normalisation + cache
    for loc in locs:
        for c in th[::3] + [unit_comps(u, n) for u in UNITS for n in (0, 1, 2, 5, 21)]:
            if canonical(c):
                for now in (0, 1):
                    for ab in (0, 1):
                        yield ("fmt", "def", loc) + c + (0, now, ab)
                yield ("words", "def", loc) + c + (0, " ")
        for sp in sorted({loc.upper(), loc.replace("_", "-"), loc.replace("_", "-").upper(), loc.title()}):
            yield ("alias", sp, loc)
    # 3. diff_for_humans(other) on the three classes
    for loc in locs:
        for c in th + [unit_comps(u, n) for u in UNITS for n in (0, 1, 2, 3, 5, 11, 21, 22, 27)]:
            if not itv_ok(c):
                continue
            for later in (0, 1):
                if later and not any(c) and c[:4] != (0, 0, 0, 0):
                    continue                 # identical values: the instance cannot be later (sub-second: see the impl)
                for ab in (0, 1):
                    yield ("fmt", "dfh-dt", loc) + c + (later, 0, ab)
                    if c[4:] == (0, 0, 0) and (any(c) or not later):
                        yield ("fmt", "dfh-date", loc) + c + (later, 0, ab)
                    if c[:4] == (0, 0, 0, 0):
                        yield ("fmt", "dfh-time", loc) + c + (later, 0, ab)
    # 4. random component tuples (canonical through real objects, arbitrary through the carrier)
    n_rand = 30_000 if tier == "quick" else 400_000
    for _ in range(n_rand):
        loc = rng.choice(locs)
        inv, now, ab = rng.choice(flags)
        r = rng.random()
        if r < 0.5:
            lead = rng.randrange(7)
            c = [0] * 7
            hi = (300, 11, 3, 6, 23, 59, 59)
            for i in range(lead, 7):
                c[i] = rng.randint(0, hi[i]) if rng.random() < 0.8 else 0
            c = tuple(c)
            yield ("fmt", pick_how(c, inv, rng.randrange(2)), loc) + c + (inv, now, ab)
        elif r < 0.8:
            c = tuple(rng.choice((0, 0, 1, 2, 6, 7, 11, 12, 15, 16, 22, 27, 30, 59, 60, rng.randint(0, 2000))) for _ in range(7))
            yield ("fmt", "raw", loc) + c + (inv, now, ab)
        else:
            c = tuple(rng.choice((0, 0, 0, 1, -1, 5, -5, 11, -11, 30, -30, rng.randint(-100, 100))) for _ in range(7))
            yield ("fmt", "raw", loc) + c + (inv, now, ab)
    # 5. in_words
    seps = (" ", ", ", "", "-")
    for loc in locs:
        for unit in UNITS:
            for n in list(range(0, 31)) + [100, 101, 102, 111, 1000]:
                c = unit_comps(unit, n)
                if canonical(c):
                    yield ("words", "dur", loc) + c + (0, " ")
                    yield ("words", "dur", loc) + tuple(-x for x in c) + (0, " ")
                if itv_ok(c):
                    yield ("words", "itv", loc) + c + (0, " ")
                    yield ("words", "itv-", loc) + tuple(-x for x in c) + (0, " ")
        for us in (0, 1, 4999, 5000, 5001, 15000, 25000, 994999, 995000, 999999, -1, -5000, -999999):
            yield ("words", "dur", loc, 0, 0, 0, 0, 0, 0, 0, us, " ")
            if us >= 0:
                yield ("words", "itv", loc, 0, 0, 0, 0, 0, 0, 0, us, " ")
        for _ in range(60 if tier == "quick" else 600):
            lead = rng.randrange(7)
            hi = (50, 11, 3, 6, 23, 59, 59)
            c = tuple((rng.randint(0, hi[i]) if rng.random() < 0.7 else 0) if i >= lead else 0 for i in range(7))
            how = rng.choice(("dur", "itv", "itv-")) if itv_ok(c) else "dur"
            sg = -1 if how == "itv-" or (how == "dur" and rng.random() < 0.3) else 1
            yield ("words", how, loc) + tuple(sg * x for x in c) + (sg * rng.choice((0, 0, 1, 123456, 999999)), rng.choice(seps))
    # the float rendering of the sub-second fallback: every half-way case, then a sample / everything
    for k in range(100):
        yield ("words", "dur", "en", 0, 0, 0, 0, 0, 0, 0, 5000 * (2 * k + 1), " ")
    if tier == "thorough":
        for us in range(1, 1_000_000):
            yield ("words", "dur", "en", 0, 0, 0, 0, 0, 0, 0, us, " ")
    else:
        for _ in range(5000):
            yield ("words", "dur", rng.choice(locs), 0, 0, 0, 0, 0, 0, 0, rng.randint(1, 999_999), " ")
    # 6. plural / ordinal lambdas and ordinalize
    for loc in locs:
        for n in range(-120, 1301 if tier == "quick" else 12001):
            yield ("plural", loc, n)
        for n in range(0, 400):
            yield ("ordz", loc, n)
    # 7. locale tokens: 12 months x 7 weekdays (2024: Jan 1 is a Monday; first 7 days of each month) x am/pm
    for loc in locs:
        for tok in TOKENS:
            for m in range(1, 13):
                for d in range(1, 8):
                    for hour in ((3, 15) if tok == "A" else (3,)):
                        yield ("tok", loc, tok, 2024, m, d, hour)
            for d in (8, 11, 12, 13, 21, 22, 23, 28, 31):
                yield ("tok", loc, tok, 2023, 12, d, 3)
    # 7b. the localized composite formats (LT LTS L LL LLL LLLL), every locale, morning and afternoon: every placeholder substituted
    #     (oracle only: the reference is C08's independent reading of the locale's date_formats entry)
    for loc in locs:
        for tok in ("LT", "LTS", "L", "LL", "LLL", "LLLL"):
            for (m, d, hour) in ((3, 14, 15), (1, 7, 9), (12, 31, 0), (7, 4, 12)):
                yield ("ltok", loc, tok, 2021, m, d, hour)


def corpus():
    return [
        ("fmt", "itv", "zh", 0, 0, 0, 3, 0, 0, 0, 0, 0, 0),       # F7a: zh custom.after/before use {time}
        ("fmt", "dfh-dt", "zh", 1, 0, 0, 0, 0, 0, 0, 1, 0, 0),
        ("tok", "nl", "e", 2024, 1, 1, 3),                         # F7b: nl week_data nested under day_periods
        ("tok", "nl", "eo", 2024, 1, 7, 3),
    ]


# ----------------------------------------------------------------------------- model request

def line(op, backend):
    k = op[0]
    if k in ("pair", "nowrel", "ltok"):
        return None          # oracle only: the true elapsed time is the reference, not the model's component arithmetic
    if k == "fmt":
        return " ".join(["c18fmt", op[2]] + [str(x) for x in op[3:]])
    if k == "words":
        return " ".join(["c18words", op[2]] + [str(x) for x in op[3:11]] + [enc_str(op[11])])
    if k == "plural":
        return f"c18plural {op[1]} {op[2]}"
    if k == "ordz":
        return f"c18ordz {op[1]} {op[2]}"
    if k == "tok":
        _, loc, tok, y, m, d, hour = op
        x = dt.date(y, m, d)
        return " ".join(["c18tok", loc, tok] + [str(v) for v in (
            m, x.weekday(), d, (m - 1) // 3 + 1, x.isocalendar()[1], x.timetuple().tm_yday, hour)])
    return None


# ----------------------------------------------------------------------------- implementation

_P = {}


class _Carrier:
    __slots__ = ("years", "months", "weeks", "remaining_days", "hours", "minutes", "remaining_seconds", "invert")


def worker_init(backend):
    import importlib

    import pendulum
    from pendulum.formatting.difference_formatter import DifferenceFormatter
    from pendulum.locales.locale import Locale
    _P["p"] = pendulum
    _P["DF"] = DifferenceFormatter()
    _P["Locale"] = Locale
    _P["base"] = pendulum.datetime(2000, 1, 1, 0, 0, 0, tz="UTC")
    _P["data"] = {}
    for loc in locales():
        _P["data"][loc] = importlib.import_module(f"pendulum.locales.{loc}.locale").locale


def _attrs(x):
    return (x.years, x.months, x.weeks, x.remaining_days, x.hours, x.minutes, x.remaining_seconds)


def _build(how, c, inv, us=0):
    """-> the real object carrying components c (checked), or raises _Construct"""
    p = _P["p"]
    y, mo, w, d, h, mi, s = c
    if how in ("dur", "neg", "def"):
        x = p.duration(years=y, months=mo, weeks=w, days=d, hours=h, minutes=mi, seconds=s, microseconds=us)
    elif how in ("itv", "itv-"):
        a = abs
        other = _P["base"].add(years=a(y), months=a(mo), weeks=a(w), days=a(d), hours=a(h), minutes=a(mi), seconds=a(s),
                               microseconds=a(us))
        if how == "itv-":
            x = p.interval(other, _P["base"], absolute=False)
        elif inv:
            x = p.interval(other, _P["base"], absolute=True)
        else:
            x = p.interval(_P["base"], other, absolute=True)
    else:
        raise ValueError(how)
    if _attrs(x) != tuple(c):
        raise _Construct(f"{how} {c} -> {_attrs(x)}")
    return x


class _Construct(Exception):
    pass


def _rejected_set_locale(op):
    """history: every other op tries to set a locale that does not exist (rejected with ValueError) after the valid one was set —
    the default locale must be unaffected by the failed call"""
    import zlib
    if zlib.crc32(("bad" + repr(op)).encode()) & 1:
        try:
            _P["p"].set_locale(("xx", "klingon", "en_XX_nope", "zz-ZZ")[zlib.crc32(repr(op).encode()) % 4])
        except ValueError:
            pass


def _operand_kind(op, how, b):
    """the reference value as the pendulum class itself, as its native counterpart, or (Date receiver) as a DateTime at midnight —
    chosen by a checksum of the op"""
    import datetime as _dt
    import zlib
    p = _P["p"]
    sel = zlib.crc32(("kind" + repr(op)).encode()) % 4
    if sel == 1:
        if how == "dfh-dt":
            return _dt.datetime(b.year, b.month, b.day, b.hour, b.minute, b.second, b.microsecond, tzinfo=b.tzinfo, fold=b.fold)
        if how == "dfh-date":
            return _dt.date(b.year, b.month, b.day)
        return _dt.time(b.hour, b.minute, b.second, b.microsecond)
    if sel == 2 and how == "dfh-date":
        return p.DateTime(b.year, b.month, b.day)                       # naive pendulum DateTime
    if sel == 3 and how == "dfh-date":
        return _dt.datetime(b.year, b.month, b.day, 13, 14, 15)          # native datetime: only its date counts
    return b


def impl(op, backend):
    p = _P["p"]
    k = op[0]
    if k == "fmt":
        how, loc = op[1], op[2]
        c = op[3:10]
        inv, now, ab = op[10:13]
        if how == "raw":
            x = _Carrier()
            (x.years, x.months, x.weeks, x.remaining_days, x.hours, x.minutes, x.remaining_seconds) = c
            x.invert = bool(inv)
            s = _P["DF"].format(x, bool(now), bool(ab), loc)
        elif how in ("dur", "neg", "itv"):
            x = _build(how, c, inv)
            if bool(x.invert) != bool(inv):
                raise _Construct(f"invert {x.invert} for {op}")
            s = p.format_diff(x, bool(now), bool(ab), loc)
        elif how == "def":
            x = _build(how, c, inv)
            p.set_locale(loc)
            _rejected_set_locale(op)
            try:
                if p.get_locale() != loc:
                    raise _Construct(f"get_locale() = {p.get_locale()!r} after set_locale({loc!r})")
                s = p.format_diff(x, bool(now), bool(ab))
            finally:
                p.set_locale("en")
        else:
            y, mo, w, d, h, mi, sec = c
            # sub-second parts on both values (the later one's is the larger, so the whole-unit components stay c): the phrase
            # depends on the whole units only, whichever of the two microsecond fields is the larger
            import zlib
            hq = zlib.crc32(("us" + repr(op)).encode())
            ua = (0, 0, 100000, 250000, 1)[hq % 5]
            ub = ua + (0, 1, 650000, 999999 - ua, 400000)[(hq >> 4) % 5]
            if inv and not any(c) and ub == ua:
                ub = ua + (1, 500000)[(hq >> 8) & 1]     # a sub-second difference: the instance is later by less than a second
            if how == "dfh-dt":
                a = _P["base"].add(microseconds=ua)
                b = _P["base"].add(years=y, months=mo, weeks=w, days=d, hours=h, minutes=mi, seconds=sec, microseconds=ub)
            elif how == "dfh-date":
                a = p.date(2000, 1, 1)
                b = a.add(years=y, months=mo, weeks=w, days=d)
            else:
                a = p.time(0, 0, 0, ua)
                b = p.time(h, mi, sec, ub)
            if inv:          # the instance is LATER than the reference
                a, b = b, a
            b = _operand_kind(op, how, b)
            diff = a.diff(b)
            if _attrs(diff) != tuple(c) or bool(diff.invert) != bool(inv):
                raise _Construct(f"{how} {c} -> {_attrs(diff)} {diff.invert}")
            s = a.diff_for_humans(b, bool(ab), loc)
        return "ok " + enc_str(s)
    if k == "words":
        how, loc = op[1], op[2]
        c = op[3:10]
        us, sep = op[10], op[11]
        x = _build(how, c, 0, us)
        if x.microseconds != us:
            raise _Construct(f"microseconds {x.microseconds} for {op}")
        if how == "def":
            p.set_locale(loc)
            _rejected_set_locale(op)
            try:
                return "ok " + enc_str(x.in_words(separator=sep))
            finally:
                p.set_locale("en")
        return "ok " + enc_str(x.in_words(locale=loc, separator=sep))
    if k == "alias":
        L = _P["Locale"]
        return "ok %d" % int(L.load(op[1]) is L.load(op[2]) and L.load(op[2]) is L.load(op[2]))
    if k == "plural":
        L = _P["Locale"].load(op[1])
        return "ok " + enc_str(L.plural(op[2])) + " " + enc_str(L.ordinal(op[2]))
    if k == "nowrel":
        import time
        _, delta, tzname, form = op
        p.set_local_timezone(p.timezone(tzname))
        try:
            t = time.time() + delta
            inst = (p.from_timestamp(t), p.from_timestamp(t, tzname), p.instance(dt.datetime.fromtimestamp(t, dt.timezone.utc)))[form]
            return "ok " + enc_str(inst.diff_for_humans(locale="en"))
        finally:
            p.set_local_timezone()
    if k == "pair":
        _, ta, tb, ab = op
        a, b = p.from_timestamp(ta), p.from_timestamp(tb)
        return "ok " + enc_str(a.diff_for_humans(b, bool(ab), "en"))
    if k == "ordz":
        return "ok " + enc_str(_P["Locale"].load(op[1]).ordinalize(op[2]))
    if k == "tok":
        _, loc, tok, y, m, d, hour = op
        return "ok " + enc_str(p.datetime(y, m, d, hour, 0, 0).format(tok, locale=loc))
    if k == "ltok":
        _, loc, tok, y, m, d, hour = op
        return "ok " + enc_str(p.datetime(y, m, d, hour, 5, 9).format(tok, locale=loc))
    raise ValueError(k)


# ----------------------------------------------------------------------------- oracle

def _subst(tmpl, arg):
    """substitute every replacement field, whatever its name, without str.format"""
    return re.sub(r"\{[^{}]*\}", lambda m: arg, tmpl)


def _spec_unit_count(c):
    """documented rounding: the largest non-zero unit; the count goes up by one when the next smaller part is past the
    documented threshold (months > 6, days >= 27, days > 3, hours >= 22); 11 months and more than 15 days read as 1 year;
    seconds are spelled out from 11 s on, below that 'a few seconds' where the locale has it, else the count (0 reads as 1)"""
    y, mo, w, d, h, mi, s = c
    days = w * 7 + d
    if y:
        return "year", y + (mo > 6)
    if mo == 11 and days > 15:
        return "year", 1
    if mo:
        return "month", mo + (days >= 27)
    if w:
        return "week", w + (d > 3)
    if d:
        return "day", d + (h >= 22)
    if h:
        return "hour", h
    if mi:
        return "minute", mi
    if s > 10:
        return "second", s
    return "few", s


SECS = {"week": 604800, "day": 86400, "hour": 3600, "minute": 60, "second": 1}


def _within_one_unit(c, unit, n):
    y, mo, w, d, h, mi, s = c
    if unit == "year":
        months = y * 12 + mo          # elapsed lies in [months, months + 1) months
        return 12 * (n - 1) <= months < 12 * (n + 1)
    if unit == "month":
        return y == 0 and n - 1 <= mo < n + 1
    t = ((w * 7 + d) * 24 + h) * 3600 + mi * 60 + s
    return y == 0 and mo == 0 and abs(t - n * SECS[unit]) <= SECS[unit]


def _expected_phrase(data, c, inv, now, ab):
    tr, cu = data["translations"], data["custom"]
    unit, n = _spec_unit_count(c)
    if unit == "few":
        few = cu.get("units", {}).get("few_second")
        if few is not None:
            if ab:
                return few, None, None
            key = ("from_now" if inv else "ago") if now else ("after" if inv else "before")
            return _subst(cu[key], few), None, None
        unit, n = "second", (n or 1)
    pc = data["plural"](n)
    if ab:
        return _subst(tr["units"][unit][pc], str(n)), unit, n
    if now:
        return _subst(tr["relative"][unit]["future" if inv else "past"][pc], str(n)), unit, n
    special = cu.get("units_relative", {}).get(unit, {}).get("future" if inv else "past")
    inner = _subst((special or tr["units"][unit])[pc], str(n))
    return _subst(cu["after" if inv else "before"], inner), unit, n


def _expected_words(data, c, us, sep):
    tr = data["translations"]["units"]
    parts = [_subst(tr[u][data["plural"](abs(n))], str(n)) for u, n in zip(UNITS, c) if n != 0]
    if parts:
        return sep.join(parts), None
    if us != 0:
        return None, tr["second"][data["plural"](1)]
    return _subst(tr["microsecond"][data["plural"](0)], "0"), None


_PAIR_UNITS = {"second": (1, 1), "minute": (60, 60), "hour": (3600, 3600), "day": (86400, 86400), "week": (7 * 86400, 7 * 86400),
               "month": (28 * 86400, 31 * 86400), "year": (365 * 86400, 366 * 86400)}


def _o_pair(op, phrase):
    """English phrase of a.diff_for_humans(b): direction marker and a magnitude within one unit of the true elapsed time"""
    _, ta, tb, ab = op
    elapsed = abs(tb - ta)
    words = phrase.split(" ")
    marker = None
    if words[-1] in ("before", "after"):
        marker = words.pop()
    if ab:
        if marker is not None:
            return f"absolute=True but the phrase carries a direction marker: {phrase!r}"
    else:
        want = "after" if ta > tb else "before"
        if marker != want:
            return f"instance is {'later' if ta > tb else 'not later'} than the reference, phrase {phrase!r} should end with {want!r}"
    if words == ["a", "few", "seconds"]:
        return None if elapsed <= 11 else f"{phrase!r} for {elapsed} s"
    if len(words) != 2 or not words[0].isdigit() or words[1].rstrip("s") not in _PAIR_UNITS:
        return f"unexpected phrase {phrase!r}"
    n = int(words[0])
    umin, umax = _PAIR_UNITS[words[1].rstrip("s")]
    if (n == 1) != (not words[1].endswith("s")):
        return f"plural form does not match the count in {phrase!r}"
    if not (n * umin - umax <= elapsed <= (n + 1) * umax):
        return f"{phrase!r} is not within one unit of the true elapsed time {elapsed} s ({elapsed / 86400:.2f} days)"
    return None


def _o_nowrel(op, phrase):
    _, delta, tzname, form = op
    words = phrase.split(" ")
    if delta < 0:
        if words[-1:] != ["ago"]:
            return f"an instant {-delta} s in the past (local timezone set to {tzname}) reads {phrase!r}"
        words = words[:-1]
    else:
        if words[:1] != ["in"]:
            return f"an instant {delta} s in the future (local timezone set to {tzname}) reads {phrase!r}"
        words = words[1:]
    elapsed = abs(delta)
    if len(words) != 2 or not words[0].isdigit() or words[1].rstrip("s") not in _PAIR_UNITS:
        return f"unexpected phrase {phrase!r}"
    n = int(words[0])
    umin, umax = _PAIR_UNITS[words[1].rstrip("s")]
    if not (n * umin - umax - 60 <= elapsed <= (n + 1) * umax + 60):
        return f"{phrase!r} is not within one unit of the true distance from now, {elapsed} s (local timezone set to {tzname})"
    return None


def oracle(op, out, backend):
    k = op[0]
    if not out.startswith("ok"):
        return f"raised {out[4:]}"
    if k == "pair":
        return _o_pair(op, dec_str(out.split(" ", 1)[1]))
    if k == "nowrel":
        return _o_nowrel(op, dec_str(out.split(" ", 1)[1]))
    if k == "ltok":
        from harness.props import c08
        _, loc, tok, y, m, d, hour = op
        try:
            exp = c08.ref_token(tok, dt.datetime(y, m, d, hour, 5, 9, tzinfo=dt.timezone.utc), loc, ("f", 0))
        except c08.Skip:
            return None
        got = dec_str(out.split(" ", 1)[1])
        return None if got == exp else f"format({tok!r}, locale={loc!r}) of {y}-{m:02d}-{d:02d} {hour:02d}:05:09 rendered {got!r}, expected {exp!r}"
    if k == "alias":
        return None if out == "ok 1" else f"Locale.load({op[1]!r}) is not the cached Locale.load({op[2]!r})"
    if k == "plural":
        a, b = out.split()[1:3]
        data = _P["data"][op[1]]
        units = data["translations"]["units"]
        for u in UNITS + ("microsecond",):
            if dec_str(a) not in units[u]:
                return f"plural class {dec_str(a)!r} of {op[2]} has no translations.units.{u} entry"
        return None
    s = dec_str(out[3:])
    if s == "":
        return "empty string"
    if "{" in s or "}" in s:
        return f"unsubstituted placeholder in {s!r}"
    data = _P["data"][op[1] if k in ("ordz", "tok") else op[2]]
    if k == "fmt":
        how = op[1]
        c = op[3:10]
        inv, now, ab = op[10:13]
        if not canonical(c):
            return None                      # totality only (carrier / negative durations)
        exp, unit, n = _expected_phrase(data, c, inv, now, ab)
        if unit is not None and not _within_one_unit(c, unit, n):
            return f"spec bug: {unit} {n} not within one unit of {c}"
        if s != exp:
            return f"expected {exp!r} got {s!r}"
        # the marker really distinguishes the direction
        if not ab:
            other, _, _ = _expected_phrase(data, c, 1 - inv, now, ab)
            if other == s:
                return f"past and future phrases coincide: {s!r}"
            if s == _expected_phrase(data, c, inv, now, 1)[0]:
                return f"no direction marker in {s!r}"
        return None
    if k == "words":
        c = op[3:10]
        exp, tm = _expected_words(data, c, op[10], op[11])
        if exp is not None:
            return None if s == exp else f"expected {exp!r} got {s!r}"
        if "{" not in tm:
            return None if s == tm else f"expected {tm!r} got {s!r}"
        m = re.fullmatch(re.escape(tm).replace(r"\{0\}", r"(\d+\.\d\d)").replace(r"\{\}", r"(\d+\.\d\d)"), s)
        if not m:
            return f"{s!r} does not match {tm!r} with a two-decimal number"
        if abs(Fraction(m.group(1)) - Fraction(abs(op[10]), 10**6)) > Fraction(1, 200):
            return f"{m.group(1)} is not {abs(op[10])} us rounded to 2 decimals"
        return None
    if k == "ordz":
        if not s.startswith(str(op[2])):
            return f"ordinalize({op[2]}) = {s!r}"
        return None
    if k == "tok":
        _, loc, tok, y, m, d, hour = op
        tr = data["translations"]
        wd = dt.date(y, m, d).weekday()
        exp = {"MMM": lambda: tr["months"]["abbreviated"][m], "MMMM": lambda: tr["months"]["wide"][m],
               "dd": lambda: tr["days"]["short"][wd], "ddd": lambda: tr["days"]["abbreviated"][wd],
               "dddd": lambda: tr["days"]["wide"][wd],
               "A": lambda: tr["day_periods"]["pm" if hour >= 12 else "am"]}.get(tok)
        if exp is not None and s != exp():
            return f"expected {exp()!r} got {s!r}"
        if tok == "e" and s not in "0123456":
            return f"e = {s!r}"
        if tok in ("Do", "Mo", "Qo", "wo", "DDDo", "do", "eo") and not re.match(r"\d+", s):
            return f"{tok} = {s!r}"
        return None
    return None


def tag(op, out):
    k = op[0]
    if k == "nowrel":
        return "nowrel:" + ("past" if op[1] < 0 else "future") + ":" + op[2]
    if k == "pair":
        w = dec_str(out.split(" ", 1)[1]).split(" ") if out.startswith("ok ") else ["?"]
        w = [x for x in w if x not in ("before", "after")]
        return "pair:" + (w[-1].rstrip("s") if w else "?")
    if k == "fmt":
        c = op[3:10]
        inv, now, ab = op[10:13]
        nz = [i for i, x in enumerate(c) if x]
        lead = UNITS[nz[0]] if nz else "zero"
        t = f"fmt:{op[1]}:{lead}"
        if len(nz) <= 1 and (inv, now, ab) == (0, 1, 0) and nz and 12 <= c[nz[0]] <= 190:
            return "fmt:plain"
        return t
    if k == "words":
        return "words:" + op[1]
    if k == "plural":
        return "plural:plain" if 200 <= op[2] else "plural"
    return k


TRIVIAL_TAGS = ("fmt:plain", "plural:plain")


def _m_zh(op, backend, out, viol):
    return op[0] == "fmt" and op[2] == "zh" and op[11] == 0 and op[12] == 0 and out == "err KeyError"


def _m_nl(op, backend, out, viol):
    return op[0] == "tok" and op[1] == "nl" and op[2] in ("e", "eo") and out == "err TypeError"


MATCHERS = {"zh_time_placeholder": _m_zh, "nl_week_data": _m_nl}
