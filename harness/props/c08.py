"""C08 — format() renders every token correctly and from_format() inverts it."""
from __future__ import annotations

import datetime as dt
import re
import zoneinfo

from harness import common as C
from harness import zones as Z

ID = "C08"
BACKENDS = ("py", "rs")
GEN_MODULES = ("Format", "FormatLocales", "Tables", "Helpers", "Getters", "Formatter:format", "Formatter:parse", "Formatter:check")
MIN_THEOREMS = 52
RULE = ("fmt: every alternative of the _TOKENS token group alone (localized ones in all 27 locales) and random sequences of 1..8 parts "
        "(documented + moment.js-heritage tokens, safe literal separators, [...] escapes, backslash escapes) x datetimes from uniformly "
        "random instants in years 1000..9999 (day/month/year boundaries, noon/midnight, us in {0,1,999,1000,100000,500000,999999,random}) x "
        "{fixed whole-minute offsets -14h..+14h incl. negative sub-hour, IANA zones incl. three-part names and LMT second-granularity "
        "eras} x locales; tostr: the 14 to_*_string helpers; rt: from_format(dt.format(fmt), fmt) with a pinned clock for formats "
        "carrying every field exactly once (YYYY|Y; MM|M|MMMM|MMM + DD|D|Do, or DDDD|DDD; HH|H or hh|h+A; mm|m; ss|s; SSSSSS; Z|ZZ|z; "
        "optional dddd|ddd|dd|E|d) in random order with separators/escapes, plus every month and weekday name of every locale; "
        "fromfmt: Formatter.parse with an injected now on reference-rendered strings of 55 partial formats (defaulting rules), on "
        "7 kinds of guaranteed-mismatch mutations + trailing newline + unknown words (ValueError), and on digit-perturbed strings "
        "(out-of-range values, 13 PM, +99:99, blanks: model/implementation agreement only); h24mer: a 24-hour token next to the "
        "meridiem token (HH|H [mm|m [ss|s [S..SSSSSS]]] + A|a before or after, en and localized AM/PM words, optional date prefix) x "
        "hours 0..25, 99 x AM/PM x every zero/non-zero pattern of the minute/second/fraction present, through Formatter.parse and "
        "through pendulum.from_format: hours 1..12 must read as the 12-hour clock says (strptime %I %p), hours >= 13 must raise "
        "ValueError, no input may raise anything else. non-trivial = every op except a single non-localized token")
EXHAUSTIVE = {"quick": False, "thorough": False}
TRUSTED = [
    "Gen.Format / Gen.FormatLocales / Gen.FormatZones are regenerated from formatter.py, datetime.py, the 27 locale packages and pendulum.timezones() each run",
    "Model/Fmt.lean (tokenizer, _format_token, _format_localizable_token, offsets) and Model/FmtParse.lean (from_format recognisers, "
    "_get_parsed_value(s), _check_parsed) are hand models tied by this correspondence run; the regexes of _REGEX_TOKENS are pinned by the "
    "theorem regex_table_pinned and modelled as hand-written recognisers (candidate match lengths in the regex engine's priority order)",
    "oracle: strftime / integer arithmetic on stdlib aware datetimes (zoneinfo), own reference tokenizer for the documented token table; "
    "locale words come from the shipped locale data (data, not code)",
]
ASSUMPTIONS = [
    "values are timezone-aware; ASCII digits only (Python's \\d also accepts other Unicode decimal digits)",
    "utcoffset()/tzname() of the value are inputs of the model (computed by the harness with stdlib zoneinfo); zone resolution itself is C01/C02",
    "timestamps X with a fraction are exercised with at most 15 significant digits (float repr is exact there)",
]

US = 1_000_000
EPOCH = dt.datetime(1970, 1, 1)
EPOCH_UTC = dt.datetime(1970, 1, 1, tzinfo=dt.timezone.utc)
LOCALES = ["cs", "da", "de", "en", "en_gb", "en_us", "es", "fa", "fo", "fr", "he", "id", "it", "ja", "ko", "lt", "nb", "nl", "nn",
           "pl", "pt_br", "ru", "sk", "sv", "tr", "ua", "zh"]

# ----------------------------------------------------------------------------- documented token table (oracle side)
DOC_TOKENS = ["YYYY", "YY", "Y", "Q", "Qo", "MMMM", "MMM", "MM", "M", "Mo", "DDDD", "DDD", "DD", "D", "Do", "dddd", "ddd", "dd", "d",
              "E", "HH", "H", "hh", "h", "mm", "m", "ss", "s", "S", "SS", "SSS", "SSSS", "SSSSS", "SSSSSS", "A", "Z", "ZZ", "z", "zz",
              "X", "x", "LT", "LTS", "L", "LL", "LLL", "LLLL"]
# tokens the regex also recognises (moment.js heritage); rendered, compared with the model, oracle where a meaning is evident
EXTRA_TOKENS = ["DDDo", "do", "wo", "e", "eo", "a", "Wo", "w", "ww", "W", "WW", "EE", "EEEE", "gg", "gggg", "ggggg", "GG", "GGGG", "kk", "k",
                "SSSSSSS", "SSSSSSSSS"]
LOCALIZED = {"MMMM", "MMM", "dddd", "ddd", "dd", "Do", "Mo", "Qo", "DDDo", "do", "wo", "e", "eo", "A", "LT", "LTS", "L", "LL", "LLL", "LLLL"}
SAFE_LIT = ["-", "/", ":", ".", ",", " ", "  ", ", ", " - ", "_", "T", "#", "@", "!", "(", ")", "年", "日", "é", "0", "7", "  ", "|", "+", "*", "?", "^", "$", "{", "}", "~", "&"]
ESC_TEXT = ["T", "Z", "at", "the", "de", "d.", "às", "alle", "m.", "val.", "at [", "o'clock", "YYYY", "Day", "h", "ב", "", "a]b", "HH:mm", "x y"]
_TOKCHARS = set("MDdEeWwQYgGaAhHkmsSxXzZLTo")

_DUMP = {}


def dump():
    if not _DUMP:
        from tools import gen_format
        _DUMP.update(gen_format.dump_cached())
    return _DUMP


def locdata(loc):
    return dump()["locales"][loc]


# ----------------------------------------------------------------------------- values

ZSPECIAL = ["America/Argentina/Buenos_Aires", "America/Indiana/Knox", "America/Kentucky/Monticello", "America/North_Dakota/Beulah",
            "Europe/Paris", "UTC", "Etc/GMT+12", "Etc/GMT-14", "Asia/Kolkata", "Asia/Kathmandu", "Australia/Lord_Howe",
            "America/St_Johns", "Pacific/Chatham", "Africa/Monrovia", "W-SU", "GMT", "Africa/Porto-Novo", "America/New_York",
            "Pacific/Kiritimati", "Europe/Amsterdam", "EST5EDT", "Zulu"]
_ZN = []


def znames():
    if not _ZN:
        _ZN.extend(Z.names())
    return _ZN


MIN_INST = (dt.datetime(1000, 1, 3) - EPOCH) // dt.timedelta(seconds=1)
MAX_INST = (dt.datetime(9999, 12, 29) - EPOCH) // dt.timedelta(seconds=1)


def fixed_offsets(rng):
    r = rng.random()
    if r < 0.25:
        return rng.choice((0, 3600, -3600, 19800, -12600, -1800, -2700, 20700, 45900, -34200, 50400, -43200, 1800, -60, 60, -59 * 60,
                           15 * 3600, -15 * 3600, 16 * 3600 + 1800, -(18 * 3600 + 2700), 23 * 3600 + 59 * 60, -(23 * 3600 + 59 * 60)))
    return rng.randint(-14 * 60, 14 * 60) * 60


def gen_value(rng):
    """(zspec, wall µs, fold): a valid aware wall time, from a uniformly random instant"""
    u = rng.randint(MIN_INST, MAX_INST)
    r = rng.random()
    if r < 0.15:
        u = u // 86400 * 86400 + rng.choice((0, 1, 43200, 43199, 86399, 3600 * 13, 3600 * 12 + 59))
    us = rng.choice((0, 0, 1, 999999, 500000, 123456, 100000, 999, 1000, rng.randint(0, 999999), rng.randint(0, 999999)))
    if rng.random() < 0.55:
        off = fixed_offsets(rng)
        w = (u + off) * US + us
        return (("f", off), w, 0)
    name = rng.choice(ZSPECIAL) if rng.random() < 0.4 else rng.choice(znames())
    z = zoneinfo.ZoneInfo(name)
    d = (EPOCH_UTC + dt.timedelta(seconds=u)).astimezone(z)
    if rng.random() < 0.1:
        # month / year boundaries in local time
        y = d.year
        m = rng.randint(1, 12)
        last = (dt.date(y + (m == 12), m % 12 + 1, 1) - dt.timedelta(days=1)).day if y < 9999 else 28
        dd = rng.choice((1, last, 28, 29 if last >= 29 else 1))
        cand = dt.datetime(y, m, dd, d.hour, d.minute, d.second, tzinfo=z)
        back = cand.astimezone(dt.timezone.utc).astimezone(z)
        if (back.year, back.month, back.day, back.hour, back.minute, back.second, back.fold) == (y, m, dd, d.hour, d.minute, d.second, 0):
            d = back
    w = Z.to_us(d.replace(microsecond=us))
    return (("z", name), w, d.fold)


def fields(w):
    days, rem = divmod(w, 86400 * US)
    d = dt.date.fromordinal(719163 + days)
    s, us = divmod(rem, US)
    return (d.year, d.month, d.day, s // 3600, s // 60 % 60, s % 60, us)


_ZI = {}


def native(zspec, w, fold):
    """the stdlib value (zoneinfo / datetime.timezone), independent of pendulum"""
    if zspec[0] == "f":
        tz = dt.timezone(dt.timedelta(seconds=zspec[1]))
    else:
        tz = _ZI.get(zspec[1]) or _ZI.setdefault(zspec[1], zoneinfo.ZoneInfo(zspec[1]))
    return dt.datetime(*fields(w), tzinfo=tz, fold=fold)


def off_seconds(d):
    o = d.utcoffset()
    return o.days * 86400 + o.seconds


def fixed_name(off):
    sign = "-" if off < 0 else "+"
    m = abs(off) // 60
    return "%s%02d:%02d" % (sign, m // 60, m % 60)


def zone_names(zspec, d):
    """(timezone_name, tzname()) expected for the value"""
    if zspec[0] == "f":
        n = fixed_name(zspec[1])
        return n, n
    return zspec[1], d.tzname()


# ----------------------------------------------------------------------------- reference tokenizer / formatter (oracle)

_DOC_SORTED = sorted(DOC_TOKENS + EXTRA_TOKENS, key=lambda t: -len(t))


def ref_tokenize(fmt):
    """documented reading of a format string: [...] verbatim, \\c verbatim, longest known token, else literal"""
    out = []
    i, n = 0, len(fmt)
    while i < n:
        c = fmt[i]
        if c == "[":
            j = fmt.find("]", i + 1)
            if j >= 0:
                out.append(("b", fmt[i + 1:j]))
                i = j + 1
                continue
        if c == "\\" and i + 1 < n:
            out.append(("e", fmt[i + 1]))
            i += 2
            continue
        for t in _DOC_SORTED:
            if fmt.startswith(t, i):
                out.append(("t", t))
                i += len(t)
                break
        else:
            out.append(("l", c))
            i += 1
    return out


def assemble(parts):
    s = []
    for k, t in parts:
        s.append({"t": t, "l": t, "b": "[" + t + "]", "e": "\\" + t}[k])
    return "".join(s)


def normalise(parts):
    """merge adjacent literal pieces so that tokenizations can be compared"""
    out = []
    for k, t in parts:
        if k in ("l", "b", "e"):
            if out and out[-1][0] == "L":
                out[-1] = ("L", out[-1][1] + t)
            else:
                out.append(("L", t))
        else:
            out.append((k, t))
    return [p for p in out if p != ("L", "")]


def en_ordinal(n):
    if n % 100 in (11, 12, 13):
        return "th"
    return {1: "st", 2: "nd", 3: "rd"}.get(n % 10, "th")


def ordinalize(loc, n):
    L = locdata(loc)
    if loc in ("en", "en_gb", "en_us"):
        return "%d%s" % (n, en_ordinal(n))
    suf = L["ordinal"]
    if not suf:
        return str(n)
    cat = L["ordinal_sample"][n]
    return "%d%s" % (n, suf.get(cat) or "")


class Skip(Exception):
    """the oracle has no documented expectation for this token/value"""


def ref_token(tok, d, loc, zspec):
    L = locdata(loc)
    wd = d.weekday()
    if tok == "YYYY":
        return "%d" % d.year
    if tok == "YY":
        return d.strftime("%y")
    if tok == "Y":
        return "%d" % d.year
    if tok == "Q":
        return str((d.month - 1) // 3 + 1)
    if tok == "Qo":
        return ordinalize(loc, (d.month - 1) // 3 + 1)
    if tok == "MMMM":
        return L["months_wide"][d.month - 1]
    if tok == "MMM":
        return L["months_abbreviated"][d.month - 1]
    if tok == "MM":
        return d.strftime("%m")
    if tok == "M":
        return str(d.month)
    if tok == "Mo":
        return ordinalize(loc, d.month)
    if tok == "DDDD":
        return d.strftime("%j")
    if tok == "DDD":
        return str(int(d.strftime("%j")))
    if tok == "DDDo":
        return ordinalize(loc, int(d.strftime("%j")))
    if tok == "DD":
        return d.strftime("%d")
    if tok == "D":
        return str(d.day)
    if tok == "Do":
        return ordinalize(loc, d.day)
    if tok == "dddd":
        return L["days_wide"][wd]
    if tok == "ddd":
        return L["days_abbreviated"][wd]
    if tok == "dd":
        return L["days_short"][wd]
    if tok == "d":
        return d.strftime("%w")
    if tok == "do":
        return ordinalize(loc, int(d.strftime("%w")))
    if tok == "E":
        return str(d.isoweekday())
    if tok in ("e", "eo"):
        fd = L["first_day"]
        if fd is None:
            raise Skip()
        v = (wd - fd) % 7
        return str(v) if tok == "e" else ordinalize(loc, v + 1)
    if tok == "wo":
        return ordinalize(loc, d.isocalendar()[1])
    if tok == "HH":
        return d.strftime("%H")
    if tok == "H":
        return str(d.hour)
    if tok == "hh":
        return d.strftime("%I")
    if tok == "h":
        return str(int(d.strftime("%I")))
    if tok == "mm":
        return d.strftime("%M")
    if tok == "m":
        return str(d.minute)
    if tok == "ss":
        return d.strftime("%S")
    if tok == "s":
        return str(d.second)
    if tok in ("S", "SS", "SSS", "SSSS", "SSSSS", "SSSSSS"):
        return d.strftime("%f")[:len(tok)]
    if tok == "A":
        if loc in ("en", "en_us"):
            return d.strftime("%p").upper()
        return L["pm"] if d.hour >= 12 else L["am"]
    if tok in ("Z", "ZZ"):
        z = d.strftime("%z")
        if len(z) != 5:
            raise Skip()                    # sub-minute offset: outside the property's quantifier
        return z if tok == "ZZ" else z[:3] + ":" + z[3:]
    if tok == "z":
        return zone_names(zspec, d)[0]
    if tok == "zz":
        return zone_names(zspec, d)[1]
    if tok == "X":
        return str((d - EPOCH_UTC) // dt.timedelta(seconds=1))
    if tok == "x":
        return str((d - EPOCH_UTC) // dt.timedelta(milliseconds=1))
    if tok in ("LT", "LTS", "L", "LL", "LLL", "LLLL"):
        f = (L["date_formats"] or {}).get(tok) or dict(dump()["default_date_formats"])[tok]
        return ref_format(ref_tokenize(f), d, loc, zspec)
    raise Skip()


def ref_format(parts, d, loc, zspec):
    out = []
    for k, t in parts:
        out.append(ref_token(t, d, loc, zspec) if k == "t" else t)
    return "".join(out)


# ----------------------------------------------------------------------------- generation

def gen_parts(rng, n, tokens, allow_esc=True):
    """random format of n parts whose documented reading is the part list itself"""
    for _ in range(50):
        parts = []
        last_tok = None
        for i in range(n):
            r = rng.random()
            if r < 0.55 or (i == 0 and n == 1):
                t = rng.choice(tokens)
                if last_tok is not None:
                    parts.append(("l", rng.choice(SAFE_LIT)) if rng.random() < 0.8 or not allow_esc else ("b", rng.choice(ESC_TEXT)))
                parts.append(("t", t))
                last_tok = t
                continue
            last_tok = None
            if r < 0.8 or not allow_esc:
                parts.append(("l", rng.choice(SAFE_LIT)))
            elif r < 0.93:
                parts.append(("b", rng.choice(ESC_TEXT)))
            else:
                parts.append(("e", rng.choice("YMDdHhmsSAaZzXxTo[]\\ -:né")))
        if normalise(ref_tokenize(assemble(parts))) == normalise(parts):
            return tuple(parts)
    return (("t", "YYYY"),)


def gen_ops(rng, tier):
    n_single = {"quick": 3, "thorough": 40, "widen": 10}[tier]
    n_seq = {"quick": 24_000, "thorough": 600_000, "widen": 80_000}[tier]
    all_alts = [a for a in dump()["tokens"]["alts"]]
    # 1. every alternative of the token group alone, every locale for localized ones
    for tok in all_alts:
        locs = LOCALES if tok in LOCALIZED else ["en", rng.choice(LOCALES)]
        for loc in locs:
            for _ in range(n_single):
                zs, w, fold = gen_value(rng)
                yield ("fmt", loc, (("t", tok),), zs, w, fold)
    # 2. named helpers
    helpers = [h[0] for h in HELPERS]
    for _ in range({"quick": 60, "thorough": 3000, "widen": 300}[tier]):
        for h in helpers:
            zs, w, fold = gen_value(rng)
            yield ("tostr", h, zs, w, fold)
    # 2b. the same helpers (and the offset / zone tokens) on zones that are NOT UTC but stand at offset zero at that instant:
    #     "Z" / "UTC" belong to the UTC zone, not to a zero offset
    zero_zones = [z for z in ("Europe/London", "Europe/Lisbon", "Africa/Abidjan", "Atlantic/Reykjavik", "Etc/GMT", "GMT", "Africa/Casablanca",
                              "Europe/Dublin", "Atlantic/Azores", "Etc/UTC", "UTC") if z in set(znames())]
    for _ in range({"quick": 40, "thorough": 2000, "widen": 200}[tier]):
        for h in helpers:
            name = rng.choice(zero_zones)
            u = rng.randint(MIN_INST, MAX_INST)
            d = (EPOCH_UTC + dt.timedelta(seconds=u)).astimezone(zoneinfo.ZoneInfo(name))
            if d.utcoffset():
                continue
            zs, w, fold = ("z", name), Z.to_us(d.replace(microsecond=rng.choice((0, 1, 123456)))), d.fold
            yield ("tostr", h, zs, w, fold)
            if rng.random() < 0.3:
                yield ("fmt", "en", gen_parts(rng, 3, ["Z", "ZZ", "z", "zz", "YYYY", "HH"]), zs, w, fold)
        for h in helpers[:3]:
            zs, w, fold = gen_value(rng)
            yield ("tostr", h, ("f", 0), w, 0)
    # 3. random sequences
    toks = DOC_TOKENS * 3 + EXTRA_TOKENS
    for _ in range(n_seq):
        loc = rng.choice(LOCALES) if rng.random() < 0.7 else "en"
        parts = gen_parts(rng, rng.randint(1, 8), toks)
        zs, w, fold = gen_value(rng)
        yield ("fmt", loc, parts, zs, w, fold)
    yield from gen_parse_ops(rng, tier)


# ---- round-trip formats: every field carried exactly once ----------------------------------------------------
RT_SEPS = ["-", "/", ":", ".", ",", " ", ", ", " - ", "_", "T", "#", "@", "!", "(", ")", "年", "日", "é", "|", "*", "?", "^", "$", "~", "&", "  "]
RT_ESC = ["T", "Z", "at", "the", "de", "d.", "às", "alle", "m.", "val.", "o'clock", "Day", "h", "ב", "x y"]


def gen_rt_parts(rng, loc, named_zone, esc_p=0.12, weekday_p=0.3, allow_d=True):
    L = locdata(loc)
    toks = [rng.choice(["YYYY"] * 9 + ["Y"])]
    if rng.random() < 0.2:
        toks.append(rng.choice(["DDDD", "DDD"]))
    else:
        toks.append(rng.choice(["MM", "M", "MMMM", "MMM"]))
        toks.append(rng.choice(["DD", "D"] + (["Do"] if L["ordinal"] else [])))
    if rng.random() < weekday_p:
        toks.append(rng.choice(["dddd", "ddd", "dd", "E"] + (["d"] if allow_d else [])))
    if rng.random() < 0.3:
        toks += [rng.choice(["hh", "h"]), "A"]
    else:
        toks.append(rng.choice(["HH", "H"]))
    toks += [rng.choice(["mm", "m"]), rng.choice(["ss", "s"]), "SSSSSS"]
    toks.append(rng.choice(["Z", "ZZ"] + (["z", "z"] if named_zone else [])))
    if rng.random() < 0.7:
        rng.shuffle(toks)
    parts = []
    for i, t in enumerate(toks):
        if i:
            r = rng.random()
            if r < esc_p:
                parts.append(("b", rng.choice(RT_ESC)))
            elif r < esc_p * 1.25:
                parts.append(("e", rng.choice("YMDdHhmsTZ-: ")))
            else:
                parts.append(("l", rng.choice(RT_SEPS)))
        parts.append(("t", t))
    return tuple(parts)


def gen_now(rng):
    y = rng.randint(1000, 9999)
    m = rng.randint(1, 12)
    last = (dt.date(y + (m == 12), m % 12 + 1, 1) - dt.timedelta(days=1)).day if y < 9999 else 28
    return (y, m, rng.choice((1, last, rng.randint(1, last))))


PARTIALS = [
    ["YYYY"], ["YYYY", "MM"], ["YYYY", "MM", "DD"], ["MM", "DD"], ["DD"], ["D"], ["MM"], ["M"], ["YY"], ["YY", "M", "D"],
    ["YYYY", "DDD"], ["YYYY", "DDDD"], ["DDDD"], ["DDD"], ["YYYY", "Q"], ["Q"], ["dddd"], ["ddd"], ["dd"], ["E"],
    ["MMMM"], ["MMM"], ["MMMM", "D"], ["Do"], ["Do", "MMMM", "YYYY"],
    ["HH", "mm", "ss"], ["HH", "mm"], ["HH"], ["H"], ["h", "A"], ["hh", "mm", "A"], ["hh", "mm", "ss", "A"], ["mm"], ["ss"], ["ss", "SSS"], ["S"], ["SS"], ["SSS"], ["SSSS"], ["SSSSS"], ["SSSSSS"],
    ["YYYY", "MM", "DD", "HH", "mm"], ["YYYY", "MM", "DD", "HH", "mm", "ss", "Z"], ["YYYY", "MM", "DD", "HH", "mm", "ZZ"],
    ["YYYY", "MM", "DD", "HH", "mm", "ss", "z"], ["HH", "mm", "Z"], ["X"], ["x"], ["YYYY", "MM", "DD", "dddd"], ["YYYY", "M", "D", "E"],
    ["D", "M", "YY"], ["M", "YYYY"], ["h", "mm", "A"], ["YYYY", "MM", "DD", "hh", "A"],
]


def expected_partial(toks, d, loc, zs, now):
    """the defaulting rule of from_format, stated independently: (y, m, d, h, mi, s, us, tzdesc)"""
    T = set(toks)
    if "X" in T or "x" in T:
        inst = (d - EPOCH_UTC)
        u = EPOCH + dt.timedelta(seconds=inst // dt.timedelta(seconds=1))
        us = 0 if "X" in T else (inst // dt.timedelta(milliseconds=1)) % 1000 * 1000
        return (u.year, u.month, u.day, u.hour, u.minute, u.second, us, "none")
    has_year = bool(T & {"YYYY", "YY", "Y"})
    has_month = bool(T & {"MM", "M", "MMMM", "MMM"})
    has_day = bool(T & {"DD", "D", "Do"})
    year = d.year if ("YYYY" in T or "Y" in T) else None
    if "YY" in T:
        year = dt.datetime.strptime("%02d" % (d.year % 100), "%y").year
    y = year if year is not None else now[0]
    if T & {"DDDD", "DDD"}:
        x = dt.date(y, 1, 1) + dt.timedelta(days=int(d.strftime("%j")) - 1)
        if x.year != y:
            return None
        m, dd = x.month, x.day
    elif "Q" in T:
        m, dd = 3 * ((d.month - 1) // 3) + 1, 1
    else:
        m = d.month if has_month else None
        dd = d.day if has_day else None
        if T & {"dddd", "ddd", "dd", "E"}:
            try:
                base = dt.date(y, m if m else now[1], dd if dd else now[2])
            except ValueError:
                return None
            r = base - dt.timedelta(days=base.weekday()) + dt.timedelta(days=d.weekday())
            y, m, dd = r.year, r.month, r.day
        if m is None:
            m = 1 if has_year else now[1]
        if dd is None:
            dd = 1 if (has_year or has_month) else now[2]
    if T & {"hh", "h"}:
        h = d.hour % 12 + (12 if ("A" in T and d.hour >= 12) else 0)
        if "A" not in T:
            h = d.hour % 12 or 12
    else:
        h = d.hour if T & {"HH", "H"} else 0
    mi = d.minute if T & {"mm", "m"} else 0
    sec = d.second if T & {"ss", "s"} else 0
    us = 0
    for k in range(6, 0, -1):
        if "S" * k in T:
            us = d.microsecond // 10 ** (6 - k) * 10 ** (6 - k)
    tz = "none"
    if T & {"Z", "ZZ"}:
        o = off_seconds(d)
        if o % 60:
            return None
        tz = "off:%d" % o
    elif "z" in T:
        tz = "name:" + C.enc_str(zs[1])
    return (y, m, dd, h, mi, sec, us, tz)


NUMERIC = ["YYYY", "MM", "M", "DD", "D", "DDDD", "DDD", "HH", "H", "mm", "m", "ss", "s", "S", "SS", "SSS", "SSSSSS", "Z", "ZZ", "E", "Q"]
MUT_SEPS = ["-", "/", ":", ".", ",", " ", "_", "#", "@", "!"]


def gen_mismatch(rng):
    """(parts, string) with string guaranteed not to match: numeric tokens separated by non-alphanumeric literals"""
    n = rng.randint(2, 6)
    toks = rng.sample(NUMERIC, n)
    # at most one token per field so that the group names are distinct and the format is sensible
    parts = []
    for i, t in enumerate(toks):
        if i:
            parts.append(("l", rng.choice(MUT_SEPS)))
        parts.append(("t", t))
    return tuple(parts)


def mutate(rng, parts, pieces):
    """pieces: rendered text of each part. returns (kind, string)"""
    k = rng.choice(("sep-replace", "junk", "letter", "sep-delete", "cut-last", "empty", "lead"))
    ps = list(pieces)
    idx_sep = [i for i, p in enumerate(parts) if p[0] == "l"]
    idx_tok = [i for i, p in enumerate(parts) if p[0] == "t"]
    if k == "sep-replace":
        i = rng.choice(idx_sep)
        ps[i] = rng.choice([c for c in "%§=;" if c != ps[i]])
    elif k == "junk":
        ps.append(rng.choice(("%", " %", "x", "§§", " 1 %")))
    elif k == "letter":
        i = rng.choice(idx_tok)
        j = rng.randint(0, len(ps[i]))
        ps[i] = ps[i][:j] + rng.choice("qQ%") + ps[i][j:]
    elif k == "sep-delete":
        i = rng.choice(idx_sep)
        nxt = ps[i + 1] if i + 1 < len(ps) else ""
        if nxt[:1] in "+-":
            return mutate(rng, parts, pieces)
        ps[i] = ""
    elif k == "cut-last":
        ps = ps[:idx_tok[-1]]
    elif k == "empty":
        ps = []
    elif k == "lead":
        ps.insert(0, rng.choice(("%", "q ", "§")))
    return k, "".join(ps)


def gen_parse_ops(rng, tier):
    # 4. round trips: every locale x every month and weekday name
    tail = (("l", " "), ("t", "HH"), ("l", ":"), ("t", "mm"), ("l", ":"), ("t", "ss"), ("l", "."), ("t", "SSSSSS"), ("l", " "), ("t", "Z"))
    for loc in LOCALES:
        L = locdata(loc)
        y = rng.randint(1000, 9999)
        for m in range(1, 13):
            for mt in ("MMMM", "MMM"):
                w = Z.to_us(dt.datetime(y, m, rng.randint(1, 28), rng.randint(0, 23), rng.randint(0, 59), rng.randint(0, 59), rng.randint(0, 999999)))
                dtok = "Do" if L["ordinal"] and rng.random() < 0.5 else "D"
                order = rng.choice(((dtok, mt, "YYYY"), (mt, dtok, "YYYY"), ("YYYY", mt, dtok)))
                parts = (("t", order[0]), ("l", " "), ("t", order[1]), ("l", rng.choice((" ", ", "))), ("t", order[2]), ("l", " ")) + tail[1:]
                yield ("rt", loc, parts, ("f", fixed_offsets(rng)), w, 0, gen_now(rng))
        for wd in range(7):
            for wt in ("dddd", "ddd", "dd"):
                base = dt.date(y, rng.randint(1, 12), rng.randint(8, 21))
                base = base - dt.timedelta(days=base.weekday()) + dt.timedelta(days=wd)
                w = Z.to_us(dt.datetime(base.year, base.month, base.day, rng.randint(0, 23), rng.randint(0, 59), rng.randint(0, 59), rng.randint(0, 999999)))
                for parts in ((("t", wt), ("l", ", "), ("t", "YYYY"), ("l", "-"), ("t", "MM"), ("l", "-"), ("t", "DD")) + tail,
                              (("t", "YYYY"), ("l", "-"), ("t", "MM"), ("l", "-"), ("t", "DD")) + tail + (("l", " "), ("t", wt))):
                    yield ("rt", loc, parts, ("f", fixed_offsets(rng)), w, 0, gen_now(rng))
    # 5. random round-trip formats
    for _ in range({"quick": 18_000, "thorough": 500_000, "widen": 80_000}[tier]):
        loc = rng.choice(LOCALES) if rng.random() < 0.6 else "en"
        zs, w, fold = gen_value(rng)
        parts = gen_rt_parts(rng, loc, zs[0] == "z")
        if not rt_unambiguous(parts):
            continue
        yield ("rt", loc, parts, zs, w, fold, gen_now(rng))
    # 6. partial formats: defaults from `now`
    for _ in range({"quick": 12_000, "thorough": 300_000, "widen": 40_000}[tier]):
        toks = rng.choice(PARTIALS)
        loc = rng.choice(LOCALES) if (set(toks) & LOCALIZED and rng.random() < 0.7) else "en"
        if "Do" in toks and not locdata(loc)["ordinal"]:
            loc = "en"
        zs, w, fold = gen_value(rng)
        if toks in (["X"], ["x"]) and rng.random() < 0.5:
            # timestamps at and around zero (the first second / millisecond of the epoch, the last ones before it), in any offset:
            # a zero timestamp is a timestamp, not "no timestamp"
            t_us = rng.choice((0, 0, 0, 1, 999, 1000, 999999, 500000, US, -1, -1000, -US, -US + 1, 86399 * US, rng.randint(-2 * US, 2 * US),
                               rng.randint(0, 999), rng.randint(0, 999999)))
            off = fixed_offsets(rng)
            zs, w, fold = ("f", off), t_us + off * US, 0
        if "z" in toks and zs[0] != "z":
            zs = ("z", rng.choice(ZSPECIAL))
            d0 = native(("f", 0), w, 0).replace(tzinfo=None)
            z = zoneinfo.ZoneInfo(zs[1])
            back = d0.replace(tzinfo=z).astimezone(dt.timezone.utc).astimezone(z)
            if back.replace(tzinfo=None) != d0:
                continue
            fold = 0
        sep = rng.choice(RT_SEPS[:12])
        parts = []
        for i, t in enumerate(toks):
            if i:
                parts.append(("l", sep if t not in ("Z", "ZZ", "A", "z") else " "))
            parts.append(("t", t))
        parts = tuple(parts)
        d = native(zs, w, fold)
        now = gen_now(rng)
        try:
            string = ref_format(parts, d, loc, zs)
        except Skip:
            continue
        exp = expected_partial(toks, d, loc, zs, now)
        if exp is None:
            continue
        yield ("fromfmt", loc, parts, string, now, ("ok",) + exp, "partial")
    # 7. strings that do not match
    for _ in range({"quick": 12_000, "thorough": 300_000, "widen": 40_000}[tier]):
        parts = gen_mismatch(rng)
        zs, w, fold = gen_value(rng)
        if zs[0] == "z":
            zs = ("f", fixed_offsets(rng))
        d = native(zs, w, fold)
        try:
            pieces = [ref_token(t, d, "en", zs) if k == "t" else t for k, t in parts]
        except Skip:
            continue
        kind, string = mutate(rng, parts, pieces)
        yield ("fromfmt", "en", parts, string, gen_now(rng), ("err", "ValueError"), "mut:" + kind)
        if rng.random() < 0.1:
            yield ("fromfmt", "en", parts, "".join(pieces) + "\n", gen_now(rng), ("err", "ValueError"), "mut:newline")
    for loc in LOCALES:
        for t in ("dddd", "ddd", "dd", "MMMM", "MMM"):
            yield ("fromfmt", loc, (("t", t),), "invalid", gen_now(rng), ("err", "ValueError"), "mut:word")
    # a 12-hour token without a meridiem token: 1..12 only (13..23 is not a 12-hour reading, whatever the rest of the format)
    for hour in range(13, 24):
        for fmt_parts, txt in (((("t", "hh"), ("l", ":"), ("t", "mm")), "%02d:30" % hour), ((("t", "h"), ("l", "."), ("t", "m")), "%d.5" % hour),
                               ((("t", "YYYY"), ("l", "-"), ("t", "MM"), ("l", "-"), ("t", "DD"), ("l", " "), ("t", "hh"), ("l", ":"), ("t", "mm"),
                                 ("l", ":"), ("t", "ss")), "2021-03-04 %02d:05:06" % hour)):
            yield ("fromfmt", "en", fmt_parts, txt, gen_now(rng), ("err", "ValueError"), "h12-range")
    # 7c. the zone-name token with names that are not IANA zones: directories of the tz database (region prefixes), system files
    #     that live next to the zones, near misses. The string matches the format; the value is invalid -> ValueError
    import zoneinfo as _zi
    names = sorted(_zi.available_timezones())
    prefixes = sorted({n.rsplit("/", k)[0] for n in names for k in (1, 2) if "/" in n} - set(names))
    bad = prefixes + ["localtime", "posixrules", "right/UTC", "posix/UTC", "posix/Europe/Paris", "Foo/Bar", "Europe/Pari", "Europe/Paris/",
                      "europe/paris", "zone.tab", "tzdata.zi", "leapseconds", "Etc/", "America/Argentina/"]
    for nm in bad:
        for fmt_parts in ((("t", "YYYY"), ("l", "-"), ("t", "MM"), ("l", "-"), ("t", "DD"), ("l", " "), ("t", "HH"), ("l", ":"), ("t", "mm"),
                           ("l", ":"), ("t", "ss"), ("l", " "), ("t", "z")),
                          (("t", "z"), ("l", " "), ("t", "YYYY"), ("l", " "), ("t", "DDDD")), (("t", "z"),)):
            y, mo, d = rng.randint(1000, 9999), rng.randint(1, 12), rng.randint(1, 28)
            txt = {13: "%04d-%02d-%02d %02d:%02d:%02d %s" % (y, mo, d, rng.randint(0, 23), rng.randint(0, 59), rng.randint(0, 59), nm),
                   5: "%s %04d %03d" % (nm, y, rng.randint(1, 365)), 1: nm}[len(fmt_parts)]
            yield ("fromfmt", "en", fmt_parts, txt, gen_now(rng), ("err", "ValueError"), "badzone")
    for nm in rng.sample(names, 25):
        yield ("fromfmt", "en", (("t", "z"),), nm, gen_now(rng), ("noraise",), "badzone")
    # 7b. a 24-hour token next to the meridiem token (hours 0..25, 99; zero and non-zero minute/second/fraction)
    yield from gen_h24_meridiem(rng, tier)
    # 8. perturbed digits / out-of-range values: no expectation of the oracle, model and implementation must agree
    #    (which error, which raw values: month 13, hour 25, 13 PM, day-of-year 366, offsets +99:99, "Z", blanks …)
    pert = PARTIALS + [["YYYY", "MM", "DD", "HH", "mm", "ss", "SSSSSS", "Z"], ["YYYY", "DDDD", "hh", "mm", "A"], ["Y", "M", "D"],
                       ["YYYY", "MM", "DD", "d"], ["hh", "mm", "ss", "A"], ["HH", "A"], ["HH", "mm", "A"], ["H", "m", "s", "S", "A"],
                       ["YY", "DDDD", "HH", "mm"], ["X"], ["x"], ["ZZ"], ["Z"], ["z"], ["DD", "MMM", "YYYY"], ["a", "h"]]
    for _ in range({"quick": 12_000, "thorough": 300_000, "widen": 40_000}[tier]):
        toks = rng.choice(pert)
        loc = rng.choice(LOCALES) if (set(toks) & LOCALIZED and rng.random() < 0.5) else "en"
        if "Do" in toks and not locdata(loc)["ordinal"]:
            loc = "en"
        zs, w, fold = gen_value(rng)
        if "z" in toks and zs[0] != "z":
            zs = ("z", rng.choice(ZSPECIAL))
            fold = 0
        adjacent = rng.random() < 0.25 and not (set(toks) & LOCALIZED)
        sep = rng.choice(RT_SEPS[:12])
        parts = []
        for i, t in enumerate(toks):
            if i and not adjacent:
                parts.append(("l", sep if t not in ("Z", "ZZ", "A", "z", "a") else " "))
            parts.append(("t", t))
        parts = tuple(parts)
        try:
            d = native(zs, w, fold)
            pieces = [("am" if d.hour < 12 else "pm") if (k == "t" and t == "a") else (ref_token(t, d, loc, zs) if k == "t" else t)
                      for k, t in parts]
        except (Skip, ValueError, OverflowError):
            continue
        string = "".join(pieces)
        n = rng.choice((0, 1, 1, 2, 3))
        for _ in range(n):
            if not string:
                break
            i = rng.randrange(len(string))
            c = string[i]
            r = rng.random()
            if c.isdigit():
                if r < 0.5:
                    string = string[:i] + rng.choice("0123456789") + string[i + 1:]
                elif r < 0.7:
                    string = string[:i] + string[i + 1:]
                elif r < 0.9:
                    string = string[:i] + c + string[i:]
                else:
                    string = string[:i] + " " + string[i + 1:]
            elif r < 0.3:
                string = string[:i] + rng.choice("Zz+-:. ") + string[i + 1:]
            elif r < 0.4:
                string = string[:i] + string[i + 1:]
        if "X" in toks and rng.random() < 0.6:
            string = rng.choice(("", "-", "+")) + str(rng.randint(0, 10 ** rng.randint(1, 11))) + "." + "%0*d" % (rng.randint(1, 3), rng.randint(0, 999))
            string = string[:16]
        if "x" in toks and rng.random() < 0.5:
            string = rng.choice(("", "-", "+")) + str(rng.randint(0, 10 ** rng.randint(1, 14)))
        if ("x" in toks or "X" in toks) and sum(ch.isdigit() for ch in string) > 15:
            continue                      # float territory (see ASSUMPTIONS)
        if toks in (["X"], ["x"]):
            try:
                secs = float(string) / (1000 if toks == ["x"] else 1)
            except ValueError:
                secs = 0.0
            if not (-62135596800 + 86400 <= secs <= 253402300799 - 86400):
                continue                  # instants outside years 1..9999 (the compiled local_time wraps there)
        yield ("fromfmt", loc, parts, string, gen_now(rng), ("any",), "perturbed")


# ---- a 24-hour token next to the meridiem token --------------------------------------------------------------
H24_SHAPES = [("H",), ("H", "m"), ("H", "m", "s"), ("H", "m", "s", "S"), ("H", "s"), ("H", "S"), ("H", "m", "S")]
H24_HOURS = list(range(0, 26)) + [99]


def ref_hour12(h, pm):
    """hour of the day of `h` o'clock AM/PM as the standard library reads the 12-hour clock (1 <= h <= 12)"""
    return dt.datetime.strptime("%d %s" % (h, "PM" if pm else "AM"), "%I %p").hour


def gen_h24_meridiem(rng, tier):
    """formats with HH|H and A|a: the hour is on the 24-hour token, the meridiem is read as well"""
    reps = {"quick": 1, "thorough": 12, "widen": 4}[tier]
    for _ in range(reps):
        for shape in H24_SHAPES:
            present = shape[1:]
            for h in H24_HOURS:
                for pm in (False, True):
                    for zmask in range(1 << len(present)):
                        mer = rng.choice(("A", "A", "a"))
                        loc = "en" if (mer == "a" or rng.random() < 0.7) else rng.choice(LOCALES)
                        L = locdata(loc)
                        toks, pieces = [], []
                        htok = rng.choice(("HH", "H"))
                        toks.append(htok)
                        pieces.append(("%02d" if rng.random() < (0.9 if htok == "HH" else 0.2) else "%d") % h)
                        mi = sec = us = 0
                        for i, f in enumerate(present):
                            nz = bool(zmask >> i & 1)
                            if f == "m":
                                mi = rng.choice((1, 30, 59, rng.randint(1, 59))) if nz else 0
                                t = rng.choice(("mm", "m"))
                                toks.append(t)
                                pieces.append(("%02d" if t == "mm" else "%d") % mi)
                            elif f == "s":
                                sec = rng.choice((1, 30, 59, rng.randint(1, 59))) if nz else 0
                                t = rng.choice(("ss", "s"))
                                toks.append(t)
                                pieces.append(("%02d" if t == "ss" else "%d") % sec)
                            else:
                                k = rng.randint(1, 6)
                                v = rng.choice((1, 10 ** k - 1, rng.randint(1, 10 ** k - 1))) if nz else 0
                                us = v * 10 ** (6 - k)
                                toks.append("S" * k)
                                pieces.append("%0*d" % (k, v))
                        word = (("pm" if pm else "am") if mer == "a" else (L["pm"] if pm else L["am"]))
                        seps = [rng.choice((":", ":", ".", " ", "-")) for _ in toks]
                        parts, text = [], []
                        front = rng.random() < 0.2
                        if front:
                            parts += [("t", mer), ("l", " ")]
                            text += [word, " "]
                        for i, (t, pc) in enumerate(zip(toks, pieces)):
                            if i:
                                sp = "." if t.startswith("S") and rng.random() < 0.7 else seps[i]
                                parts.append(("l", sp))
                                text.append(sp)
                            parts.append(("t", t))
                            text.append(pc)
                        if not front:
                            sp = rng.choice((" ", " ", "", "_"))
                            if sp:
                                parts.append(("l", sp))
                                text.append(sp)
                            parts.append(("t", mer))
                            text.append(word)
                        now = gen_now(rng)
                        y, mo, d = now
                        if rng.random() < 0.15:
                            y, mo, d = rng.randint(1000, 9999), rng.randint(1, 12), rng.randint(1, 28)
                            parts = [("t", "YYYY"), ("l", "-"), ("t", "MM"), ("l", "-"), ("t", "DD"), ("l", rng.choice((" ", "T")))] + parts
                            text = ["%04d-%02d-%02d" % (y, mo, d), parts[5][1]] + text
                        if h >= 13:
                            exp = ("err", "ValueError")
                        elif h >= 1:
                            exp = ("ok", y, mo, d, ref_hour12(h, pm), mi, sec, us, "none")
                        else:
                            exp = ("noraise",)
                        yield ("fromfmt", loc, tuple(parts), "".join(text), now, exp, "h24mer")


def corpus():
    """minimised past failures (all found by this check on the pinned tree), run first"""
    now = (2015, 11, 12)
    full = lambda *t: tuple(x for i, tok in enumerate(t) for x in ((("l", " "),) if i else ()) + (("t", tok),))  # noqa: E731
    base = ("YYYY", "MM", "DD", "HH", "mm", "ss", "SSSSSS")
    w = Z.to_us(dt.datetime(2021, 3, 6, 14, 7, 9, 123456))
    return [
        ("rt", "en", full(*base, "z"), ("z", "America/Argentina/Buenos_Aires"), w, 0, now),                      # F13
        ("rt", "en", full("Y", "MM", "DD", "HH", "mm", "ss", "SSSSSS", "Z"), ("f", -1800), w, 0, now),          # KeyError 'Y'
        ("rt", "tr", full(*base, "Z", "dddd"), ("f", 60), w, 0, now),                                            # Cuma / Cumartesi
        ("rt", "it", full("Do", "MMMM", "YYYY", "HH", "mm", "ss", "SSSSSS", "Z"), ("f", 0), Z.to_us(dt.datetime(2021, 3, 8, 1, 2, 3, 4)), 0, now),
        ("rt", "en", (("t", "YYYY"), ("l", "-"), ("t", "MM"), ("l", "-"), ("t", "DD"), ("b", " at "), ("t", "HH"), ("l", ":"), ("t", "mm"),
                      ("l", ":"), ("t", "ss"), ("l", "."), ("t", "SSSSSS"), ("e", "Z"), ("t", "Z")), ("f", 19800), w, 0, now),  # escapes
        ("fromfmt", "en", (("t", "YYYY"),), "2021\n", now, ("err", "ValueError"), "mut:newline"),
        ("fromfmt", "en", (("t", "x"),), "-1250", now, ("ok", 1969, 12, 31, 23, 59, 58, 750000, "none"), "partial"),
        ("rt", "en", full(*base, "Z", "d"), ("f", 0), w, 0, now),                                                # F30 (known)
        ("fromfmt", "en", full("HH", "A"), "13 PM", now, ("err", "ValueError"), "h24mer"),                      # TypeError on the pinned tree
        ("fromfmt", "en", (("t", "H"), ("l", ":"), ("t", "mm"), ("l", " "), ("t", "a")), "13:00 am", now, ("err", "ValueError"), "h24mer"),
        ("fromfmt", "en", full("HH", "A"), "11 PM", now, ("ok", 2015, 11, 12, 23, 0, 0, 0, "none"), "h24mer"),
        ("fromfmt", "en", full("HH", "A"), "12 AM", now, ("ok", 2015, 11, 12, 0, 0, 0, 0, "none"), "h24mer"),
    ]


def rt_unambiguous(parts):
    """separator discipline of the round-trip class: a literal that follows a token must not start with a character the
    token could absorb (digits after numeric tokens; zone-name characters after `z`)"""
    for i, (k, t) in enumerate(parts):
        if k != "t" or i + 1 >= len(parts):
            continue
        nk, nt = parts[i + 1]
        if nk == "t":
            return False
        c = nt[:1]
        if c == "":
            return False
        if t == "z" and (c.isalnum() or c in "-+/_"):
            return False
        if c.isdigit():
            return False
    return True


HELPERS = [
    ("to_time_string", "%H:%M:%S"), ("to_datetime_string", "%Y-%m-%d %H:%M:%S"), ("to_day_datetime_string", None),
    ("to_atom_string", "%Y-%m-%dT%H:%M:%S%:z"), ("to_cookie_string", "%A, %d-%b-%Y %H:%M:%S %Z"), ("to_iso8601_string", None),
    ("to_rfc822_string", "%a, %d %b %y %H:%M:%S %z"), ("to_rfc850_string", "%A, %d-%b-%y %H:%M:%S %Z"),
    ("to_rfc1036_string", "%a, %d %b %y %H:%M:%S %z"), ("to_rfc1123_string", "%a, %d %b %Y %H:%M:%S %z"),
    ("to_rfc2822_string", "%a, %d %b %Y %H:%M:%S %z"), ("to_rfc3339_string", None), ("to_rss_string", "%a, %d %b %Y %H:%M:%S %z"),
    ("to_w3c_string", "%Y-%m-%dT%H:%M:%S%:z"),
]


# ----------------------------------------------------------------------------- wire

def line(op, backend):
    k = op[0]
    if k == "fmt":
        _, loc, parts, zs, w, fold = op
        d = native(zs, w, fold)
        zn, ab = zone_names(zs, d)
        return " ".join(["fmt", loc, C.enc_str(assemble(parts)), str(off_seconds(d)), str(w), C.enc_str(zn), C.enc_str(ab)])
    if k == "tostr":
        _, h, zs, w, fold = op
        d = native(zs, w, fold)
        zn, ab = zone_names(zs, d)
        return " ".join(["tostr", h, str(off_seconds(d)), str(w), C.enc_str(zn), C.enc_str(ab)])
    if k == "rt":
        _, loc, parts, zs, w, fold, now = op
        if any(kk == "t" and t == "z" for kk, t in parts):
            return None          # the result's offset needs the zone table (C01/C02); oracle only
        d = native(zs, w, fold)
        if backend == "rs" and any(kk == "t" and t in ("DDD", "DDDD") for kk, t in parts) and (d.date() + dt.timedelta(days=1)).day == 1:
            return None      # F1 (C07): compiled ISO parser rejects the last day of a month in ordinal form
        zn, ab = zone_names(zs, d)
        return " ".join(["rt", loc, C.enc_str(assemble(parts)), str(off_seconds(d)), str(w), C.enc_str(zn), C.enc_str(ab)]
                        + [str(x) for x in now])
    if k == "fromfmt":
        _, loc, parts, string, now, exp, why = op
        if backend == "rs" and (rs_ordinal_month_end(op) or (exp[0] == "any" and any(k == "t" and t in ("DDD", "DDDD") for k, t in parts))):
            return None          # F1 (C07): the compiled ISO parser rejects month-end ordinal dates
        return " ".join(["fromfmt", loc, C.enc_str(assemble(parts)), C.enc_str(string)] + [str(x) for x in now])
    return None


def rs_ordinal_month_end(op):
    """day-of-year token whose value is the last day of a month: goes through pendulum.parse('YYYY-DDD'), which the
    compiled ISO parser rejects (defect F1 of property C07)"""
    parts, exp = op[2], op[5]
    if not any(k == "t" and t in ("DDD", "DDDD") for k, t in parts) or exp[0] != "ok":
        return False
    y, m, d = exp[1], exp[2], exp[3]
    return (dt.date(y, m, d) + dt.timedelta(days=1)).day == 1


_P = {}


def worker_init(backend):
    import pendulum
    from pendulum.formatting.formatter import Formatter
    _P["p"] = pendulum
    _P["F"] = Formatter()
    _P["tz"] = {}
    _P["now"] = None
    pendulum.now = lambda tz=None: _P["now"]          # from_format() reads the clock through this name


def tzobj(zs):
    p = _P["p"]
    key = zs
    t = _P["tz"].get(key)
    if t is None:
        t = p.timezone(zs[1])          # int -> FixedTimezone, str -> Timezone
        _P["tz"][key] = t
    return t


def mk(zs, w, fold):
    return _P["p"].DateTime(*fields(w), tzinfo=tzobj(zs), fold=fold)


_OTHER = {"en": "fr", "fr": "de", "de": "ru"}


def _with_locale(op, loc, fn):
    """The locale reaches format()/from_format() either as an explicit `locale=` argument or through the global default
    (`pendulum.set_locale`), possibly after the same format string was already used under ANOTHER default locale; the result
    must be the same. A deterministic function of the op picks the route. `fn(kw)` does the call with the keyword dict."""
    import zlib
    p = _P["p"]
    hist = zlib.crc32(repr(op).encode()) % 3
    if hist == 0:
        return fn({"locale": loc})
    try:
        if hist == 2:
            p.set_locale(_OTHER.get(loc, "en"))
            try:
                fn({})
            except Exception:  # noqa: BLE001
                pass
        p.set_locale(loc)
        return fn({})
    finally:
        p.set_locale("en")


def _crc(op):
    import zlib
    return zlib.crc32(repr(op).encode())


def impl(op, backend):
    k = op[0]
    try:
        if k == "fmt":
            _, loc, parts, zs, w, fold = op
            return "ok " + C.enc_str(_with_locale(op, loc, lambda kw: mk(zs, w, fold).format(assemble(parts), **kw)))
        if k == "tostr":
            _, h, zs, w, fold = op
            return "ok " + C.enc_str(getattr(mk(zs, w, fold), h)())
        if k == "rt":
            _, loc, parts, zs, w, fold, now = op
            fmt = assemble(parts)
            p = _P["p"]
            x = mk(zs, w, fold)
            string = x.format(fmt, locale=loc)
            _P["now"] = p.datetime(now[0], now[1], now[2], 11, 22, 33, 444555)
            r = _with_locale(op, loc, lambda kw: p.from_format(string, fmt, **kw))
            o = r.utcoffset()
            return "ok %s %d %d %d %d %d %d %d %d" % (C.enc_str(string), r.year, r.month, r.day, r.hour, r.minute, r.second,
                                                     r.microsecond, o.days * 86400 + o.seconds)
        if k == "fromfmt":
            _, loc, parts, string, now, exp, why = op
            p = _P["p"]
            nowdt = p.datetime(now[0], now[1], now[2], 11, 22, 33, 444555)
            if why == "h24mer" and _crc(op) % 2:
                # the public entry point (no zone token in these formats: the result is in the default UTC)
                _P["now"] = nowdt
                x = p.from_format(string, assemble(parts), locale=loc)
                return "ok %d %d %d %d %d %d %d none" % (x.year, x.month, x.day, x.hour, x.minute, x.second, x.microsecond)
            r = _P["F"].parse(string, assemble(parts), nowdt, locale=loc)
            tz = r["tz"]
            if tz is None:
                tzd = "none"
            elif isinstance(tz, p.FixedTimezone):
                o = tz.utcoffset(None)
                tzd = "off:%d" % (o.days * 86400 + o.seconds)
            else:
                tzd = "name:" + C.enc_str(tz.name)
            return "ok %d %d %d %d %d %d %d %s" % (r["year"], r["month"], r["day"], r["hour"], r["minute"], r["second"],
                                                 r["microsecond"], tzd)
    except ValueError:
        return "err ValueError"
    raise ValueError(k)


# ----------------------------------------------------------------------------- oracle

def oracle(op, out, backend):
    k = op[0]
    if k == "fmt":
        _, loc, parts, zs, w, fold = op
        d = native(zs, w, fold)
        if any("[" in t or "]" in t for kk, t in parts if kk != "t"):
            return None                   # nested / unbalanced brackets: no documented reading (correspondence only)
        try:
            exp = ref_format(parts, d, loc, zs)
        except Skip:
            return None
        if out != "ok " + C.enc_str(exp):
            got = C.dec_str(out[3:]) if out.startswith("ok ") else out
            return f"format({assemble(parts)!r}, locale={loc!r}) of {d.isoformat()} [{zs[1]}]: expected {exp!r} got {got!r}"
        return None
    if k == "tostr":
        _, h, zs, w, fold = op
        d = native(zs, w, fold)
        zn, ab = zone_names(zs, d)
        spec = dict(HELPERS)[h]
        z = d.strftime("%z")
        if len(z) != 5:
            return None
        zc = z[:3] + ":" + z[3:]
        if h == "to_day_datetime_string":
            exp = d.strftime("%a, %b ") + "%d, %d %d:%s %s" % (d.day, d.year, int(d.strftime("%I")), d.strftime("%M"), d.strftime("%p"))
        elif h in ("to_iso8601_string", "to_rfc3339_string"):
            exp = d.strftime("%Y-%m-%dT%H:%M:%S") + (".%06d" % d.microsecond if d.microsecond else "") + zc
            if h == "to_iso8601_string" and zn == "UTC":
                exp = exp.replace("+00:00", "Z")
        else:
            exp = d.strftime(spec.replace("%:z", "@@").replace("%Z", "##")).replace("@@", zc).replace("##", ab)
        if out != "ok " + C.enc_str(exp):
            got = C.dec_str(out[3:]) if out.startswith("ok ") else out
            return f"{h}() of {d.isoformat()} [{zs[1]}]: expected {exp!r} got {got!r}"
        return None
    if k == "rt":
        _, loc, parts, zs, w, fold, now = op
        d = native(zs, w, fold)
        fmt = assemble(parts)
        if not out.startswith("ok "):
            return f"from_format(dt.format({fmt!r}), {fmt!r}, locale={loc!r}) of {d.isoformat()} [{zs[1]}] -> {out}"
        ws = out.split(" ")
        string = C.dec_str(ws[1])
        got = tuple(int(x) for x in ws[2:10])
        try:
            exp_s = ref_format(parts, d, loc, zs)
        except Skip:
            exp_s = None
        if exp_s is not None and exp_s != string and not any("[" in t or "]" in t for kk, t in parts if kk != "t"):
            return f"format({fmt!r}, locale={loc!r}) of {d.isoformat()}: expected {exp_s!r} got {string!r}"
        o = off_seconds(d)
        exp = (d.year, d.month, d.day, d.hour, d.minute, d.second, d.microsecond, o)
        if got == exp:
            return None
        if got[:7] == exp[:7] and any(kk == "t" and t == "z" for kk, t in parts):
            # a zone name does not carry the offset of a repeated wall time: either pass is acceptable
            if got[7] == off_seconds(native(zs, w, 1 - fold)):
                return None
        if o % 60 and any(kk == "t" and t in ("Z", "ZZ") for kk, t in parts):
            return None                   # sub-minute offset cannot be carried by Z/ZZ: outside the quantifier
        return f"from_format({string!r}, {fmt!r}, locale={loc!r}): expected {exp} got {got}"
    if k == "fromfmt":
        _, loc, parts, string, now, exp, why = op
        fmt = assemble(parts)
        if exp[0] == "any":
            return None
        if exp[0] == "noraise":
            if out.startswith("ok ") or out == "err ValueError":
                return None
            return f"Formatter.parse({string!r}, {fmt!r}) [{why}]: neither a result nor ValueError: {out}"
        if exp[0] == "err":
            if out == "err ValueError":
                return None
            return f"Formatter.parse({string!r}, {fmt!r}) [{why}]: expected ValueError, got {out}"
        e = "ok " + " ".join(str(x) for x in exp[1:])
        if out != e:
            return f"Formatter.parse({string!r}, {fmt!r}, now={now}, locale={loc!r}): expected {e!r} got {out!r}"
        return None
    return None


def tag(op, out):
    k = op[0]
    if k == "fmt":
        parts = op[2]
        toks = [t for kk, t in parts if kk == "t"]
        esc = any(kk in ("b", "e") for kk, _ in parts)
        if len(parts) == 1:
            return "fmt:single:" + ("localized" if toks and toks[0] in LOCALIZED else "plain")
        return "fmt:seq" + (":esc" if esc else "") + (":loc" if any(t in LOCALIZED for t in toks) else "")
    if k == "rt":
        parts = op[2]
        toks = [t for kk, t in parts if kk == "t"]
        return "rt" + (":esc" if any(kk in ("b", "e") for kk, _ in parts) else "") + (":loc" if any(t in LOCALIZED for t in toks) else "") \
            + (":zone" if "z" in toks else "") + (":" + out.split(" ")[0] if not out.startswith("ok") else "")
    if k == "fromfmt":
        return "fromfmt:" + op[6] + ":" + out.split(" ")[0]
    return k


TRIVIAL_TAGS = ("fmt:single:plain",)


def m_d_token(op, backend, out, viol):
    """rt op whose format carries the `d` token and whose result is exactly the date the Monday=0 reading of the
    rendered Sunday=0 number gives (same week, weekday (wd+1) % 7 counted from Monday)"""
    if op[0] != "rt" or not out.startswith("ok "):
        return False
    _, loc, parts, zs, w, fold, now = op
    if not any(k == "t" and t == "d" for k, t in parts):
        return False
    d = native(zs, w, fold)
    got = tuple(int(x) for x in out.split(" ")[2:10])
    base = d.date()
    # the last weekday-bearing token of the format decides; with `d` last (or alone) the date moves
    wrong = base - dt.timedelta(days=base.weekday()) + dt.timedelta(days=(base.weekday() + 1) % 7)
    o = off_seconds(d)
    if got[:7] != (wrong.year, wrong.month, wrong.day, d.hour, d.minute, d.second, d.microsecond):
        return False
    return got[7] == o or any(k == "t" and t == "z" for k, t in parts)      # a zone name may give another offset on the other day


def m_rs_ordinal(op, backend, out, viol):
    if backend != "rs":
        return False
    if op[0] == "fromfmt":
        return rs_ordinal_month_end(op) and out == "err ValueError"
    if op[0] == "rt" and out == "err ValueError":
        _, loc, parts, zs, w, fold, now = op
        d = native(zs, w, fold)
        return any(k == "t" and t in ("DDD", "DDDD") for k, t in parts) and (d.date() + dt.timedelta(days=1)).day == 1
    return False


MATCHERS = {"d_token_numbering": m_d_token, "rs_ordinal_month_end": m_rs_ordinal}
