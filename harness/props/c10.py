"""C10 — Duration arithmetic agrees with timedelta arithmetic."""
from __future__ import annotations

import operator
from datetime import datetime, timedelta
from fractions import Fraction

ID = "C10"
BACKENDS = ("py",)          # duration.py / interval.py arithmetic does not touch the helper backends
GEN_MODULES = ("Duration",)
MIN_THEOREMS = 24
RULE = ("ops: durop <op> <L> <R> with op in neg abs add sub mul truediv floordiv mod divmod; L a Duration (9 integer arguments), "
        "an Interval of a given length (delegation through as_duration()) or - for the reflected forms - a plain timedelta/int/float; "
        "R a Duration, Interval, plain timedelta, int, or float (sent as its exact integer ratio). Lengths: +-few us, +-seconds, "
        "+-10^4 days, unit multiples, values straddling 2^31/2^33 s, up to 10^8 days; scalars -1000..1000, +-10^6, floats 0.5/1.5/"
        "0.1/1e-3/1/3/random; half-way ties for / int, * float, / float generated on purpose (odd multiples of half the divisor); "
        "years/months for neg, * int (component-wise claim) and the other operators (model comparison only); zero divisors in a small "
        "stream (ZeroDivisionError on both sides). durcmp <L> <R>: ==, !=, <, <=, >, >=, hash against the native timedelta. "
        "non-trivial = distinct op other than add/sub of two positive Durations")
EXHAUSTIVE = {"quick": False, "thorough": False}
TRUSTED = [
    "Model/Dur.lean is a hand model of duration.py operators in exact integer microseconds, tied by this correspondence run",
    "Model/DurFloat.lean (float-faithful model of the pre-fix code) carries the Lean counterexamples of the former findings F17/F18; "
    "it is no longer used by the correspondence run and no theorem depends on it",
    "native datetime.timedelta operators are the reference (oracle computes L op R on plain timedeltas of the same arguments)",
    "float scalars travel as float.as_integer_ratio(), which is exact",
]
ASSUMPTIONS = [
    "since the fix 'Duration normalisation and +, -, * int are exact' every operator computes on integer microseconds; the exact model is "
    "compared with the code on the whole input range (former findings F17/F18 are fixed; no float bridge any more)",
    "int / int true division (Duration / Duration) is CPython's correctly rounded long_true_divide; the model computes the nearest "
    "binary64 with exact integers (exponent range not modelled)",
    "truediv by a float with months != 0 goes through float divmod in the code and is not modelled (not generated)",
]

US = 10 ** 6
DAY = 86400 * US
B31, B32, B33 = (2 ** 31) * US, (2 ** 32) * US, (2 ** 33) * US
MAXUS = 999999999 * DAY
VMAX = B33                   # Interval operands: Interval.__new__ itself goes through float seconds (C05 territory beyond)

UNARY = ("neg", "abs")
BINARY = ("add", "sub", "mul", "truediv", "floordiv", "mod", "divmod")
SHADOW_FAMILY = ("mul", "truediv", "floordiv", "mod", "divmod")     # operators that read _to_microseconds / _total


# ------------------------------------------------------------------ operand helpers (pure integers, shared by line/oracle/tag)

def d_part(o):
    _, y, mo, w, d, h, mi, s, ms, us = o
    return ((((w * 7 + d) * 24 + h) * 60 + mi) * 60 + s) * US + ms * 1000 + us


def d_native(o):
    return d_part(o) + (o[1] * 365 + o[2] * 30) * DAY


def native(o):
    """native length of a duration-like operand"""
    return d_native(o) if o[0] == "D" else o[1]


def has_ym(o):
    return o[0] == "D" and (o[1] != 0 or o[2] != 0)


def dur_in_domain(y, mo, part):
    if y == 0 and mo == 0:
        return abs(part) < B33
    return abs(part) < B32 and abs(part + (y * 365 + mo * 30) * DAY) < B32


def opnd_in_domain(o):
    if o[0] == "D":
        return dur_in_domain(o[1], o[2], d_part(o))
    if o[0] == "V":
        return abs(o[1]) < B33
    return True


def D(us=0, y=0, mo=0, w=0, d=0, h=0, mi=0, s=0, ms=0):
    return ("D", y, mo, w, d, h, mi, s, ms, us)


# ------------------------------------------------------------------ generator

def _len(rng):
    r = rng.random()
    if r < 0.25:
        v = rng.randint(-5 * US, 5 * US)
    elif r < 0.35:
        v = rng.choice((0, 1, -1, 2, -2, 3, 999999, -999999, US, -US, DAY, -DAY, DAY - 1, 1 - DAY, 7 * DAY))
    elif r < 0.6:
        v = rng.randint(-10 ** 4 * DAY, 10 ** 4 * DAY)
    elif r < 0.75:
        u = rng.choice((7 * DAY, DAY, 3600 * US, 60 * US, US))
        v = rng.choice((-1, 1)) * (rng.randint(0, 5000) * u + rng.choice((-1, 0, 1)))
    elif r < 0.9:
        v = rng.randint(-B33, B33)
    else:
        b = rng.choice((B31, B31, B33, B33, B32))
        v = rng.choice((-1, 1)) * (b + rng.choice((0, 1, -1, -US, US, rng.randint(-DAY, DAY))))
    return v


def _dur(rng, v, ym=False):
    style = rng.random()
    y = mo = 0
    if ym:
        y = rng.choice((0, 1, -1, rng.randint(-20, 20)))
        mo = rng.choice((0, 1, -1, rng.randint(-30, 30)))
    if style < 0.5:
        return D(us=v, y=y, mo=mo)
    if style < 0.75:
        s, us = divmod(v, US)
        return D(us=us, s=s, y=y, mo=mo)
    w = rng.randint(-50, 50)
    d = rng.randint(-50, 50)
    h = rng.randint(-50, 50)
    mi = rng.randint(-100, 100)
    ms = rng.randint(-2000, 2000)
    rest = v - (((w * 7 + d) * 24 + h) * 60 + mi) * 60 * US - ms * 1000
    s, us = divmod(rest, US)
    if rng.random() < 0.5 and us:
        s, us = s + 1, us - US
    return D(us=us, s=s, ms=ms, mi=mi, h=h, d=d, w=w, y=y, mo=mo)


def _durlike(rng, v, ym=False):
    r = rng.random()
    if r < 0.5:
        return _dur(rng, v, ym)
    if r < 0.85:
        return ("T", v)
    return ("V", v) if abs(v) < VMAX else ("T", v)


FLOATS = (0.5, -0.5, 1.5, 2.5, -1.5, 0.1, 0.25, 1e-3, 1 / 3, 3.0, 2.0, -2.0, 1.0, -1.0, 7.0, 1e3, 2.0 ** -20, 0.3, 86400.0)


def _float(rng):
    r = rng.random()
    if r < 0.6:
        f = rng.choice(FLOATS)
    elif r < 0.8:
        f = rng.uniform(-10, 10)
    elif r < 0.9:
        f = rng.uniform(-1, 1) * 10 ** rng.randint(-6, 3)
    else:
        f = rng.randint(-50, 50) / 2 or 0.5
    if f == 0.0:
        f = 0.5
    return ("F",) + f.as_integer_ratio()


def _int(rng):
    r = rng.random()
    if r < 0.5:
        k = rng.randint(-12, 12)
    elif r < 0.8:
        k = rng.randint(-1000, 1000)
    else:
        k = rng.choice((-1, 1)) * rng.choice((2, 3, 7, 24, 60, 1000, 86400, 10 ** 6, 10 ** 6 + 1))
    return ("I", k or 1)


def result_bound(op, L, R):
    """|native| of the largest Duration/timedelta the operation produces (to stay inside timedelta's range)"""
    a = abs(native(L)) if L[0] in "DVT" else 0
    b = abs(native(R)) if R[0] in "DVT" else 0
    if op in ("add", "sub"):
        return a + b
    if op == "mul":
        x, k = (L, R) if L[0] in "DVT" else (R, L)
        if k[0] == "I":
            ym = abs(x[1] * 365 + x[2] * 30) * DAY * abs(k[1]) if x[0] == "D" else 0
            return abs(native(x)) * abs(k[1]) + 2 * ym
        return abs(native(x)) * abs(k[1]) // k[2] + 1
    if op == "truediv" and R[0] == "F":
        return a * R[2] // abs(R[1]) + 1
    return max(a, b)


def _ok(op, L, R):
    for o in (L, R):
        if o[0] in "DVT" and abs(native(o)) > MAXUS // 4:
            return False
        if o[0] == "V" and abs(o[1]) >= VMAX:
            return False
    return result_bound(op, L, R) < MAXUS // 2


def gen_ops(rng, tier):
    n = {"quick": 1, "thorough": 25, "widen": 10}[tier]

    def left(v, ym=False):
        r = rng.random()
        if r < 0.85:
            return _dur(rng, v, ym)
        return ("V", v) if abs(v) < VMAX else _dur(rng, v, ym)

    # unary
    for _ in range(12000 * n):
        v = _len(rng)
        L = _dur(rng, v, ym=rng.random() < 0.4)
        op = ("durop", rng.choice(UNARY), L, ("N",))
        if _ok(op[1], L, ("N",)):
            yield op
    # years / months exactly cancelled by days: the native length is zero (or one microsecond) while the Duration is not empty —
    # negation and integer scaling still act component-wise
    for _ in range(1500 * n):
        y = rng.choice((1, -1, 2, rng.randint(-20, 20)))
        mo = rng.choice((0, 1, -1, 12, rng.randint(-30, 30)))
        if not (y or mo):
            continue
        L = D(y=y, mo=mo, d=-(y * 365 + mo * 30), us=rng.choice((0, 0, 0, 1, -1)))
        k = ("I", rng.choice((0, 1, -1, 2, -3, rng.randint(-50, 50))))
        for op in (("durop", "neg", L, ("N",)), ("durop", "mul", L, k), ("durop", "mul", k, L), ("durop", "abs", L, ("N",))):
            if _ok(op[1], op[2], op[3]):
                yield op
    # add / sub with duration-likes on either side
    for _ in range(25000 * n):
        a, b = _len(rng), _len(rng)
        if rng.random() < 0.15:
            b = -a + rng.choice((0, 1, -1, US, -US))      # cancelling
        o = rng.choice(("add", "sub"))
        ym = rng.random() < 0.1
        if rng.random() < 0.8:
            L, R = left(a, ym), _durlike(rng, b, ym)
        else:
            # reflected: timedelta op Duration / timedelta op Interval (Interval.__radd__, __rsub__)
            L, R = ("T", a), (_dur(rng, b, ym) if rng.random() < 0.7 or not 0 < abs(b) < VMAX else ("V", b))
        if _ok(o, L, R):
            yield ("durop", o, L, R)
        if rng.random() < 0.12 and 0 < abs(b) < VMAX:
            # an absolute Interval (negating it leaves it unchanged) as either operand
            W = ("V", abs(b), 1)
            L2, R2 = (left(a), W) if rng.random() < 0.7 else (W, _durlike(rng, a))
            if _ok(o, L2, R2):
                yield ("durop", o, L2, R2)
    # mul by int / float, both orders
    for _ in range(25000 * n):
        a = _len(rng)
        isint = rng.random() < 0.5
        k = _int(rng) if isint else _float(rng)
        if not isint and rng.random() < 0.3:
            a = 2 * (a // 2) + 1                           # odd length x (m + 1/2): half-way ties
            k = ("F",) + (rng.randint(-9, 9) + 0.5).as_integer_ratio()
        X = left(a, ym=isint and rng.random() < 0.35)
        L, R = (X, k) if rng.random() < 0.75 else (k, X)          # reflected: scalar * Duration / scalar * Interval
        if _ok("mul", L, R):
            yield ("durop", "mul", L, R)
    # truediv / floordiv by int, truediv by float
    for _ in range(30000 * n):
        a = _len(rng)
        r = rng.random()
        if r < 0.4:
            o, k = "truediv", _int(rng)
            if rng.random() < 0.5 and k[1] % 2 == 0:
                a = (k[1] // 2) * (2 * rng.randint(-10 ** 6, 10 ** 6) + 1)   # exact half-way tie
        elif r < 0.7:
            o, k = "floordiv", _int(rng)
        else:
            o, k = "truediv", _float(rng)
            if rng.random() < 0.3:
                a = 2 * (a // 2) + 1
                k = ("F",) + rng.choice((2.0, -2.0, 0.4, -0.4, 4.0, 2 / 3)).as_integer_ratio()
        L = left(a, ym=(k[0] == "I" and rng.random() < 0.25))
        if _ok(o, L, k):
            yield ("durop", o, L, k)
    # floordiv / truediv / mod / divmod by a duration-like (either type, either side)
    for _ in range(40000 * n):
        a, b = _len(rng), _len(rng)
        r = rng.random()
        if r < 0.3:
            b = rng.choice((-1, 1)) * rng.choice((1, 2, 3, 1000, US, 60 * US, 3600 * US, DAY, 7 * DAY, DAY + 1))
        elif r < 0.4:
            a = b * rng.randint(-50, 50) + rng.choice((0, 1, -1))
        if b == 0:
            b = 1
        o = rng.choice(("floordiv", "truediv", "mod", "divmod"))
        ym = rng.random() < 0.05
        if rng.random() < 0.85:
            L, R = left(a, ym), _durlike(rng, b, ym)
        else:
            L, R = ("T", a), _dur(rng, b, ym)
        if has_ym(R) and d_part(R) == 0:
            continue
        if _ok(o, L, R):
            yield ("durop", o, L, R)
    # zero divisors
    for _ in range(300 * n):
        a = _len(rng)
        o = rng.choice(("floordiv", "truediv", "mod", "divmod"))
        R = rng.choice((D(), ("T", 0), ("I", 0), D(d=1, h=-24)))
        if R[0] == "I" and o in ("mod", "divmod"):
            continue
        yield ("durop", o, _dur(rng, a), R)
    # comparisons and hash
    for _ in range(15000 * n):
        a = _len(rng)
        b = a + rng.choice((0, 0, 1, -1, US, -DAY)) if rng.random() < 0.5 else _len(rng)
        L = _dur(rng, a, ym=rng.random() < 0.2)
        R = _dur(rng, b, ym=rng.random() < 0.2) if rng.random() < 0.5 else ("T", b)
        if rng.random() < 0.2:
            L, R = R, L
        if abs(native(L)) < MAXUS and abs(native(R)) < MAXUS:
            yield ("durcmp", L, R)
    # long durations (beyond 2^53 us, where a float second count no longer separates neighbouring microseconds) one or two
    # microseconds apart: ==, ordering and hash are exact
    for _ in range(3000 * n):
        a = rng.choice((1, -1)) * rng.randint(2 ** 53, MAXUS - 10)
        b = a + rng.choice((1, -1, 2, -2, 0))
        L, R = _dur(rng, a), (_dur(rng, b) if rng.random() < 0.6 else ("T", b))
        if rng.random() < 0.3:
            L, R = R, L
        yield ("durcmp", L, R)


def corpus():
    return [
        ("durop", "floordiv", D(us=7 * US), ("T", 2 * US)),
        ("durop", "truediv", D(us=7 * US), ("T", 2 * US)),
        ("durop", "mod", D(us=7 * US), ("T", 2 * US)),
        ("durop", "divmod", D(us=-7 * US), ("T", 2 * US)),
        ("durop", "floordiv", ("V", 7 * US), ("T", 2 * US)),
        ("durop", "add", D(us=B33 - 2), D(us=1)),
        ("durop", "add", D(us=3851138782115989), D(us=-1617014973372588)),
        ("durop", "sub", D(us=3945492747818465), D(us=1458750770986028)),
        ("durop", "mul", D(us=-8489915151491), ("I", 482)),
        ("durop", "mul", D(y=1, mo=-2, d=3), ("I", -3)),
        ("durop", "neg", D(y=1, mo=-2, d=3, us=-1), ("N",)),
        ("durop", "truediv", D(us=5), ("I", 2)),
        ("durop", "truediv", D(us=7), ("I", -2)),
        ("durop", "mul", D(us=5), ("F", 1, 2)),
        ("durop", "truediv", D(us=5), ("F", 2, 1)),
    ]


# ------------------------------------------------------------------ wire

def _w(o):
    # ("V", v, 1) = an ABSOLUTE Interval built with its endpoints the wrong way round (what diff() returns): same length on the wire
    return " ".join(str(x) for x in (o[:2] if o[0] == "V" else o))


def exact_domain(op):
    """all Duration operands and the result are inside the float-exact range: the exact model applies"""
    _, o, L, R = op
    if not (opnd_in_domain(L) and opnd_in_domain(R)):
        return False
    # the result is a Duration built by __new__: it must be inside the float-exact range too
    y = mo = 0
    if L[0] == "D" and o in ("neg", "abs"):
        y, mo = -L[1], -L[2]
    elif o == "mul":
        x, k = (L, R) if L[0] in "DVT" else (R, L)
        if x[0] == "D" and k[0] == "I":
            y, mo = x[1] * k[1], x[2] * k[1]
    elif L[0] == "D" and R[0] == "I":
        y, mo = L[1], L[2]          # // int and / int keep (a fraction of) years/months: bound is conservative
    bound = result_bound(o, L, R)
    if (o in ("add", "sub") or (o == "mul" and "I" in (L[0], R[0]))) and max(bound, _mag(op)) >= B31:
        return False        # Duration(seconds=<float>) is exact below 2^31 s only (known finding F17 beyond)
    if y or mo:
        return bound < B32 // 2
    return bound < B33


def line(op, backend):
    if op[0] == "durcmp":
        return "durcmp " + _w(op[1]) + " " + _w(op[2])
    _, o, L, R = op
    if o == "truediv" and R[0] == "F" and L[0] == "D" and L[2] != 0:
        return None
    # exact model (the one the theorems are about) inside the float-exact range, float-faithful model outside
    # since the exact-normalisation fix (Duration.__new__, +, -, * int on integer microseconds) the exact model applies everywhere
    return "durop " + o + " " + _w(L) + " " + _w(R)


# ------------------------------------------------------------------ real code

_H = {}
_BASE = datetime(5000, 1, 1)
_TD_DAYS = timedelta.days.__get__
_TD_SECS = timedelta.seconds.__get__
_TD_US = timedelta.microseconds.__get__
_OPS = {"neg": operator.neg, "abs": operator.abs, "add": operator.add, "sub": operator.sub, "mul": operator.mul,
        "truediv": operator.truediv, "floordiv": operator.floordiv, "mod": operator.mod, "divmod": divmod}


def worker_init(backend):
    import pendulum
    _H["Duration"] = pendulum.Duration
    _H["Interval"] = pendulum.Interval


def triple(x):
    return (_TD_DAYS(x), _TD_SECS(x), _TD_US(x))


def build(o):
    k = o[0]
    if k == "D":
        _, y, mo, w, d, h, mi, s, ms, us = o
        return _H["Duration"](years=y, months=mo, weeks=w, days=d, hours=h, minutes=mi, seconds=s, milliseconds=ms,
                              microseconds=us)
    if k == "V":
        if len(o) == 3:
            return _H["Interval"](_BASE + timedelta(microseconds=o[1]), _BASE, absolute=True)
        return _H["Interval"](_BASE, _BASE + timedelta(microseconds=o[1]))
    if k == "T":
        return timedelta(microseconds=o[1])
    if k == "I":
        return o[1]
    if k == "F":
        return o[1] / o[2]
    raise ValueError(k)


def canon(r):
    Dn = _H["Duration"]
    t = type(r)
    if t is Dn:
        f = triple(r) + (r.years, r.months, r.weeks, r.remaining_days, r.hours, r.minutes, r.remaining_seconds, r.microseconds)
        return [1] + list(f)
    if t is timedelta:
        return [0] + list(triple(r))
    if t is int:
        return [2, r]
    if t is float:
        return [3] + list(r.as_integer_ratio())
    if t is tuple and len(r) == 2 and type(r[0]) is int:
        c = canon(r[1])
        if c[0] == 1:
            return [4, r[0]] + c[1:]
        if c[0] == 0:
            return [5, r[0]] + c[1:]
    if isinstance(r, timedelta):
        return [9] + list(triple(r))
    return [8]


def impl(op, backend):
    if op[0] == "durcmp":
        a, b = build(op[1]), build(op[2])
        na = timedelta(*triple(a))
        nb = timedelta(*triple(b))
        if hash(a) != hash(na) or hash(b) != hash(nb):
            return "err HashDiffers"
        return "ok %d %d %d %d %d %d" % (a == b, a != b, a < b, a <= b, a > b, a >= b)
    _, o, L, R = op
    # history: an operator must depend on its operands only. For every other op a "twin" of each Duration operand — equal as a native
    # timedelta (one year <-> 365 days), different in years/months — goes through the scaling operators first
    import zlib as _z
    if _z.crc32(("twin" + repr(op)).encode()) & 1:
        for X in (L, R):
            if X[0] == "D":
                t = ("D", X[1] + 1, X[2], X[3], X[4] - 365) + tuple(X[5:]) if X[1] == 0 else ("D", 0, X[2], X[3], X[4] + 365 * X[1]) + tuple(X[5:])
                try:
                    tw = build(t)
                    tw * 2, tw // 3, abs(tw), tw.hours, tw.minutes, tw.remaining_seconds
                except (OverflowError, ValueError, ZeroDivisionError):
                    pass
    a = build(L)
    # operands whose lazily cached accessors were (or were not) read before the operation: must not matter
    import zlib
    if zlib.crc32(repr(op).encode()) % 2 and hasattr(a, "remaining_seconds"):
        _ = (a.remaining_seconds, a.minutes, a.hours, a.invert)
    if o in UNARY:
        r = _OPS[o](a)
    else:
        r = _OPS[o](a, build(R))
    return "ok " + " ".join(str(x) for x in canon(r))


# ------------------------------------------------------------------ oracle: the same operator on native timedeltas

def plain(o):
    k = o[0]
    if k == "D":
        _, y, mo, w, d, h, mi, s, ms, us = o
        return timedelta(days=d + y * 365 + mo * 30, seconds=s, microseconds=us, milliseconds=ms, minutes=mi, hours=h, weeks=w)
    if k in "VT":
        return timedelta(microseconds=o[1])
    if k == "I":
        return o[1]
    return o[1] / o[2]


def oracle(op, out, backend):
    if op[0] == "durcmp":
        a, b = plain(op[1]), plain(op[2])
        exp = "ok %d %d %d %d %d %d" % (a == b, a != b, a < b, a <= b, a > b, a >= b)
        return None if out == exp else f"comparison/hash differs from timedelta: expected {exp!r} got {out!r}"
    _, o, L, R = op
    a = plain(L)
    try:
        e = _OPS[o](a) if o in UNARY else _OPS[o](a, plain(R))
    except ZeroDivisionError:
        return None if out == "err ZeroDivisionError" else f"expected ZeroDivisionError, got {out!r}"
    if not out.startswith("ok "):
        return f"native timedelta operation succeeds, pendulum gave {out!r}"
    r = [int(x) for x in out.split()[1:]]
    ty = r[0]
    ym = has_ym(L) or has_ym(R)
    dur_left = L[0] in "DV"
    # result type: every binary operator with a Duration on the left, negation, and timedelta + Duration
    if o != "abs" and (dur_left or (L[0] == "T" and o == "add")):
        by_dur = R[0] in "DVT"
        want = 1
        if o == "floordiv" and by_dur:
            want = 2
        elif o == "truediv" and by_dur:
            want = 3
        elif o == "divmod":
            want = 4
        if ty != want:
            return f"result type code {ty}, expected {want} (0 timedelta, 1 Duration, 2 int, 3 float, 4 (int, Duration))"
    # component-wise action on years/months
    if L[0] == "D" and o == "neg":
        if (r[4], r[5]) != (-L[1], -L[2]):
            return f"negation: years/months {r[4:6]} expected {(-L[1], -L[2])}"
    if o == "mul" and ty == 1:
        x, k = (L, R) if L[0] in "DVT" else (R, L)
        if x[0] == "D" and k[0] == "I" and (r[4], r[5]) != (x[1] * k[1], x[2] * k[1]):
            return f"integer scaling: years/months {r[4:6]} expected {(x[1] * k[1], x[2] * k[1])}"
    # length: exactly the native operation, for Durations without years or months (neg and * int: always)
    if ym and not (o == "neg" or (o == "mul" and (L[0] == "I" or R[0] == "I"))):
        return None
    if isinstance(e, timedelta):
        got = tuple(r[1:4]) if ty in (0, 1, 9) else None
        exp = (e.days, e.seconds, e.microseconds)
    elif isinstance(e, int):
        got, exp = (r[1] if ty == 2 else None), e
    elif isinstance(e, float):
        got, exp = (tuple(r[1:3]) if ty == 3 else None), e.as_integer_ratio()
    else:
        got = (r[1],) + tuple(r[2:5]) if ty in (4, 5) else None
        exp = (e[0], e[1].days, e[1].seconds, e[1].microseconds)
    if got != exp:
        return f"native timedelta gives {exp}, pendulum {got} (type code {ty})"
    return None


def tag(op, out):
    if op[0] == "durcmp":
        return "cmp:" + op[1][0] + op[2][0]
    _, o, L, R = op
    t = o + ":" + L[0] + R[0]
    if out.startswith("err"):
        return t + ":" + out.split()[1]
    if has_ym(L) or has_ym(R):
        t += ":ym"
    if not exact_domain(op):
        t += ":beyond-float-range"
    elif o in ("add", "sub") and all(x[0] in "DVT" and native(x) < 0 for x in (L, R)):
        t += ":neg"
    return t


TRIVIAL_TAGS = ("add:DD", "sub:DD")


def _mag(op):
    return max([abs(native(o)) for o in (op[2], op[3]) if o[0] in "DVT"] or [0])


def _small_deviation(op, out):
    """the result is a Duration/timedelta whose native length is within float rounding (2 us + 2^-49 relative, + |k| us for * k) of the
    native timedelta result — a wrong sign, a dropped operand etc. never match a known finding"""
    o, L, R = op[1:]
    try:
        e = _OPS[o](plain(L)) if o in UNARY else _OPS[o](plain(L), plain(R))
    except Exception:  # noqa: BLE001
        return False
    r = [int(x) for x in out.split()[1:]]
    if not isinstance(e, timedelta) or r[0] not in (0, 1):
        return False
    got = (r[1] * 86400 + r[2]) * US + r[3]
    exp = (e.days * 86400 + e.seconds) * US + e.microseconds
    k = max([abs(x[1]) for x in (L, R) if x[0] == "I"] or [0]) if o == "mul" else 0     # _total's rounding error is scaled by k
    return abs(got - exp) <= 2 + k + (abs(exp) >> 49)


def _float_seconds(op, backend, out, viol):
    """+, - and * int build their result as Duration(seconds=<float>): inexact from 2^31 s (68 years) on"""
    if op[0] != "durop" or not viol.startswith("native timedelta gives") or not out.startswith("ok"):
        return False
    o, L, R = op[1:]
    if o in ("add", "sub"):
        return max(_mag(op), result_bound(o, L, R)) >= B31 and _small_deviation(op, out)
    if o == "mul" and "I" in (L[0], R[0]):
        return result_bound(o, L, R) >= B31 and _small_deviation(op, out)
    return False


def _shadow_beyond(op, backend, out, viol):
    """operators that read the float-derived shadow slots (_to_microseconds, __neg__) of a Duration outside the float-exact range"""
    if op[0] != "durop" or not viol.startswith("native timedelta gives") or not out.startswith("ok"):
        return False
    o, L, R = op[1:]
    if not any(x[0] in "DV" and not opnd_in_domain(x) for x in (L, R)):
        return False
    if o in ("neg", "abs") or (o in ("mul", "truediv", "floordiv") and R[0] in "IF" and not (o == "mul" and R[0] == "I")):
        return _small_deviation(op, out)
    if o == "mul":
        return L[0] == "F" and _small_deviation(op, out)
    # //, /, %, divmod by a duration: a few us in an operand can move the quotient/remainder anywhere
    return o in ("floordiv", "truediv", "mod", "divmod") and R[0] in "DVT"


MATCHERS = {"float_seconds_beyond_2p31": _float_seconds, "shadow_slots_beyond_2p33": _shadow_beyond}
