"""C14 — pickle (protocols 0..5), copy.copy and copy.deepcopy reproduce every pendulum value exactly.

op kinds (way = copy | deepcopy | p0..p5):
  ("dt",   way, tzref, wall_us, fold)
  ("dur",  way, cls, years, months, weeks, days, hours, minutes, seconds, millis, micros)   cls = D | A (AbsoluteDuration; model request c14adur)
  ("iv",   way, share, tzrefA, wallA, foldA, tzrefB, wallB, foldB, absolute, isdate)
  ("time", way, tod_us, tzref, fold)
  ("date", way, y, m, d)
  ("tz",   way, tzref)
tzref: "n" naive | "<idx>" pendulum Timezone | "Z<idx>" zoneinfo.ZoneInfo | "f<seconds>|<name>" FixedTimezone
       | "T<µs>" datetime.timezone
"""
from __future__ import annotations

import copy
import datetime as dt
import itertools
import pickle
import zoneinfo

from harness import common as C
from harness import dtutil as D
from harness import zones as Z

ID = "C14"
BACKENDS = ("py", "rs")
GEN_MODULES = ("Pickle", "Interval:source", "Interval:state", "Interval:endpoints")
MIN_THEOREMS = 79
US = D.US
DAY = 86400 * US
YMAX = Z.YMAX_QUICK
WAYS = ("copy", "deepcopy", "p0", "p1", "p2", "p3", "p4", "p5")
RULE = ("values that use the hand-rebuilt state x {copy, deepcopy, pickle protocol 0..5} x {pendulum class, user-defined subclass (every fourth op): the type must be preserved}: DateTime with fold 0 and 1 on "
        "lo/mid/hi-1us (and the unambiguous neighbours) of overlaps and gaps of every zone that has them (quick: 3 per zone, "
        "thorough: 24 per zone, 8x for the special zones), naive, FixedTimezone with default/custom/unicode names, foreign tzinfo (zoneinfo.ZoneInfo, "
        "datetime.timezone); Duration over every subset of the 9 constructor arguments x {all +, all -, mixed signs}, "
        "AbsoluteDuration; Interval between the two passes of an overlap, across gaps, across zones, inverted, absolute, "
        "shared or distinct tzinfo objects, Date endpoints; Time with every tzinfo kind and fold; Date incl. year bytes "
        "boundaries; every Timezone; FixedTimezone. non-trivial = the value uses state that is rebuilt by hand "
        "(fold selects the offset, years/months/weeks present, negative, swapped/inverted interval, custom name, foreign tzinfo)")
EXHAUSTIVE = {"quick": False, "thorough": False}
TRUSTED = [
    "the pickle/copy machinery itself (protocol encodings, copyreg, memo) is exercised, not modelled: Model/Pickle.lean "
    "models what each type's __reduce_ex__/__deepcopy__/__getinitargs__ hands over and what the constructor rebuilds",
    "object identity of tzinfo (start.tzinfo is end.tzinfo) is a parameter of the Interval model; its preservation "
    "by pickle memo / ZoneInfo cache is observed by the oracle (Interval invert/length after the round trip)",
]
ASSUMPTIONS = [
    "Duration arguments are integers (float normalisation is C09's bridge); interval lengths stay below 2**33 s",
    "a Time's fold and a DateTime's fold on a wall time where both folds give the same offset are not observed "
    "(they change no other accessor); DESIGN section 7 C14",
]

_P = {}


def preamble():
    return D.preamble(YMAX)


def worker_init(backend):
    import pendulum
    from pendulum.duration import AbsoluteDuration
    from pendulum.tz.timezone import FixedTimezone, Timezone
    _P.update(p=pendulum, A=AbsoluteDuration, F=FixedTimezone, T=Timezone)
    # user-defined subclasses (module-level names so that pickle can find them): "an object of the same type" must hold for them too
    g = globals()
    for base in (pendulum.DateTime, pendulum.Date, pendulum.Time, pendulum.Duration, AbsoluteDuration, pendulum.Interval):
        name = "Sub" + base.__name__
        g[name] = type(name, (base,), {"__module__": __name__, "__qualname__": name})
        _P[("sub", base.__name__)] = g[name]


def _cls(base, sub):
    return _P[("sub", base.__name__)] if sub else base


# ----------------------------------------------------------------------------- tz references

def _mk_tz(ref, cache=None):
    """the tzinfo object for a reference; `cache` makes equal f/T references share one object"""
    p = _P["p"]
    if ref == "n":
        return None
    if cache is not None and ref in cache:
        return cache[ref]
    if ref[0] == "f":
        sec, name = ref[1:].split("|", 1)
        tz = _P["F"](int(sec), name or None)
    elif ref[0] == "T":
        tz = dt.timezone(dt.timedelta(microseconds=int(ref[1:])))
    elif ref[0] == "Z":
        tz = zoneinfo.ZoneInfo(D.ZN[int(ref[1:])])
    else:
        tz = p.timezone(D.ZN[int(ref)])
    if cache is not None:
        cache[ref] = tz
    return tz


def _ref_words(ref):
    """(driver tz word, driver name word)"""
    if ref == "n":
        return "n", "-"
    if ref[0] == "f":
        sec, name = ref[1:].split("|", 1)
        return "f" + sec, C.enc_str(name)
    if ref[0] == "T":
        return ref, "-"
    if ref[0] == "Z":
        return ref, C.enc_str(D.ZN[int(ref[1:])])
    return ref, C.enc_str(D.ZN[int(ref)])


def _zone_name(ref):
    if ref[0] == "Z":
        return D.ZN[int(ref[1:])]
    if ref[0] in "nfT":
        return None
    return D.ZN[int(ref)]


def _default_name(sec):
    sign = "-" if sec < 0 else "+"
    mins = abs(sec) // 60
    return "%s%02d:%02d" % (sign, mins // 60, mins % 60)


def _exp_tz_words(ref):
    """independent expectation of `<tzkind> <name> <fixedoff|x>`"""
    if ref == "n":
        return "0 - x"
    if ref[0] == "f":
        sec, name = ref[1:].split("|", 1)
        return "2 %s %d" % (C.enc_str(name or _default_name(int(sec))), int(sec) * US)
    if ref[0] == "T":
        return "4 - %d" % int(ref[1:])
    if ref[0] == "Z":
        return "3 %s x" % C.enc_str(D.ZN[int(ref[1:])])
    return "1 %s x" % C.enc_str(D.ZN[int(ref)])


def _exp_offset(ref, w, fold):
    """(offset µs, foldsel) of wall value w from the tz tables only (zoneinfo semantics for skipped walls)"""
    if ref == "n":
        return 0, -1
    if ref[0] == "f":
        return int(ref[1:].split("|", 1)[0]) * US, -1
    if ref[0] == "T":
        return int(ref[1:]), -1
    name = _zone_name(ref)
    sols = D.wall_solutions(name, w, YMAX)
    if len(sols) == 1:
        return w - sols[0], -1
    if len(sols) == 2:
        return w - (max(sols) if fold else min(sols)), fold
    gap = next(g for g in Z.irregular(name, YMAX) if g[0] == "gap" and g[1] <= w // US < g[2])
    return (gap[5] if fold else gap[4]) * US, fold


# ----------------------------------------------------------------------------- observations on real objects

def _td_us(o):
    return 0 if o is None else (o.days * 86400 + o.seconds) * US + o.microseconds


def _tz_words(tz):
    if tz is None:
        return "0 - x"
    if isinstance(tz, _P["T"]):
        return "1 %s x" % C.enc_str(tz.name)
    if isinstance(tz, _P["F"]):
        return "2 %s %d" % (C.enc_str(tz.name), tz.offset * US)
    if type(tz) is zoneinfo.ZoneInfo:
        return "3 %s x" % C.enc_str(tz.key)
    if type(tz) is dt.timezone:
        return "4 - %d" % _td_us(tz.utcoffset(None))
    return "9 - x"


def _fold_matters(d):
    tz = d.tzinfo
    if tz is None:
        return False
    n = dt.datetime(d.year, d.month, d.day, d.hour, d.minute, d.second, d.microsecond)
    return tz.utcoffset(n) != tz.utcoffset(n.replace(fold=1))


def _dt_words(d):
    return "%d %d %d" % (Z.to_us(d), _td_us(d.utcoffset()), d.fold if _fold_matters(d) else -1)


def _base(d):
    td = dt.timedelta
    return td.days.__get__(d), td.seconds.__get__(d), td.microseconds.__get__(d)


def _acc_tz(tz):
    if tz is None:
        return None
    probes = (dt.datetime(2021, 1, 15, 12), dt.datetime(2021, 7, 15, 12), dt.datetime(1900, 3, 1), dt.datetime(2013, 10, 27, 2, 30, fold=1))
    return (type(tz), getattr(tz, "name", None), getattr(tz, "key", None), getattr(tz, "offset", None),
            tuple((tz.utcoffset(q), tz.tzname(q), tz.dst(q)) for q in probes), repr(tz))


def _safe(f):
    try:
        return f()
    except Exception as e:  # noqa: BLE001  (an accessor that raises must raise the same way on the copy)
        return "raises " + type(e).__name__


def _acc_dt(d):
    aware = d.tzinfo is not None
    fs = (lambda: d.utcoffset(), lambda: d.tzname(), lambda: d.dst(), lambda: d.timezone_name, lambda: d.offset,
          lambda: d.offset_hours, lambda: d.isoformat(), lambda: str(d), lambda: d.timestamp() if aware else None,
          lambda: d.int_timestamp if aware else None, lambda: d.is_dst() if aware else None,
          lambda: d.is_utc() if aware else None, lambda: d.timetuple(), lambda: d.utctimetuple() if aware else None,
          lambda: d.toordinal(), lambda: d.day_of_week, lambda: d.day_of_year, lambda: _acc_tz(d.tzinfo),
          lambda: _acc_tz(d.tz), lambda: hash(d))
    return (d.year, d.month, d.day, d.hour, d.minute, d.second, d.microsecond,
            d.fold if _fold_matters(d) else None) + tuple(_safe(f) for f in fs)


def _acc_date(d):
    return (d.year, d.month, d.day, d.isoformat(), d.toordinal(), d.day_of_week, d.day_of_year, hash(d))


def _acc_dur(d):
    return (d.years, d.months, d.weeks, d.remaining_days, d.hours, d.minutes, d.remaining_seconds, d.microseconds,
            d.invert, d.days, d.seconds, d.total_seconds(), d.total_days(), d.in_days(), d.in_hours(), d.in_seconds(),
            d.in_weeks(), _base(d), d.in_words(locale="en"), hash(d), str(d), repr(d))


def _acc_iv(i):
    ep = _acc_dt if isinstance(i.start, dt.datetime) else _acc_date
    return (ep(i.start), ep(i.end), i._absolute, i.invert, i.years, i.months, i.weeks, i.remaining_days, i.hours,
            i.minutes, i.remaining_seconds, i.microseconds, i.days, i.seconds, i.total_seconds(), i.in_days(),
            i.in_seconds(), i.in_words(locale="en"), _base(i), i.start.tzinfo is i.end.tzinfo if ep is _acc_dt else None,
            hash(i))


def _acc_time(t):
    return (t.hour, t.minute, t.second, t.microsecond, _acc_tz(t.tzinfo), t.utcoffset(), t.tzname(), t.dst(),
            t.isoformat(), str(t), hash(t) if t.tzinfo is None or t.utcoffset() is not None else None)


# ----------------------------------------------------------------------------- building values

def _use_sub(op):
    """every fourth op (by a checksum of the op) runs on an instance of a user-defined subclass of the pendulum class"""
    import zlib
    return op[0] != "tz" and zlib.crc32(("sub" + repr(op)).encode()) % 4 == 0


def _build(op, sub=False):
    """(value, accessor function, needs ==)"""
    p = _P["p"]
    k = op[0]
    if k == "dt":
        _, way, ref, w, fold = op
        return _cls(p.DateTime, sub)(*D.fields(w), tzinfo=_mk_tz(ref), fold=fold), _acc_dt, True
    if k == "dur":
        _, way, cls, y, mo, wk, d, h, mi, s, ms, us = op
        klass = _cls(p.Duration if cls == "D" else _P["A"], sub)
        return klass(days=d, seconds=s, microseconds=us, milliseconds=ms, minutes=mi, hours=h, weeks=wk, years=y, months=mo), _acc_dur, True
    if k == "iv":
        _, way, share, ra, wa, fa, rb, wb, fb, ab, isdate = op
        if isdate:
            fa_, fb_ = D.fields(wa), D.fields(wb)
            a, b = p.Date(*fa_[:3]), p.Date(*fb_[:3])
        else:
            cache = {} if share else None
            a = p.DateTime(*D.fields(wa), tzinfo=_mk_tz(ra, cache), fold=fa)
            b = p.DateTime(*D.fields(wb), tzinfo=_mk_tz(rb, cache), fold=fb)
        return _cls(p.Interval, sub)(a, b, absolute=bool(ab)), _acc_iv, True
    if k == "time":
        _, way, tod, ref, fold = op
        f = D.fields(tod)
        return _cls(p.Time, sub)(f[3], f[4], f[5], f[6], tzinfo=_mk_tz(ref), fold=fold), _acc_time, True
    if k == "date":
        _, way, y, m, d = op
        return _cls(p.Date, sub)(y, m, d), _acc_date, True
    if k == "tz":
        return _mk_tz(op[2]), _acc_tz, False
    raise ValueError(k)


def _apply(way, v):
    if way == "copy":
        return copy.copy(v)
    if way == "deepcopy":
        return copy.deepcopy(v)
    return pickle.loads(pickle.dumps(v, protocol=int(way[1:])))


def _same_obj(op):
    """model parameter: do the two endpoints carry the same tzinfo object?"""
    _, way, share, ra, wa, fa, rb, wb, fb, ab, isdate = op
    if isdate or ra == "n":
        return 1
    if ra != rb:
        return 0
    return 1 if (ra[0] not in "fT" or share) else 0


def _observe(op, r):
    k = op[0]
    if k == "dt":
        return "ok %s %s" % (_dt_words(r), _tz_words(r.tzinfo))
    if k == "dur":
        return "ok %d %d %d %d %d %d %d %d %d %d %d %d" % (
            (r.years, r.months, r.weeks, r.remaining_days, r.hours, r.minutes, r.remaining_seconds, r.microseconds,
             int(r.invert)) + _base(r))
    if k == "iv":
        bd, bs, bus = _base(r)
        if op[10]:
            def w(d):
                return "%d 0 -1" % Z.to_us(dt.datetime(d.year, d.month, d.day))
            return "ok %s %s %d %d %d" % (w(r.start), w(r.end), int(r._absolute), int(r.invert), (bd * 86400 + bs) * US + bus)
        return "ok %s %s %d %d %d" % (_dt_words(r.start), _dt_words(r.end), int(r._absolute), int(r.invert),
                                      (bd * 86400 + bs) * US + bus)
    if k == "time":
        return "ok %d %s" % (((r.hour * 60 + r.minute) * 60 + r.second) * US + r.microsecond, _tz_words(r.tzinfo))
    if k == "date":
        return "ok %d %d %d" % (r.year, r.month, r.day)
    if k == "tz":
        return "ok " + _tz_words(r)
    raise ValueError(k)


def impl(op, backend):
    """The property holds for every value, including values that are themselves copies and values whose lazily cached
    accessors were already read: a deterministic function of the op decides whether the accessors are touched first and
    whether a second copy step (deepcopy / pickle / copy) is chained after the first one."""
    import zlib
    v, _, _ = _build(op, _use_sub(op))
    h = zlib.crc32(repr(op).encode())
    if h % 3 == 0:
        try:
            _observe(op, v)
        except Exception:  # noqa: BLE001
            pass
    r = _apply(op[1], v)
    if type(r) is not type(v):
        return "err WrongType:" + type(r).__name__
    chain = (h // 3) % 4
    if chain == 1:
        r = copy.deepcopy(r)
    elif chain == 2:
        r = pickle.loads(pickle.dumps(r, protocol=(h // 12) % 6))
    elif chain == 3:
        r = copy.copy(r)
    if type(r) is not type(v):
        return "err WrongType:" + type(r).__name__
    return _observe(op, r)


def line(op, backend):
    k = op[0]
    if k == "dt":
        _, way, ref, w, fold = op
        return "c14dt %s %s %s %d %d" % ((way,) + _ref_words(ref) + (w, fold))
    if k == "dur":
        _, way, cls, y, mo, wk, d, h, mi, s, ms, us = op
        if cls != "D":
            return "c14adur %s %d %d %d %d %d %d %d %d %d" % (way, y, mo, wk, d, h, mi, s, ms, us)
        return "c14dur %s %d %d %d %d %d %d %d %d %d" % (way, y, mo, wk, d, h, mi, s, ms, us)
    if k == "iv":
        _, way, share, ra, wa, fa, rb, wb, fb, ab, isdate = op
        if isdate:
            wa, wb = wa - wa % DAY, wb - wb % DAY
            ra = rb = "n"
        return "c14iv %s %d %s %s %d %d %s %s %d %d %d" % (
            (way, _same_obj(op)) + _ref_words(ra) + (wa, fa) + _ref_words(rb) + (wb, fb, ab))
    if k == "time":
        _, way, tod, ref, fold = op
        return "c14time %s %d %s %s %d" % ((way, tod) + _ref_words(ref) + (fold,))
    if k == "date":
        return "c14date %s %d %d %d" % op[1:]
    if k == "tz":
        return "c14tz %s %s %s" % ((op[1],) + _ref_words(op[2]))
    return None


# ----------------------------------------------------------------------------- oracle

def _split_dur(t):
    """integer specification of the components of t µs (sign-magnitude)"""
    m = -1 if t < 0 else 1
    a = abs(t)
    secs, us = divmod(a, US)
    days, sod = divmod(secs, 86400)
    return (m * (days // 7), m * (days % 7), m * (sod // 3600), m * (sod // 60 % 60), m * (sod % 60), m * us)


def _expected(op):
    """the observation of the ORIGINAL value, from the op alone (tz tables, stdlib) — what every copy must show"""
    k = op[0]
    if k == "dt":
        _, way, ref, w, fold = op
        off, fs = _exp_offset(ref, w, fold)
        return "ok %d %d %d %s" % (w, off, fs, _exp_tz_words(ref))
    if k == "dur":
        _, way, cls, y, mo, wk, d, h, mi, s, ms, us = op
        t = (((d + 7 * wk) * 24 + h) * 60 + mi) * 60 * US + s * US + ms * 1000 + us
        if cls == "D":
            td = dt.timedelta(days=d + 365 * y + 30 * mo, seconds=s, microseconds=us, milliseconds=ms, minutes=mi, hours=h, weeks=wk)
            wks, rd, hh, mm, ss, uu = _split_dur(t)
            inv = int(td < dt.timedelta(0))
            yy, mmo = y, mo
        else:
            td = dt.timedelta(days=d, seconds=s, microseconds=us, milliseconds=ms, minutes=mi, hours=h, weeks=wk)
            wks, rd, hh, mm, ss, uu = _split_dur(abs(t))
            inv = int(t < 0)
            yy, mmo = abs(y), abs(mo)
        return "ok %d %d %d %d %d %d %d %d %d %d %d %d" % (yy, mmo, wks, rd, hh, mm, ss, uu, inv, td.days, td.seconds, td.microseconds)
    if k == "iv":
        _, way, share, ra, wa, fa, rb, wb, fb, ab, isdate = op
        if isdate:
            wa, wb = wa - wa % DAY, wb - wb % DAY
            gt = wa > wb
            ea = "%d 0 -1" % wa
            eb = "%d 0 -1" % wb
            ia, ib = wa, wb
        else:
            oa, fsa = _exp_offset(ra, wa, fa)
            ob, fsb = _exp_offset(rb, wb, fb)
            ia, ib = wa - oa, wb - ob
            # datetime's rule: same tzinfo object (or equal offsets) -> wall clocks, else instants
            gt = (wa > wb) if (_same_obj(op) or oa == ob) else (ia > ib)
            ea = "%d %d %d" % (wa, oa, fsa)
            eb = "%d %d %d" % (wb, ob, fsb)
        if ab and gt:
            ea, eb, ia, ib = eb, ea, ib, ia
        return "ok %s %s %d %d %d" % (ea, eb, ab, int(gt), ib - ia)
    if k == "time":
        _, way, tod, ref, fold = op
        return "ok %d %s" % (tod, _exp_tz_words(ref))
    if k == "date":
        return "ok %d %d %d" % op[2:]
    if k == "tz":
        return "ok " + _exp_tz_words(op[2])
    raise ValueError(k)


def oracle(op, out, backend):
    # 1. the property statement itself: same type, same accessor tuple, == (recomputed here on fresh objects)
    try:
        v, acc, need_eq = _build(op)
    except Exception as e:  # noqa: BLE001
        return f"could not build the value: {e!r}"
    try:
        r = _apply(op[1], v)
    except Exception as e:  # noqa: BLE001
        return f"{op[1]} raised {type(e).__name__}: {e}"
    if type(r) is not type(v):
        return f"type changed: {type(v).__name__} -> {type(r).__name__}"
    av, ar = acc(v), acc(r)
    if av != ar:
        bad = [i for i, (x, y) in enumerate(zip(av, ar)) if x != y]
        i = bad[0]
        return f"accessor #{i} differs after {op[1]}: {av[i]!r} -> {ar[i]!r} (differing positions {bad})"
    if need_eq and not (r == v and v == r and not (r != v)):
        return f"copy is not == to the original after {op[1]}"
    # 2. the copy shows what the value was built from (independent of pendulum: tz tables + stdlib)
    exp = _expected(op)
    if out != exp:
        return f"observed {out}, the value was built as {exp}"
    return None


# ----------------------------------------------------------------------------- generation

NAMES = ("", "foo", "Zone/Custom_1", "été ☃", "+01:00", "x" * 40)
SPECIAL = ("Australia/Lord_Howe", "Pacific/Kiritimati", "Pacific/Apia", "Europe/Paris", "America/Sao_Paulo",
           "Africa/Monrovia", "America/St_Johns", "Antarctica/Troll", "Europe/Dublin", "Africa/Casablanca")
DUR_FIELDS = 9      # years months weeks days hours minutes seconds millis micros


def _ok_w(w):
    return D.MIN_US + 3 * DAY < w < Z.limit_us(YMAX)


def _rand_ref(rng, kinds="nzZfT"):
    k = rng.choice(kinds)
    if k == "n":
        return "n"
    if k == "z":
        return str(rng.randrange(len(D.ZN)))
    if k == "Z":
        return "Z%d" % rng.randrange(len(D.ZN))
    if k == "f":
        sec = rng.choice((0, 3600, -3600, 19800, -12600, 1, -1, 59, -59, 86399, -86399, rng.randint(-86399, 86399)))
        return "f%d|%s" % (sec, rng.choice(NAMES))
    us = rng.choice((0, 3600 * US, -5 * 3600 * US, 1, -1, rng.randint(-86399, 86399) * US + rng.randint(0, 999999)))
    return "T%d" % us


def _irr_pick(rng, name, per_zone):
    irr = Z.irregular(name, YMAX)
    irr = [i for i in irr if _ok_w(i[1] * US) and _ok_w(i[2] * US)]
    if not irr:
        return []
    folds = [i for i in irr if i[0] == "fold"]
    gaps = [i for i in irr if i[0] == "gap"]
    if len(irr) <= per_zone or name in SPECIAL and per_zone < 10 ** 6 and len(irr) <= 8 * per_zone:
        return irr
    pick = []
    if folds:
        pick += [folds[0], folds[-1]] + rng.sample(folds, min(len(folds), max(0, per_zone - 3)))
    if gaps:
        pick += [rng.choice(gaps)]
    return pick


def _dt_ops(rng, tier):
    per_zone = {"quick": 3, "thorough": 24, "widen": 12}[tier]     # SPECIAL zones: up to 8x as many
    for zi, name in enumerate(D.ZN):
        for kind, lo, hi, t, ob, oa in _irr_pick(rng, name, per_zone):
            frac = rng.choice((0, 1, 500000, 999999))
            pts = [lo * US + frac, ((lo + hi) // 2) * US + frac, (hi - 1) * US + 999999]
            if tier != "quick" or rng.random() < 0.3:
                pts += [lo * US - 1, hi * US]
            ref = str(zi) if rng.random() < 0.85 else "Z%d" % zi
            for w in pts:
                for fold in (0, 1):
                    ways = WAYS if tier != "quick" else ("copy", "deepcopy") + tuple(rng.sample(WAYS[2:], 3))
                    for way in ways:
                        yield ("dt", way, ref, w, fold)
    n = {"quick": 500, "thorough": 30000, "widen": 4000}[tier]
    for _ in range(n):
        ref = _rand_ref(rng)
        w = rng.randint(D.MIN_US + 3 * DAY, Z.limit_us(YMAX) - 1)
        fold = rng.randint(0, 1)
        for way in WAYS:
            yield ("dt", way, ref, w, fold)
    for w in (D.MIN_US, D.MAX_US):
        for ref in ("n", "f0|", "f3600|foo", "T0"):
            for way in WAYS:
                yield ("dt", way, ref, w, 1)


def _dur_ops(rng, tier):
    reps = {"quick": 1, "thorough": 12, "widen": 3}[tier]
    mags = (150, 40, 60, 40, 50, 200, 5000, 5000, 3_000_000)   # base total stays below 2**33 s (float bridge is C09's)
    for _ in range(reps):
        for mask in range(1 << DUR_FIELDS):
            for sign in ("+", "-", "m"):
                vals = []
                for i in range(DUR_FIELDS):
                    if not mask >> i & 1:
                        vals.append(0)
                        continue
                    x = rng.randint(1, mags[i])
                    if sign == "-" or (sign == "m" and rng.random() < 0.5):
                        x = -x
                    vals.append(x)
                ways = WAYS if tier != "quick" else ("copy", "deepcopy", rng.choice(WAYS[2:]))
                for way in ways:
                    yield ("dur", way, "D") + tuple(vals)
    hand = [(1, 2, 0, 3, 0, 0, 0, 0, 0), (0, 0, 2, 3, 0, 0, 0, 0, 0), (0, 0, -2, -3, -5, 0, 0, 0, 0), (0, 0, 0, 1, -5, 0, 0, 0, 0),
            (0, 0, 0, 0, 25, 0, 0, 0, 0), (0, 0, 0, 0, 0, 0, 0, 0, -1), (0, 0, 0, 0, 0, 0, 0, 0, 0), (1, 0, 0, -400, 0, 0, 0, 0, 0),
            (-1, -1, 0, 0, 0, 0, 0, 0, 1), (0, 0, 0, 99000, 23, 59, 59, 0, 999999), (0, 0, 0, -99000, 0, 0, 0, 0, 0),
            (0, 0, 0, 0, 0, 0, 86399, 999, 999), (0, 0, 0, 6, 23, 59, 59, 999, 1000), (0, 0, 1, -7, 0, 0, 0, 0, 0)]
    for h in hand:
        for way in WAYS:
            yield ("dur", way, "D") + h
    # AbsoluteDuration (what Time.diff returns: no years/months there; the constructor accepts them, 1 op in 4 has them)
    n = {"quick": 150, "thorough": 5000, "widen": 1000}[tier]
    for _ in range(n):
        ym = [rng.randint(-m, m) for m in mags[:2]] if rng.random() < 0.25 else [0, 0]
        vals = ym + [rng.choice((0, rng.randint(-m, m))) for m in mags[2:]]
        for way in WAYS:
            yield ("dur", way, "A") + tuple(vals)
    for way in WAYS:
        yield ("dur", way, "A", 0, 0, 0, 0, 0, 0, 0, 0, -3600 * US - 5)
        yield ("dur", way, "A", 0, 0, 2, 3, 0, 0, 0, 0, 0)
        yield ("dur", way, "A", -1, 2, 0, -3, 0, 0, 0, 0, 0)
        yield ("dur", way, "A", 0, 0, 0, 0, 0, 0, 0, 0, -1)


def _iv_ops(rng, tier):
    per_zone = {"quick": 1, "thorough": 6, "widen": 3}[tier]
    zsel = list(enumerate(D.ZN))
    for zi, name in zsel:
        irr = _irr_pick(rng, name, per_zone)
        if tier == "quick" and name not in SPECIAL:
            irr = irr[:1] if rng.random() < 0.5 else irr[-1:]
        for kind, lo, hi, t, ob, oa in irr:
            mid = ((lo + hi) // 2) * US + rng.choice((0, 1, 999999))
            ref = str(zi)
            other = _rand_ref(rng, "zzfT")
            span = rng.choice((3600 * US, DAY, 40 * DAY, 3000 * DAY))
            cands = [
                (ref, mid, 0, ref, mid, 1),                 # the two passes (or the two readings of a skipped wall)
                (ref, mid, 1, ref, mid, 0),                 # inverted as instants, equal on the wall
                (ref, mid, 1, ref, mid + rng.randint(1, 1800) * US, 0),   # wall order != instant order
                (ref, mid, 1, ref, mid - span, 0),
                (ref, mid - span, 1, ref, mid, 1),
                (ref, mid, 1, other, mid + rng.randint(-span, span), rng.randint(0, 1)),
                (other, mid + rng.randint(-span, span), 0, ref, mid, 1),
            ]
            for ra, wa, fa, rb, wb, fb in cands:
                if not (_ok_w(wa) and _ok_w(wb)):
                    continue
                for ab in (0, 1):
                    ways = WAYS if tier != "quick" else ("copy", "deepcopy", rng.choice(WAYS[2:]))
                    for way in ways:
                        yield ("iv", way, 1, ra, wa, fa, rb, wb, fb, ab, 0)
    n = {"quick": 300, "thorough": 20000, "widen": 3000}[tier]
    for _ in range(n):
        ra = _rand_ref(rng)
        rb = "n" if ra == "n" else rng.choice((ra, ra, _rand_ref(rng, "zZfT")))
        wa = rng.randint(D.MIN_US + 3 * DAY, Z.limit_us(YMAX) - 1)
        wb = wa + rng.choice((-1, 1)) * rng.choice((0, 1, rng.randint(0, DAY), rng.randint(0, 200 * 365 * DAY)))
        if not _ok_w(wb):
            wb = wa
        share = rng.randint(0, 1)
        isdate = 1 if rng.random() < 0.2 else 0
        for ab in (0, 1):
            for way in WAYS:
                yield ("iv", way, share, ra, wa, rng.randint(0, 1), rb, wb, rng.randint(0, 1), ab, isdate)


def _misc_ops(rng, tier):
    n = {"quick": 150, "thorough": 5000, "widen": 1000}[tier]
    for _ in range(n):
        tod = rng.choice((0, DAY - 1, rng.randrange(DAY)))
        ref = _rand_ref(rng)
        fold = rng.randint(0, 1)
        for way in WAYS:
            yield ("time", way, tod, ref, fold)
    dates = [(1, 1, 1), (9999, 12, 31), (255, 12, 31), (256, 1, 1), (2020, 2, 29), (1970, 1, 1), (511, 6, 30), (512, 6, 30)]
    for _ in range(n):
        d = dt.date.fromordinal(rng.randint(1, 3652059))
        dates.append((d.year, d.month, d.day))
    for y, m, d in dates:
        for way in WAYS:
            yield ("date", way, y, m, d)
    for zi in range(len(D.ZN)):
        ways = WAYS if tier != "quick" else ("copy", "deepcopy", rng.choice(WAYS[2:]))
        for way in ways:
            yield ("tz", way, str(zi))
    for _ in range(n):
        ref = _rand_ref(rng, "ffT")
        for way in WAYS:
            yield ("tz", way, ref)
    for sec in (0, 59, -59, 60, -60, 3599, -3600, 86399, -86399, 360000, -360000):
        for nm in ("", "n"):
            for way in WAYS:
                yield ("tz", way, "f%d|%s" % (sec, nm))


def gen_ops(rng, tier):
    return itertools.chain(_dt_ops(rng, tier), _dur_ops(rng, tier), _iv_ops(rng, tier), _misc_ops(rng, tier))


def corpus():
    paris = str(D.ZI["Europe/Paris"])
    w = Z.to_us(dt.datetime(2013, 10, 27, 2, 30))
    out = []
    for way in WAYS:
        out += [("dt", way, paris, w, 1), ("dt", way, "n", w, 1), ("dt", way, "T0", w, 0), ("dt", way, "Z" + paris, w, 1),
                ("dur", way, "D", 1, 2, 0, 3, 0, 0, 0, 0, 0), ("dur", way, "D", 0, 0, 2, 3, 0, 0, 0, 0, 0),
                ("dur", way, "A", 0, 0, 0, 0, 0, 0, 0, 0, -3600 * US - 5),
                ("iv", way, 1, paris, w, 0, paris, w, 1, 0, 0), ("iv", way, 1, paris, w, 1, paris, w - 40 * DAY, 0, 1, 0),
                ("tz", way, "f3600|foo")]
    return out


# ----------------------------------------------------------------------------- coverage tags

def _wall_class(ref, w):
    name = _zone_name(ref) if ref != "n" else None
    if name is None:
        return {"n": "naive", "f": "fixed", "T": "nativetz"}[ref[0]]
    n = len(D.wall_solutions(name, w, YMAX))
    return {0: "skipped", 1: "unique", 2: "repeated"}[n] + ("-zoneinfo" if ref[0] == "Z" else "")


def _wayc(way):
    return way if way[0] != "p" else "pickle"


def tag(op, out):
    k = op[0]
    if k == "dt":
        return "dt:%s:fold%d:%s" % (_wall_class(op[2], op[3]), op[4], _wayc(op[1]))
    if k == "dur":
        y, mo, wk = op[3], op[4], op[5]
        t = (((op[6] + 7 * wk) * 24 + op[7]) * 60 + op[8]) * 60 * US + op[9] * US + op[10] * 1000 + op[11]
        return "dur%s:%s%s%s:%s" % (op[2], "ym" if (y or mo) else "", "w" if wk else "", "neg" if t < 0 else "", _wayc(op[1]))
    if k == "iv":
        inv = out.split()[-2] if out.startswith("ok") else "?"
        return "iv:%s:%s:abs%d:inv%s:%s" % ("date" if op[10] else _wall_class(op[3], op[4]), "same" if _same_obj(op) else "diff",
                                            op[9], inv, _wayc(op[1]))
    if k == "time":
        return "time:%s:fold%d" % (op[3][0] if op[3][0] in "nfTZ" else "z", op[4])
    if k == "tz":
        return "tz:" + (op[2][0] if op[2][0] in "fTZ" else "named")
    return k


TRIVIAL_TAGS = tuple("dt:unique:fold%d:%s" % (f, w) for f in (0, 1) for w in ("copy", "deepcopy", "pickle")) + \
    tuple("dt:naive:fold0:%s" % w for w in ("copy", "deepcopy", "pickle")) + \
    tuple("durD:::%s" % w for w in ("copy", "deepcopy", "pickle")) + ("date", "time:n:fold0")
MATCHERS = {}
