"""C05 — an interval's length is the exact elapsed time between its endpoints."""
from __future__ import annotations

import datetime as dt

from harness import dtutil as D
from harness import zones as Z

ID = "C05"
BACKENDS = ("py", "rs")
GEN_MODULES = ("DTArith", "Interval:source", "Interval:new", "Interval:init", "Interval:units", "Interval:negabs", "Interval:endpoints")
MIN_THEOREMS = 38
US = D.US
DAY = 86400 * US
YMAX = Z.YMAX_QUICK
B33 = 2 ** 33 * US
TOL = 64
PATHS = ("interval", "diff", "sub", "abs", "neg", "subn", "rsubn")
RULE = ("ordered pairs (x, y): for every zone, instants at {-jump-1s, -1us, 0, +1us, jump/2, jump} around sampled transitions rendered "
        "as (wall, fold) from the tz tables, both occurrences of repeated wall times, canonical and default (fold=1) fold bit; partner = "
        "another probe of the same transition / an instant days-years away / the same instant in another zone; zone pairing: same "
        "tzinfo object, same name but distinct object (Timezone.no_cache), different zones, fixed offsets, naive; paths interval()/"
        "diff()/-/abs()/neg/native operand on either side x absolute flag; naive/UTC/fixed pairs over years 1..9999 with spans "
        "straddling 2^33 s; Date pairs over 1..9999. non-trivial = offsets of the endpoints differ, or a fold=1 endpoint in an "
        "overlap, or a span >= 2^33 s with a microsecond part. in_days()/in_weeks(): every generated same-tzinfo-object / naive pair "
        "of the zone stream, every 3rd of the wide stream and every 3rd Date pair is re-run as Interval(x, y, absolute).in_days()/"
        ".in_weeks() (interval() or diff()); non-trivial = the calendar count differs from the elapsed time truncated to days, "
        "or a non-zero count with |count| not a multiple of 7")
EXHAUSTIVE = {"quick": False, "thorough": False}
TRUSTED = [
    "Model/Interval.lean (Interval.__new__, the DateTime/Date paths into it, in_seconds/minutes/hours) tied by this correspondence run",
    "oracle: integer microsecond difference of the endpoints' instants computed from the extracted tz tables (harness/zones.py)",
    "Model/Interval.lean inDays/dateInDays/inWeeks (Interval.__init__ swap, precise_diff total_days, in_weeks) tied by the "
    "`days`/`ddays` ops; oracle: difference of stdlib datetime.date ordinals of the wall dates, weeks = that truncated toward zero",
]
ASSUMPTIONS = [
    "float bridge: Duration(seconds=delta.total_seconds()) is exact for |span| < 2^33 s and for whole-second spans; the model is "
    "compared only there; beyond, the oracle enforces the property's own 64 us tolerance on the real code",
    "endpoints are valid local times (renderings of instants); a native operand inside a gap is normalised by instance() (C02)",
    "zone tables complete up to year 2100; zone-aware endpoints are generated below that",
]


def preamble():
    return D.preamble(YMAX)


# ------------------------------------------------------------------------------------------------ reference

def instant(zr, w, f):
    """µs instant of a valid local time from the tz tables; None if the wall value does not exist"""
    if zr == "n":
        return w
    if zr[0] == "f":
        return w - int(zr[1:])
    sols = D.wall_solutions(D.zname(zr), w, YMAX)
    if not sols:
        return None
    return max(sols) if f else min(sols)


def expected(op):
    """true elapsed µs the path should report (before tolerance); None = outside the property"""
    _, path, zx, wx, fx, zy, wy, fy, same, ab = op
    ux, uy = instant(zx, wx, fx), instant(zy, wy, fy)
    if ux is None or uy is None:
        return None
    if path in ("interval", "diff"):
        e = uy - ux
        return abs(e) if ab else e
    if path in ("sub", "subn"):
        return ux - uy
    if path == "rsubn":
        return uy - ux
    if path == "abs":
        return abs(ux - uy)
    if path == "neg":
        return uy - ux
    raise ValueError(path)


def _local(name, u):
    off = D.db_offset_at(name, u, YMAX)
    w = u + off
    sols = D.wall_solutions(name, w, YMAX)
    return w, (1 if (len(sols) == 2 and u == max(sols)) else 0), len(sols)


def trunc_div(a, b):
    q = abs(a) // b
    return -q if a < 0 else q


# ------------------------------------------------------------------------------------------------ generators

def _mk(rng, path, x, y, same, ab=None):
    zx, wx, fx = x
    zy, wy, fy = y
    if zx != zy:
        same = 0
    if zx == "n" or zy == "n":
        same = 1
    if path in ("subn", "rsubn"):
        # instance() maps the native tzinfo to the cached pendulum object; datetime.timezone(0) becomes the UTC zone
        same = 1 if (zx == zy and zy != "f0") else 0
        if zy == "n":
            same = 1
    if ab is None:
        ab = rng.randint(0, 1) if path in ("interval", "diff") else (1 if path == "abs" else 0)
    return ("iv", path, zx, wx, fx, zy, wy, fy, same, ab)


def _zone_stream(rng, tier):
    per_zone = {"quick": 6, "thorough": 60, "widen": 12}[tier]
    lo_ok = Z.to_us(dt.datetime(1800, 1, 1))
    lim = Z.limit_us(YMAX) - 400 * DAY
    names = D.ZN
    for zi, name in enumerate(names):
        init, trs = Z.tables(YMAX)[name]
        cand = [(t, o) for t, o in trs if lo_ok < t * US < lim]
        if not cand:
            continue
        pick = cand if len(cand) <= per_zone else rng.sample(cand, per_zone)
        for t, o in pick:
            prev = Z.offset_at(name, t - 1, YMAX)
            jump = abs(o - prev)
            probes = []
            for du in (-(jump + 1) * US, -1, 0, 1, (jump // 2) * US + 7, jump * US):
                u = t * US + du
                w, fold, n = _local(name, u)
                probes.append((str(zi), w, fold))
                if n == 1 and rng.random() < 0.5:
                    probes.append((str(zi), w, 1))        # default fold bit on an unambiguous time
            # both occurrences of a repeated wall time (the wall-order region)
            if o < prev:
                w = t * US + o * US + rng.randrange(0, jump * US)
                for path in ("abs", "diff", "interval", "sub"):
                    a, b = (str(zi), w, 0), (str(zi), w, 1)
                    if rng.random() < 0.5:
                        a, b = b, a
                    yield _mk(rng, path, a, b, rng.choice((1, 1, 0)))
                w2 = w + rng.choice((-1, 1)) * rng.randrange(0, jump * US)
                if len(D.wall_solutions(name, w2, YMAX)) == 2:
                    yield _mk(rng, rng.choice(("abs", "diff")), (str(zi), w, rng.randint(0, 1)), (str(zi), w2, rng.randint(0, 1)), 1, 1)
            for _ in range(7):
                x, y = rng.sample(probes, 2)
                yield _mk(rng, rng.choice(PATHS), x, y, rng.choice((1, 1, 0)))
            # a skipped wall value as an endpoint (raw constructor / native operand normalised by instance()):
            # outside the property (no instant), model and code are still compared
            if o > prev:
                w = t * US + prev * US + rng.randrange(0, jump * US)
                g = (str(zi), w, rng.randint(0, 1))
                pair = (g, rng.choice(probes)) if rng.random() < 0.5 else (rng.choice(probes), g)
                yield _mk(rng, rng.choice(PATHS), pair[0], pair[1], rng.choice((1, 0)))
            # partner far away in the same zone
            for _ in range(2):
                u2 = t * US + rng.choice((-1, 1)) * rng.choice((rng.randrange(DAY, 40 * DAY), rng.randrange(DAY, 20000 * DAY)))
                if not lo_ok < u2 < lim:
                    continue
                w2, f2, _n = _local(name, u2)
                x = rng.choice(probes)
                pair = (x, (str(zi), w2, f2))
                if rng.random() < 0.5:
                    pair = pair[::-1]
                yield _mk(rng, rng.choice(PATHS), pair[0], pair[1], rng.choice((1, 0)))
            # partner in another zone / fixed offset / UTC
            for _ in range(3):
                x = rng.choice(probes)
                ux = instant(*x)
                u2 = ux + rng.choice((0, 1, -1, rng.randrange(-3 * DAY, 3 * DAY), rng.randrange(-3000 * DAY, 3000 * DAY)))
                if not lo_ok < u2 < lim:
                    continue
                k = rng.random()
                if k < 0.6:
                    zj = rng.randrange(len(names))
                    w2, f2, _n = _local(names[zj], u2)
                    y = (str(zj), w2, f2)
                elif k < 0.8:
                    off = rng.randint(-86399, 86399) * US
                    y = ("f%d" % off, u2 + off, 0)
                else:
                    y = (str(D.ZI["UTC"]), u2, rng.randint(0, 1))
                pair = (x, y) if rng.random() < 0.5 else (y, x)
                yield _mk(rng, rng.choice(PATHS), pair[0], pair[1], 0)


def _wide_stream(rng, tier):
    n = {"quick": 30000, "thorough": 600000, "widen": 150000}[tier]
    utc = str(D.ZI["UTC"])
    for _ in range(n):
        k = rng.random()
        if k < 0.35:
            zr = rng.choice(("n", utc, "f0", "f%d" % (rng.randint(-86399, 86399) * US)))
            zr2 = zr
        elif k < 0.5:
            zr, zr2 = utc, "f%d" % (rng.randint(-86399, 86399) * US)
        else:
            zr = zr2 = rng.choice(("n", utc))
        lo, hi = D.MIN_US + 2 * DAY, D.MAX_US - 2 * DAY
        wx = rng.randint(lo, hi)
        r = rng.random()
        if r < 0.3:      # float-bridge boundary 2^33 s with microsecond parts
            span = rng.choice((1, -1)) * (B33 + rng.choice((-1, 0, 1)) * rng.randint(0, 3 * US) + rng.choice((0, 1, -1, 999999)))
        elif r < 0.5:    # sub-unit boundaries for the truncating counts
            unit = rng.choice((US, 60 * US, 3600 * US))
            span = rng.choice((1, -1)) * (rng.randint(0, 10 ** 6) * unit + rng.choice((0, 1, -1, unit - 1, unit // 2)))
        elif r < 0.6:
            span = rng.choice((0, 1, -1, 999999, -999999, US, -US))
        else:
            span = rng.randint(lo, hi) - wx
        wy = wx + span
        if not lo <= wy <= hi:
            wy = wx - span
            if not lo <= wy <= hi:
                continue
        if zr2 != zr and zr2[0] == "f":
            wy2 = wy + int(zr2[1:])
            if not lo <= wy2 <= hi:
                continue
            wy = wy2
        x, y = (zr, wx, rng.randint(0, 1)), (zr2, wy, rng.randint(0, 1))
        if rng.random() < 0.5:
            x, y = y, x
        yield _mk(rng, rng.choice(PATHS), x, y, rng.choice((1, 1, 0)))
    # range edges: the hand offset removal can leave 0001..9999
    for _ in range(n // 60):
        off = rng.choice((1, -1)) * rng.randint(1, 86399) * US
        edge = rng.choice((D.MIN_US + rng.randint(0, 2 * DAY), D.MAX_US - rng.randint(0, 2 * DAY)))
        other = edge + rng.choice((1, -1)) * rng.randint(0, 30 * DAY)
        if not D.MIN_US <= other <= D.MAX_US:
            other = edge
        zr = "f%d" % off
        x, y = (zr, edge, 0), (zr, other, 0)
        if rng.random() < 0.5:
            x, y = y, x
        # same object only: with distinct objects Interval.__init__'s precise_diff (C06) converts to UTC and overflows first
        yield _mk(rng, rng.choice(("interval", "diff", "sub", "abs")), x, y, 1)
    # ... and in named zones: the first days of year 1 (the zone is on its initial local mean time there) against a partner of the
    # same zone on a modern offset. East of Greenwich the UTC reading of the early endpoint is not representable
    names = D.ZN
    lo_ok, lim = Z.to_us(dt.datetime(1800, 1, 1)), Z.limit_us(YMAX) - 400 * DAY
    for _ in range(n // 60):
        zi = rng.randrange(len(names))
        edge = D.MIN_US + rng.choice((0, 1, rng.randint(0, 3600 * US), rng.randint(0, 2 * DAY)))
        if len(D.wall_solutions(names[zi], edge, YMAX)) != 1:
            continue
        w2, f2, _n = _local(names[zi], rng.randint(lo_ok + DAY, lim - DAY))
        x, y = (str(zi), edge, 0), (str(zi), w2, f2)
        if rng.random() < 0.5:
            x, y = y, x
        yield _mk(rng, rng.choice(("interval", "diff", "sub", "abs")), x, y, 1)
    for _ in range(n // 4):
        a = rng.randint(-719162, 2932896)
        r = rng.random()
        b = a + rng.choice((0, 1, -1, 31, -366)) if r < 0.2 else rng.randint(-719162, 2932896)
        if not -719162 <= b <= 2932896:
            b = a
        yield ("date", rng.choice(("interval", "diff", "sub", "abs", "neg")), a, b, rng.randint(0, 1))


def _with_days(stream, every):
    """pass the stream through unchanged; after every `every`-th eligible op also emit its in_days()/in_weeks() re-run
    (a pure function of the op and a counter: the random stream of the existing generators is untouched)"""
    k = 0
    for op in stream:
        yield op
        if op[0] == "iv":
            _, path, zx, wx, fx, zy, wy, fy, same, ab = op
            if not same or zx != zy or path in ("subn", "rsubn"):
                continue          # the model of in_days covers naive pairs and pairs on ONE tzinfo object
            k += 1
            if k % every:
                continue
            if path not in ("interval", "diff"):
                ab = (k // every) & 1
            yield ("days", "diff" if (k // every) % 3 == 0 else "interval", zx, wx, fx, zy, wy, fy, 1, ab)
        elif op[0] == "date":
            _, path, a, b, ab = op
            k += 1
            if k % every:
                continue
            yield ("ddays", "diff" if (k // every) % 3 == 0 else "interval", a, b, ab)


def gen_ops(rng, tier):
    yield from _with_days(_zone_stream(rng, tier), 1)
    yield from _with_days(_wide_stream(rng, tier), 3)
    yield ("mixed", 0)


def corpus():
    paris = str(D.ZI["Europe/Paris"])
    w = Z.to_us(dt.datetime(2013, 10, 27, 2, 30))
    out = []
    for path in ("abs", "diff", "interval", "sub"):          # F12
        out.append(("iv", path, paris, w, 0, paris, w, 1, 1, 1 if path != "sub" else 0))
        out.append(("iv", path, paris, w, 1, paris, w, 0, 1, 1 if path != "sub" else 0))
        out.append(("iv", path, paris, w, 1, paris, w, 0, 0, 1 if path != "sub" else 0))
    # in_days() is a calendar count: 2020-01-01T23:00 -> 2020-01-02T01:00 is 2 h and in_days() == 1
    a, b = Z.to_us(dt.datetime(2020, 1, 1, 23)), Z.to_us(dt.datetime(2020, 1, 2, 1))
    for path in ("interval", "diff"):
        for ab in (0, 1):
            out.append(("days", path, "n", a, 0, "n", b, 0, 1, ab))
            out.append(("days", path, "n", b, 0, "n", a, 0, 1, ab))
            out.append(("days", path, paris, w, 0, paris, w, 1, 1, ab))
            out.append(("days", path, paris, w - 3 * 3600 * US, 0, paris, w + 14 * DAY, 1, 1, ab))
            out.append(("ddays", path, 18262, 18262 - 15, ab))
    return out


# ------------------------------------------------------------------------------------------------ model requests

MPATH = {"interval": "new", "diff": "new", "sub": "sub", "abs": "abs", "neg": "neg", "subn": "subn", "rsubn": "rsubn"}


def line(op, backend):
    if op[0] == "iv":
        _, path, zx, wx, fx, zy, wy, fy, same, ab = op
        e = expected(op)
        if e is None:            # an endpoint is a skipped wall value: no oracle, the model still follows the code
            if abs(wx - wy) >= B33 - 4 * DAY:
                return None
        elif abs(e) >= B33 and e % US != 0:
            return None          # beyond the exact float domain: oracle only (64 us tolerance)
        return "c05iv %s %s %d %d %s %d %d %d %d" % (MPATH[path], zx, wx, fx, zy, wy, fy, same, ab)
    if op[0] == "date":
        _, path, a, b, ab = op
        if path in ("interval", "diff"):
            return "c05date %d %d %d" % (a, b, ab)
        if path == "sub":          # Date(a) - Date(b) = Interval(b, a, False)
            return "c05date %d %d 0" % (b, a)
        if path == "abs":
            return "c05date %d %d 1" % (b, a)
        return "c05date %d %d 0" % (a, b)      # neg: -(Date(a) - Date(b)) = Interval(a, b)
    if op[0] == "days":
        _, path, zx, wx, fx, zy, wy, fy, same, ab = op
        return "c05days %s %d %d %s %d %d %d" % (zx, wx, fx, zy, wy, fy, ab)
    if op[0] == "ddays":
        _, path, a, b, ab = op
        return "c05ddays %d %d %d" % (a, b, ab)
    return None


# ------------------------------------------------------------------------------------------------ real code

_P = {}
_ALT = {}


def worker_init(backend):
    import pendulum
    _P["p"] = pendulum


def _alt_tz(zr):
    """a tzinfo with the same rules/name as D.tzobj(zr) but a distinct object"""
    p = _P["p"]
    if zr not in _ALT:
        if zr[0] == "f":
            from pendulum.tz.timezone import FixedTimezone
            _ALT[zr] = FixedTimezone(int(zr[1:]) // US)
        else:
            from pendulum.tz.timezone import Timezone
            _ALT[zr] = Timezone.no_cache(D.ZN[int(zr)])
    tz = _ALT[zr]
    assert tz is not D.tzobj(zr)
    return tz


def _native_len(iv):
    td = dt.timedelta
    return (td.days.__get__(iv) * 86400 + td.seconds.__get__(iv)) * US + td.microseconds.__get__(iv)


def _out(iv):
    p = _P["p"]
    if type(iv) is not p.Interval:
        return "err WrongType"
    return "ok %d %d %d %d" % (_native_len(iv), iv.in_seconds(), iv.in_minutes(), iv.in_hours())


class _ForeignTz(dt.tzinfo):
    """a DST-observing tzinfo that is neither zoneinfo nor pytz nor pendulum: delegates to a zoneinfo zone, exposes no name attribute"""

    def __init__(self, zi):
        self._zi = zi

    def utcoffset(self, d):
        return None if d is None else self._zi.utcoffset(d.replace(tzinfo=self._zi))

    def dst(self, d):
        return None if d is None else self._zi.dst(d.replace(tzinfo=self._zi))

    def tzname(self, d):
        return None if d is None else self._zi.tzname(d.replace(tzinfo=self._zi))


_FOREIGN = {}


def _foreign(name):
    import zoneinfo
    if name not in _FOREIGN:
        _FOREIGN[name] = _ForeignTz(zoneinfo.ZoneInfo(name))
    return _FOREIGN[name]


def impl(op, backend):
    p = _P["p"]
    try:
        if op[0] == "iv":
            _, path, zx, wx, fx, zy, wy, fy, same, ab = op
            x = D.mk(zx, wx, fx)
            if path in ("subn", "rsubn"):
                y = D.native(zy, wy, fy)
                import zlib
                if zy[0] not in "nf" and zlib.crc32(("foreign" + repr(op)).encode()) % 3 == 0 and D.wall_solutions(D.zname(zy), wy, YMAX):
                    # the native operand carries a hand-written tzinfo (no key / zone attribute; what dateutil or user code provides):
                    # ONE object per zone for the whole process, met at dates with different offsets
                    y = y.replace(tzinfo=_foreign(D.zname(zy)))
                return _out(x - y if path == "subn" else y - x)
            if zy == "n" or (same and zx == zy):
                y = D.mk(zy, wy, fy)
            elif zx == zy:
                y = p.DateTime(*D.fields(wy), tzinfo=_alt_tz(zy), fold=fy)
            else:
                y = D.mk(zy, wy, fy)
            if (x.tzinfo is y.tzinfo) != bool(same):
                return "err HarnessSameObject"
            if path == "interval":
                r = p.interval(x, y, absolute=bool(ab))
            elif path == "diff":
                r = x.diff(y, bool(ab))
            elif path == "sub":
                r = x - y
            elif path == "abs":
                import zlib
                if not (same and zx == zy and zx != "n") and zlib.crc32(("absabs" + repr(op)).encode()) & 1:
                    # abs() of an interval that is already absolute and was given its endpoints latest-first or earliest-first
                    # (what diff() returns): still the magnitude. (Not inside the wall-order region of F12: one shared zone object.)
                    r = abs(x.diff(y)) if zlib.crc32(repr(op).encode()) & 2 else abs(p.interval(x, y, absolute=True))
                else:
                    r = abs(x - y)
            else:
                r = -(x - y)
            return _out(r)
        if op[0] == "date":
            _, path, a, b, ab = op
            da, db = dt.date.fromordinal(a + 719163), dt.date.fromordinal(b + 719163)
            x, y = p.Date(da.year, da.month, da.day), p.Date(db.year, db.month, db.day)
            if path == "interval":
                r = p.interval(x, y, absolute=bool(ab))
            elif path == "diff":
                r = x.diff(y, bool(ab))
            elif path == "sub":
                r = x - (y if ab else db)       # ab doubles as "native date operand" for the operator path
            elif path == "abs":
                r = abs(x - y)
            else:
                r = -(x - y)
            return _out(r)
        if op[0] == "days":
            _, path, zx, wx, fx, zy, wy, fy, same, ab = op
            x, y = D.mk(zx, wx, fx), D.mk(zy, wy, fy)
            if x.tzinfo is not y.tzinfo:
                return "err HarnessSameObject"
            r = p.interval(x, y, absolute=bool(ab)) if path == "interval" else x.diff(y, bool(ab))
            d, w = r.in_days(), r.in_weeks()
            if type(r) is not p.Interval or type(d) is not int or type(w) is not int:
                return "err WrongType"
            return "ok %d %d" % (d, w)
        if op[0] == "ddays":
            _, path, a, b, ab = op
            da, db = dt.date.fromordinal(a + 719163), dt.date.fromordinal(b + 719163)
            x, y = p.Date(da.year, da.month, da.day), p.Date(db.year, db.month, db.day)
            r = p.interval(x, y, absolute=bool(ab)) if path == "interval" else x.diff(y, bool(ab))
            d, w = r.in_days(), r.in_weeks()
            if type(r) is not p.Interval or type(d) is not int or type(w) is not int:
                return "err WrongType"
            return "ok %d %d %d" % (d, w, _native_len(r))
        if op[0] == "mixed":
            res = []
            a = p.naive(2020, 1, 1)
            b = p.datetime(2020, 1, 1, tz="UTC")
            for f in (lambda: p.interval(a, b), lambda: a - b, lambda: b - a, lambda: a.diff(b)):
                try:
                    f()
                    res.append("0")
                except TypeError:
                    res.append("1")
            try:
                p.interval(p.Date(2020, 1, 1), b)
                res.append("0")
            except ValueError:
                res.append("1")
            return "ok " + " ".join(res)
    except OverflowError:
        return "err OverflowError"
    raise ValueError(op[0])


# ------------------------------------------------------------------------------------------------ oracle

def _check_len(e, out, what):
    if not out.startswith("ok "):
        return f"{what}: unexpected {out}; true elapsed time {e} us"
    ln, s, m, h = (int(v) for v in out.split()[1:])
    tol = 0 if abs(e) < B33 else TOL
    if abs(ln - e) > tol:
        return f"{what}: length {ln} us, true elapsed time {e} us (off by {ln - e} us, allowed {tol})"
    for name, unit, got in (("in_seconds", US, s), ("in_minutes", 60 * US, m), ("in_hours", 3600 * US, h)):
        lo, hi = trunc_div(e - tol, unit), trunc_div(e + tol, unit)
        if not min(lo, hi) <= got <= max(lo, hi):
            return f"{what}: {name}() = {got}, length {e} us truncated toward zero is {trunc_div(e, unit)}"
    return None


def oracle(op, out, backend):
    if op[0] == "iv":
        e = expected(op)
        if e is None:
            return None
        _, path, zx, wx, fx, zy, wy, fy, same, ab = op
        if out == "err OverflowError":
            # Interval.__new__ / precise_diff shift an endpoint to UTC as a naive value (finding F31 when that reading is not representable)
            return "OverflowError: " + ("the UTC reading of an endpoint lies outside years 1..9999" if _utc_out_of_range(op)
                                        else "both endpoints and their UTC readings are representable")
        return _check_len(e, out, path)
    if op[0] == "date":
        _, path, a, b, ab = op
        if path in ("interval", "diff"):
            e = (b - a) * DAY
            e = abs(e) if ab else e
        elif path == "sub":
            e = (a - b) * DAY
        elif path == "abs":
            e = abs(a - b) * DAY
        else:
            e = (b - a) * DAY
        if not out.startswith("ok "):
            return f"date {path}: unexpected {out}"
        ln, s, m, h = (int(v) for v in out.split()[1:])
        if (ln, s, m, h) != (e, trunc_div(e, US), trunc_div(e, 60 * US), trunc_div(e, 3600 * US)):
            return f"date {path}: got {out}, true length {e} us"
        return None
    if op[0] == "days":
        _, path, zx, wx, fx, zy, wy, fy, same, ab = op
        if out == "err OverflowError":       # as for "iv" (finding F31)
            return "OverflowError: " + ("the UTC reading of an endpoint lies outside years 1..9999" if _utc_out_of_range(op)
                                        else "both endpoints and their UTC readings are representable")
        if not out.startswith("ok "):
            return f"in_days {path}: unexpected {out}"
        d, w = (int(v) for v in out.split()[1:])
        # calendar days between the wall dates of the endpoints, from stdlib date ordinals (0 for equal values)
        e = Z.from_us(wy).date().toordinal() - Z.from_us(wx).date().toordinal()
        e = abs(e) if ab else e
        if d != e:
            return f"in_days {path}: in_days() = {d}, the wall dates of the endpoints are {e} calendar days apart"
        if w != trunc_div(d, 7):
            return f"in_days {path}: in_weeks() = {w}, in_days() = {d} truncated toward zero to weeks is {trunc_div(d, 7)}"
        return None
    if op[0] == "ddays":
        _, path, a, b, ab = op
        if not out.startswith("ok "):
            return f"date in_days {path}: unexpected {out}"
        d, w, ln = (int(v) for v in out.split()[1:])
        e = (b - a) * DAY
        e = abs(e) if ab else e
        if ln != e or d * DAY != e:
            return f"date in_days {path}: in_days() = {d}, length {ln} us, true length {e} us = {e // DAY} days"
        if w != trunc_div(d, 7):
            return f"date in_days {path}: in_weeks() = {w}, in_days() = {d} truncated toward zero to weeks is {trunc_div(d, 7)}"
        return None
    if op[0] == "mixed":
        return None if out == "ok 1 1 1 1 1" else f"naive/aware or date/datetime mix accepted: {out}"
    return None


# ------------------------------------------------------------------------------------------------ tags / findings

def _tag_days(op, out):
    if not out.startswith("ok "):
        return op[0] + ":error"
    d = int(out.split()[1])
    if op[0] == "ddays":
        return "ddays:zero" if d == 0 else ("ddays:whole-weeks" if d % 7 == 0 else "ddays:partial-week")
    _, path, zx, wx, fx, zy, wy, fy, same, ab = op
    kind = "days:naive" if zx == "n" else "days:same-object"
    el = wy - wx
    if zx != "n":
        ux, uy = instant(zx, wx, fx), instant(zy, wy, fy)
        if ux is None or uy is None:
            return kind + ":invalid-local"
        el = uy - ux
    if d != trunc_div(abs(el) if ab else el, DAY):
        return kind + ":calendar-differs-from-elapsed"
    if d == 0:
        return kind + ":zero"
    return kind + (":whole-weeks" if d % 7 == 0 else ":partial-week")


def tag(op, out):
    if op[0] in ("days", "ddays"):
        return _tag_days(op, out)
    if op[0] != "iv":
        return op[0]
    _, path, zx, wx, fx, zy, wy, fy, same, ab = op
    e = expected(op)
    if e is None:
        return "invalid-local"
    kind = "same-object" if (same and zx == zy) else ("same-name" if zx == zy else "different-zones")
    if zx == "n":
        kind = "naive"
    ux, uy = instant(zx, wx, fx), instant(zy, wy, fy)
    offx, offy = wx - ux, wy - uy
    if abs(e) >= B33 and e % US:
        return kind + ":beyond-2^33s"
    rep = False
    for zr, w in ((zx, wx), (zy, wy)):
        if zr[0] not in "nf" and len(D.wall_solutions(D.zname(zr), w, YMAX)) == 2:
            rep = True
    if rep:
        return kind + ":overlap-endpoint"
    if offx != offy:
        return kind + ":offsets-differ"
    return kind + ":plain"


TRIVIAL_TAGS = ("same-object:plain", "same-name:plain", "different-zones:plain", "naive:plain", "date", "mixed", "invalid-local",
                "days:naive:zero", "days:same-object:zero", "days:naive:whole-weeks", "days:same-object:whole-weeks",
                "days:same-object:invalid-local", "ddays:zero", "ddays:whole-weeks")


def _wall_order(op, backend, out, viol):
    """F12: absolute interval between two values sharing one tzinfo object whose wall-clock order (what `start > end`
    compares) differs from the order of their instants (includes: equal on the wall, different as instants)"""
    if op[0] != "iv":
        return False
    _, path, zx, wx, fx, zy, wy, fy, same, ab = op
    if not (same and ab and zx == zy and path in ("interval", "diff", "abs")):
        return False
    ux, uy = instant(zx, wx, fx), instant(zy, wy, fy)
    if ux is None or uy is None:
        return False
    if path == "abs":        # abs(x - y) = Interval(y, x, absolute=True)
        (ws, us_), (we, ue) = (wy, uy), (wx, ux)
    else:
        (ws, us_), (we, ue) = (wx, ux), (wy, uy)
    return (ws > we) != (us_ > ue)


def _utc_out_of_range(op):
    _, path, zx, wx, fx, zy, wy, fy, same, ab = op
    ux, uy = instant(zx, wx, fx), instant(zy, wy, fy)
    return any(u is not None and not (D.MIN_US <= u <= D.MAX_US) for u in (ux, uy))


def _utc_reading_out_of_range(op, backend, out, viol):
    """F31: an endpoint within a day of 0001-01-01 / 9999-12-31 whose UTC reading (wall time minus offset) is not a representable
    datetime: Interval.__new__ / precise_diff compute that reading as a naive value and raise OverflowError"""
    return op[0] in ("iv", "days") and out == "err OverflowError" and _utc_out_of_range(op)


MATCHERS = {"wall_order": _wall_order, "utc_reading_out_of_range": _utc_reading_out_of_range}
