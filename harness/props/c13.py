"""C13 — ISO 8601 durations and intervals parse to their exact value (both parser backends)."""
from __future__ import annotations

import calendar
import datetime as dt
import re
from fractions import Fraction

from harness.common import enc_str

ID = "C13"
BACKENDS = ("py", "rs")
GEN_MODULES = ("Tables", "IsoPy:duration", "IsoRs:duration", "IsoRs:glue")
MIN_THEOREMS = 37
RULE = ("ops: pdur <string> = pendulum.parse of a duration string, pint <string> = pendulum.parse of an interval string. "
        "Duration strings: every non-empty subset of Y,M,D,H,M,S and the W form x values of 1..10 digits (zero, small, "
        "around 2^32, 2^64, the timedelta limit, leading zeros) x a fraction of 1..9 digits (sometimes up to 40; ties "
        "…5, …49999, 99999…, 0000…1) on the last component or (to be rejected) on Y/M or on an inner component x ','/'.'; "
        "reordered/duplicated designators with zero and non-zero values, W mixed with other components, misplaced or "
        "repeated T; character-level mutations. Interval strings: start/end, start/duration, duration/end with "
        "datetimes YYYY-MM-DDTHH:MM:SS[.f] in UTC (Z or none) or a fixed offset, month-end starts, durations with every "
        "component kind. non-trivial = distinct string that has a fraction, or more than one component, or is rejected, "
        "or is an interval with a duration")
EXHAUSTIVE = {"quick": False, "thorough": False}
TRUSTED = [
    "Model/IsoDur.lean is a hand model of rust/src/parsing.rs parse_duration (+ number/fraction helpers) and of "
    "iso8601.py ISO8601_DURATION/_parse_iso8601_duration, tied by this correspondence run on the public pendulum.parse()",
    "Model/IsoInterval.lean (datetime syntax YYYY-MM-DDTHH:MM:SS[.f][Z|+HH:MM], add_duration on a fixed-offset wall clock) "
    "is only correspondence-tested; the interval theorem is stated over abstract parseDT/add/subtract",
    "oracle = fractions.Fraction arithmetic + datetime.fromisoformat/timedelta/calendar.monthrange, no pendulum code",
]
ASSUMPTIONS = [
    "inputs are ASCII: the Python regular expression also accepts non-ASCII decimal digits (\\d), the model does not",
    "observed value = native timedelta fields of the Duration (exact integers); Duration's own getters (weeks, hours, "
    "microseconds …) go through a float and are compared only below 2^33 s (validated float bridge)",
    "a bare 'P' (no component) is outside the property: the Python parser returns a zero Duration, the compiled one rejects it",
]

US = {"W": 604800 * 10**6, "D": 86400 * 10**6, "H": 3600 * 10**6, "Mi": 60 * 10**6, "S": 10**6}
LIMIT_US = 10**9 * 86400 * 10**6
TWO33 = (1 << 33) * 10**6

# ------------------------------------------------------------------------------------------------ reference

_NUM = r"(\d+)(?:[.,](\d+))?"
_REF = re.compile(
    r"P(?:" + _NUM + r"W|(?:" + _NUM + r"Y)?(?:" + _NUM + r"M)?(?:" + _NUM + r"D)?(?:(T)(?:" + _NUM + r"H)?(?:" + _NUM + r"M)?(?:"
    + _NUM + r"S)?)?)", re.A)
_TOK = re.compile(r"(\d+)(?:[.,](\d+))?([A-Za-z])|(T)", re.A)


def ref_duration(s):
    """Independent reading of an ISO 8601 duration.
    returns ("ok", years, months, Fraction µs) | ("reject", why) | ("unspec", why) | ("other", why)"""
    m = _REF.fullmatch(s)
    if m:
        g = m.groups()
        comps = [("W", g[0], g[1]), ("Y", g[2], g[3]), ("Mo", g[4], g[5]), ("D", g[6], g[7]),
                 ("H", g[9], g[10]), ("Mi", g[11], g[12]), ("S", g[13], g[14])]
        present = [(u, i, f) for (u, i, f) in comps if i is not None]
        if not present:
            return ("unspec", "no component")
        if g[8] and not any(u in ("H", "Mi", "S") for u, _, _ in present):
            return ("unspec", "T without time component")
        for k, (u, i, f) in enumerate(present):
            if f is not None:
                if u in ("Y", "Mo"):
                    return ("reject", "fractional year/month")
                if k != len(present) - 1:
                    return ("reject", "fraction not on the smallest component")
        years = months = 0
        total = Fraction(0)
        for u, i, f in present:
            if u == "Y":
                years = int(i)
            elif u == "Mo":
                months = int(i)
            else:
                total += int(i) * US[u]
                if f is not None:
                    total += Fraction(int(f), 10 ** len(f)) * US[u]
        return ("ok", years, months, total)
    # not in the grammar: is it a sequence of well-formed "number designator" pieces in a wrong arrangement?
    if not s.startswith("P"):
        return ("other", "no P")
    pos, toks = 1, []
    while pos < len(s):
        t = _TOK.match(s, pos)
        if not t:
            return ("other", "not a sequence of components")
        toks.append(t)
        pos = t.end()
    if any(t.group(3) and t.group(3) not in "YMWDHS" for t in toks):
        return ("other", "unknown designator")
    return ("reject", "designators out of order, repeated, or weeks mixed with other components")


def ref_in_range(years, months, us_rounded):
    return (years * 365 + months * 30) * US["D"] + us_rounded < LIMIT_US


def _add_months(y, m, d, n):
    idx = y * 12 + (m - 1) + n
    y2, m2 = idx // 12, idx % 12 + 1
    if not (1 <= y2 <= 9999):
        raise OverflowError
    return y2, m2, min(d, calendar.monthrange(y2, m2)[1])


def ref_shift(t, sign, years, months, us):
    y, m, d = _add_months(t.year, t.month, t.day, sign * (12 * years + months))
    return t.replace(year=y, month=m, day=d) + dt.timedelta(microseconds=sign * us)


def fields(t):
    off = t.utcoffset()
    return (t.year, t.month, t.day, t.hour, t.minute, t.second, t.microsecond,
            off.days * 86400 + off.seconds if off is not None else 0)


def ref_datetime(s):
    t = dt.datetime.fromisoformat(s)
    if t.tzinfo is None:
        t = t.replace(tzinfo=dt.timezone.utc)
    return t


# ------------------------------------------------------------------------------------------------ generator

UNITS = ["Y", "M", "D", "H", "M", "S"]          # designator letters by slot
SLOT_KEY = ["Y", "Mo", "D", "H", "Mi", "S"]


def _digits(rng, n):
    return "".join(rng.choice("0123456789") for _ in range(n))


def gen_int(rng, slot, big=False):
    """integer digits for a component; mostly representable"""
    r = rng.random()
    if big:
        return rng.choice([str(2**32 + rng.randint(-2, 2)), str(2**32 + rng.randint(1, 10**6)), str(2**64 + rng.randint(-2, 2)),
                           str(10**10 - 1), _digits(rng, rng.randint(11, 25)), str(2**31 + rng.randint(-1, 1)),
                           str(10**9 + rng.randint(-2, 2))])
    if r < 0.12:
        v = "0"
    elif r < 0.55:
        v = str(rng.randint(0, 99))
    elif r < 0.8:
        v = str(rng.randint(0, 99999))
    else:
        cap = {"Y": 2_700_000, "Mo": 33_000_000, "D": 999_999_999, "W": 142_857_142}.get(slot, 9_999_999_999)
        nd = rng.randint(1, len(str(cap)))
        v = str(min(cap, int(_digits(rng, nd))))
    if rng.random() < 0.1:
        v = "0" * rng.randint(1, 10 - min(9, len(v))) + v if len(v) < 10 else v
    return v


def gen_frac(rng):
    r = rng.random()
    n = rng.randint(1, 9) if r < 0.85 else rng.randint(10, 40)
    k = rng.random()
    if k < 0.5:
        f = _digits(rng, n)
    elif k < 0.6:
        f = "9" * n
    elif k < 0.7:
        f = "0" * (n - 1) + rng.choice("1459")
    elif k < 0.8:
        f = _digits(rng, max(0, n - 1)) + "5"
    elif k < 0.9:
        f = (_digits(rng, rng.randint(0, 6)) + "4" + "9" * n)[:max(n, 2)]
    else:
        f = (_digits(rng, rng.randint(0, 6)) + "5" + "0" * n)[:max(n, 2)]
    return rng.choice(".,") + f


def render(comps, t_pos=None):
    """comps: list of (slot index 0..5 or 'W', int digits, frac or '')"""
    out = "P"
    t_done = False
    for slot, i, f in comps:
        if slot != "W" and slot >= 3 and not t_done:
            out += "T"
            t_done = True
        out += i + f + ("W" if slot == "W" else UNITS[slot])
    return out


def gen_valid(rng, subset=None, frac=None, big=False):
    if subset is None:
        subset = [k for k in range(6) if rng.random() < 0.45] or [rng.randrange(6)]
    comps = []
    for k in subset:
        comps.append([k, gen_int(rng, SLOT_KEY[k], big and rng.random() < 0.5), ""])
    if frac is None:
        frac = rng.random() < 0.6
    if frac and comps[-1][0] >= 2:
        comps[-1][2] = gen_frac(rng)
    return comps


def gen_dur_string(rng, cls):
    if cls == "valid":
        if rng.random() < 0.12:
            return render([("W", gen_int(rng, "W"), gen_frac(rng) if rng.random() < 0.7 else "")])
        return render(gen_valid(rng))
    if cls == "large":
        if rng.random() < 0.15:
            return render([("W", gen_int(rng, "W", True), gen_frac(rng) if rng.random() < 0.3 else "")])
        if rng.random() < 0.3:
            # around the timedelta limit: 999999999 days 23:59:59.999999
            k = rng.random()
            if k < 0.5:
                return "P%dDT%dH%dM%d%sS" % (999999999 - rng.randint(0, 1), 23 + rng.randint(0, 1), 59, 59 + rng.randint(0, 1),
                                             rng.choice(["", ".999999", ".9999994", ".9999995", ".9999999"]))
            y = 2739726 - rng.randint(0, 1)
            return "P%dY%dM%dD" % (y, rng.randint(0, 3), rng.randint(0, 40))
        return render(gen_valid(rng, big=True))
    if cls == "order":
        k = rng.random()
        comps = gen_valid(rng, subset=sorted(rng.sample(range(6), rng.randint(2, 5))), frac=False)
        if rng.random() < 0.5:
            for c in comps:
                if rng.random() < 0.5:
                    c[1] = "0"
        if k < 0.35:       # swap two neighbours inside one section
            idx = [i for i in range(len(comps) - 1) if (comps[i][0] < 3) == (comps[i + 1][0] < 3)]
            if idx:
                i = rng.choice(idx)
                a, b = comps[i], comps[i + 1]
                s = "P"
                t_done = False
                seq = comps[:i] + [b, a] + comps[i + 2:]
                for slot, iv, f in seq:
                    if slot >= 3 and not t_done:
                        s += "T"
                        t_done = True
                    s += iv + f + UNITS[slot]
                return s
            return "PT" + comps[0][1] + "S" + comps[0][1] + "M"
        if k < 0.55:       # duplicate a component
            i = rng.randrange(len(comps))
            comps2 = comps[:i + 1] + [list(comps[i])] + comps[i + 1:]
            return render(comps2)
        if k < 0.8:        # weeks mixed in
            w = ("W", gen_int(rng, "W") if rng.random() < 0.6 else "0", "")
            pos = rng.randint(0, len(comps))
            return render(comps[:pos] + [w] + comps[pos:]) if rng.random() < 0.8 else "P" + w[1] + "WT" + rng.choice(["", "1H", "0S"])
        s = render(comps)  # T games
        if "T" in s:
            i = s.index("T")
            return rng.choice([s[:i] + "T" + s[i:], s + "T", s[:i] + s[i + 1:] + "T" + "1H"])
        return s + "T" + "T1H"
    if cls == "fracym":
        comps = gen_valid(rng, frac=False)
        cand = [c for c in comps if c[0] < 2]
        if not cand:
            comps.insert(0, [rng.randrange(2), gen_int(rng, "Y"), ""])
            cand = [comps[0]]
        rng.choice(cand)[2] = gen_frac(rng)
        return render(comps)
    if cls == "fracmid":
        comps = gen_valid(rng, subset=sorted(rng.sample(range(6), rng.randint(2, 6))), frac=False)
        cand = [c for c in comps[:-1] if c[0] >= 2]
        if not cand:
            return render([[2, gen_int(rng, "D"), gen_frac(rng)], [3 + rng.randrange(3), gen_int(rng, "H"), ""]])
        rng.choice(cand)[2] = gen_frac(rng)
        if rng.random() < 0.3:
            comps[-1][2] = gen_frac(rng) if comps[-1][0] >= 2 else ""
        return render(comps)
    if cls == "empty":
        return rng.choice(["P", "PT", "P%sYT" % gen_int(rng, "Y"), "P%sDT" % gen_int(rng, "D"), "P%s%sDT" % (gen_int(rng, "D"), gen_frac(rng))])
    # mutate
    s = gen_dur_string(rng, rng.choice(["valid", "valid", "order", "fracmid"]))
    for _ in range(rng.randint(1, 2)):
        k = rng.random()
        pos = rng.randrange(len(s) + 1)
        ch = rng.choice("PYMWDTHS0123456789.,-+/ :\n")
        if k < 0.35 and pos < len(s):
            s = s[:pos] + s[pos + 1:]
        elif k < 0.7:
            s = s[:pos] + ch + s[pos:]
        elif pos < len(s):
            s = s[:pos] + ch + s[pos + 1:]
    return s


def gen_datetime(rng, lo=1200, hi=8000):
    y = rng.randint(lo, hi)
    m = rng.randint(1, 12)
    last = calendar.monthrange(y, m)[1]
    d = rng.choice([last, last, rng.randint(1, last), 1, 28, 29, 30, 31])
    d = min(d, last)
    h, mi, s = rng.randint(0, 23), rng.randint(0, 59), rng.randint(0, 59)
    if rng.random() < 0.2:
        h, mi, s = rng.choice([(0, 0, 0), (23, 59, 59)])
    out = "%04d-%02d-%02dT%02d:%02d:%02d" % (y, m, d, h, mi, s)
    r = rng.random()
    if r < 0.3:
        out += ".%03d" % rng.randint(0, 999)
    elif r < 0.6:
        out += ".%06d" % rng.choice([0, 1, 999999, rng.randint(0, 999999)])
    r = rng.random()
    if r < 0.3:
        out += "Z"
    elif r < 0.45:
        pass
    else:
        om = rng.choice([0, 60, 330, 345, 765, 840, rng.randint(0, 14 * 60)])
        out += "%s%02d:%02d" % (rng.choice("+-"), om // 60, om % 60)
    return out


def gen_interval_duration(rng):
    r = rng.random()
    if r < 0.1:
        return render([("W", str(rng.randint(0, 500)), gen_frac(rng) if rng.random() < 0.5 else "")])
    subset = [k for k in range(6) if rng.random() < 0.4] or [rng.randrange(6)]
    comps = []
    for k in subset:
        cap = [400, 4000, 100000, 10**6, 10**7, 10**9][k]
        v = rng.randint(0, rng.choice([3, 40, cap]))
        comps.append([k, str(v), ""])
    if comps[-1][0] >= 2 and rng.random() < 0.5:
        comps[-1][2] = gen_frac(rng)
    return render(comps)


def gen_ops(rng, tier):
    n = {"quick": 1, "thorough": 25, "widen": 6}[tier]
    # every subset x fraction on the last admissible unit x both separators, a few values each
    for rep in range(6 * n):
        for mask in range(1, 64):
            subset = [k for k in range(6) if mask >> k & 1]
            for fr in (False, True):
                yield ("pdur", render(gen_valid(rng, subset=subset, frac=fr)))
    classes = (["valid"] * 8 + ["large"] * 3 + ["order"] * 4 + ["fracym"] * 2 + ["fracmid"] * 2 + ["empty"] + ["mutant"] * 4)
    for _ in range(70_000 * n):
        s = gen_dur_string(rng, rng.choice(classes))
        if s[:1] == "P" and "/" not in s:        # anything else is not a duration string (C07/C17)
            yield ("pdur", s)
    # accumulator limits of the compiled parser: 2^32, 2^64 and a fraction that rounds up to a whole unit
    for base in (2**32, 2**64):
        for delta in (-2, -1, 0, 1):
            for pre, u in (("", "W"), ("", "D"), ("T", "H"), ("T", "M"), ("T", "S"), ("", "Y"), ("", "M")):
                v = base + delta
                yield ("pdur", "P%s%d%s" % (pre, v, u))
                if u not in "Y" and (pre or u != "M"):
                    for f in ("9" * 7, "9" * 19, "5", "49", "0" * 8 + "1"):
                        yield ("pdur", "P%s%d%s%s%s" % (pre, v, rng.choice(".,"), f, u))
                        yield ("pint", "%s/P%s%d.%s%s" % (gen_datetime(rng), pre, v, f, u))
    # fraction digit strings of every length 1..9 (and longer) on each admissible unit
    for rep in range(40 * n):
        for unit in ("W", "D", "TH", "TM", "TS"):
            for nd in list(range(1, 10)) + [12, 18, 19, 20, 30]:
                f = _digits(rng, nd)
                pre, u = ("T", unit[1]) if unit[0] == "T" and len(unit) == 2 else ("", unit)
                yield ("pdur", "P%s%s%s%s%s" % (pre, gen_int(rng, "S"), rng.choice(".,"), f, u))
    for _ in range(25_000 * n):
        form = rng.randrange(3)
        a = gen_datetime(rng)
        if form == 0:
            s = a + "/" + gen_datetime(rng)
        elif form == 1:
            s = a + "/" + gen_interval_duration(rng)
        else:
            s = gen_interval_duration(rng) + "/" + a
        if rng.random() < 0.03:
            s = rng.choice([s + "/" + gen_interval_duration(rng), s.replace("/", "", 1), gen_dur_string(rng, "order") + "/" + a,
                            a + "/" + gen_dur_string(rng, "fracym"), a + "/" + gen_dur_string(rng, "large")])
        yield ("pint", s)
    # long durations with a sub-second part (finding F19 in the Python backend) and endpoints out of range
    for _ in range(300 * n):
        a = gen_datetime(rng, 1200, 3000)
        d = "P%dDT%d.%06dS" % (rng.randint(99000, 2_000_000), rng.randint(0, 59), rng.randint(0, 999999))
        yield ("pint", a + "/" + d if rng.random() < 0.5 else d + "/" + gen_datetime(rng, 7000, 9999))
    for _ in range(200 * n):
        a = gen_datetime(rng, 1, 9999)
        d = rng.choice(["P%dY" % rng.randint(1, 12000), "P%dM" % rng.randint(1, 130000), "P%dD" % rng.randint(1, 4_000_000),
                        "PT%dS" % rng.randint(1, 10**12)])
        yield ("pint", a + "/" + d if rng.random() < 0.5 else d + "/" + a)


def corpus():
    """minimised inputs that failed on the unchanged tree"""
    return [("pdur", s) for s in (
        "PT1.25H", "P41.7W", "PT1.2345678S", "P1DT0,442H", "P2,52W", "P4294967297D", "P99999999999D", "P4000000000D",
        "PT9999999999S", "P3000000Y", "PT0M1H", "P0D1Y", "P0Y1W", "P1Y2Y", "PT1H2H", "P2D1W", "P1WT1H", "PT0S0S", "P1.D",
        "PT0.0000005S", "P0.99999999999999999W", "P999999999DT86399.9999995S", "P2739726Y9D", "P2739726Y10D")] + [
        ("pint", s) for s in ("2000-01-31T10:00:00.5+05:30/P1M", "P1Y/2000-02-29T00:00:00Z", "2000-01-01T00:00:00Z/P1DT0,442H",
                              "P2,52W/2000-01-01T00:00:00-03:30", "2000-01-01T00:00:00Z/2001-02-03T04:05:06-01:00",
                              "2000-01-01T00:00:00Z/P100000DT0.000001S")]


def line(op, backend):
    if _long_subsecond(op, backend, None, None):
        return None     # float normalisation inside Duration (finding F19): no counterpart in the exact model
    return "%s %s %s" % (op[0], backend, enc_str(op[1]))


# ------------------------------------------------------------------------------------------------ real code

_H = {}


def worker_init(backend):
    import pendulum
    from pendulum.parsing.exceptions import ParserError
    _H["pendulum"] = pendulum
    _H["ParserError"] = ParserError


def _native_us(d, years, months):
    td = dt.timedelta
    tot = (td.days.__get__(d) * 86400 + td.seconds.__get__(d)) * 10**6 + td.microseconds.__get__(d)
    return tot - (years * 365 + months * 30) * 86400 * 10**6


def impl(op, backend):
    pendulum = _H["pendulum"]
    kind, s = op[0], op[1]
    if kind == "pdur":
        r = pendulum.parse(s)
        if not isinstance(r, pendulum.Duration) or isinstance(r, pendulum.Interval):
            return "err WrongType:" + type(r).__name__
        y, mo = r.years, r.months
        us = _native_us(r, y, mo)
        if 0 <= us + (y * 365 + mo * 30) * US["D"] < (TWO33 // 2 if (y or mo) else TWO33):
            g = (((r.weeks * 7 + r.remaining_days) * 24 + r.hours) * 60 + r.minutes) * 60 + r.remaining_seconds
            if g * 10**6 + r.microseconds != us:
                return "err GettersInconsistent"
        return "ok %d %d %d" % (y, mo, us)
    if kind == "pint":
        try:
            r = pendulum.parse(s)
        except _H["ParserError"]:
            return "err ParserError"
        except (OverflowError, ValueError):
            return "err Range"
        if not isinstance(r, pendulum.Interval):
            return "err WrongType:" + type(r).__name__
        return "ok " + " ".join(str(x) for x in fields(r.start) + fields(r.end))
    raise ValueError(kind)


# ------------------------------------------------------------------------------------------------ oracle

def _expect_duration(s):
    """('ok', y, mo, Fraction) | ('err',) | None (unspecified)"""
    r = ref_duration(s)
    if r[0] == "ok":
        _, y, mo, tot = r
        if ref_in_range(y, mo, int(tot + Fraction(1, 2))):
            return ("ok", y, mo, tot)
        return ("err",)
    if r[0] == "reject":
        return ("err",)
    return None


def oracle(op, out, backend):
    kind, s = op[0], op[1]
    if kind == "pdur":
        if out.startswith("err") and out not in ("err ParserError", "err ValueError"):
            return f"{out[4:]} escapes from parse({s!r})"
        e = _expect_duration(s)
        if e is None:
            return None
        if e[0] == "err":
            return None if out.startswith("err") else f"{s!r} must be rejected ({ref_duration(s)[-1] if ref_duration(s)[0] == 'reject' else 'too large'}), got {out}"
        _, y, mo, tot = e
        if not out.startswith("ok"):
            return f"{s!r} is a valid duration ({y} y {mo} mo {tot} us), got {out}"
        gy, gmo, gus = (int(x) for x in out.split()[1:4])
        if (gy, gmo) != (y, mo):
            return f"years/months {gy},{gmo} expected {y},{mo}"
        if abs(Fraction(gus) - tot) > Fraction(1, 2):
            return f"length {gus} us, exact value {tot} us (error {float(gus - tot):.6g} us)"
        return None
    if kind == "pint":
        if s.count("/") != 1:
            return None
        if out.startswith("err WrongType"):
            return f"{out} from parse({s!r})"
        a, b = s.split("/")
        try:
            if a[:1] == "P" or b[:1] == "P":
                dpart, tpart, sign = (a, b, -1) if a[:1] == "P" else (b, a, 1)
                t = ref_datetime(tpart)
                e = _expect_duration(dpart)
                if e is None or e[0] == "err":
                    if out.startswith("ok") and e is not None:
                        return f"duration {dpart!r} must be rejected, got {out}"
                    return None
                _, y, mo, tot = e
                us = int(tot + Fraction(1, 2))
                try:
                    other = ref_shift(t, sign, y, mo, us)
                except (OverflowError, ValueError):
                    return None if out.startswith("err") else f"endpoint not representable, got {out}"
                exp = fields(t) + fields(other) if sign == 1 else fields(other) + fields(t)
                if not out.startswith("ok"):
                    # within half a microsecond of the calendar limits the reference may round differently
                    return f"{s!r}: expected endpoints {exp}, got {out}"
                got = tuple(int(x) for x in out.split()[1:])
                if got != exp:
                    # ties: the exact value may be rounded either way
                    alt = None
                    if tot.denominator == 2:
                        o2 = ref_shift(t, sign, y, mo, us - 1)
                        alt = fields(t) + fields(o2) if sign == 1 else fields(o2) + fields(t)
                    if got != alt:
                        return f"{s!r}: endpoints {got}, expected {exp}"
                return None
            ta, tb = ref_datetime(a), ref_datetime(b)
        except ValueError:
            return None         # not a datetime the reference reads: outside the generated grammar
        exp = fields(ta) + fields(tb)
        if not out.startswith("ok"):
            return f"{s!r}: expected endpoints {exp}, got {out}"
        got = tuple(int(x) for x in out.split()[1:])
        return None if got == exp else f"{s!r}: endpoints {got}, expected {exp}"
    return None


def tag(op, out):
    kind, s = op[0], op[1]
    if kind == "pdur":
        r = ref_duration(s)
        if r[0] == "ok":
            ncomp = sum(s.count(c) for c in "YMWDHS")
            if not out.startswith("ok"):
                return "dur:too-large"
            fr = re.search(r"[.,](\d+)([WDHMS])", s)
            if fr:
                u = fr.group(2)
                if u == "M":
                    u = "Mi"
                return "dur:frac-%s-%s" % (u, "1-9" if len(fr.group(1)) <= 9 else "long")
            return "dur:int-multi" if ncomp > 1 else "dur:int-single"
        if r[0] == "reject":
            return "dur:reject:" + r[1].split(",")[0].split(" ")[0] + (":ok!" if out.startswith("ok") else "")
        return "dur:%s:%s" % (r[0], out.split()[0])
    if s.count("/") == 1:
        a, b = s.split("/")
        form = "dur/end" if a[:1] == "P" else "start/dur" if b[:1] == "P" else "start/end"
        return "int:%s:%s" % (form, " ".join(out.split()[:2]) if out.startswith("err") else "ok")
    return "int:malformed"


TRIVIAL_TAGS = ("dur:int-single", "int:start/end:ok")


def _long_subsecond(op, backend, out, viol):
    """py backend, interval with a duration of >= 2^33 s (>= 2^32 s when it has years or months, which count as
    365 and 30 days as in Duration.__new__) that has a sub-second part: Duration's float normalisation (duration.py) loses the
    microseconds before parser.py calls add()/subtract()"""
    if op[0] != "pint" or backend != "py" or op[1].count("/") != 1:
        return False
    a, b = op[1].split("/")
    d = a if a[:1] == "P" else b if b[:1] == "P" else None
    if d is None:
        return False
    r = ref_duration(d)
    if r[0] != "ok":
        return False
    us = int(r[3] + Fraction(1, 2))
    limit = TWO33 // 2 if (r[1] or r[2]) else TWO33      # the subtraction of the year/month days costs one more bit
    return us + (r[1] * 365 + r[2] * 30) * US["D"] >= limit and us % 10**6 != 0


MATCHERS = {"interval_long_duration_subsecond_py": _long_subsecond}
