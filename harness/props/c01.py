"""C01 — timezone conversion preserves the instant and matches the tz database."""
from __future__ import annotations

import datetime as dt

from harness import dtutil as D
from harness import zones as Z

ID = "C01"
BACKENDS = ("py", "rs")
GEN_MODULES = ("DTConv",)
MIN_THEOREMS = 23
US = D.US
YMAX = Z.YMAX_QUICK
PATHS = ("in_tz", "in_timezone", "astimezone", "convert")
KINDS = ("pendulum", "zoneinfo", "pytz", "dateutil", "timezone")
RULE = ("sources: instants at {-gap-1s,-1s,-1us,0,+1us,+1s,+gap} around sampled transitions of every zone, rendered in that zone "
        "(canonical fold and pendulum's default fold=1), plus random instants in years 2..9998 for UTC/fixed offsets; targets: random zones, "
        "fixed offsets -23:59..+23:59, UTC, the same zone; paths " + ",".join(PATHS) + "; the requested zone also given as a name, zoneinfo/pytz object, number of hours (int or exact float), datetime.timezone, timezone(seconds), 'utc'/'UTC'; A->B->C vs A->C; from_timestamp/int_timestamp; "
        "instance() of aware native datetimes with tzinfo kinds " + ",".join(KINDS) +
        ". non-trivial = source or target wall time lies within one jump of a transition")
EXHAUSTIVE = {"quick": False, "thorough": False}
TRUSTED = [
    "Model/Zone.lean (offAt/wallOff/foldAt = CPython zoneinfo's bisect + fold rule) validated against the C zoneinfo on every op of this run",
    "Model/DTOps.inTz = in_timezone/astimezone/Timezone.convert(aware), incl. CPython's same-tzinfo identity shortcut",
]
ASSUMPTIONS = [
    "timestamp() (float) is checked through int_timestamp and exactly representable floats only",
    "zone tables complete up to year 2100 (quick) / 2500 (thorough); zone instants are generated below that",
]
UTCI = str(D.ZI["UTC"])


def preamble():
    return D.preamble(YMAX)


def _local(name, u_us):
    off = D.db_offset_at(name, u_us, YMAX)
    w = u_us + off
    sols = D.wall_solutions(name, w, YMAX)
    fold = 1 if (len(sols) == 2 and u_us == max(sols)) else 0
    return w, fold


def _target(rng):
    r = rng.random()
    if r < 0.7:
        return str(rng.randrange(len(D.ZN)))
    if r < 0.9:
        return "f%d" % (rng.choice((rng.randint(-86340, 86340) // 60 * 60, rng.randint(-86399, 86399))) * US)
    return UTCI


class _Skip(Exception):
    pass


FORMS_NAMED = ("name", "zoneinfo", "pytz")
FORMS_FIXED = ("hours", "timezone", "seconds")


def _target_form(rng):
    """(target ref, form): the requested zone given in one of the argument forms `_safe_timezone` accepts"""
    r = rng.random()
    if r < 0.45:
        return str(rng.randrange(len(D.ZN))), rng.choice(FORMS_NAMED)
    if r < 0.9:
        k = rng.choice((rng.randint(-191, 191), rng.randint(-23, 23) * 8, -rng.randint(1, 95) * 2 + 1))
        return "f%d" % (k * 450 * US), rng.choice(FORMS_FIXED)
    return UTCI, rng.choice(("name", "zoneinfo", "utc-lower", "utc-upper"))


def _spec(b, form):
    """the object handed to in_tz/in_timezone/from_timestamp for target ref b in the given form"""
    if form == "name":
        return D.zname(b)
    if form == "zoneinfo":
        return _P["zi"].ZoneInfo(D.zname(b))
    if form == "pytz":
        try:
            return _P["pytz"].timezone(D.zname(b))
        except _P["pytz"].UnknownTimeZoneError:
            raise _Skip from None            # pytz ships an older zone list; not pendulum's concern
    if form == "utc-lower":
        return "utc"
    if form == "utc-upper":
        return "UTC"
    sec = int(b[1:]) // US
    if form == "hours":                       # a number of hours: int when whole, else an exactly representable float
        return sec // 3600 if sec % 3600 == 0 else sec / 3600
    if form == "timezone":
        return dt.timezone(dt.timedelta(seconds=sec))
    if form == "seconds":                     # pendulum.timezone(int) = fixed_timezone(seconds)
        return _P["p"].timezone(sec)
    raise ValueError(form)


def gen_ops(rng, tier):
    per_zone = {"quick": 3, "thorough": 40, "widen": 12}[tier]
    ntar = {"quick": 3, "thorough": 8, "widen": 4}[tier]
    lo_ok = Z.to_us(dt.datetime(1800, 1, 1))
    hi_ok = Z.limit_us(YMAX) - 2 * 86400 * US
    for zi, name in enumerate(D.ZN):
        init, trs = Z.tables(YMAX)[name]
        cand = [(t, o) for t, o in trs if lo_ok < t * US < hi_ok]
        pick = cand if len(cand) <= per_zone else rng.sample(cand, per_zone)
        for t, o in pick:
            prev = Z.offset_at(name, t - 1, YMAX)
            jump = abs(o - prev)
            if o < prev:
                # both occurrences of ONE repeated wall time, converted back to back (same process, same path, same target): the result
                # depends on the occurrence, not on what was converted just before
                w2 = t * US + o * US + rng.randrange(0, jump * US)
                if len(D.wall_solutions(name, w2, YMAX)) == 2:
                    for path in ("in_tz", "in_timezone", "astimezone"):
                        if path not in PATHS:
                            continue
                        tgt = _target(rng)
                        for f in ((0, 1) if rng.random() < 0.5 else (1, 0)):
                            yield ("intz", path, str(zi), w2, f, tgt)
            for du in (-(jump + 1) * US, -US, -1, 0, 1, US, jump * US):
                u = t * US + du
                w, fold = _local(name, u)
                folds = {fold} if len(D.wall_solutions(name, w, YMAX)) == 2 else {fold, 1}
                for f in folds:
                    for _ in range(ntar):
                        yield ("intz", rng.choice(PATHS), str(zi), w, f, _target(rng))
                    yield ("intz", rng.choice(PATHS), str(zi), w, f, str(zi))
                    tb, form = _target_form(rng)
                    yield ("intz", rng.choice(("in_tz", "in_timezone")), str(zi), w, f, tb, form)
                    yield ("intz2", str(zi), w, f, _target(rng), _target(rng))
                    yield ("intts", str(zi), w, f)
                    for k in KINDS:
                        yield ("instance", k, str(zi), w, f)
                # the same instant reached from elsewhere
                yield ("intz", rng.choice(PATHS), UTCI, u, rng.randint(0, 1), str(zi))
                yield ("fromts", u // US, rng.choice((0, 0, 500000, 250000)), str(zi))
                tb, form = _target_form(rng)
                yield ("fromts", u // US, 0, tb, form)
    n = {"quick": 4000, "thorough": 200000, "widen": 40000}[tier]
    lo, hi = Z.to_us(dt.datetime(2, 1, 2)), Z.to_us(dt.datetime(9998, 12, 30))
    for _ in range(n):
        u = rng.randint(lo, hi)
        src = rng.choice((UTCI, "f%d" % (rng.randint(-86399, 86399) * US)))
        w = u + (0 if src == UTCI else int(src[1:]))
        tgt = rng.choice((UTCI, "f%d" % (rng.randint(-86399, 86399) * US), "f%d" % (rng.randint(-1439, 1439) * 60 * US)))
        if Z.to_us(dt.datetime(1800, 1, 1)) < u < hi_ok and rng.random() < 0.5:
            tgt = str(rng.randrange(len(D.ZN)))
        yield ("intz", rng.choice(PATHS), src, w, rng.randint(0, 1), tgt)
        yield ("intts", src, w, 0)
        if src[0] == "f":
            yield ("instance", "timezone", src, w, 0)
        yield ("fromts", u // US, 0, tgt)
        tb, form = _target_form(rng)
        if tb[0] == "f" or tb == UTCI or Z.to_us(dt.datetime(1800, 1, 1)) < u < hi_ok:
            yield ("intz", rng.choice(("in_tz", "in_timezone")), src, w, rng.randint(0, 1), tb, form)
            yield ("fromts", u // US, 0, tb, form)


def _resolved(b, form):
    """`_safe_timezone` maps a tzinfo that calls itself "UTC" (datetime.timezone.utc) to the UTC zone, not to a FixedTimezone"""
    return UTCI if (form == "timezone" and b == "f0") else b


def line(op, backend):
    k = op[0]
    if k == "intz":
        _, path, a, w, f, b = op[:6]
        b = _resolved(b, op[6] if len(op) == 7 else None)
        return "intz %s %d %d %s %d" % (a, w, f, b, int(a == b))
    if k == "intz2":
        _, a, w, f, b, c = op
        if a == b or b == c:
            return None
        return "intz2 %s %d %d %s %s" % (a, w, f, b, c)
    if k == "intts":
        return "intts %s %d %d" % op[1:]
    if k == "fromts":
        _, sec, us, z = op[:4]
        z = _resolved(z, op[4] if len(op) == 5 else None)
        return "intz %s %d 1 %s %d" % (UTCI, sec * US + us, z, int(z == UTCI))
    if k == "instance":
        _, kind, z, w, f = op
        off = _src_off(z, w, f)
        if off is None:
            return None
        nf = 0 if kind == "pytz" else f          # pytz never sets fold
        if kind in ("pendulum", "zoneinfo", "pytz"):
            return "instance %s %d %d %d" % (z, w, nf, off)
        # dateutil / datetime.timezone: a FixedTimezone of the offset of the moment (UTC when the tzinfo calls itself UTC)
        if (kind == "timezone" and off == 0) or (kind == "dateutil" and z == UTCI):
            return "instance %s %d %d %d" % (UTCI, w, nf, off)
        return "instance f%d %d %d %d" % (off, w, nf, off)
    return None


def _src_off(z, w, f):
    """offset (µs) the tz database assigns to the source value (wall w, fold f) in zone ref z"""
    if z == "n":
        return None
    if z[0] == "f":
        return int(z[1:])
    sols = D.wall_solutions(D.zname(z), w, YMAX)
    if not sols:
        return None
    u = max(sols) if f else min(sols)
    return w - u


_P = {}


def worker_init(backend):
    import pendulum
    import pytz
    import zoneinfo
    from dateutil import tz as dtz
    _P.update(p=pendulum, pytz=pytz, zi=zoneinfo, dtz=dtz)


def _check_zone(r, b):
    p = _P["p"]
    if type(r) is not p.DateTime:
        return "err WrongType"
    if b[0] == "f":
        if r.tzinfo is not D.tzobj(b) and r.tzinfo.utcoffset(None) != D.tzobj(b).utcoffset(None):
            return "err WrongZone"
        # the reported name of a fixed offset: sign and |offset| in whole minutes, written independently of FixedTimezone.__init__
        sec = int(b[1:]) // US
        want = "%s%02d:%02d" % ("-" if sec < 0 else "+", abs(sec) // 60 // 60, abs(sec) // 60 % 60)
        if r.timezone_name != want and not (sec == 0 and r.timezone_name == "UTC"):
            return "err WrongZoneName:" + str(r.timezone_name)
    else:
        if r.timezone_name != D.zname(b) or r.tzinfo is not D.tzobj(b):
            return "err WrongZone"
    return None


def impl(op, backend):
    try:
        return _impl(op, backend)
    except _Skip:
        return "skip"


def _impl(op, backend):
    p = _P["p"]
    k = op[0]
    if k == "intz":
        _, path, a, w, f, b = op[:6]
        x = D.mk(a, w, f)
        tz = D.tzobj(b)
        if len(op) == 7:
            r = getattr(x, path)(_spec(b, op[6]))
        elif path == "in_tz":
            r = x.in_tz(D.zname(b) if b[0] != "f" else tz)
        elif path == "in_timezone":
            r = x.in_timezone(tz)
        elif path == "astimezone":
            r = x.astimezone(tz)
        else:
            r = tz.convert(x)
        return _check_zone(r, b) or D.outv(r)
    if k == "intz2":
        _, a, w, f, b, c = op
        x = D.mk(a, w, f)
        r = x.in_tz(D.tzobj(b)).in_tz(D.tzobj(c))
        return _check_zone(r, c) or D.outv(r)
    if k == "intts":
        _, a, w, f = op
        x = D.mk(a, w, f)
        ts = x.int_timestamp
        fl = x.timestamp()
        if int(fl // 1) != ts and abs(fl - ts) > 1:
            return "err TimestampMismatch"
        return "ok %d" % ts
    if k == "fromts":
        _, sec, us, z = op[:4]
        tz = D.tzobj(z)
        t = sec if us == 0 else sec + us / 1e6
        r = p.from_timestamp(t, tz=(_spec(z, op[4]) if len(op) == 5 else D.zname(z) if z[0] != "f" else tz))
        if r.int_timestamp != sec:
            return "err IntTimestampNotInverse %d" % r.int_timestamp
        if us and r.timestamp() != t:
            return "err TimestampNotInverse"
        return _check_zone(r, z) or D.outv(r)
    if k == "instance":
        _, kind, z, w, f = op
        fl = D.fields(w)
        if kind == "pendulum":
            nat = dt.datetime(*fl, tzinfo=D.tzobj(z), fold=f)
        elif kind == "zoneinfo":
            nat = dt.datetime(*fl, tzinfo=_P["zi"].ZoneInfo(D.zname(z)), fold=f)
        elif kind == "pytz":
            off = _src_off(z, w, f)
            if off is None:
                return "skip"
            utc_naive = Z.from_us(w - off)
            nat = _P["pytz"].utc.localize(utc_naive).astimezone(_P["pytz"].timezone(D.zname(z)))
            if Z.to_us(nat) != w:
                return "skip"      # pytz's own table disagrees with tzdata here
        elif kind == "dateutil":
            tzd = _P["dtz"].gettz(D.zname(z))
            if tzd is None:
                return "skip"
            nat = dt.datetime(*fl, tzinfo=tzd, fold=f)
            off = _src_off(z, w, f)
            if off is None or D.off_us_of(nat) != off:
                return "skip"      # dateutil reads the zone differently (e.g. rounds LMT); not pendulum's concern
        else:
            off = _src_off(z, w, f)
            if off is None:
                return "skip"
            nat = dt.datetime(*fl, tzinfo=dt.timezone(dt.timedelta(microseconds=off)), fold=f)
        r = p.instance(nat)
        if type(r) is not p.DateTime:
            return "err WrongType"
        if kind in ("pendulum", "zoneinfo", "pytz") and r.timezone_name != D.zname(z):
            return "err WrongZone"
        if kind == "timezone":
            sec = off // US
            want = "UTC" if sec == 0 else "%s%02d:%02d" % ("-" if sec < 0 else "+", abs(sec) // 60 // 60, abs(sec) // 60 % 60)
            if off % US == 0 and r.timezone_name != want:
                return "err WrongZoneName:" + str(r.timezone_name)
        return D.outv(r)
    raise ValueError(k)


def _db_render(b, u):
    """(wall, offset) the tz database assigns to instant u in zone ref b"""
    if b[0] == "f":
        off = int(b[1:])
    else:
        off = D.db_offset_at(D.zname(b), u, YMAX)
    return u + off, off


def oracle(op, out, backend):
    k = op[0]
    if out == "skip":
        return None
    if k in ("intz", "intz2", "instance", "fromts"):
        if k == "fromts":
            _, sec, us, b = op[:4]
            u = sec * US + us
        else:
            a, w, f = (op[2], op[3], op[4]) if k in ("intz", "instance") else (op[1], op[2], op[3])
            off = _src_off(a, w, f)
            if off is None:
                return None
            u = w - off
            if k == "intz":
                b = op[5]
            elif k == "intz2":
                b = op[5]
            else:
                kind = op[1]
                b = a if kind in ("pendulum", "zoneinfo", "pytz") else "f%d" % off
        if not out.startswith("ok "):
            return f"unexpected {out}"
        gw, goff, gfold = (int(x) for x in out.split()[1:])
        ew, eoff = _db_render(b, u)
        if gw - goff != u:
            return f"instant changed by {gw - goff - u} us (source instant {u}, result wall {gw} offset {goff})"
        if (gw, goff) != (ew, eoff):
            return f"fields/offset differ from the tz database: expected {(ew, eoff)}, got {(gw, goff)}"
        return None
    if k == "intts":
        a, w, f = op[1:]
        off = _src_off(a, w, f)
        if off is None:
            return None
        exp = "ok %d" % ((w - off) // US)
        return None if out == exp else f"int_timestamp: expected {exp}, got {out}"
    return None


def _near(zr, w):
    if zr[0] in "nf":
        return False
    name = D.zname(zr)
    for kind, lo, hi, t, ob, oa in Z.irregular(name, YMAX):
        if lo - (hi - lo) - 2 <= w // US <= hi + (hi - lo) + 2:
            return True
    return False


def tag(op, out):
    k = op[0]
    if k == "intz":
        near = _near(op[2], op[3]) or (out.startswith("ok ") and _near(op[5], int(out.split()[1])))
        if len(op) == 7:
            return "intz:form=" + op[6] + (":near-transition" if near else ":plain")
        return "intz:" + op[1] + (":near-transition" if near else ":plain")
    if k == "instance":
        return "instance:" + op[1] + (":near-transition" if _near(op[2], op[3]) else ":plain")
    if k == "fromts" and len(op) == 5:
        return "fromts:form=" + op[4]
    return k


TRIVIAL_TAGS = tuple("intz:%s:plain" % p for p in PATHS) + tuple("instance:%s:plain" % k for k in KINDS)


def _pytz_second_pass(op, backend, out, viol):
    # F10: instance() of a pytz-aware value in the second pass of an overlap lands on the first pass
    if op[0] != "instance" or op[1] != "pytz":
        return False
    _, kind, z, w, f = op
    sols = D.wall_solutions(D.zname(z), w, YMAX)
    return len(sols) == 2 and f == 1


MATCHERS = {"pytz_second_pass": _pytz_second_pass}
