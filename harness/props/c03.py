"""C03 — adding fixed-length units moves the instant by exactly that elapsed time."""
from __future__ import annotations

import datetime as dt

from harness import dtutil as D
from harness import zones as Z

ID = "C03"
BACKENDS = ("py", "rs")
GEN_MODULES = ("Tables", "Helpers", "AddDuration", "DTArith")
MIN_THEOREMS = 17
US = D.US
YMAX = Z.YMAX_QUICK
MODES = ("add", "subtract", "plus_td", "radd_td", "minus_td", "roundtrip")
RULE = ("sources: instants placed at {-gap-1s, -1us, 0, +1us, +gap/2, +gap} around sampled transitions of every zone (both folds of "
        "repeated wall times, canonical and default fold bit), plus naive, UTC and fixed offsets over years 1..9999; amounts: mixed-sign "
        "(h, m, s, us) with multi-unit carries, |total| up to 1e9 s, amounts that land exactly on/inside the next transition; modes "
        + ",".join(MODES) + ". non-trivial = the interval [source, result] contains a UTC-offset change, or a component needs a carry")
EXHAUSTIVE = {"quick": False, "thorough": False}
TRUSTED = ["Model/AddDur.lean (add_duration carry code over generated is_leap/DAYS_PER_MONTHS) and Model/DTOps.add tied by this correspondence run"]
ASSUMPTIONS = [
    "float bridge: add(seconds=<float>) / timedelta.total_seconds() is exact to the microsecond for |total| <= 1e9 s (exercised, not proved)",
    "zone tables complete up to year 2100 (quick) / 2500 (thorough); zone values are generated below that",
]


def preamble():
    return D.preamble(YMAX)


def _amount(rng):
    r = rng.random()
    if r < 0.25:
        return (rng.randint(-30, 30), rng.randint(-90, 90), rng.randint(-4000, 4000), rng.randint(-3_000_000, 3_000_000))
    if r < 0.5:
        return (0, 0, rng.choice((1, -1)) * rng.randint(0, 10 ** 9), rng.randint(-999999, 999999))
    if r < 0.7:
        return (rng.randint(-277777, 277777), 0, 0, rng.choice((0, 1, -1, 999999, -999999, 1000000)))
    if r < 0.85:
        return (rng.choice((23, 24, -24, 25)), rng.choice((59, 60, -60, -61)), rng.choice((59, 60, -60, 61)),
                rng.choice((999999, 1000000, -1000000, -1000001)))
    return (rng.randint(-3, 3), rng.randint(-3, 3), rng.randint(-3, 3), rng.randint(-3, 3))


def _total(a):
    h, mi, s, us = a
    return ((h * 60 + mi) * 60 + s) * US + us


def _local(name, u_us):
    """(wall µs, fold) of instant u in the zone, from the extracted table (independent of pendulum)"""
    off = D.db_offset_at(name, u_us, YMAX)
    w = u_us + off
    sols = D.wall_solutions(name, w, YMAX)
    fold = 1 if (len(sols) == 2 and u_us == max(sols)) else 0
    return w, fold


def gen_ops(rng, tier):
    per_zone = {"quick": 4, "thorough": 60, "widen": 16}[tier]
    lo_ok = Z.to_us(dt.datetime(1800, 1, 1))
    hi_ok = Z.limit_us(YMAX) - 33 * 366 * 86400 * US
    for zi, name in enumerate(D.ZN):
        init, trs = Z.tables(YMAX)[name]
        cand = [(t, o) for t, o in trs if lo_ok < t * US < hi_ok]
        if not cand:
            continue
        pick = cand if len(cand) <= per_zone else rng.sample(cand, per_zone)
        for t, o in pick:
            prev = Z.offset_at(name, t - 1, YMAX)
            jump = abs(o - prev)
            for du in (-(jump + 1) * US, -1, 0, 1, (jump // 2) * US + 7, jump * US):
                u = t * US + du
                w, fold = _local(name, u)
                for f in {fold, 1}:
                    if f != fold and len(D.wall_solutions(name, w, YMAX)) == 2:
                        continue   # fold=1 on a repeated wall time is a different instant: generated through its own u
                    for _ in range(2):
                        a = _amount(rng)
                        yield ("add", rng.choice(MODES), str(zi), w, f) + a
                    # amounts equal to the size of this transition, either sign, written in different unit splits: inside a repeated
                    # period the result has the same wall reading as the start (other occurrence); the instant must still move
                    h, rem = divmod(jump, 3600)
                    for a in ((h, rem // 60, rem % 60, 0), (0, 0, jump, 0), (h + 1, rem // 60 - 60, rem % 60, 0), (0, jump // 60, rem % 60, 0)):
                        sg = rng.choice((1, -1))
                        yield ("add", rng.choice(MODES), str(zi), w, f) + tuple(sg * x for x in a)
                    # amounts that land exactly on / just before the next transitions
                    nxt = [tt for tt, _ in trs if tt * US > u][:2]
                    for tt in nxt:
                        d = tt * US - u + rng.choice((-1, 0, 1))
                        yield ("add", rng.choice(("add", "plus_td", "roundtrip")), str(zi), w, f, 0, 0, d // US, d % US)
    # calendar boundaries the carry code depends on: leap days and year ends of century / 400-multiple / ordinary leap years, read on
    # the UTC clock (aware values are shifted there) and on the value's own clock (naive)
    years = [4, 96, 100, 400, 800, 1200, 1600, 1900, 2000, 2100, 2400, 2800, 3600, 4000, 8000, 9996] + rng.sample(range(5, 9990), 12)
    for y in years:
        import calendar
        days = [(2, 28), (3, 1), (12, 31), (1, 1)] + ([(2, 29)] if calendar.isleap(y) else [])
        for (m, dd) in days:
            for hh in (0, 12, 23):
                base = Z.to_us(dt.datetime(y, m, dd, hh, 30))
                for zr in ("n", str(D.ZI["UTC"]), "f0", "f32400", "f-28800", "f%d" % (rng.randint(-86399, 86399) * US)):
                    if zr[0] == "f":
                        zr = "f%d" % (int(zr[1:]) * (US if abs(int(zr[1:])) < 10 ** 6 else 1))
                    for amt in ((1, 0, 0, 0), (-1, 0, 0, 0), (13, 0, 0, 0), (-13, 0, 0, 0), (36, 0, 0, 0), (0, 0, 86400 * 2, 1), (0, -1500, 0, 0)):
                        yield ("add", rng.choice(MODES), zr, base, 0) + amt
    n = {"quick": 6000, "thorough": 300000, "widen": 60000}[tier]
    for _ in range(n):
        zr = rng.choice(("n", "f0", "f%d" % (rng.randint(-86399, 86399) * US), "utc"))
        if zr == "utc":
            zr = str(D.ZI["UTC"])
        w = rng.randint(D.MIN_US + 40 * 366 * 86400 * US, D.MAX_US - 40 * 366 * 86400 * US)
        if rng.random() < 0.05:
            w = rng.choice((D.MIN_US + rng.randint(0, 10 ** 12), D.MAX_US - rng.randint(0, 10 ** 12)))
        yield ("add", rng.choice(MODES), zr, w, rng.randint(0, 1)) + _amount(rng)


def _signed(op):
    _, mode, zr, w, f, h, mi, s, us = op
    sg = -1 if mode in ("subtract", "minus_td") else 1
    return sg * h, sg * mi, sg * s, sg * us


def line(op, backend):
    _, mode, zr, w, f, h, mi, s, us = op
    if mode == "roundtrip":
        return "addsub %s %d %d %d %d %d %d" % (zr, w, f, h, mi, s, us)
    if mode in ("plus_td", "radd_td", "minus_td"):
        t = _total(_signed(op))
        return "add %s %d %d 0 0 0 0 0 0 0 %d" % (zr, w, f, t)
    a = _signed(op)
    return "add %s %d %d 0 0 0 0 %d %d %d %d" % ((zr, w, f) + a)


_P = {}


def worker_init(backend):
    import pendulum
    _P["p"] = pendulum


def _history(op, x):
    """the result must depend on the value and the amount only: every other op is preceded by conversions that FAIL (a zone given
    as a string to astimezone -> TypeError; a conversion whose result is not representable -> OverflowError) and by one that succeeds
    on another value, the way a long-running process would have seen them"""
    import zlib
    p = _P["p"]
    h = zlib.crc32(("hist" + repr(op)).encode())
    if h & 1:
        return
    for attempt in ((lambda: x.astimezone("Europe/Paris")) if x.tzinfo is not None else (lambda: None),
                    (lambda: p.DateTime(1, 1, 1, 0, 30, tzinfo=p.UTC).astimezone(p.fixed_timezone(-5 * 3600))),
                    (lambda: p.DateTime(9999, 12, 31, 23, 30, tzinfo=p.UTC).in_timezone(p.fixed_timezone(5 * 3600)))):
        try:
            attempt()
        except (TypeError, OverflowError, ValueError):
            pass
    if h & 2:
        p.DateTime(2020, 6, 1, 12, tzinfo=p.UTC).in_timezone("Asia/Tokyo")


def impl(op, backend):
    p = _P["p"]
    _, mode, zr, w, f, h, mi, s, us = op
    x = D.mk(zr, w, f)
    _history(op, x)
    try:
        if mode == "add":
            r = x.add(hours=h, minutes=mi, seconds=s, microseconds=us)
        elif mode == "subtract":
            r = x.subtract(hours=h, minutes=mi, seconds=s, microseconds=us)
        elif mode == "plus_td":
            r = x + dt.timedelta(hours=h, minutes=mi, seconds=s, microseconds=us)
        elif mode == "radd_td":
            r = dt.timedelta(hours=h, minutes=mi, seconds=s, microseconds=us) + x
        elif mode == "minus_td":
            r = x - dt.timedelta(hours=h, minutes=mi, seconds=s, microseconds=us)
        else:
            r = x.add(hours=h, minutes=mi, seconds=s, microseconds=us).subtract(hours=h, minutes=mi, seconds=s, microseconds=us)
    except OverflowError:
        return "err OverflowError"
    except ValueError:
        return "err ValueError"
    if type(r) is not p.DateTime or r.tzinfo is not x.tzinfo:
        return "err WrongZoneOrType"
    return D.outv(r)


def oracle(op, out, backend):
    _, mode, zr, w, f, h, mi, s, us = op
    delta = 0 if mode == "roundtrip" else _total(_signed(op))
    # source instant from the tz table / fixed offset
    if zr == "n":
        src_off = 0
    elif zr[0] == "f":
        src_off = int(zr[1:])
    else:
        name = D.zname(zr)
        sols = D.wall_solutions(name, w, YMAX)
        if len(sols) == 1:
            u0 = sols[0]
        elif len(sols) == 2:
            u0 = max(sols) if f else min(sols)
        else:
            return None    # source is not a valid local time: outside the property
        src_off = w - u0
    u1 = w - src_off + delta
    if zr == "n" or zr[0] == "f":
        exp_w, exp_off = u1 + src_off, src_off
    else:
        exp_off = D.db_offset_at(D.zname(zr), u1, YMAX)
        exp_w = u1 + exp_off
    # "representable": the start, the result and their readings on the UTC clock all lie in years 1..9999
    # (the implementation computes on the UTC clock with native datetimes)
    in_range = (D.MIN_US <= exp_w <= D.MAX_US and D.MIN_US <= w - src_off <= D.MAX_US and D.MIN_US <= u1 <= D.MAX_US
                and (mode != "roundtrip" or (D.MIN_US <= w + _total((h, mi, s, us)) <= D.MAX_US
                                             and D.MIN_US <= w - src_off + _total((h, mi, s, us)) <= D.MAX_US)))
    if not in_range:
        if out.startswith("err OverflowError") or out.startswith("err ValueError"):
            return None
        # the intermediate UTC value may still be representable; accept a correct in-range wall only
    if not out.startswith("ok "):
        if not in_range or not (D.MIN_US + 2 * 86400 * US <= u1 <= D.MAX_US - 2 * 86400 * US):
            return None
        return f"unexpected {out}: expected wall {exp_w} offset {exp_off}"
    gw, goff, gfold = (int(x) for x in out.split()[1:])
    if zr == "n":
        goff = 0
    if (gw, goff) != (exp_w, exp_off):
        return f"instant moved by {gw - goff - (w - src_off)} us instead of {delta}; expected wall {exp_w} offset {exp_off}, got {gw} {goff}"
    return None


def tag(op, out):
    _, mode, zr, w, f, h, mi, s, us = op
    if zr == "n" or zr[0] == "f":
        return mode + ":fixed-clock"
    if out.startswith("ok "):
        goff = int(out.split()[2])
        name = D.zname(zr)
        sols = D.wall_solutions(name, w, YMAX)
        if sols:
            u0 = max(sols) if f else min(sols)
            if goff != w - u0:
                return mode + ":crosses-offset-change"
    if abs(us) > 999999 or abs(s) > 59 or abs(mi) > 59 or abs(h) > 23:
        return mode + ":carry"
    return mode + ":plain"


TRIVIAL_TAGS = tuple(m + ":plain" for m in MODES) + tuple(m + ":fixed-clock" for m in MODES)
MATCHERS = {}
