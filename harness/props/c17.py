"""C17 — parse() is total: a supported value or a ValueError/ParserError, nothing else (both parser backends)."""
from __future__ import annotations

import datetime as dt
import os
import re
import time as _time
import unicodedata
import warnings

from harness.common import enc_str
from harness.props import c07, c13

# dateutil's tzlocal() is only exercised when the process has a local zone with DST rules whose abbreviations can occur
# in a string ("CET"): the main process (which asks dateutil for the model's `dateutil` parameter) and the forked workers
# (which run pendulum) share this setting.
os.environ["TZ"] = "Europe/Paris"
_time.tzset()
warnings.simplefilter("ignore")

ID = "C17"
BACKENDS = ("py", "rs")
GEN_MODULES = ("Tables", "Helpers", "RsHelpers", "Parser", "IsoPy:datetime", "IsoPy:duration", "IsoRs:datetime", "IsoRs:duration", "IsoRs:glue")
MIN_THEOREMS = 37
RULE = ("ops: ('ptotal', options, string). options = <exact><strict><day_first><year_first>[n]:<tz>; the fifth flag n = the call "
        "is made WITHOUT now= (a bare time is completed from datetime.now(); the reply is compared after today's date has been "
        "replaced by the fixed now of the model, see impl); tz = none (no tz= argument) | naive (tz=None) | seconds (a FixedTimezone) "
        "| h<number> (an int / float number of hours) | z<seconds> (a datetime.timezone) | @name (a str: zone name, 'UTC', 'local') "
        "| @zi=name (a zoneinfo.ZoneInfo). A block of time-only strings and of one string per other shape runs under EVERY tz form "
        "x exact x strict x with/without now=; interval strings with every mix of offset / no offset on the endpoints run under "
        "tz=None. Strings: every valid form of C07 (6 date forms, reduced dates, times, date-times with fractions "
        "and offsets; generators of c07.py), of C13 (durations, 3 interval forms; generators of c13.py) and of the COMMON "
        "fallback; ALL single character edits (delete / insert / substitute over [0-9:TZW/P+-., YMDHS]) of ~45 seed strings, "
        "sampled single and double edits of freshly generated valid strings, all truncations (prefixes and suffixes) and "
        "pairwise concatenations of the seeds, Unicode decimal digits substituted for ASCII ones, random strings over the "
        "alphabet, random non-ASCII strings, free-text dates for the dateutil fallback, range-boundary intervals "
        "(years 0001 / 9999 with offsets). Each string is parsed by pendulum.parse with an option combination (rotating / "
        "random over exact x strict x day_first x year_first x tz) under each backend; in the compiled-backend worker it is "
        "parsed a second time through the pure-Python parser to compare the two backends. non-trivial = anything but a plain "
        "rejection of a random string")
EXHAUSTIVE = {"quick": False, "thorough": False}
TRUSTED = [
    "Model/ParseAll.lean is a hand model of parser.py and parsing/__init__.py on top of Model/Iso.lean (C07) and "
    "Model/IsoDur.lean + Model/IsoInterval.lean (C13); tied to the code by this correspondence run (reply = result type + all fields, "
    "or the exception class ParserError / ValueError / Other:<name>)",
    "dateutil.parser.parse is a parameter of the model; the request line carries what dateutil answered for that string",
    "CPython datetime constructors / timedelta range checks, re, str.split, int() on Unicode digits, tzinfo identity rules "
    "of Interval.__new__ are modelled, not verified",
    "oracle: exception class / result type; strict gate = an independent grammar of the documented forms (regular expressions "
    "written for this check); values = c13's Fraction reference for durations/intervals and datetime.fromisoformat; "
    "both backends compared on every string",
]
ASSUMPTIONS = [
    "the `tz` option is absent, None (naive values) or a fixed offset below 24 h in the model (a FixedTimezone, a number of hours "
    "and a datetime.timezone are sent to the model as their offset in seconds); zone names (str, zoneinfo.ZoneInfo, 'local') are "
    "exercised against the oracle only",
    "calls without now=: today's date is not modelled; impl() makes the same call with the fixed now= as well, requires that the two "
    "replies differ at most by (today's date -> the fixed date) in a DateTime and hands the reply with the fixed date to the model "
    "comparison; any other difference, and any exception of the call without now=, is reported as it is",
    "dateutil fails only with ValueError (incl. its ParserError) or OverflowError: observed on the stream, any other escape is reported",
    "strings contain no lone surrogates (they cannot be encoded for the compiled parser: UnicodeEncodeError, a ValueError)",
    "Python-backend intervals whose duration is >= 2^33 s with a sub-second part (C13 finding F19, float normalisation in Duration) "
    "are not sent to the model",
]

NOW = (2001, 2, 3)
ALPH = "0123456789:TZW/P+-., YMDHS"
TZS = ("none", "none", "none", "3600", "-16200", "50400", "@Europe/Paris", "@Pacific/Kiritimati", "@America/Sao_Paulo", "@UTC",
       "naive", "naive", "h2", "h5.5", "h-4.5", "z3600", "z0", "@local", "@zi=Europe/Paris", "@zi=UTC")
# every form of the `tz` argument (the block of gen_ops that crosses them with the time-only strings)
ALL_TZ = ("none", "naive", "0", "3600", "-16200", "50400", "h0", "h2", "h-11", "h5.5", "h-4.5", "h0.0", "z0", "z3600", "z-16200",
          "@UTC", "@local", "@Europe/Paris", "@Pacific/Kiritimati", "@zi=UTC", "@zi=Europe/Paris", "@zi=America/Sao_Paulo")
TIME_ONLY = ["12:34", "T1234", "12:34+01:00", "1:2", "T12:34:56Z", "123456", "12", "1:2:3", "23:59:59.999999", "T12", "00:00",
             "T235959,5-0130", "1:2:3.5"]
OTHER_SHAPES = ["2021-03-04", "2021-03-04T12:34:56", "2021-03-04T12:34:56+01:00", "2021-03-04 12:34", "2021", "2021-W09-4", "P1D",
                "now", "2021-03-04T00Z/2021-03-05T00", "2021-03-04T00/2021-03-05T00Z", "2021-03-04T00/2021-03-05T00",
                "2021-03-04T00Z/2021-03-05T00+01:00", "2021-03-04T12:00/PT1H", "2021-03-04T12:00-03:00/P1M", "P1D/2021-03-04T12:00Z",
                "PT36H/2021-03-04T12:00", "2021-03-04/2021-03-05", "2021-03-04/2021-03-05T00Z", "0001-01-01T00:30/2021-03-05T00",
                "0001-01-01T00:30/9999-12-31T23:59:59", "10am", "Jan 3 2021 10pm", "12:34 CET", "2:", "12:34/12:35", ""]

SEEDS = [
    "2021-03-04", "20210304", "2021-063", "2021063", "2021-W09-4", "2021W094", "2021-W09", "2021-03", "2021", "202103",
    "2021-03-04T12:34:56.123456+01:00", "20210304T123456,5-0130", "2021-03-04 12:34", "2021-03-04T12Z", "T12:34:56Z", "12:34",
    "T1234", "123456", "12", "1:2:3", "2021-3-4", "2021/03/04", "2021:03:04 1:2:3.5", "2021 12:30", "20210304 1:2",
    "P1Y2M3DT4H5M6S", "P1W", "PT1.5H", "P2,5D", "PT0.000001S", "P1Y", "PT36H", "P", "PT",
    "2021-03-04T00:00:00Z/P1D", "P1M/2021-03-31T10:00:00+05:30", "2021-03-04T00:00:00/2021-03-05T06:00:00-01:00",
    "2021-03-04/2021-03-05", "2021-03-04T12:00/PT1H", "2:", "2021-03-04/05:06:07", "2021-03/04", "P1D/P1D", "12:00/P1D",
    "2021-03-04/P1D", "now", "9999-12-31T23:59:59/PT1S", "0001-01-01T00:00:00+01:00/P1D",
]
FREE_TEXT = ["Jan 3 2021 10pm", "3 feb 99", "10am", "2021-03-04 12:34:56 UTC", "2021-03-04 12:34 CET", "2021-07-04 12:34 CEST",
             "Thu Mar 4 2021", "1.5.2021", "03/04/2021", "4/3/21 5pm", "2021-03-04 12:34 +01:00", "12:34 GMT+3", "March 4th, 2021",
             "T00:00:5949964531-08:59", "20288888888-03-04", "2021-03-04T12:34:56+9999999999991:00", "99999999999999999999",
             "2021-03-04 12:34:56PT18446744073709551615H", "3 feb 9900000000000", "10 10 10", "1 2", "12 34 56"]
UDIG = "٠١٢٣٤٥٦٧٨٩۰۱۲۳०१२３４５６７８９０１２"


# ------------------------------------------------------------------------------------------------ generator

def _opts(rng):
    return "%d%d%d%d%s:%s" % (rng.random() < 0.5, rng.random() < 0.6, rng.random() < 0.3, rng.random() < 0.7,
                              "n" if rng.random() < 0.15 else "", rng.choice(TZS))


_ROT = ["0100:none", "1100:none", "0000:none", "1001:3600", "0110:-16200", "0011:none", "1010:@Europe/Paris", "0101:50400",
        "0001:@Pacific/Kiritimati", "1101:none", "0101:@America/Sao_Paulo", "0000:3600",
        "0100:naive", "0100n:@UTC", "1101:naive", "0001n:h5.5", "0100n:none", "0000n:naive", "0101:z3600", "0100:@zi=Europe/Paris",
        "0100n:@local"]


def _rot(i):
    return _ROT[i % len(_ROT)]


def valid(rng):
    k = rng.randrange(14)
    if k < 3:
        return c07.datetime_op(rng, dt.date.fromordinal(rng.randint(1, 3652059)))[2]
    if k == 3:
        return rng.choice(c07.date_forms(dt.date.fromordinal(rng.randint(1, 3652059))))[1]
    if k == 4:
        return next(c07.time_ops(rng, 1))[2]
    if k == 5:
        y, m, d = rng.randint(1, 9999), rng.randint(1, 12), rng.randint(1, 28)
        h, mi, s = c07.rand_time(rng)
        sep = rng.choice("/:") if rng.random() < 0.6 else ""
        return rng.choice([f"{y:04d}", f"{y:04d}-{m:02d}", f"{y:04d}-W{rng.randint(1, 52):02d}", f"{y:04d}{sep}{m:02d}{sep}{d:02d}",
                           f"{y:04d}{sep}{m:02d}{sep}{d:02d} {h}:{mi}:{s}.{rng.randint(0, 999)}", f"{y:04d} {h:02d}:{mi:02d}",
                           f"{h}:{mi}", f"{h:02d}", f"{h:02d}{mi:02d}{s:02d}", f"{y:04d}{m:02d}"])
    if k < 9:
        return c13.gen_dur_string(rng, rng.choice(["valid", "valid", "valid", "large", "order", "fracmid", "empty"]))
    form = rng.randrange(4)
    lo, hi = (1, 9999) if rng.random() < 0.7 else rng.choice([(1, 1), (9999, 9999)])
    a = c13.gen_datetime(rng, lo, hi)
    if form == 0:
        return a + "/" + c13.gen_datetime(rng, lo, hi)
    if form == 1:
        return a + "/" + c13.gen_interval_duration(rng)
    if form == 2:
        return c13.gen_interval_duration(rng) + "/" + a
    d1, d2 = dt.date.fromordinal(rng.randint(1, 3652059)), dt.date.fromordinal(rng.randint(1, 3652059))
    return rng.choice(c07.date_forms(d1))[1] + "/" + rng.choice(c07.date_forms(d2))[1]


def edit(rng, s):
    k = rng.randrange(3)
    if k == 0 and s:
        i = rng.randrange(len(s))
        return s[:i] + s[i + 1:]
    if k == 1 or not s:
        i = rng.randrange(len(s) + 1)
        return s[:i] + rng.choice(ALPH) + s[i:]
    i = rng.randrange(len(s))
    return s[:i] + rng.choice(ALPH) + s[i + 1:]


def all_single_edits(s):
    for i in range(len(s)):
        yield s[:i] + s[i + 1:]
    for i in range(len(s) + 1):
        for c in ALPH:
            yield s[:i] + c + s[i:]
    for i in range(len(s)):
        for c in ALPH:
            if c != s[i]:
                yield s[:i] + c + s[i + 1:]


def unidigits(rng, s, p=0.3):
    t = list(s)
    for i, c in enumerate(t):
        if c in "0123456789" and rng.random() < p:
            base = rng.choice((0x660, 0x6f0, 0x966, 0xff10, 0x1d7ce, 0x7c0))
            t[i] = chr(base + int(c))
    return "".join(t)


_OFFS = ("", "", "Z", "+01:00", "-01:00", "+00:00", "+05:30", "-23:59", "+24:00", "+99:99")


def mixed_interval(rng):
    """start/end (and a few start/duration, duration/end) interval strings, every mix of endpoint with / without offset"""
    def one():
        y, mo, d = rng.choice((1, 1970, 2021, 9999)), rng.randint(1, 12), rng.randint(1, 28)
        h, mi = rng.choice((0, 0, 12, 23)), rng.choice((0, 30, 59))
        body = rng.choice(("%04d-%02d-%02dT%02d:%02d:00", "%04d-%02d-%02dT%02d:%02d", "%04d%02d%02dT%02d%02d")) % (y, mo, d, h, mi)
        return body + rng.choice(_OFFS)
    k = rng.randrange(8)
    if k == 0:
        return one() + "/" + rng.choice(("PT1H", "P1D", "P1M", "PT36H", "P9998Y"))
    if k == 1:
        return rng.choice(("PT1H", "P1D", "P1M", "PT36H", "P9998Y")) + "/" + one()
    if k == 2:
        return one() + "/" + rng.choice(("2021-03-05", "2021-W09", "12:34", "2021"))
    return one() + "/" + one()


def boundary_interval(rng):
    y = rng.choice((1, 9999))
    mo, d = (1, 1) if y == 1 else (12, 31)
    h = rng.choice((0, 1, 12, 22, 23))
    off = rng.choice(("", "Z", "+01:00", "-01:00", "+14:00", "-12:00", "+00:30", "-23:59", "+23:59"))
    a = "%04d-%02d-%02dT%02d:%02d:00%s" % (y, mo, d, h, rng.choice((0, 30, 59)), off)
    k = rng.randrange(5)
    dur = rng.choice(("PT1H", "PT30M", "P1D", "PT86399S", "P1M", "P1Y", "PT0S", "P0D", "PT1S", "PT13H", "P9998Y", "P119987M",
                      "P3652058D", "PT315537897599S", "P3652058DT23H59M59.999999S"))
    if k == 0:
        return a + "/" + dur
    if k == 1:
        return dur + "/" + a
    off2 = rng.choice(("", "Z", off, off, "+01:00", "-14:00"))
    b = "%04d-%02d-%02dT%02d:%02d:00%s" % (rng.choice((1, 9999, 2000)), rng.choice((1, 12)), rng.choice((1, 31)), h, 0, off2)
    return a + "/" + b if k < 4 else b + "/" + a


def limit_strings():
    out = []
    for y in (0, 1, 9999):
        dates = []
        for w in (0, 1, 2, 51, 52, 53, 54):
            for d in ("", 0, 1, 2, 5, 6, 7, 8):
                dates += ["%04d-W%02d%s" % (y, w, "" if d == "" else "-%d" % d), "%04dW%02d%s" % (y, w, d)]
        for n in (0, 1, 2, 59, 60, 365, 366, 367):
            dates += ["%04d-%03d" % (y, n), "%04d%03d" % (y, n)]
        for m, d in ((1, 1), (1, 2), (12, 30), (12, 31), (2, 29), (0, 1), (13, 1)):
            dates += ["%04d-%02d-%02d" % (y, m, d), "%04d%02d%02d" % (y, m, d)]
        for x in dates:
            out.append(x)
            out.append(x + "T23:59:59.999999")
            out.append(x + "T00:00+14:00")
            out.append(x + "T23:59-12:00")
        for x in dates[::3]:
            out.append(x + "/P1D")
            out.append("P1D/" + x)
            out.append(x + "/" + x)
    return out


def op(o, s):
    return ("ptotal", o, s)


def gen_ops(rng, tier):
    n = {"quick": 1, "thorough": 30, "widen": 5}[tier]
    i = 0
    # --- the seeds and the free text under every rotation entry
    for s in SEEDS + FREE_TEXT:
        for o in _ROT:
            yield op(o, s)
    # --- the `tz` forms and the calls without now=: time-only strings and one string per other shape under every tz form
    for s in TIME_ONLY + OTHER_SHAPES:
        for tz in ALL_TZ:
            for fl in ("01", "11", "00", "10"):
                for nn in ("", "n"):
                    yield op("%s01%s:%s" % (fl, nn, tz), s)
    # --- the limits of the representable range in every date form: week, ordinal and calendar dates of years 0000/0001/9999 whose
    #     calendar date may fall into year 0 or 10000, alone, with a time part, and as interval endpoints
    for s in limit_strings():
        for o in ("0100:none", "1100:none", "0000:none", "1001:3600", "0100:naive", "0100:@Pacific/Kiritimati"):
            yield op(o, s)
    # --- week dates at the turn of the year (weeks 01, 52, 53, every weekday, both forms): the week date whose calendar date lies in
    #     the neighbouring year (ordinal 0 or negative, ordinal past the end), for a run of consecutive years and every 7th year
    years = list(range(1895, 2045)) + list(range(2, 9999, {"quick": 97, "thorough": 7, "widen": 31}.get(tier, 97)))
    for y in years:
        for w in (1, 52, 53):
            for d in range(1, 8):
                x = "%04d-W%02d-%d" % (y, w, d) if (y + w + d) % 2 else "%04dW%02d%d" % (y, w, d)
                yield op(("0100:none", "1100:none", "0100:naive")[(y + d) % 3], x if (y + w) % 5 else x + "T10:20:30")
    # --- tz=None: interval strings with every mix of offset / no offset on the endpoints; bare times without now=
    for _ in range(4_000 * n):
        s = mixed_interval(rng)
        if rng.random() < 0.15:
            s = edit(rng, s)
        o = _opts(rng)
        yield op(o.split(":")[0] + ":" + rng.choice(("naive", "naive", "naive", "none", "3600", "h2", "z-16200", "@local")), s)
    for o0 in c07.time_ops(rng, 1_500 * n):
        o = _opts(rng)
        yield op(o[:4] + rng.choice(("n", "n", "")) + ":" + rng.choice(ALL_TZ), o0[2])
    # --- ALL single edits of the seeds; all truncations; pairwise concatenations
    for s in SEEDS:
        for e in all_single_edits(s):
            i += 1
            yield op(_rot(i) if tier == "quick" else _opts(rng), e)
        for k in range(len(s) + 1):
            i += 1
            yield op(_rot(i), s[:k])
            yield op(_rot(i + 1), s[k:])
    for a in SEEDS:
        for b in SEEDS[::3]:
            for sep in ("", "/", " ", "T"):
                i += 1
                yield op(_rot(i), a + sep + b)
    if tier != "quick":
        # every seed edit again under random options, and sampled double edits of the seeds
        for rep in range(2 if tier == "widen" else 6):
            for s in SEEDS:
                for e in all_single_edits(s):
                    if rng.random() < 0.5:
                        yield op(_opts(rng), edit(rng, e))
    # --- freshly generated valid strings: as they are, edited once / twice, truncated, concatenated, unicode digits
    for _ in range(100_000 * n):
        s = valid(rng)
        r = rng.random()
        if r < 0.12:
            pass
        elif r < 0.50:
            s = edit(rng, s)
        elif r < 0.72:
            s = edit(rng, edit(rng, s))
        elif r < 0.80:
            s = s[:rng.randrange(len(s) + 1)] if rng.random() < 0.6 else s[rng.randrange(len(s) + 1):]
        elif r < 0.87:
            s = s + rng.choice(["", "/", " ", "T", "\n"]) + valid(rng)
        elif r < 0.94:
            s = unidigits(rng, s, rng.choice((0.1, 0.5, 1.0)))
            if rng.random() < 0.3:
                s = edit(rng, s)
        else:
            s = edit(rng, edit(rng, edit(rng, s)))
        yield op(_opts(rng), s)
    # --- range-boundary intervals
    for _ in range(10_000 * n):
        s = boundary_interval(rng)
        if rng.random() < 0.1:
            s = edit(rng, s)
        yield op(_opts(rng), s)
    # --- random strings over the alphabet, non-ASCII strings
    for _ in range(30_000 * n):
        yield op(_opts(rng), "".join(rng.choice(ALPH) for _ in range(rng.randint(0, 9))))
    for _ in range(6_000 * n):
        k = rng.randint(0, 6)
        s = "".join(rng.choice((chr(rng.randint(0, 127)), chr(rng.randint(128, 0x2fff)), chr(rng.randint(0x10000, 0x1ffff)),
                                rng.choice(UDIG), rng.choice(ALPH))) for _ in range(k))
        if not any(0xd800 <= ord(c) <= 0xdfff for c in s):
            yield op(_opts(rng), s)
    # --- free text for the dateutil fallback (strict on and off)
    for _ in range(12_000 * n):
        s = rng.choice(FREE_TEXT)
        for _ in range(rng.choice((0, 1, 1, 2))):
            k = rng.randrange(3)
            p = rng.randrange(len(s) + 1)
            ch = rng.choice(ALPH + "apmAPMjanfebutcgmtJ\n\t'()e")
            s = s[:p] + s[p + 1:] if k == 0 else s[:p] + ch + s[p:] if k == 1 else s[:p] + ch * rng.randint(1, 12) + s[p + 1:]
        o = _opts(rng)
        yield op(o[:1] + rng.choice("001") + o[2:], s)
    # --- small exhaustive space over a tiny alphabet (pins the interval / common paths)
    import itertools
    for ln in range(1, 5 if tier == "quick" else 6):
        for t in itertools.product("1:/P T", repeat=ln):
            i += 1
            yield op(_rot(i), "".join(t))


def corpus():
    """minimised inputs that failed on the unchanged tree (F3 family and the further escapes found by this check)"""
    out = []
    for s in ("2:", "202106:", "12::30", "1:.5", "2021 12:", "2021-03-04/05:06:07", "2021-03/04", "12:34/2021-03-04", "12:34/12:35",
              "P1D/P1D", "P/P", "P1D/12:00", "12:00/P1D", "2021-03-04/P1D", "PT1H/2021-03-04", "9999-12-31T00:00/P1D",
              "P1D/0001-01-01T00:00", "2021-03-04T00:00/P99999999999D", "2021-03-04T00:00/P1000000000000Y",
              "2021-03-04T00:00/PT18446744073709551615S", "0001-01-01T00:00:00+01:00/PT1H", "", "a/b/c", "/", "1:2|5"):
        for o in ("0100:none", "1100:none", "0000:none", "0100:3600"):
            out.append(op(o, s))
    for s in ("T00:00:5949964531-08:59", "2021-03-04T12:34:56+9999999999991:00", "2021-03-04 12:34 CET", "2021-07-04 12:34 CEST"):
        out.append(op("0000:none", s))
        out.append(op("1001:3600", s))
    out.append(op("0100:@Europe/Paris", "0001-01-01T00:00/P1D"))
    # tz=None with one aware and one naive endpoint (TypeError from Interval.__new__ before the repair of parser._interval)
    for s in ("2021-03-04T00Z/2021-03-05T00", "2021-03-04T00/2021-03-05T00Z", "2021-03-04T00:00:00+01:00/2021-03-05T06:00:00",
              "2021-03-04T00/2021-03-05T00", "2021-03-04T00Z/2021-03-05T00+01:00", "2021-03-04T00/P1D", "P1D/2021-03-04T00Z"):
        for o in ("0100:naive", "1100:naive", "0000n:naive"):
            out.append(op(o, s))
    # a bare time without now= under the tz forms that are not tzinfo objects (the date comes from datetime.now())
    for s in ("12:34", "T1234", "12:34+01:00", "1:2"):
        for tz in ("@UTC", "@Europe/Paris", "@local", "h2", "h5.5", "naive", "none", "3600"):
            out.append(op("0100n:" + tz, s))
    out.append(op("0100:@Pacific/Pago_Pago", "P1D/9999-12-31T23:59:59"))
    return out


# ------------------------------------------------------------------------------------------------ model request

_DU = {}


def _dateutil(s, df, yf):
    key = (s, df, yf)
    if key in _DU:
        return _DU[key]
    from dateutil import parser as du
    try:
        r = du.parse(s, dayfirst=df, yearfirst=yf)
        o = None if r.tzinfo is None else r.tzinfo.utcoffset(r)      # r.utcoffset() would range-check the value
        off = "none" if o is None else str(o.days * 86400 + o.seconds)
        w = "ok:%d:%d:%d:%d:%d:%d:%d:%s" % (r.year, r.month, r.day, r.hour, r.minute, r.second, r.microsecond, off)
    except ValueError:
        w = "err:ValueError"
    except Exception as e:  # noqa: BLE001
        w = "err:" + type(e).__name__
    if len(_DU) > 200_000:
        _DU.clear()
    _DU[key] = w
    return w


def _flags(o):
    fl, tz = o.split(":", 1)
    return fl[0] == "1", fl[1] == "1", fl[2] == "1", fl[3] == "1", tz


def _nonow(o):
    return o.split(":", 1)[0][4:] == "n"


def _hours(tz):
    """'h2' -> 2, 'h5.5' -> 5.5"""
    return float(tz[1:]) if "." in tz else int(tz[1:])


def _tz_model(tz):
    """the `tz` word of the model request: none | naive | <seconds> (a FixedTimezone object) | c<seconds> (a number of hours =
    `int(hours * 60 * 60)` seconds, or a datetime.timezone: both resolve to the cached per-offset FixedTimezone of
    `fixed_timezone()`); None for zone names (no model counterpart)"""
    if tz.startswith("@"):
        return None
    if tz.startswith("h"):
        return "c%d" % int(_hours(tz) * 60 * 60)
    if tz.startswith("z"):
        return "c" + tz[1:]
    return tz


def line(op, backend):
    _, o, s = op
    ex, strict, df, yf, tz = _flags(o)
    tzw = _tz_model(tz)
    if tzw is None:
        return None
    o = o.split(":", 1)[0] + ":" + tzw
    if backend == "py" and "/" in s and c13._long_subsecond(("pint", _norm(s)), "py", None, None):
        return None
    du = "-" if strict else _dateutil(s, df, yf)
    return "ptotal %s %s %s %s" % (backend, o, enc_str(s), du)


# ------------------------------------------------------------------------------------------------ real code

_H = {}


def worker_init(backend):
    import pendulum
    import pendulum.parsing as PP
    from pendulum.parsing.exceptions import ParserError
    from pendulum.parsing.iso8601 import parse_iso8601 as py_iso
    from pendulum.duration import Duration as PyDuration
    from pendulum.tz.timezone import FixedTimezone
    warnings.simplefilter("ignore")
    _H.update(P=pendulum, PP=PP, PE=ParserError, FT=FixedTimezone, py_iso=py_iso, PyDuration=PyDuration,
              now=dt.datetime(*NOW, 4, 5, 6), last=None)


def _offs(v):
    o = v.utcoffset()
    if o is None:
        return "none"
    return str(o.days * 86400 + o.seconds)


def _dtw(v):
    return "%d %d %d %d %d %d %d %s" % (v.year, v.month, v.day, v.hour, v.minute, v.second, v.microsecond, _offs(v))


def show(r, s):
    P = _H["P"]
    if isinstance(r, P.Interval):
        a, b = r.start, r.end
        if isinstance(a, P.DateTime) and isinstance(b, P.DateTime):
            return "ok Interval %s %s" % (_dtw(a), _dtw(b))
        if type(a) is P.Date and type(b) is P.Date:
            return "ok IntervalD %d %d %d %d %d %d" % (a.year, a.month, a.day, b.year, b.month, b.day)
        return "err WrongType:Interval[%s,%s]" % (type(a).__name__, type(b).__name__)
    if isinstance(r, P.Duration):
        y, mo = r.years, r.months
        return "ok Duration %d %d %d" % (y, mo, c13._native_us(r, y, mo))
    if isinstance(r, P.DateTime):
        if s == "now":
            return "ok DateTime now"
        return "ok DateTime " + _dtw(r)
    if type(r) is P.Date:
        return "ok Date %d %d %d" % (r.year, r.month, r.day)
    if type(r) is P.Time:
        return "ok Time %d %d %d %d" % (r.hour, r.minute, r.second, r.microsecond)
    return "err WrongType:" + type(r).__name__


def _tz_arg(tz):
    """the object passed as tz= for a tz word (never called for 'none')"""
    if tz == "naive":
        return None
    if tz.startswith("@zi="):
        import zoneinfo
        return zoneinfo.ZoneInfo(tz[4:])
    if tz.startswith("@"):
        return tz[1:]
    if tz.startswith("h"):
        return _hours(tz)
    if tz.startswith("z"):
        return dt.timezone(dt.timedelta(seconds=int(tz[1:])))
    return _H["FT"](int(tz))


def _call(s, o, with_now=True):
    ex, strict, df, yf, tz = _flags(o)
    kw = dict(exact=ex, strict=strict, day_first=df, year_first=yf)
    if with_now:
        kw["now"] = _H["now"]
    if tz != "none":
        kw["tz"] = _tz_arg(tz)
    try:
        return show(_H["P"].parse(s, **kw), s)
    except _H["PE"]:
        return "err ParserError"
    except ValueError:
        return "err ValueError"
    except Exception as e:  # noqa: BLE001
        return "err Other:" + type(e).__name__


def _call_op(s, o):
    """the call the op describes. Without now= (flag n) the date of a bare time is today's: the same call is made with the fixed
    now= too; the two replies must be equal, or two DateTimes that differ only by today's date <-> the fixed date (then the reply
    with the fixed date is returned, which is what the model computes). An exception of the call without now= is returned as it
    is; any other difference is 'err NowDependent:…' (reported by the oracle)."""
    if not _nonow(o):
        return _call(s, o)
    d0 = dt.date.today()
    out1 = _call(s, o, with_now=False)
    d1 = dt.date.today()
    out2 = _call(s, o)
    if out1 == out2 or out1.startswith("err"):
        return out1
    w1, w2 = out1.split(" "), out2.split(" ")
    named = _flags(o)[4].startswith("@")        # a zone name: the UTC offset depends on the date (no model counterpart)
    if (w1[:2] == ["ok", "DateTime"] == w2[:2] and len(w1) == len(w2) == 10 and w1[5:9] == w2[5:9] and (named or w1[9] == w2[9])
            and tuple(map(int, w2[2:5])) == NOW
            and tuple(map(int, w1[2:5])) in ((d0.year, d0.month, d0.day), (d1.year, d1.month, d1.day))):
        return out1 if named else out2
    return "err NowDependent:%s|%s" % (out1.replace(" ", "_"), out2.replace(" ", "_"))


def impl(op, backend):
    _, o, s = op
    out = _call_op(s, o)
    other = None
    if backend == "rs":
        # the same call through the pure-Python parser (what PENDULUM_EXTENSIONS=0 selects), to compare the backends
        PP = _H["PP"]
        saved = (PP.parse_iso8601, PP.Duration)
        PP.parse_iso8601, PP.Duration = _H["py_iso"], _H["PyDuration"]
        try:
            other = _call_op(s, o)
        finally:
            PP.parse_iso8601, PP.Duration = saved
    _H["last"] = (op, other)
    return out


# ------------------------------------------------------------------------------------------------ oracle

def _norm(s):
    """Unicode decimal digits -> ASCII (the Python regexes accept every Nd character)"""
    return "".join(str(unicodedata.decimal(c)) if c.isdecimal() and not ("0" <= c <= "9") else c for c in s)


_D4 = r"\d{4}"
_REF_DATE = _D4 + r"(?:-?\d{2}(?:-?\d{1,2})?|-?W\d{2}(?:-?\d)?|-?\d{3})?"
_REF_TIME = r"\d{1,2}(?::?\d{1,2}(?::?\d{1,2})?)?(?:[.,]\d+)?"
_REF_OFF = r"(?:Z|[+-]\d{2}(?::?\d{2})?)?"
_REF_DT = re.compile(r"(?:%s(?:[T ]%s%s)?|[T ]?%s%s)\n?" % (_REF_DATE, _REF_TIME, _REF_OFF, _REF_TIME, _REF_OFF), re.A)
_REF_COMMON = re.compile(r"(?:%s(?:[/:]?\d{2}[/:]?\d{2})?)?(?: ?\d{1,2}:\d{1,2}(?::\d{1,2})?(?:[.,]\d{1,9})?)?\n?" % _D4, re.A)
_REF_DUR = re.compile(r"P(?:\d+(?:[.,]\d+)?[YMWDHS]|T)*\n?", re.A)


def documented(s, backend):
    """is `s` of one of the documented families: ISO 8601 date / time / date-time, duration, interval, or the common
    `YYYY-MM-DD HH:MM:SS` family? (deliberately generous inside a family: field widths of 1-2 digits, an optional leading
    separator before a bare time; every Unicode decimal digit counts as a digit, as in the regular expressions of the code)"""
    t = _norm(s)
    if _REF_DT.fullmatch(t) or _REF_COMMON.fullmatch(t) or _REF_DUR.fullmatch(t):
        return True
    if t.count("/") == 1:
        a, b = t.split("/")
        return all(_REF_DT.fullmatch(x) or _REF_DUR.fullmatch(x) for x in (a, b))
    return False


_ISO_EXT = re.compile(r"\d{4}-\d{2}-\d{2}[T ]\d{2}:\d{2}:\d{2}(?:\.\d{1,6})?(?:Z|[+-]\d{2}:\d{2})?", re.A)
FIVE = ("ok DateTime", "ok Date ", "ok Time", "ok Duration", "ok Interval")


def oracle(op, out, backend):
    _, o, s = op
    ex, strict, df, yf, tz = _flags(o)
    # 0. a call without now= may differ from the call with now= only by today's date in the DateTime built from a bare time
    if out.startswith("err NowDependent:"):
        return f"parse({s!r}, {o}) without now= / with now=: {out[len('err NowDependent:'):]}"
    # 1. totality
    if out.startswith("err"):
        if out not in ("err ParserError", "err ValueError"):
            return f"{out[4:]} escapes from parse({s!r}, {o})"
    elif not out.startswith(FIVE):
        return f"unexpected result {out!r} from parse({s!r})"
    # 2. the strict gate
    if strict and out.startswith("ok") and s != "now" and not documented(s, backend):
        return f"strict=True accepted {s!r} ({out}), which is none of the documented forms"
    # 3. values (no wrap-around): durations and intervals against c13's exact reference, extended date-times against fromisoformat
    t = _norm(s) if backend == "py" else s
    edge = re.search(r"(?:^|/)(?:0001|9999)-", t) is not None        # an endpoint within a day of the limits may not be representable in UTC
    if t.startswith("P") and "/" not in t and "\n" not in t:
        if out.startswith("ok Duration") or out.startswith("err") or strict:
            v = c13.oracle(("pdur", t), out.replace("ok Duration", "ok") if out.startswith("ok Duration") else
                           ("err WrongType" if out.startswith("ok") else out), backend)
            if v:
                return "duration value: " + v
    elif t.count("/") == 1 and tz == "none" and "\n" not in t and not c13._long_subsecond(("pint", t), backend, None, None):
        a, b = t.split("/")
        if all(x[:1] == "P" or _ISO_EXT.fullmatch(x) for x in (a, b)) and not (a[:1] == "P" and b[:1] == "P"):
            if out.startswith("ok Interval ") or (out.startswith("err") and not edge):
                v = c13.oracle(("pint", t), "ok " + out[len("ok Interval "):] if out.startswith("ok") else out, backend)
                if v:
                    return "interval value: " + v
    elif t.count("/") == 1 and tz == "naive" and out.startswith("ok Interval "):
        # tz=None: an endpoint keeps the offset written in the string, or is naive (start/duration, duration/end: both ends
        # like the one datetime of the string)
        def written(x):
            if not _ISO_EXT.fullmatch(x):
                return None
            try:
                off = dt.datetime.fromisoformat(x.replace(" ", "T")).utcoffset()
            except ValueError:
                return None
            return "none" if off is None else str(off.days * 86400 + off.seconds)
        a, b = t.split("/")
        wa, wb = (written(b) if a[:1] == "P" else written(a)), (written(a) if b[:1] == "P" else written(b))
        w = out.split(" ")
        if wa is not None and wb is not None and (w[9], w[17]) != (wa, wb):
            return f"tz=None, {s!r}: expected endpoint offsets {wa}, {wb}; got {w[9]}, {w[17]}"
    elif _ISO_EXT.fullmatch(t) and out.startswith("ok") and not tz.startswith("@"):
        try:
            r = dt.datetime.fromisoformat(t.replace(" ", "T"))
        except ValueError:
            r = None
        if r is not None:
            off = r.utcoffset()
            # without explicit offset: the `tz` option (UTC by default; tz=None: a naive DateTime)
            offs = ("0" if tz == "none" else "none" if tz == "naive" else _tz_model(tz).lstrip("c")) if off is None else str(off.days * 86400 + off.seconds)
            want = "ok DateTime %d %d %d %d %d %d %d %s" % (r.year, r.month, r.day, r.hour, r.minute, r.second, r.microsecond, offs)
            if out != want:
                return f"{s!r}: expected {want!r}, got {out!r}"
    # 4. both backends (strict=True: with strict=False a string that only one parser accepts goes to dateutil in the other)
    last = _H.get("last")
    if backend == "rs" and last and last[0] == op and last[1] is not None:
        py = last[1]
        if strict and out.startswith("ok") and py.startswith("ok") and out != py:
            return f"backends disagree on {s!r} [{o}]: compiled {out!r}, pure-Python {py!r}"
        if py.startswith("err Other:"):
            return f"{py[4:]} escapes from parse({s!r}, {o}) [pure-Python parser]"
    return None


def tag(op, out):
    _, o, s = op
    fam = "interval" if "/" in s else "duration" if s[:1] == "P" else "datetime"
    res = out.split(" ")[1] if out.startswith("ok") else out[4:]
    return "%s:%s:%s" % (fam, "strict" if o[1] == "1" else "lax", res)


TRIVIAL_TAGS = ()

_COMPACT_DATE_COLON_TIME = re.compile(r"\d{8}( \d{1,2}:\d{1,2}(?::\d{1,2})?(?:[.,]\d{1,9})?)?\n?", re.A)
_YEAR_SLASH_4 = re.compile(r"\d{4}/\d{4}\n?", re.A)


def _disagree(viol):
    return viol.startswith("backends disagree")


def _m_long_subsecond(op, backend, out, viol):
    """both accept an interval whose duration is >= 2^33 s with a sub-second part: the pure-Python Duration loses microseconds
    in its float normalisation (root cause = C13 finding F19), the compiled backend is exact"""
    return _disagree(viol) and "/" in op[2] and c13._long_subsecond(("pint", _norm(op[2])), "py", None, None)


def _m_day_first_compact(op, backend, out, viol):
    """day_first=True and 'YYYYMMDD[ h:m[:s[.f]]]' with a colon time after the compact date, or written with non-ASCII decimal
    digits: the pure-Python ISO regex accepts it (year-month-day); the compiled ISO parser does not (1-digit field, basic date
    with extended time, non-ASCII digit) and the COMMON fallback (a Python regex in both backends) swaps day and month"""
    m = _COMPACT_DATE_COLON_TIME.fullmatch(_norm(op[2]))
    return _disagree(viol) and op[1][2] == "1" and m is not None and (m.group(1) is not None or not op[2].isascii())


def _m_year_slash(op, backend, out, viol):
    """'YYYY/MMDD': the pure-Python parser reads an interval of two bare years (dates), the compiled parser rejects a bare year
    and the COMMON fallback reads year/month-day"""
    return _disagree(viol) and _YEAR_SLASH_4.fullmatch(_norm(op[2])) is not None


def _m_named_zone_long_time_duration(op, backend, out, viol):
    """named zone in the `tz` option, 'start/duration' or 'duration/end' whose duration has only H/M/S components worth a day or
    more ('PT36H'): the compiled parser hands hours/minutes/seconds to add() unchanged (elapsed time), the pure-Python one a
    normalised Duration with days (wall-clock arithmetic) - different endpoints across a UTC-offset change of the zone"""
    if not (_disagree(viol) and op[1].split(":", 1)[1].startswith("@") and op[2].count("/") == 1):
        return False
    a, b = _norm(op[2]).split("/")
    d = a if a[:1] == "P" else b if b[:1] == "P" else None
    if d is None:
        return False
    m = c13._REF.fullmatch(d)
    if not m:
        return False
    g = m.groups()
    if any(g[i] is not None and (int(g[i]) != 0 or (g[i + 1] is not None and int(g[i + 1]) != 0)) for i in (0, 2, 4, 6)):
        return False
    r = c13.ref_duration(d)
    return r[0] == "ok" and r[3] >= 86400 * 10**6


MATCHERS = {
    "c17_agree_named_zone_time_only_duration": _m_named_zone_long_time_duration,
    "c17_agree_long_duration_subsecond": _m_long_subsecond,
    "c17_agree_day_first_compact_date": _m_day_first_compact,
    "c17_agree_year_slash_mmdd": _m_year_slash,
}
