"""C15 — calendar primitives agree with the proleptic Gregorian calendar in both backends."""
from __future__ import annotations

import calendar
import datetime as dt

ID = "C15"
BACKENDS = ("py", "rs")
GEN_MODULES = ("Tables", "Helpers", "RsHelpers", "LocalTime", "Getters")
MIN_THEOREMS = 47
RULE = ("ops: isleap/islong/diy for every year 1..9999; weekday/getters on dates (quick: every date of 12 pattern years, "
        "every month start/end of every year, random dates; thorough: all 3,652,059 dates); localtime on day boundaries "
        "-1s/0/+1s and random seconds x offsets -86399..86399 over years 1..9999, plus the chunk boundaries of the algorithm (every century "
        "and 400-year start, sampled/all year and month starts) x offsets of either sign with the UTC instant and the local reading on "
        "either side of the boundary; the small derived methods next to the getters (Gen/Getters.lean): gdcl/gdavg Date.closest/farthest/"
        "average on random triples/pairs of dates incl. equally distant candidates and odd negative differences, gxcl/gxavg "
        "DateTime.closest/farthest/average on 0..11 candidates at fixed offsets incl. ties and duplicates, gwsa week_starts_at/"
        "week_ends_at(-3..10) (all model-compared), gdrel/gxoff/gxrel is_same_day/is_anniversary/is_birthday/age/is_future/is_past, "
        "offset/offset_hours/is_utc/is_dst/timezone_name/float_timestamp, DateTime.is_same_day/is_anniversary/is_long_year (oracle only). non-trivial = distinct op whose year is a "
        "leap/century/long year or whose date is a month/year boundary or whose timestamp is within 1 s of a day boundary "
        "or negative")
EXHAUSTIVE = {"quick": False, "thorough": True}
TRUSTED = [
    "Gen.Helpers/Gen.Tables are regenerated from _helpers.py, date.py, constants.py, rust/src/constants.rs each run",
    "Gen/RsHelpers.lean is regenerated from rust/src/helpers.rs (closed-form helpers) by tools/gen_rust.py each run; Gen/LocalTime.lean is regenerated statement by statement from _helpers.py::local_time and rust/src/helpers.rs::local_time by tools/gen_localtime.py each run (trusted reading: integer casts/.into()/.try_into().unwrap() = identity on unbounded Int, unix_time.floor()/math.floor = the integer argument, microsecond passed through, loops cut at 64 iterations with the cut proved immaterial); Model/LocalTime.lean is the hand model, tied to it by Props.C15.local_time_source_eq_model for all integers; the driver answers localtime requests from the regenerated definitions",
    "Gen/Getters.lean is regenerated statement by statement from date.py / datetime.py / day.py / helpers.py (week_starts_at, week_ends_at) / mixins/default.py by tools/gen_getters.py each run (the getters of the property, WeekDay, closest/farthest/average, age, is_* and the string wrappers; unlisted callees such as diff, first_of, _first_of_month, set, replace, today, _to_string are inlined; the standard library and other pendulum modules are the parameter record Ext, linked to Model/Cal.lean by the explicit hypotheses StdOk/DateOk/DtOk of the *_source_eq_model theorems, shown satisfiable by GettersGen.refExt; trusted reading: a / n is the exact rational, math.ceil(a / n) = -((-a) // n), int(a / n) truncates, a timedelta is its microseconds); Drv/C15.lean::getters is the hand model, tied to it by Props.C15.getters_source_eq_driver",
    "reference calendar Model/Cal.lean = CPython datetime algorithms; oracle = CPython datetime/calendar",
]
ASSUMPTIONS = [
    "Rust i32/usize arithmetic is modelled on unbounded Int; theorems rs_*_eq hold for years >= 1 (no overflow inside 1..9999)",
    "local_time's float argument (Rust f64 unix_time) is exercised with integer-valued timestamps and with t + q/4, q in 1..3 (exact in binary64, |t| < 2^51)",
]

MIN_TS = -62135596800          # 0001-01-01T00:00:00Z
MAX_TS = 253402300799          # 9999-12-31T23:59:59Z
EPOCH = dt.datetime(1970, 1, 1)


def gen_ops(rng, tier):
    years = range(1, 10000)
    for y in years:
        yield ("isleap", y)
        yield ("islong", y)
        yield ("diy", y)
    if tier == "thorough":
        d = dt.date(1, 1, 1)
        one = dt.timedelta(days=1)
        for o in range(1, 3652060):
            d = dt.date.fromordinal(o)
            yield ("weekday", d.year, d.month, d.day)
            if o % 3 == 0 or d.day >= 28 or d.day == 1:
                yield ("getters", d.year, d.month, d.day)
        for o in range(1, 3652060):
            base = (o - 719163) * 86400
            for delta in (-1, 0, 1):
                t = base + delta
                if MIN_TS <= t <= MAX_TS:
                    yield ("localtime", t, 0)
        n_rand = 400_000
    else:
        pattern = [1, 4, 100, 400, 1583, 1600, 1900, 1970, 2000, 2020, 2023, 2024, 9996, 9999]
        for y in pattern:
            d = dt.date(y, 1, 1)
            while d.year == y:
                yield ("weekday", d.year, d.month, d.day)
                yield ("getters", d.year, d.month, d.day)
                if d == dt.date.max:
                    break
                d += dt.timedelta(days=1)
        for y in range(1, 10000, 7):
            for m in range(1, 13):
                last = calendar.monthrange(y, m)[1]
                for dd in (1, last):
                    yield ("weekday", y, m, dd)
                    yield ("getters", y, m, dd)
        # day boundaries of pattern years, month boundaries everywhere
        for y in range(1, 10000, 3):
            for (m, dd) in ((1, 1), (3, 1), (12, 31), (2, 28)):
                base = (dt.date(y, m, dd).toordinal() - 719163) * 86400
                for delta in (-1, 0, 1, 86399):
                    t = base + delta
                    if MIN_TS <= t <= MAX_TS:
                        yield ("localtime", t, 0)
        n_rand = 40_000 if tier == "quick" else 400_000
    # structural boundaries of the local_time algorithm (400/100/4/1-year chunks, month starts) approached with a non-zero offset:
    # the UTC instant and the local reading fall on different sides of the boundary
    ys = set(range(400, 10000, 400)) | set(range(100, 10000, 100)) | {1, 2, 4, 5, 1600, 1601, 1969, 1970, 1971, 1999, 2000, 2001, 9996, 9999}
    if tier != "quick":
        ys |= set(range(1, 10000))
    else:
        ys |= set(rng.sample(range(1, 10000), 150))
    for y in sorted(ys):
        for (m, dd) in ((1, 1), (3, 1)) + (((rng.randint(2, 12), 1),) if tier == "quick" else tuple((mm, 1) for mm in range(2, 13))):
            b = (dt.date(y, m, dd).toordinal() - 719163) * 86400
            offs = (1, -1, 3600, -3600, 18000, -18000, 86399, -86399, rng.randint(-86399, 86399))
            for off in (offs if (y % 100 == 0 or tier != "quick") else rng.sample(offs, 3)):
                for t in (b - off - 1, b - off, b - off + 1, b - 1, b, b + 1):
                    if MIN_TS + 86400 <= t <= MAX_TS - 86400:
                        yield ("localtime", t, off)
    for _ in range(n_rand):
        o = rng.randint(1, 3652059)
        d = dt.date.fromordinal(o)
        yield ("weekday", d.year, d.month, d.day)
        yield ("getters", d.year, d.month, d.day)
        off = rng.choice((0, 0, 3600, -3600, 86399, -86399, rng.randint(-86399, 86399)))
        t = rng.randint(MIN_TS + 86400, MAX_TS - 86400)
        if rng.random() < 0.3:
            t = (t // 86400) * 86400 + rng.choice((-1, 0, 1))
        yield ("localtime", t, off)
        if rng.random() < 0.25:
            # a non-integral timestamp t + q/4 (exact in binary64): the broken-down time is that of floor(t + q/4) = t, also below zero
            t2 = rng.choice((t, -abs(t), (t // 86400) * 86400 - 1, (t // 86400) * 86400, -1, 0, -86400, -86401))
            if MIN_TS + 86400 <= t2 <= MAX_TS - 86400:
                yield ("localtime", t2, rng.choice((0, off)), rng.randint(1, 3))
    yield from _getter_ops(rng, tier)


US_DAY = 86400 * 10**6


def _getter_ops(rng, tier):
    """the small derived methods next to the getters (Gen/Getters.lean): closest / farthest / average of Date and DateTime,
    week_starts_at / week_ends_at (model-compared), is_same_day / is_anniversary / is_birthday / age / offsets (oracle only)"""
    n = 1500 if tier == "quick" else 20000

    def clamp(o):
        return min(3652059, max(1, o))
    for v in range(-3, 11):
        yield ("gwsa", 0, v)
        yield ("gwsa", 1, v)
    for _ in range(n):
        o = rng.randint(1, 3652059)
        span = rng.choice((3, 40, 400, 40000))
        o1, o2 = clamp(o + rng.randint(-span, span)), clamp(o + rng.randint(-span, span))
        if rng.random() < 0.3:
            o2 = clamp(2 * o - o1)                       # both candidates equally far
        yield ("gdcl", o, o1, o2)
        yield ("gdavg", o, o1)
        yield ("gdrel", o, rng.choice((o1, o, clamp(o + 365 * rng.randint(-3, 3)), clamp(o + 366))))
        t = (rng.randint(800, 3651000) - 719163) * US_DAY + rng.randrange(US_DAY)
        scale = rng.choice((5, 10**6, 3600 * 10**6, 40 * US_DAY))
        cands = []
        for _k in range(rng.randint(0 if rng.random() < 0.05 else 1, 5)):
            dlt = rng.randint(-scale, scale)
            cands.append((t + dlt, rng.choice((0, 0, 3600, -18000, 19800))))
            if rng.random() < 0.35:
                cands.append((t - dlt, rng.choice((0, 3600))))      # a tie in distance, on the other side
            if rng.random() < 0.1:
                cands.append(cands[0])
        rng.shuffle(cands)
        yield ("gxcl", rng.randint(0, 1), t, tuple(cands))
        t2 = t + rng.randint(-scale, scale)
        yield ("gxavg", t, t2, rng.choice((0, 3600, -18000)))
        yield ("gxoff", rng.choice((None, 0, 0, 3600, -3600, 19800, -34200, 50400, -43200)), t)
        yield ("gxrel", t, t + rng.choice((0, rng.randint(-US_DAY, US_DAY), 365 * US_DAY, 366 * US_DAY, rng.randint(-scale, scale))),
               rng.choice((0, 3600, -18000, 50400)))


def line(op, backend):
    k = op[0]
    if k in ("gdrel", "gxoff", "gxrel"):
        return None                      # oracle only
    if k == "gxcl":
        return " ".join(["gxcl", str(op[1]), str(op[2])] + [str(c[0]) for c in op[3]])
    if k == "gxavg":
        return "gxavg %d %d" % (op[1], op[2])
    if k in ("isleap", "islong", "diy", "weekday", "localtime"):
        return " ".join([k, backend] + [str(x) for x in op[1:3 if k == "localtime" else None]])
    return " ".join(str(x) for x in op)


_H = {}


def worker_init(backend):
    import pendulum
    import pendulum.helpers as H
    _H["H"] = H
    _H["Date"] = pendulum.Date
    _H["DateTime"] = pendulum.DateTime


def impl(op, backend):
    H = _H["H"]
    k = op[0]
    if k == "isleap":
        return "ok %d" % int(H.is_leap(op[1]))
    if k == "islong":
        return "ok %d" % int(H.is_long_year(op[1]))
    if k == "diy":
        return "ok %d" % H.days_in_year(op[1])
    if k == "weekday":
        return "ok %d" % H.week_day(op[1], op[2], op[3])
    if k == "localtime":
        r = H.local_time(op[1] + op[3] / 4 if len(op) == 4 else op[1], op[2], 0)
        return "ok %d %d %d %d %d %d" % tuple(r[:6])
    if k == "getters":
        d = _H["Date"](op[1], op[2], op[3])
        a = (int(d.day_of_week), d.day_of_year, d.week_of_year, d.week_of_month, d.days_in_month, d.quarter,
             int(d.is_leap_year()), int(d.is_long_year()))
        d2 = _H["DateTime"](op[1], op[2], op[3], 12, 30)
        b = (int(d2.day_of_week), d2.day_of_year, d2.week_of_year, d2.week_of_month, d2.days_in_month, d2.quarter,
             int(d2.is_leap_year()), int(d2.is_long_year()))
        if a != b:
            return "err DateTimeGettersDiffer %r %r" % (a, b)
        # ... and on a zone-aware DateTime: the calendar getters read the wall date, whatever the zone's offset did since 1 January
        import zlib
        h = zlib.crc32(repr(op).encode())
        zn = _GETTER_ZONES[h % len(_GETTER_ZONES)]
        hh, mi = _GETTER_TIMES[(h >> 8) % len(_GETTER_TIMES)]
        tz = _H.get(("tz", zn)) or _H.setdefault(("tz", zn), __import__("pendulum").timezone(zn))
        d3 = _H["DateTime"](op[1], op[2], op[3], hh, mi, tzinfo=tz, fold=(h >> 16) & 1)
        c = (int(d3.day_of_week), d3.day_of_year, d3.week_of_year, d3.week_of_month, d3.days_in_month, d3.quarter,
             int(d3.is_leap_year()), int(d3.is_long_year()))
        if a != c:
            return "err AwareDateTimeGettersDiffer %s %02d:%02d %r %r" % (zn, hh, mi, a, c)
        return "ok " + " ".join(str(x) for x in a)
    if k[0] == "g":
        return _getter_impl(op)
    raise ValueError(k)


_GETTER_ZONES = ("Europe/Paris", "Australia/Lord_Howe", "America/New_York", "Pacific/Apia", "UTC", "Asia/Kolkata", "America/Sao_Paulo",
                 "Europe/London", "Pacific/Kiritimati", "America/St_Johns")
_GETTER_TIMES = ((0, 0), (0, 29), (0, 59), (1, 0), (2, 30), (12, 30), (23, 0), (23, 59))
_UTC = dt.timezone.utc
_EPOCH_UTC = dt.datetime(1970, 1, 1, tzinfo=_UTC)


def _native(t, off=0):
    """the aware native datetime of the instant t (µs) at a fixed offset"""
    tz = dt.timezone(dt.timedelta(seconds=off)) if off else _UTC
    return (_EPOCH_UTC + dt.timedelta(microseconds=t)).astimezone(tz)


def _us(x):
    """instant of an aware datetime in µs, through native arithmetic only (pendulum's own `-` goes through floats)"""
    n = dt.datetime(x.year, x.month, x.day, x.hour, x.minute, x.second, x.microsecond) - x.utcoffset()
    return (n - dt.datetime(1970, 1, 1)) // dt.timedelta(microseconds=1)


def _getter_impl(op):
    import pendulum
    k = op[0]
    Date, DateTime = _H["Date"], _H["DateTime"]
    try:
        if k == "gwsa":
            try:
                (pendulum.week_ends_at if op[1] else pendulum.week_starts_at)(op[2])
                return "ok %d" % int(pendulum._WEEK_ENDS_AT if op[1] else pendulum._WEEK_STARTS_AT)
            finally:
                pendulum._WEEK_STARTS_AT, pendulum._WEEK_ENDS_AT = pendulum.MONDAY, pendulum.SUNDAY
        if k == "gdcl":
            a, b, c = (Date.fromordinal(o) for o in op[1:4])
            r1, r2 = a.closest(b, c), a.farthest(b, c)
            if type(r1) is not Date or type(r2) is not Date:
                return "err NotADate"
            return "ok %d %d" % (r1.toordinal(), r2.toordinal())
        if k == "gdavg":
            a, b = Date.fromordinal(op[1]), Date.fromordinal(op[2])
            return "ok %d" % a.average(b).toordinal()
        if k == "gdrel":
            a, b = Date.fromordinal(op[1]), dt.date.fromordinal(op[2])
            return "ok %d %d %d %d %d %d" % (a.is_same_day(b), a.is_anniversary(b), a.is_birthday(b), a.age,
                                             a.is_future(), a.is_past())
        if k == "gxcl":
            a = pendulum.instance(_native(op[2]))
            cs = [_native(t, off) for t, off in op[3]]
            r = a.farthest(*cs) if op[1] else a.closest(*cs)
            if type(r) is not DateTime:
                return "err NotADateTime"
            return "ok %d" % _us(r)
        if k == "gxavg":
            a = pendulum.instance(_native(op[1]))
            return "ok %d" % _us(a.average(_native(op[2], op[3])))
        if k == "gxoff":
            x = _native(op[2], op[1] or 0)
            a = pendulum.instance(x) if op[1] is not None else pendulum.naive(x.year, x.month, x.day, x.hour, x.minute, x.second, x.microsecond)
            return "ok %r %r %r %d %d %r %r" % (a.offset, a.get_offset(), a.offset_hours, a.is_utc(), a.is_dst(),
                                                 a.timezone_name, a.float_timestamp if op[1] is not None else None)
        if k == "gxrel":
            a = pendulum.instance(_native(op[1]))
            b = _native(op[2], op[3])
            return "ok %d %d %d %r" % (a.is_same_day(b), a.is_anniversary(b), a.is_long_year(), a.date().isoformat())
    except Exception as e:  # noqa: BLE001
        return "err " + type(e).__name__
    raise ValueError(k)


def _full_years(a, b):
    """signed number of full years from date a to date b"""
    if a <= b:
        return b.year - a.year - ((b.month, b.day) < (a.month, a.day))
    return -(a.year - b.year - ((a.month, a.day) < (b.month, b.day)))


def _getter_oracle(op):
    """the documented behaviour, from the standard library only"""
    k = op[0]
    if k == "gwsa":
        return "ok %d" % op[2] if 0 <= op[2] <= 6 else "err ValueError"
    if k == "gdcl":
        o, o1, o2 = op[1:4]
        return "ok %d %d" % (o1 if abs(o1 - o) < abs(o2 - o) else o2, o1 if abs(o1 - o) > abs(o2 - o) else o2)
    if k == "gdavg":
        d = op[2] - op[1]
        return "ok %d" % (op[1] + (abs(d) // 2) * (1 if d >= 0 else -1))
    if k == "gdrel":
        a, b = dt.date.fromordinal(op[1]), dt.date.fromordinal(op[2])
        today = dt.date.today()
        ann = (a.month, a.day) == (b.month, b.day)
        return "ok %d %d %d %d %d %d" % (a == b, ann, ann, _full_years(a, today), a > today, a < today)
    if k == "gxcl":
        if not op[3]:
            return "err ValueError"
        t = op[2]
        # the documented "closest / farthest": smallest / largest elapsed time; among equals the first argument stays
        return "ok %d" % (max if op[1] else min)((c for c, _ in op[3]), key=lambda c: abs(t - c))
    if k == "gxavg":
        return "ok %d" % (op[1] + (op[2] - op[1]) // 2)
    if k == "gxoff":
        off = op[1]
        if off is None:
            return "ok None None None 0 1 None None"
        name = "UTC" if off == 0 else "%s%02d:%02d" % ("+" if off > 0 else "-", abs(off) // 3600, abs(off) % 3600 // 60)
        return "ok %r %r %r %d %d %r %r" % (off, off, off / 3600, off == 0, 0, name, _native(op[2]).timestamp())
    if k == "gxrel":
        a, b = _native(op[1]), _native(op[2], op[3])
        return "ok %d %d %d %r" % (a.date() == b.date(), (a.month, a.day) == (b.month, b.day),
                                   _weeks_in_iso_year(a.year) == 53, a.date().isoformat())
    return None


def _weeks_in_iso_year(y):
    # ISO: a year has 53 weeks iff Jan 1 is a Thursday, or it is a leap year and Jan 1 is a Wednesday
    wd = dt.date(y, 1, 1).isoweekday()
    return 53 if wd == 4 or (wd == 3 and calendar.isleap(y)) else 52


def oracle(op, out, backend):
    """the property's own statement, evaluated with the standard library only"""
    k = op[0]
    if k == "isleap":
        exp = "ok %d" % int(calendar.isleap(op[1]))
    elif k == "islong":
        exp = "ok %d" % int(_weeks_in_iso_year(op[1]) == 53)
    elif k == "diy":
        exp = "ok %d" % (dt.date(op[1], 12, 31).timetuple().tm_yday)
    elif k == "weekday":
        exp = "ok %d" % dt.date(op[1], op[2], op[3]).isoweekday()
    elif k == "localtime":
        x = EPOCH + dt.timedelta(seconds=op[1] + op[2])
        exp = "ok %d %d %d %d %d %d" % (x.year, x.month, x.day, x.hour, x.minute, x.second)
    elif k == "getters":
        d = dt.date(op[1], op[2], op[3])
        first = dt.date(op[1], op[2], 1)
        wom = (d.day + first.isoweekday() - 2) // 7 + 1
        exp = "ok %d %d %d %d %d %d %d %d" % (
            d.weekday(), d.timetuple().tm_yday, d.isocalendar()[1], wom, calendar.monthrange(op[1], op[2])[1],
            (op[2] - 1) // 3 + 1, int(calendar.isleap(op[1])), int(_weeks_in_iso_year(op[1]) == 53))
    elif k[0] == "g":
        exp = _getter_oracle(op)
        if exp is None:
            return None
    else:
        return None
    if out != exp:
        return f"expected {exp!r} got {out!r}"
    return None


def tag(op, out):
    k = op[0]
    if k in ("isleap", "islong", "diy"):
        y = op[1]
        if y % 100 == 0:
            return k + ":century"
        if y % 4 == 0:
            return k + ":leap"
        if out == "ok 1":
            return k + ":true"
        return k + ":plain"
    if k in ("weekday", "getters"):
        y, m, d = op[1:4]
        if d == 1 or d >= 28:
            return k + ":month-boundary"
        return k + ":mid-month"
    if k == "gdcl":
        return k + (":tie" if abs(op[2] - op[1]) == abs(op[3] - op[1]) else ":plain")
    if k == "gdavg":
        return k + (":odd-negative" if (op[2] - op[1]) % 2 and op[2] < op[1] else ":odd" if (op[2] - op[1]) % 2 else ":plain")
    if k == "gxcl":
        ds = [abs(op[2] - c) for c, _ in op[3]]
        return k + (":empty" if not ds else ":tie" if ds.count(min(ds)) > 1 or ds.count(max(ds)) > 1 else ":plain")
    if k == "gxavg":
        return k + (":odd-negative" if (op[2] - op[1]) % 2 and op[2] < op[1] else ":plain")
    if k == "gwsa":
        return k + (":valid" if out.startswith("ok") else ":invalid")
    if k in ("gdrel", "gxoff", "gxrel"):
        return k
    if k == "localtime":
        t = op[1] + op[2]
        if len(op) == 4:
            return k + (":fraction-negative" if op[1] < 0 else ":fraction")
        if t % 86400 in (0, 1, 86399):
            return k + ":day-boundary"
        if op[1] < 0:
            return k + ":negative"
        return k + ":plain"
    return k


TRIVIAL_TAGS = ("isleap:plain", "islong:plain", "diy:plain", "weekday:mid-month", "getters:mid-month", "localtime:plain",
                "gdcl:plain", "gdavg:plain", "gxcl:plain", "gxavg:plain")
MATCHERS = {}
