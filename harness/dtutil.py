"""DateTime values on the wire (used inside worker processes, after pendulum was imported).

zone reference: "<index into ZN>" named IANA zone | "f<offset µs>" FixedTimezone | "n" naive
value: (zref, wall µs since 1970-01-01T00:00 local, fold)            reply: "ok <wall> <offset µs> <fold>"
"""
from __future__ import annotations

import datetime as dt

from harness import zones as Z

US = 1_000_000
ZN = Z.names()
ZI = {n: i for i, n in enumerate(ZN)}
MIN_US = Z.to_us(dt.datetime.min)
MAX_US = Z.to_us(dt.datetime.max)


def preamble(ymax=Z.YMAX_QUICK):
    return Z.zone_lines(ZN, ymax)


def tzobj(zr):
    import pendulum
    if zr == "n":
        return None
    if zr[0] == "f":
        return pendulum.timezone(int(zr[1:]) // US)
    return pendulum.timezone(ZN[int(zr)])


def zname(zr):
    return ZN[int(zr)] if zr[0] not in "nf" else None


def fields(w):
    d = Z.from_us(w)
    return (d.year, d.month, d.day, d.hour, d.minute, d.second, d.microsecond)


def mk(zr, w, fold):
    """a pendulum DateTime with exactly these fields/fold (class constructor: no normalisation)"""
    import pendulum
    return pendulum.DateTime(*fields(w), tzinfo=tzobj(zr), fold=fold)


def native(zr, w, fold):
    """the native counterpart with zoneinfo tzinfo"""
    import zoneinfo
    if zr == "n":
        tz = None
    elif zr[0] == "f":
        tz = dt.timezone(dt.timedelta(microseconds=int(zr[1:])))
    else:
        tz = zoneinfo.ZoneInfo(ZN[int(zr)])
    return dt.datetime(*fields(w), tzinfo=tz, fold=fold)


def outv(d):
    o = d.utcoffset()
    off = 0 if o is None else (o.days * 86400 + o.seconds) * US + o.microseconds
    return "ok %d %d %d" % (Z.to_us(d), off, d.fold)


def instant_us(d):
    """µs since the epoch of an aware datetime, by integer arithmetic on its own offset"""
    o = d.utcoffset()
    off = (o.days * 86400 + o.seconds) * US + o.microseconds
    return Z.to_us(d) - off


def db_offset_at(name, u_us, ymax=Z.YMAX_QUICK):
    """tz database offset (µs) in force at instant u_us, from the extracted table"""
    return Z.offset_at(name, u_us // US, ymax) * US


def wall_solutions(name, w_us, ymax=Z.YMAX_QUICK):
    """instants (µs) whose local rendering in the zone is the wall value w_us, from the table only"""
    return [s * US + (w_us % US) for s in Z.classify_wall(name, w_us // US, ymax)]


def off_us_of(d):
    o = d.utcoffset()
    return (o.days * 86400 + o.seconds) * US + o.microseconds
