"""tzdata -> zone tables for the Lean model (`zone <id> <init> <t1> <o1> ...` lines) and for oracles.

A zone is (init offset, [(utc instant of transition, offset after)...]) — explicit transitions from the
TZif file plus the POSIX rule tail expanded up to `ymax`. Units on the wire are microseconds (instants
are microseconds since 1970-01-01T00:00 UTC; wall values are microseconds since 1970-01-01T00:00 on the
local clock). The tables are read with the pure-Python `zoneinfo._zoneinfo` (same data the C
implementation used by pendulum reads); the model's agreement with the C `zoneinfo` on these tables is
part of every correspondence run that uses zones.

Generated values for zones must stay below `limit_us(ymax)` (no transitions are modelled after ymax).
"""
from __future__ import annotations

import datetime as dt
import json
import os
from pathlib import Path

US = 1_000_000
EPOCH = dt.datetime(1970, 1, 1)
ROOT = Path(__file__).resolve().parent.parent
CACHE = ROOT / ".cache"
YMAX_QUICK = 2100
YMAX_THOROUGH = 2500     # POSIX rules repeat with the 400-year Gregorian cycle; 2037+400 < 2500


def tzdata_version():
    try:
        import importlib.metadata as md
        return md.version("tzdata")
    except Exception:  # noqa: BLE001
        return "system"


def names():
    import zoneinfo
    # same set pendulum.timezones() reports
    return sorted(n for n in zoneinfo.available_timezones() if n != "localtime")


def _table(name, ymax):
    from zoneinfo import _zoneinfo as pz
    z = pz.ZoneInfo.no_cache(name)
    tu = list(z._trans_utc)
    offs = [int(t.utcoff.total_seconds()) for t in z._ttinfos]
    init = int(z._tti_before.utcoff.total_seconds()) if z._tti_before is not None else (offs[0] if offs else 0)
    after = z._tz_after
    if isinstance(after, pz._ttinfo):
        tail_fixed = int(after.utcoff.total_seconds())
        if not tu:
            init = tail_fixed
        elif offs[-1] != tail_fixed:
            raise AssertionError((name, offs[-1], tail_fixed))
    else:
        std = int(after.std.utcoff.total_seconds())
        dst = int(after.dst.utcoff.total_seconds())
        y0 = (EPOCH + dt.timedelta(seconds=tu[-1])).year if tu else 1
        last = tu[-1] if tu else -10 ** 18
        cur = offs[-1] if tu else None
        if not tu:
            init = None
        for y in range(max(y0 - 1, 1), ymax + 1):
            s, e = after.transitions(y)
            for t, o in sorted([(s - std, dst), (e - dst, std)]):
                if t > last:
                    if cur is None:
                        init = std if o == dst else dst
                        cur = init
                    tu.append(t)
                    offs.append(o)
                    last = t
                    cur = o
        if init is None:
            init = std
    return init, list(zip(tu, offs))


_TABLES = {}


def tables(ymax=YMAX_QUICK):
    """{name: (init_seconds, [(t_seconds, off_seconds)...])} for every shipped zone"""
    if ymax in _TABLES:
        return _TABLES[ymax]
    CACHE.mkdir(exist_ok=True)
    f = CACHE / f"zones_{tzdata_version()}_{ymax}.json"
    if f.exists():
        d = json.loads(f.read_text())
    else:
        d = {n: _table(n, ymax) for n in names()}
        tmp = f.with_suffix(".tmp%d" % os.getpid())
        tmp.write_text(json.dumps(d))
        os.replace(tmp, f)
    d = {n: (v[0], [tuple(x) for x in v[1]]) for n, v in d.items()}
    _TABLES[ymax] = d
    return d


def ymax_for(tier):
    return YMAX_THOROUGH if tier == "thorough" else YMAX_QUICK


def limit_us(ymax):
    """largest instant (µs since epoch) the model's tables are complete for"""
    return to_us(dt.datetime(ymax - 1, 1, 1))


def zone_lines(zone_names, ymax=YMAX_QUICK):
    """driver preamble: one `zone` line per name, ids are positions in zone_names"""
    T = tables(ymax)
    out = []
    for i, n in enumerate(zone_names):
        init, trs = T[n]
        out.append("zone %d %d %s" % (i, init * US, " ".join("%d %d" % (t * US, o * US) for t, o in trs)))
    return out


def to_us(d: dt.datetime) -> int:
    """naive field value -> microseconds since 1970-01-01T00:00 on the same clock"""
    # fields only: subtracting a pendulum DateTime would go through its own (float) Interval machinery
    days = dt.date(d.year, d.month, d.day).toordinal() - 719163
    return ((days * 24 + d.hour) * 60 + d.minute) * 60 * US + d.second * US + d.microsecond


def from_us(us: int) -> dt.datetime:
    # split by hand: timedelta(microseconds=<big int>) goes through floats and loses microseconds
    days, rem = divmod(us, 86400 * US)
    secs, micro = divmod(rem, US)
    return EPOCH + dt.timedelta(days=days, seconds=secs, microseconds=micro)


def off_us(d: dt.datetime) -> int:
    o = d.utcoffset()
    return (o.days * 86400 + o.seconds) * US + o.microseconds


def irregular(name, ymax=YMAX_QUICK):
    """[(kind, wall_lo_s, wall_hi_s, t_s, off_before, off_after)] — every gap ('gap') and overlap ('fold')
    of a zone: wall values in [lo, hi) are skipped / repeated"""
    init, trs = tables(ymax)[name]
    out = []
    prev = init
    for t, o in trs:
        if o > prev:
            out.append(("gap", t + prev, t + o, t, prev, o))
        elif o < prev:
            out.append(("fold", t + o, t + prev, t, prev, o))
        prev = o
    return out


def classify_wall(name, wall_s, ymax=YMAX_QUICK):
    """independent of pendulum and of the Lean model: the set of instants u (seconds) with
    u + offset_at(u) == wall_s, by scanning the table"""
    init, trs = tables(ymax)[name]
    sols = []
    prev = init
    lo = -10 ** 18
    for t, o in trs + [(10 ** 18, None)]:
        u = wall_s - prev
        if lo <= u < t:
            sols.append(u)
        lo = t
        prev = o
    return sols


def offset_at(name, u_s, ymax=YMAX_QUICK):
    init, trs = tables(ymax)[name]
    import bisect
    i = bisect.bisect_right([t for t, _ in trs], u_s)
    return init if i == 0 else trs[i - 1][1]
