/-! Types of the regenerated locale layer (`Pendulum/Gen/Locales/*.lean`, written by `tools/gen_locales.py`).

A locale module of pendulum (`src/pendulum/locales/<name>/locale.py` + `custom.py`) is a nested Python
`dict` with `str`/`int` keys and `str`/`int`/`dict` values plus two lambdas (`plural`, `ordinal`).
The generator renders the dictionary as a `Node` tree (int keys as their decimal spelling), the lambdas as
`Int → String` functions, and every string that the code later passes through `str.format` (paths
`translations.units.*`, `translations.relative.*`, `custom.units_relative.*`, `custom.ago|from_now|after|before`)
pre-split by `string.Formatter().parse` into literal / replacement-field segments. -/
namespace Pendulum.Loc

/-- one segment of a `str.format` template: literal text, or a replacement field with its field name
    (`""` for `{}`, `"0"` for `{0}`, `"time"` for `{time}`) -/
inductive Seg where
  | lit (s : String)
  | hole (field : String)
  deriving Repr, DecidableEq, Inhabited

/-- a value inside a locale dictionary -/
inductive Node where
  | str (s : String)
  | tmpl (segs : List Seg)
  | int (i : Int)
  | dict (kvs : List (String × Node))
  deriving Repr, Inhabited

structure Locale where
  name : String
  plural : Int → String
  ordinal : Int → String
  /-- the string constants the `plural` lambda can return, in source order -/
  pluralClasses : List String
  ordinalClasses : List String
  /-- the dictionary without the two lambdas -/
  data : Node

end Pendulum.Loc
