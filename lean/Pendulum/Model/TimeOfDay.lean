/-! Model of `pendulum.Time` arithmetic (`src/pendulum/time.py`).

A time of day is its number of microseconds since 00:00, `0 ≤ t < DAY`; `fields`/`ofFields` are the
`hour/minute/second/microsecond` view. `Time.add` is modelled the way the code runs:
`DateTime.EPOCH.at(h, m, s, us).add(hours, minutes, seconds, microseconds).time()`, i.e. the sign-aware
carry normalisation of `helpers.add_duration`, one `datetime + timedelta` on 1970-01-01 (UTC, offset 0),
the standard library's range check on the resulting date (years 1..9999 → `OverflowError`), and the
time-of-day part of the sum. `diff` is the *repaired* code (microseconds included, fix commit
"Time.diff() takes microseconds into account"); `closest/farthest` the repaired comparison of exact
distances. -/
namespace Pendulum.TimeOfDay

def DAY : Int := 86400000000

inductive Kind | typeError | overflowError
deriving DecidableEq, Repr

def Kind.name : Kind → String
  | .typeError => "TypeError"
  | .overflowError => "OverflowError"

/-- `helpers._sign` = `int(copysign(1, x))`; sign of 0 is +1 -/
def sgn (x : Int) : Int := if x < 0 then -1 else 1
def absI (x : Int) : Int := if x < 0 then -x else x

/-- one normalisation step of `add_duration`:
    `if abs(x) > lim: s = _sign(x); div, mod = divmod(x * s, base); x = mod * s; next += div * s` -/
def carry (x lim base next : Int) : Int × Int :=
  if absI x > lim then
    let s := sgn x
    (((x * s) % base) * s, next + ((x * s) / base) * s)
  else (x, next)

/-- the four carries of `add_duration` (µs → s → min → h → days), days start at 0 -/
def normTime (hours minutes seconds micros : Int) : Int × Int × Int × Int × Int :=
  let (us, sec) := carry micros 999999 1000000 seconds
  let (sec, mi) := carry sec 59 60 minutes
  let (mi, h) := carry mi 59 60 hours
  let (h, d) := carry h 23 24 0
  (d, h, mi, sec, us)

/-- `timedelta(days, hours, minutes, seconds, microseconds)` as exact microseconds -/
def totalUs (d h mi s us : Int) : Int := (((d * 24 + h) * 60 + mi) * 60 + s) * 1000000 + us

/-- the amount as the caller means it -/
def amount (h mi s us : Int) : Int := totalUs 0 h mi s us

def ofFields (h mi s us : Int) : Int := ((h * 60 + mi) * 60 + s) * 1000000 + us
def fields (t : Int) : Int × Int × Int × Int :=
  (t / 3600000000, t / 60000000 % 60, t / 1000000 % 60, t % 1000000)

/-- proleptic ordinal of 1970-01-01 and of 9999-12-31 (`date.max`) -/
def epochOrd : Int := 719163
def maxOrd : Int := 3652059

/-- `Time.add(hours, minutes, seconds, microseconds)` -/
def add (t h mi s us : Int) : Except Kind Int :=
  let (d', h', mi', s', us') := normTime h mi s us
  let sum := t + totalUs d' h' mi' s' us'
  let ord := epochOrd + sum / DAY
  if ord < 1 ∨ ord > maxOrd then .error .overflowError else .ok (sum % DAY)

/-- `Time.subtract` = `DateTime.subtract` = `add` of the negated components -/
def subtract (t h mi s us : Int) : Except Kind Int := add t (-h) (-mi) (-s) (-us)

/-- a `timedelta` in its normalised representation (`days`, `0 ≤ seconds < 86400`, `0 ≤ microseconds < 10^6`) -/
structure TD where
  days : Int
  seconds : Int
  micros : Int

def TD.ofUs (x : Int) : TD := ⟨x / DAY, x % DAY / 1000000, x % 1000000⟩
def TD.us (d : TD) : Int := d.days * DAY + d.seconds * 1000000 + d.micros

/-- `add_timedelta` / `__add__` -/
def addTd (t : Int) (d : TD) : Except Kind Int :=
  if d.days ≠ 0 then .error .typeError else add t 0 0 d.seconds d.micros

/-- `subtract_timedelta` / `__sub__` with a timedelta -/
def subTd (t : Int) (d : TD) : Except Kind Int :=
  if d.days ≠ 0 then .error .typeError else subtract t 0 0 d.seconds d.micros

/-- `self.diff(dt, abs)`: microseconds of the returned Duration
    (`Duration(microseconds=us2 - us1)`, `AbsoluteDuration` reports `abs(total)`) -/
def diff (self dt : Int) (abs : Bool) : Int :=
  let (h1, m1, s1, u1) := fields self
  let (h2, m2, s2, u2) := fields dt
  let us1 := (h1 * 3600 + m1 * 60 + s1) * 1000000 + u1
  let us2 := (h2 * 3600 + m2 * 60 + s2) * 1000000 + u2
  if abs then absI (us2 - us1) else us2 - us1

/-- `a - b` for two times (`__sub__`: `other.diff(self, False)`) and `__rsub__` (`other.__sub__(self)`) -/
def sub (a b : Int) : Int := diff b a false
def rsub (self other : Int) : Int := sub other self

def closest (self a b : Int) : Int := if diff self a true < diff self b true then a else b
def farthest (self a b : Int) : Int := if diff self a true > diff self b true then a else b

end Pendulum.TimeOfDay
