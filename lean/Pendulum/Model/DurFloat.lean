import Pendulum.Model.Dur
/-! # Float-faithful model of the double-precision pipeline in `duration.py`

`Pendulum.Dur` (Model/Dur.lean) is the exact-integer model the theorems are about.  This file models the same
code *with* its IEEE-754 binary64 roundings, using exact dyadic rationals `p/q` and `Dur.trueDiv` (round to
nearest, ties to even) as the only rounding primitive:

* `timedelta.total_seconds()` = correctly rounded `µs / 10^6`;
* float `+`, `-`, `*` = exact result rounded once;
* float `%` by ±1 with an operand of the same sign, `int()`, `round()` = exact;
* `timedelta(seconds=<float>)` = CPython's `accum`: integer part × 10^6 + round-half-even of
  (fraction × 10^6, itself rounded once).

It is used (a) by the driver to answer requests *outside* the float-exact range, so the correspondence run
covers the whole input space, and (b) for the Lean counterexamples of the known findings F17/F18.
Exponent range/subnormals are not modelled (|values| < 2^70). -/
namespace Pendulum.Dur.Fl

/-- a finite double as an exact ratio `p/q`, `q > 0` -/
abbrev F := Int × Int

/-- round an exact ratio to the nearest double -/
def rnd (p q : Int) : F := if q < 0 then trueDiv (-p) (-q) else trueDiv p q
def ofInt (n : Int) : F := rnd n 1
def add (a b : F) : F := rnd (a.1 * b.2 + b.1 * a.2) (a.2 * b.2)
def sub (a b : F) : F := rnd (a.1 * b.2 - b.1 * a.2) (a.2 * b.2)
def mul (a b : F) : F := rnd (a.1 * b.1) (a.2 * b.2)
def isNeg (a : F) : Bool := decide (a.1 < 0)
/-- `int(x)` -/
def trunc (a : F) : Int := Int.tdiv a.1 a.2
/-- `x % m` for `m = ±1` and `x` of the sign of `m` (or zero): exact -/
def modUnit (a : F) (m : Int) : F := (Int.fmod a.1 (m * a.2), a.2)
/-- `round(x)`: nearest integer, ties to even, exact on the double -/
def round (a : F) : Int := Td.divNear a.1 a.2

/-- `timedelta.total_seconds()` of a native value -/
def totalSeconds (n : Int) : F := rnd n 1000000

/-- `timedelta(seconds=x)` for a float `x`, as a µs count -/
def tdOfSeconds (x : F) : Int :=
  let ip := trunc x
  let frac : F := (x.1 - ip * x.2, x.2)                  -- modf: exact
  let pr := mul frac (ofInt 1000000)                     -- dnum *= fracpart
  Td.divNear (ip * 1000000 * pr.2 + pr.1) pr.2           -- whole part + round-half-even of the leftover

/-- the shadow breakdown of `Duration.__new__` from the native value and the years/months day count -/
def shadowOf (native ym : Int) : Int × Int × Int × Int × Int × F :=
  let total := sub (totalSeconds native) (ofInt (ym * 86400))
  let m : Int := if isNeg total then -1 else 1
  let micros := round (mul (modUnit total m) (ofInt 1000000))
  let it := absI (trunc total)
  let seconds := it % 86400 * m
  let days := it / 86400 * m
  (micros, seconds, days, absI days / 7 * m, absI days % 7 * m, total)

/-- `Duration.__new__` for integer arguments -/
def mk (a : Args) : D × F :=
  let ym := a.y * 365 + a.mo * 30
  let native := Td.ofArgs (a.d + ym) a.s a.us a.ms a.mi a.h a.w
  let (micros, seconds, days, weeks, rdays, total) := shadowOf native ym
  ({ native := native, total := 0, years := a.y, months := a.mo, weeks := weeks, days := days, rdays := rdays,
     seconds := seconds, micros := micros }, total)

/-- `Duration(seconds=x)` for a float `x` -/
def ofSeconds (x : F) : D × F :=
  let native := tdOfSeconds x
  let (micros, seconds, days, weeks, rdays, total) := shadowOf native 0
  ({ native := native, total := 0, years := 0, months := 0, weeks := weeks, days := days, rdays := rdays,
     seconds := seconds, micros := micros }, total)

def ofUs (n : Int) : D := (mk { us := n }).1

/-- `__add__`/`__sub__`: `Duration(seconds=self.total_seconds() ± other.total_seconds())` -/
def addF (d : D) (o : Int) : D := (ofSeconds (add (totalSeconds d.native) (totalSeconds o))).1
def subF (d : D) (o : Int) : D := (ofSeconds (sub (totalSeconds d.native) (totalSeconds o))).1

/-- `__mul__` by an int: `Duration(years=…, months=…, seconds=self._total * other)` -/
def mulIntF (d : D × F) (k : Int) : D :=
  let y := d.1.years * k
  let mo := d.1.months * k
  let ym := y * 365 + mo * 30
  -- timedelta.__new__(cls, days=ym, seconds=<float>)
  let native := ym * 86400000000 + tdOfSeconds (mul d.2 (ofInt k))
  let (micros, seconds, days, weeks, rdays, _) := shadowOf native ym
  { native := native, total := 0, years := y, months := mo, weeks := weeks, days := days, rdays := rdays,
    seconds := seconds, micros := micros }

/-- `__neg__` -/
def negF (d : D) : D :=
  (mk { y := -d.years, mo := -d.months, w := -d.weeks, d := -d.rdays, s := -d.seconds, us := -d.micros }).1

/-- `AbsoluteDuration.__new__` -/
def mkAbs (a : Args) : AD :=
  let t := a.part
  let tot := totalSeconds t
  let total : F := (absI tot.1, tot.2)
  let micros := round (mul (modUnit total 1) (ofInt 1000000))
  let it := trunc total
  let days := it / 86400
  { native := t, total := t, years := absI a.y, months := absI a.mo, weeks := days / 7, rdays := days % 7,
    days := absI (days + a.y * 365 + a.mo * 30), seconds := it % 86400, micros := micros }

end Pendulum.Dur.Fl
