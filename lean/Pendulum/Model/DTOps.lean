import Pendulum.Model.Zone
import Pendulum.Model.AddDur
/-! DateTime values and the zone-aware operations of `datetime.py` / `tz/timezone.py` / `__init__.py`.
A value is (zone reference, wall µs, fold). A zone reference is a named IANA zone (resolved to its
table), a `FixedTimezone` offset, or naive. -/
namespace Pendulum.DTOps
open Pendulum Pendulum.Zone Pendulum.AddDur

inductive ZRef
  | named (z : Z)
  | fixed (off : Int)
  | naive

structure V where
  z : ZRef
  w : Int
  fold : Bool

inductive Err | nonExisting | ambiguous | valueError | overflow
deriving DecidableEq, Repr

def Err.name : Err → String
  | .nonExisting => "NonExistingTime" | .ambiguous => "AmbiguousTime"
  | .valueError => "ValueError" | .overflow => "OverflowError"

/-- a `FixedTimezone` seen as a zone table without transitions -/
def fixedZ (off : Int) : Z := ⟨off, []⟩

def ZRef.table : ZRef → Option Z
  | .named z => some z
  | .fixed off => some (fixedZ off)
  | .naive => none

/-- `utcoffset()` of a value (0 for naive, as the code treats `None`) -/
def V.offset (v : V) : Int :=
  match v.z.table with
  | some z => z.woff v.fold v.w
  | none => 0

def V.instant (v : V) : Int := v.w - v.offset

def inRange (w : Int) : Bool := decide (minWall ≤ w) && decide (w ≤ maxWall)

/-- `DateTime.create` / `Timezone.convert(naive)` / `FixedTimezone.convert(naive)` -/
def create (z : ZRef) (w : Int) (fold raise : Bool) : Except Err V :=
  match z with
  | .naive => .ok ⟨.naive, w, fold⟩
  | .fixed off => .ok ⟨.fixed off, w, false⟩
  | .named zt =>
    match convertNaive zt ⟨w, fold⟩ raise with
    | .error .nonExisting => .error .nonExisting
    | .error .ambiguous => .error .ambiguous
    | .ok l => if inRange l.w then .ok ⟨z, l.w, l.fold⟩ else .error .overflow

/-- `Timezone.convert` applied to a *pendulum* naive DateTime: same normalisation, but the shift out of a gap
    goes through pendulum's own `+` (whose naive result carries the constructor's default fold=1) and the final
    `replace(tzinfo=…)` re-creates that value — so a moved value reports fold=1 instead of 0 -/
def createFromPendulumNaive (z : ZRef) (w : Int) (fold raise : Bool) : Except Err V :=
  match z, create z w fold raise with
  | .named zt, .ok v => if zt.woff true w > zt.woff false w then .ok { v with fold := true } else .ok v
  | _, r => r

/-- `DateTime.instance` of an aware native value whose own UTC offset is `srcOff`: the wall time is
    re-created in the pendulum zone with the source's fold, except that the other occurrence is chosen
    when only it has the source's offset (tzinfo implementations that ignore `fold`, e.g. pytz) -/
def instanceAware (z : ZRef) (w : Int) (fold : Bool) (srcOff : Int) : Except Err V :=
  match z.table with
  | none => create z w fold false
  | some zt =>
    let f' := if zt.woff fold w ≠ srcOff ∧ zt.woff (!fold) w = srcOff then !fold else fold
    create z w f' false

/-- `in_timezone` / `astimezone` / `Timezone.convert(aware)`; `same` = the target is the very tzinfo
    object the value already carries (CPython's `astimezone` returns the value unchanged) -/
def inTz (v : V) (target : ZRef) (same : Bool) : Except Err V :=
  if same then .ok v else
  match v.z with
  | .naive => create target v.w true false      -- `in_timezone` of a naive value: normalised as wall time, fold=1
  | _ =>
  match target.table with
  | none => .error .valueError
  | some zt =>
    let u := v.instant
    let l := fromUtc zt u
    if inRange l.w then
      .ok ⟨target, l.w, match target with | .fixed _ => false | _ => l.fold⟩
    else .error .overflow

/-- `DateTime.add` (datetime.py:560-642) -/
def add (v : V) (years months weeks days hours minutes seconds micros : Int) : Except Err V :=
  let varlen := years ≠ 0 ∨ months ≠ 0 ∨ weeks ≠ 0 ∨ days ≠ 0
  let cur := if varlen then v.w else v.w - v.offset
  match addDuration cur years months weeks days hours minutes seconds micros with
  | .error .valueError => .error .valueError
  | .error .overflow => .error .overflow
  | .ok dt =>
    if varlen then create v.z dt true false
    else match v.z with
      | .naive => .ok ⟨.naive, dt, true⟩
      | .fixed off =>
        if inRange (dt + off) then .ok ⟨.fixed off, dt + off, false⟩ else .error .overflow
      | .named zt =>
        let l := fromUtc zt dt
        if inRange l.w then .ok ⟨v.z, l.w, l.fold⟩ else .error .overflow

/-- `DateTime.add` including the range limit of its intermediate value: with fixed-length units only, the code first
    forms `current_dt - offset` with native datetime arithmetic, which raises OverflowError when the UTC reading of the
    start leaves years 1..9999 (first/last hours of the representable range) -/
def addChecked (v : V) (years months weeks days hours minutes seconds micros : Int) : Except Err V :=
  if years = 0 ∧ months = 0 ∧ weeks = 0 ∧ days = 0 ∧ inRange (v.w - v.offset) = false then .error .overflow
  else add v years months weeks days hours minutes seconds micros

end Pendulum.DTOps
