/-! # Exact-microsecond model of `pendulum.duration` (duration.py) and of the native `timedelta` it wraps

Every length is an `Int` number of microseconds.  The float pipeline of `Duration.__new__`
(`total_seconds()` as an IEEE double) is modelled by the exact rational value it approximates; the bridge
"on the float-exact range the code computes exactly this" is an assumption validated by the
correspondence run (harness/props/c09.py, c10.py), not a theorem.  No Mathlib here (the driver links this). -/
namespace Pendulum.Dur

/-- `Duration._sign` / the `m = -1 if total < 0` trick -/
def sgn (x : Int) : Int := if x < 0 then -1 else 1
/-- `abs()` -/
def absI (x : Int) : Int := if x < 0 then -x else x

def US : Int := 1000000
def DAYUS : Int := 86400000000

/-! ## native `timedelta` (integer arguments): exact integer arithmetic, reference semantics -/
namespace Td

/-- `timedelta(days, seconds, microseconds, milliseconds, minutes, hours, weeks)` for integer arguments,
    as one microsecond count (CPython accumulates exactly for ints) -/
def ofArgs (days s us ms mi h w : Int) : Int :=
  ((((w * 7 + days) * 24 + h) * 60 + mi) * 60 + s) * 1000000 + ms * 1000 + us

/-- the normalised slots `(days, seconds, microseconds)` with `0 ≤ seconds < 86400`, `0 ≤ microseconds < 10^6` -/
def days (n : Int) : Int := n / 86400000000
def seconds (n : Int) : Int := n % 86400000000 / 1000000
def micros (n : Int) : Int := n % 1000000

/-- Python `//` and `%` on integers (floor division; the remainder takes the sign of the divisor) -/
def floordiv (a b : Int) : Int := Int.fdiv a b
def pymod (a b : Int) : Int := Int.fmod a b

/-- `_PyLong_DivmodNear` / `divide_nearest`: nearest integer to `a / b`, ties to even — the reference
    formulation (quotient `q` of the floor division, remainder compared with half the divisor) -/
def divNear (a b : Int) : Int :=
  let q := Int.fdiv a b
  let r := Int.fmod a b
  let twice := 2 * r
  let gt := if b > 0 then decide (twice > b) else decide (twice < b)
  if gt || (twice == b && q % 2 == 1) then q + 1 else q

def neg (a : Int) : Int := -a
def abs (a : Int) : Int := if a / 86400000000 < 0 then -a else a     -- `if self._days < 0: -self else +self`
def add (a b : Int) : Int := a + b
def sub (a b : Int) : Int := a - b
def mulInt (a k : Int) : Int := a * k
/-- `timedelta * float`: `divide_nearest(us * p, q)` with `(p, q) = f.as_integer_ratio()` -/
def mulFloat (a p q : Int) : Int := divNear (a * p) q
def truedivInt (a k : Int) : Int := divNear a k
/-- `timedelta / float`: `divide_nearest(us * q, p)` -/
def truedivFloat (a p q : Int) : Int := divNear (a * q) p
def floordivInt (a k : Int) : Int := floordiv a k
def floordivTd (a b : Int) : Int := floordiv a b
def modTd (a b : Int) : Int := pymod a b

end Td

/-! ## correctly rounded `int / int` (CPython `long_true_divide`) as an exact dyadic rational -/

/-- strip common factors of two -/
def reduce2 : Nat → Int → Int → Int × Int
  | 0, p, q => (p, q)
  | f + 1, p, q => if p % 2 == 0 && q % 2 == 0 && q > 1 then reduce2 f (p / 2) (q / 2) else (p, q)

/-- nearest binary64 to `a / b` (ties to even), returned as the reduced ratio `float.as_integer_ratio()`
    would give.  Exponent range is not modelled (|a|,|b| < 2^900 is far inside it). -/
def trueDiv (a b : Int) : Int × Int :=
  if a == 0 then (0, 1) else
  let s : Int := if (a < 0) != (b < 0) then -1 else 1
  let n := a.natAbs
  let d := b.natAbs
  let e0 : Int := (Nat.log2 n : Int) - (Nat.log2 d : Int) - 53
  let scale (e : Int) : Nat × Nat := if e ≥ 0 then (n, d * 2 ^ e.toNat) else (n * 2 ^ (-e).toNat, d)
  let pick (e : Int) : Bool := let (x, y) := scale e; decide (x / y < 2 ^ 53)
  let e := if pick e0 then e0 else if pick (e0 + 1) then e0 + 1 else e0 + 2
  let (x, y) := scale e
  let m := Td.divNear (x : Int) (y : Int)
  if e ≥ 0 then (s * m * 2 ^ e.toNat, 1) else
    let (p, q) := reduce2 1200 m (2 ^ (-e).toNat)
    (s * p, q)

/-! ## `Duration` -/

/-- keyword arguments of `Duration(...)`, all integers -/
structure Args where
  y : Int := 0
  mo : Int := 0
  w : Int := 0
  d : Int := 0
  h : Int := 0
  mi : Int := 0
  s : Int := 0
  ms : Int := 0
  us : Int := 0
deriving Repr, DecidableEq

/-- the part of the arguments that excludes years and months, in µs -/
def Args.part (a : Args) : Int := Td.ofArgs a.d a.s a.us a.ms a.mi a.h a.w

/-- what a `Duration` instance carries: the native timedelta value and the shadow breakdown -/
structure D where
  native : Int      -- native slots (days, seconds, microseconds) as one µs count
  total : Int       -- `_total` (µs; a float number of seconds in the code)
  years : Int
  months : Int
  weeks : Int
  days : Int        -- `_days`
  rdays : Int       -- `_remaining_days`
  seconds : Int     -- `_seconds`
  micros : Int      -- `_microseconds`
deriving Repr, DecidableEq

/-- `Duration.__new__` (duration.py:71-126) -/
def mk (a : Args) : D :=
  let ym := a.y * 365 + a.mo * 30
  -- timedelta.__new__(cls, days + years*365 + months*30, seconds, microseconds, milliseconds, minutes, hours, weeks)
  let native := Td.ofArgs (a.d + ym) a.s a.us a.ms a.mi a.h a.w
  -- total = self.total_seconds() - (years*365 + months*30) * SECONDS_PER_DAY
  let total := native - ym * 86400 * 1000000
  let m : Int := if total < 0 then -1 else 1
  -- round(total % m * 1e6)
  let micros := Int.fmod total (m * 1000000)
  -- abs(int(total))
  let it := absI (Int.tdiv total 1000000)
  let seconds := it % 86400 * m
  let days := it / 86400 * m
  { native := native, total := total, years := a.y, months := a.mo,
    weeks := absI days / 7 * m, days := days, rdays := absI days % 7 * m,
    seconds := seconds, micros := micros }

def hours (d : D) : Int :=
  if absI d.seconds ≥ 3600 then (absI d.seconds / 3600 % 24) * sgn d.seconds else 0
def minutes (d : D) : Int :=
  if absI d.seconds ≥ 60 then (absI d.seconds / 60 % 60) * sgn d.seconds else 0
def remainingSeconds (d : D) : Int := absI d.seconds % 60 * sgn d.seconds
/-- `total_seconds() < 0` (the native value, years and months included) -/
def invert (d : D) : Bool := decide (d.native < 0)

/-- `in_*()` = `int(total_*())`: truncation toward zero of the native length -/
def inSeconds (d : D) : Int := Int.tdiv d.native 1000000
def inMinutes (d : D) : Int := Int.tdiv d.native 60000000
def inHours (d : D) : Int := Int.tdiv d.native 3600000000
def inDays (d : D) : Int := Int.tdiv d.native 86400000000
def inWeeks (d : D) : Int := Int.tdiv d.native 604800000000

/-- the public components as constructor arguments (what "rebuilding from its own components" passes) -/
def comps (d : D) : Args :=
  { y := d.years, mo := d.months, w := d.weeks, d := d.rdays, h := hours d, mi := minutes d,
    s := remainingSeconds d, us := d.micros }

/-- the length denoted by the six public components weeks, remaining_days, hours, minutes, remaining_seconds,
    microseconds -/
def compTotal (d : D) : Int :=
  ((((d.weeks * 7 + d.rdays) * 24 + hours d) * 60 + minutes d) * 60 + remainingSeconds d) * 1000000 + d.micros

/-- `_to_microseconds` (duration.py:356): shadow slots only — years and months are not in it -/
def toUs (d : D) : Int := (d.days * (24 * 3600) + d.seconds) * 1000000 + d.micros

/-- `Duration(days=td.days, seconds=td.seconds, microseconds=td.microseconds)` of a native value -/
def ofNative (n : Int) : D := mk { d := Td.days n, s := Td.seconds n, us := Td.micros n }
/-- `Duration(0, 0, us)` -/
def ofUs (n : Int) : D := mk { us := n }

/-! ## operators (duration.py:332-461) -/

/-- `__neg__` -/
def neg (d : D) : D :=
  mk { y := -d.years, mo := -d.months, w := -d.weeks, d := -d.rdays, s := -d.seconds, us := -d.micros }

/-- `__add__`/`__radd__` with any timedelta (its native value `o`): the native sum, rebuilt as a Duration -/
def add (d : D) (o : Int) : D := ofNative (Td.add d.native o)
def sub (d : D) (o : Int) : D := ofNative (Td.sub d.native o)

/-- `__mul__`/`__rmul__` by an int -/
def mulInt (d : D) (k : Int) : D := mk { y := d.years * k, mo := d.months * k, us := d.total * k }
/-- `__mul__` by a float `p/q` (`as_integer_ratio`) -/
def mulFloat (d : D) (p q : Int) : D := ofUs (Td.divNear (toUs d * p) q)
/-- `__floordiv__` by an int -/
def floordivInt (d : D) (k : Int) : D :=
  mk { us := Int.fdiv (toUs d) k, y := Int.fdiv d.years k, mo := Int.fdiv d.months k }
/-- `__truediv__` by an int -/
def truedivInt (d : D) (k : Int) : D :=
  mk { us := Td.divNear (toUs d) k, y := Td.divNear d.years k, mo := Td.divNear d.months k }
/-- `__truediv__` by a float `p/q`; the months argument goes through float `divmod` in the code and is
    modelled only for `months = 0` (where it is 0) -/
def truedivFloat (d : D) (p q : Int) : D :=
  mk { us := Td.divNear (q * toUs d) p, y := Td.divNear (d.years * q) p, mo := 0 }

/-- `_to_microseconds` of the other operand: a Duration's shadow slots, a plain timedelta's native slots -/
inductive Other where
  | dur (d : D)
  | td (n : Int)

def Other.us : Other → Int
  | .dur d => toUs d
  | .td n => n

def Other.native : Other → Int
  | .dur d => d.native
  | .td n => n

def floordivDur (d : D) (o : Other) : Int := Int.fdiv (toUs d) o.us
def truedivDur (d : D) (o : Other) : Int × Int := trueDiv (toUs d) o.us
def modDur (d : D) (o : Other) : D := ofUs (Int.fmod (toUs d) o.us)
def divmodDur (d : D) (o : Other) : Int × D := (Int.fdiv (toUs d) o.us, ofUs (Int.fmod (toUs d) o.us))

/-- `abs()` is inherited from timedelta (C slot `delta_abs`): a *plain* timedelta, the negated native slots when
    the native days are negative, the same slots otherwise; `Duration.__neg__` is not involved -/
def absNative (d : D) : Int := Td.abs d.native

/-- `==`, `<` and `hash` are inherited from timedelta: they read the native slots only -/
def eqNative (d : D) (o : Other) : Bool := decide (d.native = o.native)
def ltNative (d : D) (o : Other) : Bool := decide (d.native < o.native)

/-! ## result types -/

inductive Ty where
  | timedelta | duration | int | float | intDuration
deriving DecidableEq, Repr

inductive Op where
  | neg | abs | add | sub | mul | truediv | floordiv | mod | divmod
deriving DecidableEq, Repr

inductive Kind where
  | duration | timedelta | int | float | none
deriving DecidableEq, Repr

/-- type of `L op R` when it is defined, with a Duration on at least one side -/
def resultTy : Kind → Op → Kind → Option Ty
  | .duration, .neg, .none => some .duration
  | .duration, .abs, .none => some .timedelta       -- base-class slot, never a Duration
  | .duration, .add, .duration | .duration, .add, .timedelta => some .duration
  | .duration, .sub, .duration | .duration, .sub, .timedelta => some .duration
  | .duration, .mul, .int | .duration, .mul, .float => some .duration
  | .duration, .truediv, .int | .duration, .truediv, .float => some .duration
  | .duration, .floordiv, .int => some .duration
  | .duration, .floordiv, .duration | .duration, .floordiv, .timedelta => some .int
  | .duration, .truediv, .duration | .duration, .truediv, .timedelta => some .float
  | .duration, .mod, .duration | .duration, .mod, .timedelta => some .duration
  | .duration, .divmod, .duration | .duration, .divmod, .timedelta => some .intDuration
  | .timedelta, .add, .duration => some .duration    -- `__radd__`
  | .int, .mul, .duration | .float, .mul, .duration => some .duration   -- `__rmul__`
  | .timedelta, .sub, .duration => some .timedelta   -- base class `__rsub__`
  | .timedelta, .floordiv, .duration => some .int
  | .timedelta, .truediv, .duration => some .float
  | .timedelta, .mod, .duration => some .timedelta
  | .timedelta, .divmod, .duration => some .timedelta  -- (int, timedelta)
  | _, _, _ => none

/-! ## `AbsoluteDuration` (duration.py:482-533) -/

structure AD where
  native : Int      -- timedelta.__new__(cls, days, seconds, …) — signed, years/months not included
  total : Int       -- `_total` (signed)
  years : Int
  months : Int
  weeks : Int
  days : Int
  rdays : Int
  seconds : Int
  micros : Int
deriving Repr, DecidableEq

def mkAbs (a : Args) : AD :=
  let t := a.part
  let total := absI t
  let micros := total % 1000000                 -- round(total % 1 * 1e6)
  let it := total / 1000000                     -- int(total)
  let days := it / 86400                        -- divmod(int(total), SECONDS_PER_DAY)
  { native := t, total := t, years := absI a.y, months := absI a.mo,
    weeks := days / 7, rdays := days % 7,       -- divmod(days, 7)
    days := absI (days + a.y * 365 + a.mo * 30),
    seconds := it % 86400, micros := micros }

def AD.asD (x : AD) : D :=
  { native := absI x.total, total := absI x.total, years := x.years, months := x.months, weeks := x.weeks,
    days := x.days, rdays := x.rdays, seconds := x.seconds, micros := x.micros }

/-- `AbsoluteDuration.invert`: `_total < 0` -/
def AD.invert (x : AD) : Bool := decide (x.total < 0)

end Pendulum.Dur
