import Pendulum.Model.DTOps
/-! Model of what `pickle` / `copy.copy` / `copy.deepcopy` do to a pendulum value (property C14).

The pickle/copy *machinery* is not modelled (DESIGN §5): it is taken to be "call `__reduce_ex__`
(resp. `__deepcopy__`), then call the returned constructor on the returned arguments (and restore the
returned state)". What is modelled is what each pendulum type hands to that machinery and what its
constructor rebuilds from it:

* `DateTime._getstate/__reduce_ex__/__deepcopy__`           (datetime.py)
* `Duration.__new__` (component bookkeeping), `__reduce__`, `__deepcopy__` (duration.py)
* `Interval.__new__/__init__` (swap, invert, length), `_getstate`, `__deepcopy__` (interval.py)
* `Time._get_state/__reduce_ex__`                            (time.py)
* `FixedTimezone.__init__/__getinitargs__`, `Timezone` through `ZoneInfo._unpickle` (tz/timezone.py)

Strings are lists of code points (the wire format). Offsets and wall values are microseconds. -/
namespace Pendulum.Pickle
open Pendulum Pendulum.Zone Pendulum.DTOps

abbrev Str := List Nat

/-! ### tzinfo objects -/

/-- a tzinfo value. `named`/`fixed` are pendulum's `Timezone`/`FixedTimezone`; `zinfo`/`ntz` are the
    foreign `zoneinfo.ZoneInfo` / `datetime.timezone` a DateTime can also carry (class constructor, `astimezone`) -/
inductive Tz
  | named (name : Str) (z : Z)
  | fixed (offS : Int) (name : Str)
  | zinfo (name : Str) (z : Z)
  | ntz (offUs : Int)

def digit2 (n : Int) : Str :=
  let ds := (Nat.toDigits 10 n.toNat).map Char.toNat
  if ds.length < 2 then 48 :: ds else ds

/-- `FixedTimezone.__init__`'s default name: sign, `divmod(abs(int(offset / 60)), 60)` as `HH:MM` -/
def defaultName (offS : Int) : Str :=
  let sign : Nat := if offS < 0 then 45 else 43
  let mins := (if offS < 0 then -offS else offS) / 60
  sign :: (digit2 (mins / 60) ++ 58 :: digit2 (mins % 60))

/-- `FixedTimezone(offset, name)`: `if not name: name = default` -/
def mkFixed (offS : Int) (name : Str) : Tz :=
  .fixed offS (match name with | [] => defaultName offS | _ => name)

/-- values the constructors produce: a FixedTimezone's name is never empty -/
def Tz.wf : Tz → Prop
  | .fixed _ n => n ≠ []
  | _ => True

/-- what the pickle machinery receives for a tzinfo: `ZoneInfo.__reduce__` = `(_unpickle, (key, from_cache))`;
    `tzinfo.__reduce__` = `(cls, __getinitargs__(), __dict__)` — for a `FixedTimezone` the constructor runs on
    `(offset, name)` and then the instance dict (`_offset`, `_name`, `_utcoffset`) is restored on top of it;
    `datetime.timezone.__getinitargs__` = `(offset,)` -/
inductive TzArgs
  | key (pendulumClass : Bool) (name : Str) (z : Z)   -- the table `z` is what the key resolves to (tz database)
  | init (offS : Int) (name : Str) (stOff : Int) (stName : Str)
  | ninit (offUs : Int)

def reduceTz : Tz → TzArgs
  | .named n z => .key true n z
  | .zinfo n z => .key false n z
  | .fixed o n => .init o n o n
  | .ntz o => .ninit o

/-- `obj = cls(*args); obj.__dict__.update(state)` -/
def setState (t : Tz) (stOff : Int) (stName : Str) : Tz :=
  match t with
  | .fixed _ _ => .fixed stOff stName
  | t => t

def rebuildTz : TzArgs → Tz
  | .key true n z => .named n z
  | .key false n z => .zinfo n z
  | .init o n so sn => setState (mkFixed o n) so sn
  | .ninit o => .ntz o

def Tz.zref : Tz → ZRef
  | .named _ z => .named z
  | .zinfo _ z => .named z
  | .fixed o _ => .fixed (o * 1000000)
  | .ntz o => .fixed o

/-- public face of a tzinfo: class, name (`.name` / `.key`), fixed offset -/
structure TzObs where
  kind : Nat
  name : Str
  fixedOff : Option Int
deriving DecidableEq, Repr

def Tz.obs : Tz → TzObs
  | .named n _ => ⟨1, n, none⟩
  | .fixed o n => ⟨2, n, some (o * 1000000)⟩
  | .zinfo n _ => ⟨3, n, none⟩
  | .ntz o => ⟨4, [], some o⟩

def tzObs : Option Tz → TzObs
  | none => ⟨0, [], none⟩
  | some t => t.obs

/-! ### DateTime -/

structure DT where
  tz : Option Tz
  w : Int
  fold : Bool

def DT.toV (v : DT) : V := ⟨match v.tz with | none => .naive | some t => t.zref, v.w, v.fold⟩
def DT.offset (v : DT) : Int := v.toV.offset
def DT.instant (v : DT) : Int := v.w - v.offset

/-- does the fold bit select the offset (wall time repeated — or skipped — in the zone)? -/
def DT.foldMatters (v : DT) : Bool :=
  match v.tz with
  | some (.named _ z) => z.woff false v.w != z.woff true v.w
  | some (.zinfo _ z) => z.woff false v.w != z.woff true v.w
  | _ => false

structure DTObs where
  w : Int
  offset : Int
  instant : Int
  foldSel : Option Bool      -- the fold bit, only where it selects the instant
  tz : TzObs
deriving DecidableEq, Repr

def DT.obs (v : DT) : DTObs :=
  ⟨v.w, v.offset, v.instant, if v.foldMatters then some v.fold else none, tzObs v.tz⟩

/-- the callable `__reduce_ex__` returns: the class itself, or `_rebuild_with_fold` -/
inductive DTCtor | cls | rebuildWithFold
deriving DecidableEq, Repr

structure DTArgs where
  w : Int                -- `_getstate`: year … microsecond
  tz : Option Tz         -- … and tzinfo

def reduceDT (v : DT) : DTCtor × DTArgs :=
  (if v.fold then .rebuildWithFold else .cls, ⟨v.w, v.tz⟩)

/-- `cls(*state)` (fold defaults to 0) / `cls(*state, fold=1)` -/
def rebuildDT : DTCtor × DTArgs → DT
  | (.cls, a) => ⟨a.tz, a.w, false⟩
  | (.rebuildWithFold, a) => ⟨a.tz, a.w, true⟩

/-- `copy.copy`: `copyreg`'s `__reduce_ex__(4)` then `callable(*args)`; nothing is copied recursively -/
def copyDT (v : DT) : DT := rebuildDT (reduceDT v)

/-- the reduce path before the repair (datetime.py as pinned): fold is not carried -/
def reduceDT_old (v : DT) : DTCtor × DTArgs := (.cls, ⟨v.w, v.tz⟩)

/-- `__deepcopy__`: class constructor on the fields with `tzinfo=self.tzinfo, fold=self.fold` -/
def deepcopyDT (v : DT) : DT := ⟨v.tz, v.w, v.fold⟩

/-- pickling proper also sends the tzinfo through its own reduce/rebuild -/
def pickleDT (v : DT) : DT :=
  let (c, a) := reduceDT v
  rebuildDT (c, ⟨a.w, a.tz.map fun t => rebuildTz (reduceTz t)⟩)

/-! ### Duration (integer arguments; the float bridge is C09's) -/

def absI (x : Int) : Int := if x < 0 then -x else x
/-- `Duration._sign`: −1 for negative, 1 otherwise -/
def sgn (x : Int) : Int := if x < 0 then -1 else 1

def US : Int := 1000000
def DAYS : Int := 86400

/-- the `timedelta` base triple (days, seconds, microseconds), normalised as `timedelta.__new__` does -/
structure Base where
  d : Int
  s : Int
  us : Int
deriving DecidableEq, Repr

def Base.total (b : Base) : Int := (b.d * 86400 + b.s) * 1000000 + b.us
def Base.ofTotal (t : Int) : Base := ⟨t / 86400000000, t % 86400000000 / 1000000, t % 1000000⟩

/-- attributes `Duration.__new__` sets (the instance `__dict__`) -/
structure DurState where
  total : Int          -- `_total` in µs (years/months excluded)
  years : Int
  months : Int
  weeks : Int
  days : Int           -- `_days`
  rdays : Int          -- `_remaining_days`
  seconds : Int        -- `_seconds`
  micros : Int         -- `_microseconds`
deriving DecidableEq, Repr

structure Dur where
  base : Base
  st : DurState
deriving DecidableEq, Repr

/-- total µs of integer constructor arguments -/
def argTotal (days seconds micros millis minutes hours weeks : Int) : Int :=
  ((days + weeks * 7) * 86400 + hours * 3600 + minutes * 60 + seconds) * 1000000 + millis * 1000 + micros

/-- `Duration.__new__`'s "intuitive normalisation" of `total` µs -/
def normState (t years months : Int) : DurState :=
  let m := sgn t
  let secs := absI t / 1000000           -- abs(int(total))
  let days := secs / 86400 * m
  { total := t, years := years, months := months,
    weeks := absI days / 7 * m, days := days, rdays := absI days % 7 * m,
    seconds := secs % 86400 * m, micros := absI t % 1000000 * m }

def Dur.new (days seconds micros millis minutes hours weeks years months : Int) : Dur :=
  let t := argTotal days seconds micros millis minutes hours weeks
  ⟨Base.ofTotal (t + (years * 365 + months * 30) * 86400000000), normState t years months⟩

def DurState.hours (s : DurState) : Int :=
  if absI s.seconds ≥ 3600 then absI s.seconds / 3600 % 24 * sgn s.seconds else 0
def DurState.minutes (s : DurState) : Int :=
  if absI s.seconds ≥ 60 then absI s.seconds / 60 % 60 * sgn s.seconds else 0
def DurState.rsecs (s : DurState) : Int := absI s.seconds % 60 * sgn s.seconds

/-- `invert`: `self.total_seconds() < 0` on the timedelta base -/
def Dur.invert (d : Dur) : Bool := decide (d.base.total < 0)

/-- `Duration.__reduce__`: `(*timedelta.__reduce__(self), self.__dict__)` -/
def reduceDur (d : Dur) : Base × DurState := (d.base, d.st)

/-- `cls(days, seconds, microseconds)` then `__dict__.update(state)` -/
def rebuildDur (r : Base × DurState) : Dur :=
  { (Dur.new r.1.d r.1.s r.1.us 0 0 0 0 0 0) with st := r.2 }

/-- the reduce path before the repair: `timedelta.__reduce__` alone -/
def rebuildDur_old (d : Dur) : Dur := Dur.new d.base.d d.base.s d.base.us 0 0 0 0 0 0

/-- `Duration.__deepcopy__` (with the `weeks` repair) -/
def deepcopyDur (d : Dur) : Dur :=
  Dur.new d.st.rdays d.st.rsecs d.st.micros 0 d.st.minutes d.st.hours d.st.weeks d.st.years d.st.months

/-- `Duration.__deepcopy__` as pinned: no `weeks` -/
def deepcopyDur_old (d : Dur) : Dur :=
  Dur.new d.st.rdays d.st.rsecs d.st.micros 0 d.st.minutes d.st.hours 0 d.st.years d.st.months

structure DurObs where
  years : Int
  months : Int
  weeks : Int
  rdays : Int
  hours : Int
  minutes : Int
  rsecs : Int
  micros : Int
  invert : Bool
  days : Int         -- `.days`, `.seconds`, `.microseconds` as `timedelta` sees them (==, hash, total_seconds)
  secs : Int
  us : Int
deriving DecidableEq, Repr

def Dur.obs (d : Dur) : DurObs :=
  ⟨d.st.years, d.st.months, d.st.weeks, d.st.rdays, d.st.hours, d.st.minutes, d.st.rsecs, d.st.micros,
   d.invert, d.base.d, d.base.s, d.base.us⟩

/-! ### AbsoluteDuration (what `Time.diff`/`closest` return; `duration.py`, class `AbsoluteDuration`)

The `timedelta` base keeps the *signed* total (years/months are not folded in), every pendulum attribute is the
absolute value, and the sign survives only in `_total` (read by `invert`). -/

/-- `AbsoluteDuration.__new__`'s attributes: `divmod(abs(total_us), 10**6)`, `divmod(total, 86400)`,
    `_days = abs(days + years*365 + months*30)`, `divmod(days, 7)`, `abs(months)`, `abs(years)` -/
def absState (t years months : Int) : DurState :=
  let secs := absI t / 1000000
  let days := secs / 86400
  { total := t, years := absI years, months := absI months,
    weeks := days / 7, days := absI (days + years * 365 + months * 30), rdays := days % 7,
    seconds := secs % 86400, micros := absI t % 1000000 }

def AbsDur.new (days seconds micros millis minutes hours weeks years months : Int) : Dur :=
  let t := argTotal days seconds micros millis minutes hours weeks
  ⟨Base.ofTotal t, absState t years months⟩

/-- `AbsoluteDuration.invert`: `self._total < 0` -/
def Dur.absInvert (d : Dur) : Bool := decide (d.st.total < 0)

/-- `cls(days, seconds, microseconds)` (here `AbsoluteDuration.__new__`) then `__dict__.update(state)`;
    `__reduce__` is inherited from `Duration` (= `reduceDur`) -/
def rebuildAbs (r : Base × DurState) : Dur :=
  { (AbsDur.new r.1.d r.1.s r.1.us 0 0 0 0 0 0) with st := r.2 }

/-- `AbsoluteDuration.__deepcopy__` = `copy.copy(self)` = the reduce path -/
def deepcopyAbs (d : Dur) : Dur := rebuildAbs (reduceDur d)

/-- before the repairs: `timedelta.__reduce__` alone (years/months lost, sign kept) … -/
def rebuildAbs_old (d : Dur) : Dur := AbsDur.new d.base.d d.base.s d.base.us 0 0 0 0 0 0

/-- … and the inherited `Duration.__deepcopy__`: the class on the (absolute) components — the sign is lost -/
def deepcopyAbs_old (d : Dur) : Dur :=
  AbsDur.new d.st.rdays d.st.rsecs d.st.micros 0 d.st.minutes d.st.hours d.st.weeks d.st.years d.st.months

def Dur.absObs (d : Dur) : DurObs :=
  ⟨d.st.years, d.st.months, d.st.weeks, d.st.rdays, d.st.hours, d.st.minutes, d.st.rsecs, d.st.micros,
   d.absInvert, d.base.d, d.base.s, d.base.us⟩

/-! ### Interval -/

/-- `datetime.__gt__`: same tzinfo object (or equal offsets) ⇒ wall clocks, else instants -/
def gtDT (same : Bool) (a b : DT) : Bool :=
  if same || a.offset == b.offset then decide (a.w > b.w) else decide (a.instant > b.instant)

structure Iv where
  start : DT
  stop : DT
  absolute : Bool
  invert : Bool
  len : Int            -- elapsed µs the `Duration` base is built from
  same : Bool          -- `start.tzinfo is end.tzinfo`

/-- `Interval.__new__` + `__init__` (Date endpoints are naive midnights here) -/
def mkIv (same : Bool) (s e : DT) (absolute : Bool) : Iv :=
  let gt := gtDT same s e
  let s' := if absolute && gt then e else s
  let e' := if absolute && gt then s else e
  ⟨s', e', absolute, gt, e'.instant - s'.instant, same⟩

/-- `Interval._getstate` -/
def reduceIv (i : Iv) : DT × DT × Bool :=
  if i.invert && i.absolute then (i.stop, i.start, i.absolute) else (i.start, i.stop, i.absolute)

/-- `cls(start, end, absolute)`; `f` is what happens to each endpoint on the way
    (identity for `copy`, `pickleDT` for pickle, `deepcopyDT` for deepcopy); object identity of the
    endpoints' tzinfo is preserved by all three (pickle memo / ZoneInfo cache / `__deepcopy__` passes the object) -/
def rebuildIv (f : DT → DT) (same : Bool) (r : DT × DT × Bool) : Iv := mkIv same (f r.1) (f r.2.1) r.2.2

structure IvObs where
  start : DTObs
  stop : DTObs
  absolute : Bool
  invert : Bool
  len : Int
deriving DecidableEq, Repr

def Iv.obs (i : Iv) : IvObs := ⟨i.start.obs, i.stop.obs, i.absolute, i.invert, i.len⟩

/-! ### Time, Date -/

structure TimeV where
  tod : Int            -- hour … microsecond as µs of the day
  tz : Option Tz
  fold : Bool

/-- `Time._get_state`: (hour, minute, second, microsecond, tzinfo) — `fold` is not carried -/
def reduceTime (t : TimeV) : Int × Option Tz := (t.tod, t.tz)
def rebuildTime (r : Int × Option Tz) : TimeV := ⟨r.1, r.2, false⟩
def pickleTime (t : TimeV) : TimeV :=
  let r := reduceTime t
  rebuildTime (r.1, r.2.map fun z => rebuildTz (reduceTz z))

/-- `Time` defines no `__deepcopy__`: `copy.deepcopy` takes `__reduce_ex__(4)`, deep-copies the argument tuple
    (the tzinfo through its own reduce/rebuild) and calls the class on it -/
def deepcopyTime (t : TimeV) : TimeV := pickleTime t

/-- a Time's fold never selects an offset (`utcoffset()` calls `tzinfo.utcoffset(None)`), so it is not observed -/
structure TimeObs where
  tod : Int
  tz : TzObs
deriving DecidableEq, Repr
def TimeV.obs (t : TimeV) : TimeObs := ⟨t.tod, tzObs t.tz⟩

/-- `date.__reduce__` = `(cls, (bytes([year // 256, year % 256, month, day]),))` -/
def reduceDate (y m d : Int) : List Int := [y / 256, y % 256, m, d]
def rebuildDate : List Int → Option (Int × Int × Int)
  | [hi, lo, m, d] => some (hi * 256 + lo, m, d)
  | _ => none

end Pendulum.Pickle
