import Pendulum.Model.Cal
import Pendulum.Model.FmtBase
import Pendulum.Gen.Helpers
import Pendulum.Gen.Format
import Pendulum.Gen.FormatLocales
/-! Hand model of `Formatter.format` (formatting/formatter.py:244-358) on top of the regenerated token
tables (`Gen.Format`) and locale tables (`Gen.FormatLocales`).

* the tokenizer follows `_FORMAT_RE.sub`: at every position the three alternatives of `_TOKENS` are tried in
  order — `\[([^\[]*)\]`, `\\(.)`, the token group (first alternative of `Gen.Format.tokenAlts`, which lists
  every string the group can match in the regex engine's priority order) — otherwise the character is copied;
* `formatToken` follows `_format_token` / `_format_localizable_token` (branch order included);
* derived fields of a value come from the reference calendar `Cal` and the generated `Date.day_of_year`. -/
namespace Pendulum.Fmt
open Pendulum

/-- a formatted value: wall-clock fields, utc offset (seconds), zone name and abbreviation -/
structure Val where
  y : Int
  mo : Int
  d : Int
  h : Int
  mi : Int
  s : Int
  us : Int
  off : Int
  zname : Str
  abbr : Str
  deriving Repr

/-- seconds since the epoch of the instant (`DateTime.int_timestamp`: `(dt - EPOCH).days*86400 + .seconds`) -/
def Val.timestamp (v : Val) : Int :=
  (Cal.ymd2ord v.y v.mo v.d - Cal.epochOrd) * 86400 + v.h * 3600 + v.mi * 60 + v.s - v.off

/-- the attributes the formatter reads, as pendulum computes them (date.py getters, datetime.py:235-290) -/
def Val.toDTF (v : Val) : DTF :=
  { year := v.y, month := v.mo, day := v.d, hour := v.h, minute := v.mi, second := v.s, microsecond := v.us,
    quarter := (v.mo + 2) / 3,
    day_of_year := Gen.date_day_of_year (Cal.isLeap v.y) v.mo v.d,
    day_of_week := Cal.isoweekday v.y v.mo v.d - 1,
    isoweekday := Cal.isoweekday v.y v.mo v.d,
    week_of_year := (Cal.isoCalendar v.y v.mo v.d).2.1,
    int_timestamp := v.timestamp,
    aware := true, offset := v.off, tzname := v.abbr, timezone_name := v.zname }

/-! ### tokenizer -/

inductive Item where
  | lit (s : Str)        -- `[...]` content, `\c`, or a character no alternative matched
  | tok (t : Str)        -- group 3
  deriving Repr, DecidableEq

def alts : List Str := Gen.Format.tokenAlts.map String.toList

def firstAlt (as : List Str) (s : Str) : Option Str := as.find? (fun a => a.isPrefixOf s)

/-- split around the last `]` -/
def splitLastClose : Str → Option (Str × Str)
  | [] => none
  | c :: cs =>
    match splitLastClose cs with
    | some (a, b) => some (c :: a, b)
    | none => if c == ']' then some ([], cs) else none

/-- `\[([^\[]*)\]` applied right after a `[`: content and the rest of the input -/
def bracket (s : Str) : Option (Str × Str) :=
  let r := s.takeWhile (· != '[')
  match splitLastClose r with
  | some (content, after) => some (content, after ++ s.drop r.length)
  | none => none

def tokenizeAux : Nat → Str → List Item
  | 0, _ => []
  | _, [] => []
  | f+1, c :: rest =>
    let tokenOrChar : List Item :=
      match firstAlt alts (c :: rest) with
      | some a => Item.tok a :: tokenizeAux f ((c :: rest).drop a.length)
      | none => Item.lit [c] :: tokenizeAux f rest
    if c == '[' then
      match bracket rest with
      | some (content, rest') => Item.lit content :: tokenizeAux f rest'
      | none => tokenOrChar
    else if c == '\\' then
      match rest with
      | e :: rest' => if e != '\n' then Item.lit [e] :: tokenizeAux f rest' else tokenOrChar
      | [] => tokenOrChar
    else tokenOrChar

def tokenize (fmt : Str) : List Item := tokenizeAux (fmt.length + 1) fmt

/-! ### rendering one token -/

def lookupS (tbl : List (String × String)) (k : String) : Option String :=
  (tbl.find? (fun p => p.1 == k)).map (·.2)

/-- `Locale.ordinalize` -/
def ordinalize (L : Loc) (n : Int) : Str :=
  let num := pyFmtD 0 n
  match L.ordinalSuffix with
  | none => num
  | some tbl =>
    match lookupS tbl (L.ordinalCat n) with
    | some suf => num ++ suf.toList
    | none => num

/-- `Z` / `ZZ` (formatter.py:281-295): sign from the offset, minutes truncated toward zero -/
def offsetStr (sep : Bool) (off : Int) : Str :=
  let sign := if off ≥ 0 then '+' else '-'
  let minutes : Int := (off.natAbs / 60 : Nat)
  sign :: (pyFmtD 2 (minutes / 60) ++ (if sep then [':'] else []) ++ pyFmtD 2 (minutes % 60))

def nameAt (tbl : List String) (i : Int) : Except String Str :=
  if i < 0 then .error "KeyError" else
  match tbl[i.toNat]? with
  | some s => .ok s.toList
  | none => .error "KeyError"

/-- `_format_localizable_token` -/
def formatLocalizable (L : Loc) (dt : DTF) (tok : String) : Except String Str :=
  if tok == "MMM" then nameAt L.monthsAbbr (dt.month - 1)
  else if tok == "MMMM" then nameAt L.monthsWide (dt.month - 1)
  else if tok == "dd" then nameAt L.daysShort dt.day_of_week
  else if tok == "ddd" then nameAt L.daysAbbr dt.day_of_week
  else if tok == "dddd" then nameAt L.daysWide dt.day_of_week
  else if tok == "e" then
    match L.firstDay with
    | some fd => .ok (natStr ((dt.day_of_week % 7 - fd) % 7).toNat)
    | none => .error "TypeError"
  else if tok == "Do" then .ok (ordinalize L dt.day)
  else if tok == "do" then .ok (ordinalize L ((dt.day_of_week + 1) % 7))
  else if tok == "Mo" then .ok (ordinalize L dt.month)
  else if tok == "Qo" then .ok (ordinalize L dt.quarter)
  else if tok == "wo" then .ok (ordinalize L dt.week_of_year)
  else if tok == "DDDo" then .ok (ordinalize L dt.day_of_year)
  else if tok == "eo" then
    match L.firstDay with
    | some fd => .ok (ordinalize L ((dt.day_of_week % 7 - fd) % 7 + 1))
    | none => .error "TypeError"
  else if tok == "A" then .ok (if dt.hour ≥ 12 then L.pm.toList else L.am.toList)
  else .ok tok.toList

def isDateFormat (tok : String) : Bool := (Gen.Format.dateFormats.find? (fun p => p.1 == tok)).isSome

/-- the format string a localized date-format token (`LT`, `LTS`, `L` … `LLLL`) stands for:
    `locale.get("custom.date_formats.<tok>")`, else `_DEFAULT_DATE_FORMATS[tok]` -/
def dateFormatOf (L : Loc) (tok : String) : String :=
  match lookupS L.dateFormats tok with
  | some f => f
  | none => (lookupS Gen.Format.defaultDateFormats tok).getD ""

/-- `_format_token` recursing through `self.format(dt, fmt, locale)` for the date-format tokens, unfolded on
    the item list (the fuel bounds the nesting depth) -/
def expandItems (L : Loc) : Nat → List Item → List Item
  | 0, its => its
  | f+1, its => its.flatMap fun it =>
    match it with
    | Item.tok t =>
      if isDateFormat (String.ofList t) then expandItems L f (tokenize (dateFormatOf L (String.ofList t)).toList) else [it]
    | l => [l]

/-- `_format_token` for a token that is not a date format -/
def formatToken (L : Loc) (dt : DTF) (tok : String) : Except String Str :=
  if isDateFormat tok then .error "RecursionError"
  else if (Gen.Format.localizableKeys.find? (fun p => p.1 == tok)).isSome then formatLocalizable L dt tok
  else match Gen.Format.rule tok dt with
    | some s => .ok s
    | none =>
      if tok == "ZZ" || tok == "Z" then
        .ok (if dt.aware then offsetStr (tok == "Z") dt.offset else [])
      else .ok tok.toList

def formatItems (L : Loc) (dt : DTF) : List Item → Except String Str
  | [] => .ok []
  | Item.lit s :: rest =>
    match formatItems L dt rest with
    | .ok r => .ok (s ++ r)
    | .error e => .error e
  | Item.tok t :: rest =>
    match formatToken L dt (String.ofList t), formatItems L dt rest with
    | .ok a, .ok r => .ok (a ++ r)
    | .error e, _ => .error e
    | _, .error e => .error e

/-- `Formatter.format(dt, fmt, locale)` -/
def format (L : Loc) (v : Val) (fmt : Str) : Except String Str :=
  formatItems L v.toDTF (expandItems L 3 (tokenize fmt))

/-- stdlib `datetime.isoformat("T")` of an aware value (used by `_FORMATS["iso8601"|"rfc3339"]`) -/
def isoformat (v : Val) : Str :=
  let frac := if v.us == 0 then [] else '.' :: pyFmtD 6 v.us
  let a := v.off.natAbs
  let osec : Int := (a % 60 : Nat)
  let offS := (if v.off < 0 then '-' else '+') ::
    (pyFmtD 2 ((a / 3600 : Nat) : Int) ++ ':' :: pyFmtD 2 ((a / 60 % 60 : Nat) : Int)
      ++ (if osec == 0 then [] else ':' :: pyFmtD 2 osec))
  pyFmtD 4 v.y ++ '-' :: pyFmtD 2 v.mo ++ '-' :: pyFmtD 2 v.d ++ 'T' :: pyFmtD 2 v.h ++ ':' :: pyFmtD 2 v.mi
    ++ ':' :: pyFmtD 2 v.s ++ frac ++ offS

/-- replace the first... `str.replace(old, new)` replaces every occurrence -/
def replaceAll (old new : Str) : Nat → Str → Str
  | 0, s => s
  | _, [] => []
  | f+1, c :: cs =>
    if old.isPrefixOf (c :: cs) && !old.isEmpty then new ++ replaceAll old new f ((c :: cs).drop old.length)
    else c :: replaceAll old new f cs

/-- `DateTime.to_*_string()` (datetime.py:367-467) through the generated `_FORMATS` / helper tables -/
def toStringHelper (find : String → Option Loc) (defaultLocale : String) (v : Val) (method : String) : Except String Str :=
  match Gen.Format.toStringHelpers.find? (fun p => p.1 == method) with
  | none => .error "AttributeError"
  | some (_, kind, arg, loc) =>
    let locName := if loc == "" then defaultLocale else loc
    match find locName with
    | none => .error "ValueError"
    | some L =>
      if kind == "format" then format L v arg.toList
      else if kind == "named" then
        match lookupS Gen.Format.namedFormats arg with
        | none => .error "ValueError"
        | some f => if f == "<callable>" then .ok (isoformat v) else format L v f.toList
      else if method == "to_iso8601_string" then
        -- `_to_string("iso8601")`, then "+00:00" → "Z" when the zone is named UTC
        let s := isoformat v
        .ok (if v.zname == "UTC".toList then replaceAll "+00:00".toList ['Z'] (s.length + 1) s else s)
      else .error "Unmodelled"

end Pendulum.Fmt
