import Pendulum.Gen.Tables
/-! Hand model of the closed-form helpers of `rust/src/helpers.rs`.
Rust `/` and `%` truncate toward zero (`Int.tdiv`, `Int.tmod`); `i32` is modelled by `Int`
(the theorems are stated on a domain where no `i32` overflow occurs). Tied to the source by the
correspondence run of C15 (exhaustive over years 1..9999 in the thorough tier). -/
namespace Pendulum.Rs
open Pendulum.Gen

def p (year : Int) : Int := year + Int.tdiv year 4 - Int.tdiv year 100 + Int.tdiv year 400

def is_leap (year : Int) : Bool :=
  Int.tmod year 4 == 0 && (Int.tmod year 100 != 0 || Int.tmod year 400 == 0)

def is_long_year (year : Int) : Bool :=
  Int.tmod (p year) 7 == 4 || Int.tmod (p (year - 1)) 7 == 3

def days_in_year (year : Int) : Int :=
  if is_leap year then rs_DAYS_PER_L_YEAR else rs_DAYS_PER_N_YEAR

def week_day (year month day : Int) : Int :=
  let y := year - (if month < 3 then 1 else 0)
  let w := Int.tmod (p y + rs_DAY_OF_WEEK_TABLE (month - 1) + day) 7
  if w == 0 then 7 else (w.natAbs : Int)

def day_number (year month day : Int) : Int :=
  let m := Int.tmod (month + 9) 12
  let y := year - Int.tdiv m 10
  365 * y + Int.tdiv y 4 - Int.tdiv y 100 + Int.tdiv y 400 + Int.tdiv (m * 306 + 5) 10 + (day - 1)

end Pendulum.Rs
