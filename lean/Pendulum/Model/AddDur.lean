import Pendulum.Model.Cal
import Pendulum.Gen.Helpers
/-! Model of `helpers.add_duration` (helpers.py:94-156), literally: sign-aware carry normalisation of
µs → s → min → h → days and months → years, one-step month overflow, day clamp through the generated
`DAYS_PER_MONTHS` table and generated `is_leap`, then `timedelta` addition. Values are wall-clock
microseconds since 1970-01-01T00:00 (naive). `seconds` is an integer here (float bridge: DESIGN §5). -/
namespace Pendulum.AddDur
open Pendulum Pendulum.Cal

def DAY : Int := 86400000000
def HOUR : Int := 3600000000
def MINUTE : Int := 60000000
def US : Int := 1000000

/-- `helpers._sign` = `copysign(1, x)`; sign(0) = 1 -/
def sgn (x : Int) : Int := if x < 0 then -1 else 1
def abs' (x : Int) : Int := if x < 0 then -x else x

/-- year/month step: normalise |months| > 11 with the sign trick, then one-step overflow -/
def addYM (y m years months : Int) : Int × Int :=
  let s := sgn months
  let q := (months * s) / 12
  let r := (months * s) % 12
  let months' := if abs' months > 11 then r * s else months
  let years' := if abs' months > 11 then years + q * s else years
  let year := y + years'
  let month := m
  let month1 := if months' ≠ 0 then month + months' else month
  let year2 := if months' ≠ 0 then (if month1 > 12 then year + 1 else if month1 < 1 then year - 1 else year) else year
  let month2 := if months' ≠ 0 then (if month1 > 12 then month1 - 12 else if month1 < 1 then month1 + 12 else month1) else month1
  (year2, month2)

/-- one carry step `if abs(x) > lim: s = sign(x); div, mod = divmod(x*s, base); x = mod*s; next += div*s` -/
def carry (x : Int) (lim base : Int) (next : Int) : Int × Int :=
  if abs' x > lim then
    let s := sgn x
    (((x * s) % base) * s, next + ((x * s) / base) * s)
  else (x, next)

def normTime (days hours minutes seconds micros : Int) : Int × Int × Int × Int × Int :=
  let (us, sec) := carry micros 999999 1000000 seconds
  let (sec, mi) := carry sec 59 60 minutes
  let (mi, h) := carry mi 59 60 hours
  let (h, d) := carry h 23 24 days
  (d, h, mi, sec, us)

def totalUs (d h mi s us : Int) : Int := (((d * 24 + h) * 60 + mi) * 60 + s) * 1000000 + us

/-- wall µs ↔ civil fields (`datetime` field access / constructor) -/
def wallToFields (w : Int) : Int × Int × Int × Int :=
  let (y, m, d) := ord2ymd (w / DAY + epochOrd)
  (y, m, d, w % DAY)

def fieldsToWall (y m d tod : Int) : Int := (ymd2ord y m d - epochOrd) * DAY + tod

/-- 0001-01-01T00:00:00 and 9999-12-31T23:59:59.999999 as wall µs -/
def minWall : Int := (1 - epochOrd) * DAY
def maxWall : Int := (3652059 - epochOrd) * DAY + DAY - 1

inductive Err | valueError | overflow
deriving DecidableEq, Repr

/-- the table lookup `DAYS_PER_MONTHS[int(is_leap(year))][month]` over generated data -/
def daysPerMonth (year month : Int) : Int :=
  if Gen.is_leap year then Gen.py_DAYS_PER_MONTHS_1 month else Gen.py_DAYS_PER_MONTHS_0 month

def addDuration (w years months weeks days hours minutes seconds micros : Int) : Except Err Int :=
  let days := days + weeks * 7
  let (d', h, mi, s, us) := normTime days hours minutes seconds micros
  let (y, m, d, tod) := wallToFields w
  let (y2, m2) := addYM y m years months
  if y2 < 1 ∨ y2 > 9999 then .error .valueError      -- `dt.replace(year=…)` out of range
  else
    let day := min (daysPerMonth y2 m2) d
    let r := fieldsToWall y2 m2 day tod + totalUs d' h mi s us
    if r < minWall ∨ r > maxWall then .error .overflow else .ok r

end Pendulum.AddDur
