import Pendulum.Model.LocData
/-! Model of `DifferenceFormatter.format` (src/pendulum/formatting/difference_formatter.py:19-144),
`Duration.in_words` / `Interval.in_words` (duration.py:241-284, interval.py:250-291), `Locale.get/ordinalize`
(locales/locale.py:56-88) and the locale-dependent branch of `Formatter._format_localizable_token`
(formatting/formatter.py:305-356), over the regenerated locale tables (`Pendulum.Gen.Locales`).

Strings are `List Char` (`Str`); the driver converts.  Python exceptions are values of `Err`. -/
namespace Pendulum.Loc

abbrev Str := List Char

/-- exception classes the modelled code can raise; `modelGap` = a data shape the generator reported as a fallback -/
inductive Err where
  | keyError | attributeError | typeError | indexError | valueError | modelGap
  deriving Repr, DecidableEq, Inhabited

def Err.name : Err → String
  | .keyError => "KeyError" | .attributeError => "AttributeError" | .typeError => "TypeError"
  | .indexError => "IndexError" | .valueError => "ValueError" | .modelGap => "ModelGap"

/-! ### `Locale.get` -/

def lookup (k : String) : List (String × Node) → Option Node
  | [] => none
  | (k', v) :: r => if k' == k then some v else lookup k r

/-- `Locale.get(".".join(path))`: walk the nested dicts; a missing key is caught (`default=None`);
    subscripting a `str`/`int` with a `str` raises `TypeError`, which is not caught -/
def getFrom : Node → List String → Except Err (Option Node)
  | n, [] => .ok (some n)
  | .dict kvs, p :: ps =>
    match lookup p kvs with
    | some c => getFrom c ps
    | none => .ok none
  | _, _ :: _ => .error .typeError

def Locale.get (ℓ : Locale) (path : List String) : Except Err (Option Node) := getFrom ℓ.data path

/-! ### `str.format` with one positional argument -/

/-- CPython's automatic / manual field numbering state -/
inductive Numbering where
  | unset | auto (next : Nat) | manual
  deriving Repr, DecidableEq

/-- `template.format(arg)` on a pre-split template, left to right (the first offending field raises):
    `{}` consumes the next automatic index (only index 0 exists), `{0}` is manual index 0, `{k}` with k>0 is an
    `IndexError`, `{name}` a `KeyError`; switching between automatic and manual numbering is a `ValueError`. -/
def fmtGo : List Seg → Numbering → Str → Str → Except Err Str
  | [], _, _, acc => .ok acc
  | .lit s :: r, st, arg, acc => fmtGo r st arg (acc ++ s.toList)
  | .hole f :: r, st, arg, acc =>
    if f == "" then
      match st with
      | .manual => .error .valueError
      | .unset => fmtGo r (.auto 1) arg (acc ++ arg)
      | .auto _ => .error .indexError
    else if f == "0" then
      match st with
      | .auto _ => .error .valueError
      | _ => fmtGo r .manual arg (acc ++ arg)
    else
      match f.toNat? with
      | some i =>
        match st with
        | .auto _ => .error .valueError
        | _ => if i == 0 then fmtGo r .manual arg (acc ++ arg) else .error .indexError
      | none => .error .keyError

def fmtSegs (segs : List Seg) (arg : Str) : Except Err Str := fmtGo segs .unset arg []

/-! ### decimal rendering -/

def showNat (n : Nat) : Str := Nat.toDigits 10 n

/-- `str(int)` / `"{0}".format(int)` -/
def showInt : Int → Str
  | .ofNat n => showNat n
  | .negSucc n => '-' :: showNat (n + 1)

/-- smallest `e ≥ e0` with `x * 2^e ≥ 2^52 * 10^6` (binary exponent of the double nearest to x/10^6) -/
def dblExp (x : Nat) : Nat → Nat → Nat
  | 0, e => e
  | fuel + 1, e => if x * 2 ^ e ≥ 2 ^ 52 * 1000000 then e else dblExp x fuel (e + 1)

def roundHalfEven (a b : Nat) : Nat :=
  let q := a / b
  let r := a % b
  if 2 * r > b then q + 1 else if 2 * r == b && q % 2 == 1 then q + 1 else q

/-- `f"{x / 1e6:.2f}"` for an integer `x ≥ 1`: IEEE-754 binary64 division (correctly rounded to a 53-bit
    significand `m / 2^e`), then correctly rounded conversion to two decimals (ties to even on the exact
    binary value) -/
def fmtMicro (x : Nat) : Str :=
  let e := dblExp x 200 0
  let m := roundHalfEven (x * 2 ^ e) 1000000
  let h := roundHalfEven (m * 100) (2 ^ e)
  showNat (h / 100) ++ ['.'] ++ showNat (h % 100 / 10) ++ showNat (h % 10)

/-! ### DifferenceFormatter.format -/

/-- the attributes of the `diff` argument that `format` reads: `years, months, weeks, remaining_days, hours,
    minutes, remaining_seconds, invert` -/
structure Comps where
  years : Int
  months : Int
  weeks : Int
  days : Int
  hours : Int
  minutes : Int
  seconds : Int
  invert : Bool
  deriving Repr, DecidableEq

/-- the seven units of a phrase -/
inductive TUnit where
  | year | month | week | day | hour | minute | second
  deriving Repr, DecidableEq, Inhabited

/-- the unit's name inside the dotted keys -/
def TUnit.key : TUnit → String
  | .year => "year" | .month => "month" | .week => "week" | .day => "day"
  | .hour => "hour" | .minute => "minute" | .second => "second"

def TUnit.all : List TUnit := [.year, .month, .week, .day, .hour, .minute, .second]

/-- difference_formatter.py:37-71 — unit and count; `none` = the final `else` (few seconds / second fallback) -/
def selectUnit (c : Comps) : Option (TUnit × Int) :=
  if c.years > 0 then some (.year, if c.months > 6 then c.years + 1 else c.years)
  else if c.months = 11 ∧ c.weeks * 7 + c.days > 15 then some (.year, 1)
  else if c.months > 0 then some (.month, if c.weeks * 7 + c.days ≥ 27 then c.months + 1 else c.months)
  else if c.weeks > 0 then some (.week, if c.days > 3 then c.weeks + 1 else c.weeks)
  else if c.days > 0 then some (.day, if c.hours ≥ 22 then c.days + 1 else c.days)
  else if c.hours > 0 then some (.hour, c.hours)
  else if c.minutes > 0 then some (.minute, c.minutes)
  else if 10 < c.seconds ∧ c.seconds ≤ 59 then some (.second, c.seconds)
  else none

/-- one `.format` call of the chain: the template, or the exception raised when fetching it -/
abbrev Step := Except Err (List Seg)

/-- the object on which `.format` is called -/
def asTemplate : Option Node → Step
  | none => .error .attributeError            -- `None.format`
  | some (.tmpl segs) => .ok segs
  | some (.str _) => .error .modelGap          -- a template path the generator could not pre-split (fallback reported)
  | some (.int _) => .error .attributeError
  | some (.dict _) => .error .attributeError

/-- `locale.get(key).format(...)`: fetch as a template -/
def tmplAt (ℓ : Locale) (path : List String) : Step :=
  match ℓ.get path with
  | .error e => .error e
  | .ok n => asTemplate n

/-- Python truthiness of `locale.get(...)` (`if not trans`) -/
def falsy : Option Node → Bool
  | none => true
  | some (.dict kvs) => kvs.isEmpty
  | some (.str s) => s.isEmpty
  | some (.tmpl segs) => segs.isEmpty
  | some (.int i) => i == 0

/-- `trans[locale.plural(count)]` followed by `.format` -/
def indexTmpl : Option Node → String → Step
  | some (.dict kvs), pc =>
    match lookup pc kvs with
    | none => .error .keyError
    | some n => asTemplate (some n)
  | _, _ => .error .typeError

def dirKey (invert : Bool) : String := if invert then "future" else "past"
def relKey (invert : Bool) : String := if invert then "after" else "before"
def nowKey (invert : Bool) : String := if invert then "from_now" else "ago"

/-- lines 100-144 once unit `u` and the plural class `pc` of the count are known: the chain of templates;
    the outer `Except` is an exception raised before the first `.format` call -/
def stepsUC (ℓ : Locale) (u pc : String) (invert isNow absolute : Bool) : Except Err (List Step) :=
  if absolute then .ok [tmplAt ℓ ["translations", "units", u, pc]]
  else if isNow then .ok [tmplAt ℓ ["translations", "relative", u, dirKey invert, pc]]
  else
    match ℓ.get ["custom", "units_relative", u, dirKey invert] with
    | .error e => .error e
    | .ok trans =>
      let first := if falsy trans then tmplAt ℓ ["translations", "units", u, pc] else indexTmpl trans pc
      .ok [first, tmplAt ℓ ["custom", relKey invert]]

/-- a first argument and the templates successively applied to it -/
structure Plan where
  arg : Str
  steps : List Step

def runSteps : List Step → Str → Except Err Str
  | [], acc => .ok acc
  | .error e :: _, _ => .error e
  | .ok segs :: r, acc =>
    match fmtSegs segs acc with
    | .error e => .error e
    | .ok s => runSteps r s

def Plan.run (p : Plan) : Except Err Str := runSteps p.steps p.arg

/-- `if count == 0: count = 1` -/
def fixCount (n : Int) : Int := if n = 0 then 1 else n

def mainPlan (ℓ : Locale) (u : TUnit) (count0 : Int) (invert isNow absolute : Bool) : Except Err Plan :=
  let n := fixCount count0
  match stepsUC ℓ u.key (ℓ.plural n) invert isNow absolute with
  | .error e => .error e
  | .ok steps => .ok ⟨showInt n, steps⟩

/-- a locale value used as a plain string -/
def nodeStr : Node → Except Err Str
  | .str s => .ok s.toList
  | _ => .error .modelGap

/-- lines 72-98: the "a few seconds" branch -/
def fewPlan (ℓ : Locale) (secs : Int) (invert isNow absolute : Bool) : Except Err Plan :=
  match ℓ.get ["custom", "units", "few_second"] with
  | .error e => .error e
  | .ok (some node) =>
    match nodeStr node with
    | .error e => .error e
    | .ok time =>
      if absolute then .ok ⟨time, []⟩
      else .ok ⟨time, [tmplAt ℓ ["custom", if isNow then nowKey invert else relKey invert]]⟩
  | .ok none => mainPlan ℓ .second secs invert isNow absolute

def plan (ℓ : Locale) (c : Comps) (isNow absolute : Bool) : Except Err Plan :=
  match selectUnit c with
  | some (u, n) => mainPlan ℓ u n c.invert isNow absolute
  | none => fewPlan ℓ c.seconds c.invert isNow absolute

/-- `DifferenceFormatter.format(diff, is_now, absolute, locale)` -/
def format (ℓ : Locale) (c : Comps) (isNow absolute : Bool) : Except Err Str :=
  match plan ℓ c isNow absolute with
  | .error e => .error e
  | .ok p => p.run

/-! ### in_words -/

def unitNames : List String := ["year", "month", "week", "day", "hour", "minute", "second"]

/-- `translation(f"units.{unit}.{plural(abs(count))}").format(arg)` -/
def wordsPart (ℓ : Locale) (u : String) (pluralOf : Int) (arg : Str) : Except Err Str :=
  match tmplAt ℓ ["translations", "units", u, ℓ.plural pluralOf] with
  | .error e => .error e
  | .ok segs => fmtSegs segs arg

def wordsParts (ℓ : Locale) : List (String × Int) → Except Err (List Str)
  | [] => .ok []
  | (u, n) :: r =>
    if n = 0 then wordsParts ℓ r
    else
      match wordsPart ℓ u n.natAbs (showInt n) with
      | .error e => .error e
      | .ok s =>
        match wordsParts ℓ r with
        | .error e => .error e
        | .ok ss => .ok (s :: ss)

def joinSep (sep : Str) : List Str → Str
  | [] => []
  | [s] => s
  | s :: r => s ++ sep ++ joinSep sep r

/-- `in_words(locale, separator)`; `us` = `self.microseconds` -/
def inWords (ℓ : Locale) (c : Comps) (us : Int) (sep : Str) : Except Err Str :=
  match wordsParts ℓ [("year", c.years), ("month", c.months), ("week", c.weeks), ("day", c.days),
                      ("hour", c.hours), ("minute", c.minutes), ("second", c.seconds)] with
  | .error e => .error e
  | .ok [] =>
    if us ≠ 0 then wordsPart ℓ "second" 1 (fmtMicro us.natAbs)
    else wordsPart ℓ "microsecond" 0 (showInt 0)
  | .ok (p :: ps) => .ok (joinSep sep (p :: ps))

/-! ### locale-dependent format tokens -/

/-- `Locale.ordinalize(number)` -/
def ordinalize (ℓ : Locale) (n : Int) : Except Err Str :=
  match ℓ.get ["custom", "ordinal", ℓ.ordinal n] with
  | .error e => .error e
  | .ok o =>
    if falsy o then .ok (showInt n)
    else
      match o with
      | some (.str s) => .ok (showInt n ++ s.toList)
      | _ => .error .modelGap

/-- `locale.get(path)[key]` returned as a string (month / day names) -/
def nameAt (ℓ : Locale) (path : List String) (key : Int) : Except Err Str :=
  match ℓ.get path with
  | .error e => .error e
  | .ok none => .error .typeError                 -- `None[...]`
  | .ok (some (.dict kvs)) =>
    match lookup (toString key) kvs with
    | none => .error .keyError
    | some n => nodeStr n
  | .ok (some _) => .error .typeError

/-- `cast(int, locale.get("translations.week_data.first_day"))` used in arithmetic -/
def firstDay (ℓ : Locale) : Except Err Int :=
  match ℓ.get ["translations", "week_data", "first_day"] with
  | .error e => .error e
  | .ok (some (.int i)) => .ok i
  | .ok _ => .error .typeError                    -- `int - None`, `int - str`

/-- the fields of the datetime that the localizable tokens read -/
structure TokArgs where
  month : Int
  dayOfWeek : Int      -- 0 = Monday … 6 = Sunday (`dt.day_of_week`)
  day : Int
  quarter : Int
  weekOfYear : Int
  dayOfYear : Int
  hour : Int

/-- `Formatter._format_localizable_token` (formatter.py:305-356) -/
def formatToken (ℓ : Locale) (tok : String) (a : TokArgs) : Except Err Str :=
  if tok == "MMM" then nameAt ℓ ["translations", "months", "abbreviated"] a.month
  else if tok == "MMMM" then nameAt ℓ ["translations", "months", "wide"] a.month
  else if tok == "dd" then nameAt ℓ ["translations", "days", "short"] a.dayOfWeek
  else if tok == "ddd" then nameAt ℓ ["translations", "days", "abbreviated"] a.dayOfWeek
  else if tok == "dddd" then nameAt ℓ ["translations", "days", "wide"] a.dayOfWeek
  else if tok == "e" then
    match firstDay ℓ with
    | .error e => .error e
    | .ok fd => .ok (showInt ((a.dayOfWeek % 7 - fd) % 7))
  else if tok == "Do" then ordinalize ℓ a.day
  else if tok == "do" then ordinalize ℓ ((a.dayOfWeek + 1) % 7)
  else if tok == "Mo" then ordinalize ℓ a.month
  else if tok == "Qo" then ordinalize ℓ a.quarter
  else if tok == "wo" then ordinalize ℓ a.weekOfYear
  else if tok == "DDDo" then ordinalize ℓ a.dayOfYear
  else if tok == "eo" then
    match firstDay ℓ with
    | .error e => .error e
    | .ok fd => ordinalize ℓ ((a.dayOfWeek % 7 - fd) % 7 + 1)
  else if tok == "A" then
    match ℓ.get ["translations", "day_periods", if a.hour ≥ 12 then "pm" else "am"] with
    | .error e => .error e
    | .ok (some n) => nodeStr n
    | .ok none => .error .modelGap               -- `format` would return None into `re.sub` (TypeError there)
  else .ok tok.toList

def locTokens : List String :=
  ["MMM", "MMMM", "dd", "ddd", "dddd", "e", "Do", "do", "Mo", "Qo", "wo", "DDDo", "eo", "A"]

/-! ### which locale is loaded; `diff_for_humans`; `Locale.load` -/

/-- `format_diff` / `Duration.in_words`: the `locale` argument when given, else the process-wide `pendulum._LOCALE` -/
def resolveLocale (locale : Option String) (current : String) : String := locale.getD current

/-- `Interval.in_words`: `locale or get_locale()` — an empty string counts as absent -/
def resolveLocaleOr (locale : Option String) (current : String) : String :=
  match locale with
  | some s => if s = "" then current else s
  | none => current

/-- what `x.diff_for_humans(other, absolute, locale)` formats (the same for `DateTime`, `Date`, `Time`): the class's own
    `diff` against `other` — or against the current moment when `other` is not given — always with `abs=True`;
    `is_now` = no `other` given -/
structure HumanReq (O : Type) where
  other : O
  diffAbs : Bool
  isNow : Bool
  absolute : Bool
  locale : String

def diffForHumans {O : Type} (now : O) (other : Option O) (absolute : Bool) (locale : Option String) (current : String) :
    HumanReq O :=
  ⟨other.getD now, true, other.isNone, absolute, resolveLocale locale current⟩

/-- the characters `[a-z]` matches under `re.IGNORECASE`: the 52 ASCII letters and `İ ı ſ K` (U+0130, U+0131, U+017F,
    U+212A; documented in the `re` module) -/
def isLetterI (c : Char) : Bool :=
  let n := c.toNat
  (0x61 ≤ n && n ≤ 0x7A) || (0x41 ≤ n && n ≤ 0x5A) || n == 0x130 || n == 0x131 || n == 0x17F || n == 0x212A

/-- `Locale.normalize_locale`: two letters, `-` or `_`, two letters at the start → `xx_yy` lower-cased; else the whole
    string lower-cased. `lower` = `str.lower` -/
def normalizeLocale (lower : Str → Str) (s : Str) : Str :=
  match s with
  | a :: b :: sep :: c :: d :: _ =>
    if isLetterI a && isLetterI b && (sep == '-' || sep == '_') && isLetterI c && isLetterI d
    then lower [a, b] ++ ['_'] ++ lower [c, d] else lower s
  | _ => lower s

/-- `str.lower` on ASCII text -/
def asciiLower (s : Str) : Str := s.map Char.toLower

/-- `Locale.load(<str>)`: the normalised name is the cache key, the name of the `Locale` and the directory whose data is
    imported; a name without a directory is a `ValueError` (there is no fall-back to the language part) -/
def loadKey (lower : Str → Str) (pathExists : Str → Bool) (s : Str) : Except String (Str × Str) :=
  let n := normalizeLocale lower s
  if pathExists n then .ok (n, n) else .error "ValueError"

end Pendulum.Loc
