import Pendulum.Model.Cal
import Pendulum.Model.AddDur
import Pendulum.Gen.RsHelpers
import Pendulum.Model.LocalTime
import Pendulum.Gen.Helpers
/-! Model of `precise_diff`, both implementations, following the code literally:

* `preciseDiffPy` — `src/pendulum/_helpers.py:156-298` (early return on equality, ordering swap by
  `datetime` comparison, UTC shift when the zone names differ or both fall on the same day, borrow chain,
  month borrow with the "lands on the clamped last day" arm);
* `preciseDiffRs` — `rust/src/python/helpers.rs` (`total_days` from the wall dates first, UTC shift through
  `day_number` + `local_time`, ordering swap by field comparison *after* the shift, truncating division).

An endpoint is a tuple of civil fields plus what the code reads from the tzinfo: the UTC offset in seconds
and a *zone tag* standing for the tzinfo object and its name: `0` = naive / `date`, `> 0` = a tzinfo with a
name (`key`/`name`/`zone`; equal tags ⇔ equal names ⇔ the same tzinfo object), `< 0` = an aware tzinfo
without a name (equal tags ⇔ same object). CPython's `datetime` comparison is modelled as: same tzinfo
object ⇒ field (wall clock) comparison, otherwise comparison of `wall − offset`. -/
namespace Pendulum.PreciseDiff
open Pendulum Pendulum.Cal

structure E where
  y : Int
  m : Int
  d : Int
  h : Int
  mi : Int
  s : Int
  us : Int
  off : Int
  tz : Int
  isDt : Bool
deriving DecidableEq, Repr

structure PD where
  years : Int
  months : Int
  days : Int
  hours : Int
  minutes : Int
  seconds : Int
  micros : Int
  totalDays : Int
deriving DecidableEq, Repr

def PD.zero : PD := ⟨0, 0, 0, 0, 0, 0, 0, 0⟩

/-- `PreciseDiff(sign * y_diff, …, sign * total_days)` -/
def PD.scale (sg : Int) (p : PD) : PD :=
  ⟨sg * p.years, sg * p.months, sg * p.days, sg * p.hours, sg * p.minutes, sg * p.seconds, sg * p.micros,
   sg * p.totalDays⟩

def PD.toList (p : PD) : List Int :=
  [p.years, p.months, p.days, p.hours, p.minutes, p.seconds, p.micros, p.totalDays]

/-- lexicographic `<` on field tuples (`datetime` rich comparison on values sharing a tzinfo; Rust `PartialOrd`
    of `DateTimeInfo`) -/
def lexLt : List Int → List Int → Bool
  | a :: as, b :: bs => decide (a < b) || (decide (a = b) && lexLt as bs)
  | _, _ => false

def E.key (e : E) : List Int := [e.y, e.m, e.d, e.h, e.mi, e.s, e.us]

def E.secOfDay (e : E) : Int := e.h * 3600 + e.mi * 60 + e.s

/-- seconds since ordinal 0 of the wall fields minus the offset: what `datetime` compares across tzinfos -/
def E.instSec (e : E) : Int := ymd2ord e.y e.m e.d * 86400 + e.secOfDay - e.off

/-- `d1 > d2` of `datetime`/`date` -/
def pyGt (a b : E) : Bool :=
  if a.tz = b.tz then lexLt b.key a.key
  else decide (b.instSec < a.instSec) || (decide (b.instSec = a.instSec) && decide (b.us < a.us))

/-- `d1 == d2` -/
def pyEq (a b : E) : Bool :=
  if a.tz = b.tz then decide (a.key = b.key) else decide (a.instSec = b.instSec) && decide (a.us = b.us)

/-- `d - d.utcoffset()` on an aware `datetime` (`if offset:` skips a zero offset): normalised field arithmetic -/
def pyShift (e : E) : E :=
  if e.off = 0 then e else
  let t := e.instSec
  let (y, m, d) := ord2ymd (t / 86400)
  let r := t % 86400
  { e with y := y, m := m, d := d, h := r / 3600, mi := r % 3600 / 60, s := r % 60 }

/-- the borrow chain over µs → s → min → h → day (identical in both implementations) -/
def timeDiff (d1 d2 : E) : Int × Int × Int × Int × Int :=
  let hd := d2.h - d1.h
  let md := d2.mi - d1.mi
  let sd := d2.s - d1.s
  let ud := d2.us - d1.us
  let sd := if ud < 0 then sd - 1 else sd
  let ud := if ud < 0 then ud + 1000000 else ud
  let md := if sd < 0 then md - 1 else md
  let sd := if sd < 0 then sd + 60 else sd
  let hd := if md < 0 then hd - 1 else hd
  let md := if md < 0 then md + 60 else md
  let dd := if hd < 0 then -1 else 0
  let hd := if hd < 0 then hd + 24 else hd
  (dd, hd, md, sd, ud)

/-- year/month/day part (after the fix of the full-month arm): `dim y m` = `DAYS_PER_MONTHS[is_leap(y)][m]`,
    `dd0` = the day borrowed by the time part (0 or −1) -/
def dateDiff (dim : Int → Int → Int) (y1 m1 d1 y2 m2 d2 dd0 : Int) : Int × Int × Int :=
  let yd := y2 - y1
  let md := m2 - m1
  let dd := dd0 + (d2 - d1)
  let py := if m2 = 1 then y2 - 1 else y2
  let pm := if m2 = 1 then 12 else m2 - 1
  let dlm := dim py pm
  let dimo := dim y2 m2
  let full := d2 = dimo ∧ d2 - d1 = dd
  let md' := if dd < 0 then (if full then md + 1 - 1 else md - 1) else md
  let dd' := if dd < 0 then (if full then 0 else dd + max dlm d1) else dd
  let yd' := if md' < 0 then yd - 1 else yd
  let md'' := if md' < 0 then md' + 12 else md'
  (yd', md'', dd')

/-- `DAYS_PER_MONTHS[int(is_leap(year))][month]` over the generated Python table -/
def dimPy (y m : Int) : Int := AddDur.daysPerMonth y m

/-- `DAYS_PER_MONTHS[usize::from(helpers::is_leap(year))][month as usize]` over the generated Rust table -/
def dimRs (y m : Int) : Int :=
  if Rs.is_leap y then Gen.rs_DAYS_PER_MONTHS_1 m else Gen.rs_DAYS_PER_MONTHS_0 m

/-- the part after ordering and shifting: d1 ≤ d2 -/
def decompose (dim : Int → Int → Int) (d1 d2 : E) (total : Int) : PD :=
  let (dd0, h, mi, s, us) := if d2.isDt then timeDiff d1 d2 else (0, 0, 0, 0, 0)
  let (yd, md, dd) := dateDiff dim d1.y d1.m d1.d d2.y d2.m d2.d dd0
  ⟨yd, md, dd, h, mi, s, us, total⟩

def preciseDiffPy (a b : E) : PD :=
  if pyEq a b then PD.zero else
  let sw := pyGt a b
  let d1 := if sw then b else a
  let d2 := if sw then a else b
  let sign : Int := if sw then -1 else 1
  let total := Gen.day_number d2.y d2.m d2.d - Gen.day_number d1.y d1.m d1.d
  let sameTz := decide (d1.tz = d2.tz) && decide (d1.tz > 0)
  let doShift := d2.isDt && d1.isDt && (!sameTz || decide (total = 0))
  let d1 := if doShift then pyShift d1 else d1
  let d2 := if doShift then pyShift d2 else d2
  (decompose dimPy d1 d2 total).scale sign

/-- `DateTimeInfo::shift_to_utc`: day number → unix time → `local_time` -/
def rsShift (e : E) : E :=
  let days := Rs.day_number e.y e.m e.d - Rs.day_number Gen.rs_EPOCH_YEAR 1 1
  let seconds := e.h * Gen.rs_SECS_PER_HOUR + e.mi * Gen.rs_SECS_PER_MIN + e.s - e.off
  let ts := days * Gen.rs_SECS_PER_DAY + seconds
  let (y, m, d, h, mi, s) := LocalTime.localTime true LocalTime.rsTbl ts 0
  { e with y := y, m := m, d := d, h := h, mi := mi, s := s, off := 0 }

def E.dateOnly (e : E) : E := { e with h := 0, mi := 0, s := 0, us := 0 }

def preciseDiffRs (a b : E) : PD :=
  let sameTz := decide (a.tz = b.tz) && decide (a.tz > 0)
  let total := Rs.day_number b.y b.m b.d - Rs.day_number a.y a.m a.d
  let prep := fun (e : E) =>
    if e.isDt then (if (!sameTz && decide (e.off ≠ 0)) || decide (total = 0) then rsShift e else e) else e.dateOnly
  let a' := prep a
  let b' := prep b
  let sw := lexLt b'.key a'.key
  let d1 := if sw then b' else a'
  let d2 := if sw then a' else b'
  let sign : Int := if sw then -1 else 1
  let total := if sw then -total else total
  let (dd0, h, mi, s, us) := timeDiff d1 d2
  let (yd, md, dd) := dateDiff dimRs d1.y d1.m d1.d d2.y d2.m d2.d dd0
  PD.scale sign ⟨yd, md, dd, h, mi, s, us, total⟩

/-! ### Interval getters (interval.py:190-240, after the fix that reads seconds/microseconds from `_delta`) -/

def sgn (x : Int) : Int := if x < 0 then -1 else 1
def absI (x : Int) : Int := if x < 0 then -x else x

/-- `weeks = abs(_delta.days) // 7 * sign(_delta.days)` -/
def weeksOf (p : PD) : Int := absI p.days / 7 * sgn p.days

/-- `remaining_days = abs(_delta.days) % 7 * sign(self._days)`; `_days` is the whole-day count of the elapsed
    `Duration` (`elapsedUs` = elapsed microseconds): negative iff the elapsed time is ≤ −1 day -/
def remainingDaysOf (p : PD) (elapsedUs : Int) : Int :=
  absI p.days % 7 * (if elapsedUs ≤ -86400000000 then -1 else 1)

/-- `in_months = years * MONTHS_PER_YEAR + months` -/
def inMonthsOf (p : PD) : Int := p.years * 12 + p.months

end Pendulum.PreciseDiff
