import Pendulum.Model.Cal
import Pendulum.Gen.RsHelpers
import Pendulum.Gen.Helpers
/-! Model of pendulum's two ISO 8601 date/time parsers and of the public `parse()` wrapper.

* `rsParse`  — `rust/src/parsing.rs` (`Parser::parse`, `parse_datetime`, `parse_time`, `iso_to_ymd`,
  `ordinal_to_ymd`) followed by the conversion of `rust/src/python/parsing.rs` (CPython constructors).
* `pyParse`  — `src/pendulum/parsing/iso8601.py::parse_iso8601`: the regex `ISO8601_DT` is modelled as a
  deterministic recogniser that enumerates the ways the optional `date` group can match, in the
  engine's priority order, and takes the first one whose remainder matches `(time)?$` (the time
  sub-pattern is matched greedily, which is complete for it); then the post-processing code, literally.
* `commonParse` — `parsing/__init__.py::_parse_common` (regex `COMMON`), the fallback of `parse()`.
* `publicParse` — `parsing/__init__.py::parse/_parse/_normalize` + `parser.py::_parse` (options `exact`, `tz`, `now`).

Strings are `List Char`. Errors are Python exception kinds. Durations (`P…`), intervals (`…/…`) and
`"now"` are outside this model: they are answered with `Kind.other "Duration"|"Interval"|"Now"`.
The calendar arithmetic goes through the *generated* helpers `Gen.*` (python backend) and the hand model
`Rs.*` + generated `Gen.rs_*` tables (compiled backend). -/
namespace Pendulum.Iso
open Pendulum

inductive Backend | rust | py
  deriving DecidableEq, Repr

inductive Kind | parserError | valueError | other (name : String)
  deriving DecidableEq, Repr

inductive VKind | date | time | datetime
  deriving DecidableEq, Repr

/-- a parsed value; unused fields are 0 (`date`: h..us; `time`: y m d); `off` = UTC offset in seconds -/
structure Value where
  kind : VKind
  y : Int
  m : Int
  d : Int
  h : Int
  mi : Int
  s : Int
  us : Int
  off : Option Int
  deriving DecidableEq, Repr

abbrev R := Except Kind Value

deriving instance DecidableEq for Except

/-! ### CPython constructors (`datetime.date/time/datetime`): range checks raise `ValueError` -/

def dateOk (y m d : Int) : Prop := 1 ≤ y ∧ y ≤ 9999 ∧ 1 ≤ m ∧ m ≤ 12 ∧ 1 ≤ d ∧ d ≤ Cal.daysInMonth y m
instance (y m d : Int) : Decidable (dateOk y m d) := by unfold dateOk; infer_instance

def timeOk (h mi s us : Int) : Prop := 0 ≤ h ∧ h ≤ 23 ∧ 0 ≤ mi ∧ mi ≤ 59 ∧ 0 ≤ s ∧ s ≤ 59 ∧ 0 ≤ us ∧ us ≤ 999999
instance (h mi s us : Int) : Decidable (timeOk h mi s us) := by unfold timeOk; infer_instance

def mkDate (y m d : Int) : R :=
  if dateOk y m d then .ok ⟨.date, y, m, d, 0, 0, 0, 0, none⟩ else .error .valueError

def mkTime (h mi s us : Int) (off : Option Int) : R :=
  if timeOk h mi s us then .ok ⟨.time, 0, 0, 0, h, mi, s, us, off⟩ else .error .valueError

def mkDateTime (y m d h mi s us : Int) (off : Option Int) : R :=
  if dateOk y m d ∧ timeOk h mi s us then .ok ⟨.datetime, y, m, d, h, mi, s, us, off⟩ else .error .valueError

/-! ### digits -/

/-- first code points of the 68 runs `0..9` of Unicode category Nd (Python 3.12 `unicodedata`): what `\d` and
    `int()` accept in a `str` pattern. The compiled parser (`char::to_digit(10)`) accepts ASCII only. -/
def ndStarts : List Nat :=
  [0x30, 0x660, 0x6f0, 0x7c0, 0x966, 0x9e6, 0xa66, 0xae6, 0xb66, 0xbe6, 0xc66, 0xce6, 0xd66, 0xde6, 0xe50, 0xed0,
   0xf20, 0x1040, 0x1090, 0x17e0, 0x1810, 0x1946, 0x19d0, 0x1a80, 0x1a90, 0x1b50, 0x1bb0, 0x1c40, 0x1c50, 0xa620,
   0xa8d0, 0xa900, 0xa9d0, 0xa9f0, 0xaa50, 0xabf0, 0xff10, 0x104a0, 0x10d30, 0x11066, 0x110f0, 0x11136, 0x111d0,
   0x112f0, 0x11450, 0x114d0, 0x11650, 0x116c0, 0x11730, 0x118e0, 0x11950, 0x11c50, 0x11d50, 0x11da0, 0x11f50,
   0x16a60, 0x16ac0, 0x16b50, 0x1d7ce, 0x1d7d8, 0x1d7e2, 0x1d7ec, 0x1d7f6, 0x1e140, 0x1e2f0, 0x1e4f0, 0x1e950,
   0x1fbf0]

def ndDigit (n : Nat) : Option Nat :=
  match ndStarts.find? (fun s => decide (s ≤ n) && decide (n < s + 10)) with
  | some s => some (n - s)
  | none => none

/-- digit value of a character for the given backend -/
def dv : Backend → Char → Option Nat
  | .rust, c => if 48 ≤ c.toNat ∧ c.toNat ≤ 57 then some (c.toNat - 48) else none
  | .py, c => ndDigit c.toNat

def digitChar (d : Nat) : Char := Char.ofNat (48 + d)

/-- exactly `k` digits (Rust `parse_integer(k)`, regex `\d{k}`), accumulator `acc` -/
def exactN (b : Backend) : Nat → Nat → List Char → Option (Nat × List Char)
  | 0, acc, cs => some (acc, cs)
  | k+1, acc, c :: cs =>
    match dv b c with
    | some d => exactN b k (10 * acc + d) cs
    | none => none
  | _+1, _, [] => none

/-- all leading digits, as digit values -/
def spanD (b : Backend) : List Char → List Nat × List Char
  | [] => ([], [])
  | c :: cs =>
    match dv b c with
    | some d => (d :: (spanD b cs).1, (spanD b cs).2)
    | none => ([], c :: cs)

/-- microseconds from fraction digits: the first `slots` digits, right-padded with zeros
    (python: `int(f"{subsecond[:6]:0<6}")`; rust: 6-digit loop, drop the rest, expand) -/
def microAcc : Nat → Nat → List Nat → Nat
  | 0, acc, _ => acc
  | s+1, acc, [] => microAcc s (acc * 10) []
  | s+1, acc, d :: ds => microAcc s (acc * 10 + d) ds

/-- greedy `\d{1,2}`: (number of digits taken, value, rest) -/
def up2 (b : Backend) (cs : List Char) : Nat × Nat × List Char :=
  match cs with
  | c1 :: r1 =>
    match dv b c1 with
    | some d1 =>
      match r1 with
      | c2 :: r2 =>
        match dv b c2 with
        | some d2 => (2, 10 * d1 + d2, r2)
        | none => (1, d1, r1)
      | [] => (1, d1, [])
    | none => (0, 0, cs)
  | [] => (0, 0, [])

/-- optional single character: (present?, rest) -/
def optChar (ch : Char) : List Char → Bool × List Char
  | c :: r => if c = ch then (true, r) else (false, c :: r)
  | [] => (false, [])

/-! ### ordinal day → (month, day): the table walk shared by both backends
`for i in 1..14: if ord <= OFFSETS[leap][i]: day = ord - OFFSETS[leap][i-1]; month = i-1; break`.
`strict = true` is the comparison `<` that the compiled parser used before the repair (defect F1). -/

def walk (off : Int → Int) (strict : Bool) (ord : Int) : Nat → Int → Option (Int × Int)
  | 0, _ => none
  | n+1, i =>
    if (if strict then ord < off i else ord ≤ off i) then some (i - 1, ord - off (i - 1))
    else walk off strict ord n (i + 1)

def rsOff (leap : Bool) (i : Int) : Int := if leap then Gen.rs_MONTHS_OFFSETS_1 i else Gen.rs_MONTHS_OFFSETS_0 i
def pyOff (leap : Bool) (i : Int) : Int := if leap then Gen.py_MONTHS_OFFSETS_1 i else Gen.py_MONTHS_OFFSETS_0 i

/-! ## compiled parser -/

/-- an ordinal day below 1 belongs to the previous year -/
def adj1 (dy : Int → Int) (ordinal year : Int) : Int × Int :=
  if ordinal < 1 then (ordinal + dy (year - 1), year - 1) else (ordinal, year)

/-- … and one beyond the (possibly previous) year's length to the next year: the year adjustment both parsers
    apply to the ordinal `7·week + weekday − (weekday(Jan 4) + 3)`; `dy` = the backend's `days_in_year` -/
def adjust (dy : Int → Int) (ordinal year : Int) : Int × Int :=
  if (adj1 dy ordinal year).1 > dy (adj1 dy ordinal year).2
  then ((adj1 dy ordinal year).1 - dy (adj1 dy ordinal year).2, (adj1 dy ordinal year).2 + 1)
  else adj1 dy ordinal year

/-- `Parser::ordinal_to_ymd` (with `strict` = the pre-repair comparison) -/
def rsOrdToYmdG (strict : Bool) (year ordinal : Int) (allow : Bool) : Except Kind (Int × Int × Int) :=
  if ordinal < 1 ∧ allow = false then .error .valueError else
  if (adj1 Rs.days_in_year ordinal year).1 > Rs.days_in_year (adj1 Rs.days_in_year ordinal year).2 ∧ allow = false
  then .error .valueError else
  match walk (rsOff (Rs.is_leap (adjust Rs.days_in_year ordinal year).2)) strict (adjust Rs.days_in_year ordinal year).1 13 1 with
  | some (m, d) => .ok ((adjust Rs.days_in_year ordinal year).2, m, d)
  | none => .error .valueError

def rsOrdToYmd := rsOrdToYmdG false

/-- `Parser::iso_to_ymd` -/
def rsIsoToYmd (y w d : Int) : Except Kind (Int × Int × Int) :=
  if w < 1 ∨ w > 53 ∨ (w > 52 ∧ Rs.is_long_year y = false) then .error .valueError else
  if d < 1 ∨ d > 7 then .error .valueError else
  rsOrdToYmd y (w * 7 + d - (Rs.week_day y 1 4 + 3)) true

/-- `self.end() || current == ' ' || current == 'T'` -/
def atSep : List Char → Bool
  | [] => true
  | c :: _ => c == ' ' || c == 'T'

/-- `!self.end() && current != 'Z' && current != '+' && current != '-'` -/
def more : List Char → Bool
  | [] => false
  | c :: _ => !(c == 'Z' || c == '+' || c == '-')

/-- optional fractional second after the seconds (lines 462-493 / 511-542) -/
def rsFracOpt (cs : List Char) : Except Kind (Nat × List Char) :=
  match cs with
  | c :: r =>
    if c = '.' ∨ c = ',' then
      if (spanD .rust r).1.isEmpty then .error .valueError
      else .ok (microAcc 6 0 (spanD .rust r).1, (spanD .rust r).2)
    else .ok (0, cs)
  | [] => .ok (0, [])

def rsTzFin (neg : Bool) (hh mm : Nat) (r : List Char) : Except Kind (Option Int × List Char) :=
  let total : Int := ((mm : Int) + (hh : Int) * 60) * (if neg then -1 else 1)
  if total > 24 * 60 then .error .valueError else .ok (some (total * 60), r)

/-- `Z` / `±hh[:][mm]` (lines 562-589) -/
def rsTz (cs : List Char) : Except Kind (Option Int × List Char) :=
  match cs with
  | [] => .ok (none, [])
  | c :: r =>
    if c = 'Z' then .ok (some 0, r)
    else if c = '+' ∨ c = '-' then
      match exactN .rust 2 0 r with
      | none => .error .valueError
      | some (hh, r1) =>
        if r1.isEmpty then rsTzFin (c = '-') hh 0 []
        else if (optChar ':' r1).2.isEmpty then .error .valueError
        else
          match exactN .rust 2 0 (optChar ':' r1).2 with
          | none => .error .valueError
          | some (mm, r3) => rsTzFin (c = '-') hh mm r3
    else .ok (none, cs)

/-- seconds + optional fraction, then the basic/extended consistency check.
    `bad` = this time format cannot be combined with the date format seen before. -/
def rsSecFrac (bad : Bool) (mi : Nat) (r : List Char) : Except Kind (Nat × Nat × Nat × List Char) :=
  match exactN .rust 2 0 r with
  | none => .error .valueError
  | some (s, r3) =>
    match rsFracOpt r3 with
    | .error e => .error e
    | .ok (us, r4) => if bad then .error .valueError else .ok (mi, s, us, r4)

/-- minute / second / fraction after the hour (lines 438-549). After the repair of F07b the two
    "Cannot combine" checks apply only when a date was parsed (`hasDate`). -/
def rsMinSec (hasDate ext : Bool) (cs : List Char) : Except Kind (Nat × Nat × Nat × List Char) :=
  if more cs then
    if (optChar ':' cs).1 then
      match exactN .rust 2 0 (optChar ':' cs).2 with
      | none => .error .valueError
      | some (mi, r1) =>
        if more r1 then
          if (optChar ':' r1).1 then rsSecFrac (hasDate && !ext) mi (optChar ':' r1).2
          else .error .valueError
        else .ok (mi, 0, 0, r1)
    else
      match exactN .rust 2 0 cs with
      | none => .error .valueError
      | some (mi, r1) =>
        if more r1 then
          match rsSecFrac false mi r1 with
          | .error e => .error e
          | .ok x => if hasDate && ext then .error .valueError else .ok x
        else if hasDate && ext then .error .valueError else .ok (mi, 0, 0, r1)
  else .ok (0, 0, 0, cs)

structure TimeRes where
  h : Nat
  mi : Nat
  s : Nat
  us : Nat
  off : Option Int
  deriving DecidableEq, Repr

/-- `Parser::parse_time`; `skip = some hour` is the `skip_hour` entry (hour already read as "year") -/
def rsTime (hasDate ext : Bool) (skip : Option Nat) (cs : List Char) : Except Kind (TimeRes × List Char) :=
  let hr : Except Kind (Nat × List Char) :=
    match skip with
    | some h => .ok (h, cs)
    | none =>
      match cs with
      | c :: r =>
        if c = 'T' ∨ c = ' ' then
          match exactN .rust 2 0 r with
          | none => .error .valueError
          | some x => .ok x
        else .error .valueError
      | [] => .error .valueError
  match hr with
  | .error e => .error e
  | .ok (h, r0) =>
    match rsMinSec hasDate ext r0 with
    | .error e => .error e
    | .ok (mi, s, us, r1) =>
      match rsTz r1 with
      | .error e => .error e
      | .ok (off, r2) => .ok (⟨h, mi, s, us, off⟩, r2)

def withRest (e : Except Kind (Int × Int × Int)) (ext : Bool) (r : List Char) :
    Except Kind ((Int × Int × Int) × Bool × List Char) :=
  match e with
  | .error k => .error k
  | .ok t => .ok (t, ext, r)

/-- after the `W`: week number, optional (separator and) weekday (lines 277-302 / 331-349) -/
def rsWeekTail (year : Nat) (ext : Bool) (r : List Char) : Except Kind ((Int × Int × Int) × Bool × List Char) :=
  match exactN .rust 2 0 r with
  | none => .error .valueError
  | some (w, r1) =>
    if atSep r1 then withRest (rsIsoToYmd year w 1) ext r1
    else if ext then
      if (optChar '-' r1).1 then
        match exactN .rust 1 0 (optChar '-' r1).2 with
        | none => .error .valueError
        | some (d, r3) => withRest (rsIsoToYmd year w d) ext r3
      else .error .valueError
    else
      match exactN .rust 1 0 r1 with
      | none => .error .valueError
      | some (d, r2) => withRest (rsIsoToYmd year w d) ext r2

/-- extended format after `YYYY-`: `MM`, `MM-DD` or ordinal `DDD` (lines 303-329) -/
def rsMonthTailExt (year : Nat) (r : List Char) : Except Kind ((Int × Int × Int) × Bool × List Char) :=
  match exactN .rust 2 0 r with
  | none => .error .valueError
  | some (mo, r1) =>
    if atSep r1 then .ok ((year, mo, 1), true, r1)
    else if (optChar '-' r1).1 then
      match exactN .rust 2 0 (optChar '-' r1).2 with
      | none => .error .valueError
      | some (d, r3) => .ok ((year, mo, d), true, r3)
    else
      match exactN .rust 1 0 r1 with
      | none => .error .valueError
      | some (o, r2) => withRest (rsOrdToYmd year ((mo : Int) * 10 + o) false) true r2

/-- basic format after `YYYY`: `MMDD` or ordinal `DDD` (lines 350-371) -/
def rsBasicTail (year : Nat) (cs : List Char) : Except Kind ((Int × Int × Int) × Bool × List Char) :=
  match exactN .rust 2 0 cs with
  | none => .error .valueError
  | some (mo, r1) =>
    match exactN .rust 1 0 r1 with
    | none => .error .valueError
    | some (o, r2) =>
      if atSep r2 then withRest (rsOrdToYmd year ((mo : Int) * 10 + o) false) false r2
      else
        match exactN .rust 1 0 r2 with
        | none => .error .valueError
        | some (d2, r3) => .ok ((year, mo, ((o * 10 + d2 : Nat) : Int)), false, r3)

/-- the date productions after the four year digits (lines 273-371): ((y, m, d), extended?, rest) -/
def rsDateRest (year : Nat) (cs : List Char) : Except Kind ((Int × Int × Int) × Bool × List Char) :=
  if (optChar '-' cs).1 then
    if (optChar 'W' (optChar '-' cs).2).1 then rsWeekTail year true (optChar 'W' (optChar '-' cs).2).2
    else rsMonthTailExt year (optChar '-' cs).2
  else if (optChar 'W' cs).1 then rsWeekTail year false (optChar 'W' cs).2
  else rsBasicTail year cs

/-- "Unconverted data remains" unless at the end; a `/` would start an interval (not modelled) -/
def rsEnd (rest : List Char) (v : R) : R :=
  match rest with
  | [] => v
  | c :: _ => if c = '/' then .error (.other "Interval") else .error .valueError

def rsTimeOnly (ext : Bool) (skip : Option Nat) (cs : List Char) : R :=
  match rsTime false ext skip cs with
  | .error e => .error e
  | .ok (t, rest) =>
    match rest with
    | [] => mkTime t.h t.mi t.s t.us t.off
    | _ => .error .valueError

/-- after the date: optional time, end of input, conversion to a Python object -/
def rsFinish (x : Except Kind ((Int × Int × Int) × Bool × List Char)) : R :=
  match x with
  | .error e => .error e
  | .ok ((y, m, d), ext, r2) =>
    match r2 with
    | [] => mkDate y m d
    | _ =>
      match rsTime true ext none r2 with
      | .error e => .error e
      | .ok (t, rest) => rsEnd rest (mkDateTime y m d t.h t.mi t.s t.us t.off)

/-- `parse_datetime` when the string does not start with `T` -/
def rsMain (cs : List Char) : R :=
  match exactN .rust 2 0 cs with
  | none => .error .valueError
  | some (yy, r) =>
    if (optChar ':' r).1 then rsTimeOnly true (some yy) r
    else
      match exactN .rust 2 0 r with
      | none => .error .valueError
      | some (yy2, r1) => rsFinish (rsDateRest (yy * 100 + yy2) r1)

/-- `Parser::parse` + `python/parsing.rs::parse_iso8601` for a single date/time -/
def rsParse (cs : List Char) : R :=
  if cs.head? = some 'P' then .error (.other "Duration")
  else if cs.head? = some 'T' then rsTimeOnly false none cs
  else rsMain cs

/-! ## pure-Python parser -/

inductive PyTz
  | z
  | off (neg : Bool) (hh : Nat) (colon : Bool) (mm : Option Nat)
  deriving DecidableEq, Repr

/-- the named groups of the `time` part of `ISO8601_DT` -/
structure PyT where
  timesep : Bool
  hour : Nat
  minsep : Bool
  minute : Option Nat
  secsep : Bool
  second : Option Nat
  frac : Option (List Nat)
  tz : Option PyTz
  deriving DecidableEq, Repr

/-- the ways the `date` part of `ISO8601_DT` can match -/
inductive PyD
  | nodate
  | year (y : Nat)
  | ym (y : Nat) (monthsep : Bool) (mo : Nat)
  | ymd (y : Nat) (monthsep : Bool) (mo : Nat) (daysep : Bool) (dayLen : Nat) (day : Nat)
  | week (y : Nat) (weeksep : Bool) (w : Nat) (wdsep : Bool) (wd : Option Nat)
  deriving DecidableEq, Repr

def optNum (n v : Nat) : Option Nat := if n = 0 then none else some v

/-- `(?:[.,])(\d{1,9})` optional; `none` = the remainder cannot match -/
def pyFrac (cs : List Char) : Option (Option (List Nat) × List Char) :=
  match cs with
  | c :: r =>
    if c = '.' ∨ c = ',' then
      if 1 ≤ (spanD .py r).1.length ∧ (spanD .py r).1.length ≤ 9 then some (some (spanD .py r).1, (spanD .py r).2)
      else none
    else some (none, cs)
  | [] => some (none, [])

/-- `((?:[-+])\d{2}:?(?:\d{2})?|Z)?$` -/
def pyTzMatch (cs : List Char) : Option (Option PyTz) :=
  match cs with
  | [] => some none
  | c :: r =>
    if c = 'Z' then (if r.isEmpty then some (some .z) else none)
    else if c = '+' ∨ c = '-' then
      match exactN .py 2 0 r with
      | none => none
      | some (hh, r1) =>
        match exactN .py 2 0 (optChar ':' r1).2 with
        | some (mm, r3) => if r3.isEmpty then some (some (.off (c = '-') hh (optChar ':' r1).1 (some mm))) else none
        | none => if (optChar ':' r1).2.isEmpty then some (some (.off (c = '-') hh (optChar ':' r1).1 none)) else none
    else none

/-- the `time` group after its optional separator, followed by `$`, matched greedily -/
def pyTimeCore (ts : Bool) (cs : List Char) : Option PyT :=
  let a := up2 .py cs
  if a.1 = 0 then none else
  let ms := optChar ':' a.2.2
  let m := up2 .py ms.2
  let ss := optChar ':' m.2.2
  let s := up2 .py ss.2
  match pyFrac s.2.2 with
  | none => none
  | some (fr, r6) =>
    match pyTzMatch r6 with
    | none => none
    | some tz => some ⟨ts, a.2.1, ms.1, optNum m.1 m.2.1, ss.1, optNum s.1 s.2.1, fr, tz⟩

/-- `(?P<timesep>[T\ ])?` then the rest of the time group -/
def pyTimeMatch (cs : List Char) : Option PyT :=
  if cs.head? = some 'T' ∨ cs.head? = some ' ' then pyTimeCore true cs.tail else pyTimeCore false cs

/-- a candidate match of the date group is kept iff the remainder matches `(time)?$` -/
def tryCand (d : PyD) (rest : List Char) : Option (PyD × Option PyT) :=
  match rest with
  | [] => some (d, none)
  | _ =>
    match pyTimeMatch rest with
    | some t => some (d, some t)
    | none => none

/-- candidates of `classic`, in the engine's order: month+day(2), month+day(1), month, year only -/
def pyClassic (cs : List Char) : Option (PyD × Option PyT) :=
  match exactN .py 4 0 cs with
  | none => none
  | some (y, r) =>
    let md : Option (PyD × Option PyT) :=
      match exactN .py 2 0 (optChar '-' r).2 with
      | none => none
      | some (mo, r2) =>
        let msep := (optChar '-' r).1
        let ds := optChar '-' r2
        (match exactN .py 2 0 ds.2 with
          | some (d, r4) => tryCand (.ymd y msep mo ds.1 2 d) r4
          | none => none)
        <|> (match exactN .py 1 0 ds.2 with
          | some (d, r4) => tryCand (.ymd y msep mo ds.1 1 d) r4
          | none => none)
        <|> tryCand (.ym y msep mo) r2
    md <|> tryCand (.year y) r

/-- candidates of `isocalendar`: with weekday digit, without -/
def pyIsoCal (cs : List Char) : Option (PyD × Option PyT) :=
  match exactN .py 4 0 cs with
  | none => none
  | some (y, r) =>
    let ws := optChar '-' r
    match ws.2 with
    | c :: r1 =>
      if c = 'W' then
        match exactN .py 2 0 r1 with
        | none => none
        | some (w, r2) =>
          let wds := optChar '-' r2
          (match exactN .py 1 0 wds.2 with
            | some (d, r4) => tryCand (.week y ws.1 w wds.1 (some d)) r4
            | none => none)
          <|> tryCand (.week y ws.1 w wds.1 none) wds.2
      else none
    | [] => none

/-- first match of `^(date)?(time)?$` -/
def pyMatch (cs : List Char) : Option (PyD × Option PyT) :=
  pyClassic cs <|> pyIsoCal cs <|> tryCand .nodate cs

/-- `_get_iso_8601_week` (ParserError / ValueError are both turned into ParserError by the caller).
    `date(year, 1, 1) + timedelta(days=ordinal - 1)`: year range check, then the stdlib's ordinal→month/day walk. -/
def pyWeek (y w : Int) (wd : Option Nat) : Except Kind (Int × Int × Int) :=
  let weekday : Int := match wd with
    | none => 1
    | some d => d
  if w < 1 ∨ w > 53 ∨ (w > 52 ∧ Gen.is_long_year y = false) then .error .parserError else
  if weekday < 1 ∨ weekday > 7 then .error .parserError else
  let oy2 := adjust Gen.days_in_year (w * 7 + weekday - (Gen.week_day y 1 4 + 3)) y
  if oy2.2 < 1 ∨ oy2.2 > 9999 then .error .parserError else
  let leap := Cal.isLeap oy2.2
  let mth := Cal.monthOfYday leap (oy2.1 - 1)
  .ok (oy2.2, mth, oy2.1 - Cal.daysBeforeMonth leap mth)

/-- date fields from the groups: (year, month, day, ambiguous_date) -/
def pyDateFields : PyD → Except Kind (Int × Int × Int × Bool)
  | .nodate => .ok (0, 1, 1, false)
  | .year y => .ok (y, 1, 1, false)
  | .ym y msep mo => .ok (y, mo, 1, !msep)
  | .ymd y _ mo dsep len d =>
    if dsep = false ∧ len = 1 then
      let ordinal : Int := (mo : Int) * 10 + d
      let leap := Gen.is_leap y
      if ordinal > pyOff leap 13 then .error .parserError else
      match walk (pyOff leap) false ordinal 13 1 with
      | some (m, dd) => .ok (y, m, dd, false)
      | none => .ok (y, 1, 1, false)
    else .ok (y, mo, d, false)
  | .week y wsep w wdsep wd =>
    if wsep = true ∧ wdsep = false ∧ wd.isSome then .error .parserError else
    if wsep = false ∧ wdsep = true then .error .parserError else
    if wdsep = true ∧ wd.isNone then .error .parserError else
    match pyWeek y w wd with
    | .error _ => .error .parserError
    | .ok (yy, m, d) => .ok (yy, m, d, false)

/-- the "ambiguous date is really hhmmss" branch: `hhmmss = f"{year:04d}{month:02d}"`, sliced 2/2/2 -/
def pyAmbiguousTime (y mo : Nat) : R := mkTime (y / 100 : Nat) (y % 100 : Nat) mo 0 none

def pyTzOffset : Option PyTz → Except Kind (Option Int)
  | none => .ok none
  | some .z => .ok (some 0)
  | some (.off neg hh colon mm) =>
    match mm with
    | none => if colon then .error .valueError else .ok (some (((hh : Int) * 60) * 60 * (if neg then -1 else 1)))
    | some m => .ok (some ((((hh : Int) * 60) + m) * 60 * (if neg then -1 else 1)))

/-- post-processing of the time groups (iso8601.py:203-262) -/
def pyTimeFields (t : PyT) : Except Kind TimeRes :=
  if t.minute.isNone ∧ t.minsep then .error .parserError else
  if t.secsep ∧ t.minsep = false ∧ t.minute.isSome then .error .parserError else
  if t.second.isSome ∧ t.secsep = false ∧ t.minsep then .error .parserError else
  if t.second.isNone ∧ t.secsep then .error .parserError else
  let us := match t.frac with
    | none => 0
    | some ds => microAcc 6 0 ds
  match pyTzOffset t.tz with
  | .error e => .error e
  | .ok off => .ok ⟨t.hour, t.minute.getD 0, t.second.getD 0, us, off⟩

def stripNl (cs : List Char) : List Char :=
  if cs.getLast? = some '\n' then cs.dropLast else cs

/-- `parse_iso8601` of iso8601.py for a single date/time -/
def pyParse (cs0 : List Char) : R :=
  if cs0.head? = some 'P' then .error (.other "Duration") else
    match pyMatch (stripNl cs0) with
    | none => .error .parserError
    | some (dg, tg) =>
      match pyDateFields dg with
      | .error e => .error e
      | .ok (y, m, d, amb) =>
        match tg with
        | none =>
          if amb then
            (match dg with
              | .ym yy _ mo => pyAmbiguousTime yy mo
              | _ => .error .parserError)
          else mkDate y m d
        | some t =>
          if amb then .error .parserError else
          if dg ≠ .nodate ∧ t.timesep = false then .error .parserError else
          match pyTimeFields t with
          | .error e => .error e
          | .ok tr =>
            if dg = .nodate then mkTime tr.h tr.mi tr.s tr.us tr.off
            else mkDateTime y m d tr.h tr.mi tr.s tr.us tr.off

def parseIso : Backend → List Char → R
  | .rust => rsParse
  | .py => pyParse

/-! ## `_parse_common` (regex `COMMON`) — fallback of `parse()` -/

/-- `( ?\d{1,2}:(\d{1,2})(?::(\d{1,2}))?([.,]\d{1,9})?)$` → (hour, minute?, second?, frac?); the minute group is mandatory
    since the repair of F3 (`parse("2:")` raised TypeError); `cmBuild` keeps the `int(None)` branch of the code -/
def cmTimeMatch (cs : List Char) : Option (Nat × Option Nat × Option Nat × Option (List Nat)) :=
  let r0 := (optChar ' ' cs).2
  let a := up2 .py r0
  if a.1 = 0 then none else
  match a.2.2 with
  | ':' :: r2 =>
    let m := up2 .py r2
    if m.1 = 0 then none else
    let sec : Option (Option Nat × List Char) :=
      match m.2.2 with
      | ':' :: r4 => if (up2 .py r4).1 = 0 then none else some (some (up2 .py r4).2.1, (up2 .py r4).2.2)
      | _ => some (none, m.2.2)
    match sec with
    | none => none
    | some (s, r5) =>
      match r5 with
      | [] => some (a.2.1, optNum m.1 m.2.1, s, none)
      | c :: r6 =>
        if c = '.' ∨ c = ',' then
          if 1 ≤ (spanD .py r6).1.length ∧ (spanD .py r6).1.length ≤ 9 ∧ (spanD .py r6).2.isEmpty
          then some (a.2.1, optNum m.1 m.2.1, s, some (spanD .py r6).1) else none
        else none
  | _ => none

def optSep (cs : List Char) : List Char :=
  match cs with
  | c :: r => if c = '/' ∨ c = ':' then r else cs
  | [] => []

/-- value built from a COMMON match: date (y,m,d)? × time? -/
def cmBuild (dt : Option (Int × Int × Int)) (t : Option (Nat × Option Nat × Option Nat × Option (List Nat))) : R :=
  match t with
  | none =>
    match dt with
    | some (y, m, d) => mkDate y m d
    | none => mkDate 0 1 1
  | some (h, mi, s, fr) =>
    match mi with
    | none => .error (.other "TypeError")
    | some mi =>
      let us := match fr with
        | none => 0
        | some ds => microAcc 6 0 ds
      match dt with
      | some (y, m, d) => mkDateTime y m d h mi (s.getD 0) us none
      | none => mkTime h mi (s.getD 0) us none

def cmTry (dt : Option (Int × Int × Int)) (rest : List Char) : Option R :=
  match rest with
  | [] => some (cmBuild dt none)
  | _ =>
    match cmTimeMatch rest with
    | some t => some (cmBuild dt (some t))
    | none => none

def commonParse (cs0 : List Char) : R :=
  let cs := stripNl cs0
  let withDate : Option R :=
    match exactN .py 4 0 cs with
    | none => none
    | some (y, r) =>
      (match exactN .py 2 0 (optSep r) with
        | none => none
        | some (mo, r2) =>
          match exactN .py 2 0 (optSep r2) with
          | none => none
          | some (d, r4) => cmTry (some (y, mo, d)) r4)
      <|> cmTry (some (y, 1, 1)) r
  match withDate <|> cmTry none cs with
  | some r => r
  | none => .error .parserError

/-! ## the public `pendulum.parse(text, exact=…, tz=…, now=…)` -/

/-- `_parse`: iso8601 → interval → common → (strict) ParserError; `suppress(ValueError)` catches both kinds -/
def parseChain (b : Backend) (cs : List Char) : R :=
  match parseIso b cs with
  | .ok v => .ok v
  | .error (.other n) => .error (.other n)
  | .error _ =>
    if cs.contains '/' then .error (.other "Interval") else
    match commonParse cs with
    | .ok v => .ok v
    | .error .parserError => .error .parserError
    | .error e => .error e

/-- `_normalize` + `parser._parse`: `tz` = offset (seconds) of the `tz` option when it is a fixed offset,
    default UTC; `now` = the date used for bare times when `exact` is false. An aware datetime goes through
    `DateTime.instance`, whose `dt.utcoffset()` raises ValueError for an offset of 24 h or more. -/
def wrap (exact : Bool) (tz : Option Int) (now : Int × Int × Int) (v : Value) : R :=
  let dflt : Int := tz.getD 0
  match v.kind with
  | .datetime =>
    match v.off with
    | some o => if -86400 < o ∧ o < 86400 then .ok v else .error .valueError
    | none => .ok { v with off := some dflt }
  | .date => if exact then .ok v else .ok { v with kind := .datetime, off := some dflt }
  | .time =>
    if exact then .ok { v with off := none }
    else .ok { v with kind := .datetime, y := now.1, m := now.2.1, d := now.2.2, off := some dflt }

def publicParse (b : Backend) (exact : Bool) (tz : Option Int) (now : Int × Int × Int) (cs : List Char) : R :=
  if cs = ['n', 'o', 'w'] then .error (.other "Now") else
  match parseChain b cs with
  | .error e => .error e
  | .ok v => wrap exact tz now v

/-! ## renderers (the well-formed strings of property C07) -/

/-- `k`-digit zero-padded decimal -/
def digits : Nat → Nat → List Char
  | 0, _ => []
  | k+1, n => digitChar (n / 10 ^ k % 10) :: digits k n

def dash (ext : Bool) : List Char := if ext then ['-'] else []
def colon (ext : Bool) : List Char := if ext then [':'] else []

def rCalendar (ext : Bool) (y m d : Nat) : List Char := digits 4 y ++ dash ext ++ digits 2 m ++ dash ext ++ digits 2 d
def rYearMonth (y m : Nat) : List Char := digits 4 y ++ '-' :: digits 2 m
def rYear (y : Nat) : List Char := digits 4 y
def rOrdinal (ext : Bool) (y n : Nat) : List Char := digits 4 y ++ dash ext ++ digits 3 n
def rWeek (ext : Bool) (y w : Nat) : List Char := digits 4 y ++ dash ext ++ 'W' :: digits 2 w
def rWeekDay (ext : Bool) (y w wd : Nat) : List Char := digits 4 y ++ dash ext ++ 'W' :: digits 2 w ++ dash ext ++ digits 1 wd

/-- the six complete date representations -/
inductive DForm
  | cal (ext : Bool)
  | ord (ext : Bool)
  | week (ext : Bool)
  deriving DecidableEq, Repr

def DForm.ext : DForm → Bool
  | .cal e => e
  | .ord e => e
  | .week e => e

/-- the date `y-m-d` written in the given representation (day of year / ISO week date from the reference calendar) -/
def rDate (f : DForm) (y m d : Nat) : List Char :=
  match f with
  | .cal e => rCalendar e y m d
  | .ord e => rOrdinal e y (Cal.dayOfYear y m d).toNat
  | .week e => rWeekDay e (Cal.isoCalendar y m d).1.toNat (Cal.isoCalendar y m d).2.1.toNat (Cal.isoCalendar y m d).2.2.toNat

/-- precision of a rendered time -/
inductive Prec
  | h
  | hm
  | hms
  | frac (comma : Bool) (k : Nat) (n : Nat)    -- `k` fraction digits with value `n`
  deriving DecidableEq, Repr

def rTime (ext : Bool) (h mi s : Nat) : Prec → List Char
  | .h => digits 2 h
  | .hm => digits 2 h ++ colon ext ++ digits 2 mi
  | .hms => digits 2 h ++ colon ext ++ digits 2 mi ++ colon ext ++ digits 2 s
  | .frac comma k n => digits 2 h ++ colon ext ++ digits 2 mi ++ colon ext ++ digits 2 s ++ (if comma then ',' else '.') :: digits k n

/-- UTC designator / offset forms -/
inductive Off
  | naive
  | z
  | hh (neg : Bool) (h : Nat)
  | hhmm (neg : Bool) (colon : Bool) (h m : Nat)
  deriving DecidableEq, Repr

def sign (neg : Bool) : Char := if neg then '-' else '+'

def rOff : Off → List Char
  | .naive => []
  | .z => ['Z']
  | .hh neg h => sign neg :: digits 2 h
  | .hhmm neg c h m => sign neg :: digits 2 h ++ colon c ++ digits 2 m

def offSeconds : Off → Option Int
  | .naive => none
  | .z => some 0
  | .hh neg h => some ((h : Int) * 3600 * (if neg then -1 else 1))
  | .hhmm neg _ h m => some (((h : Int) * 3600 + (m : Int) * 60) * (if neg then -1 else 1))

/-- microseconds denoted by `k` fraction digits of value `n`, truncated -/
def fracMicros (k n : Nat) : Nat := n * 10 ^ 6 / 10 ^ k

def precFields (mi s : Nat) : Prec → Nat × Nat × Nat
  | .h => (0, 0, 0)
  | .hm => (mi, 0, 0)
  | .hms => (mi, s, 0)
  | .frac _ k n => (mi, s, fracMicros k n)

/-- `DateTime.isoformat(sep)` (= `str`, `to_iso8601_string`, `to_rfc3339_string`; `withUs = false`: ATOM / W3C) of a value
    whose offset is a whole number of minutes; `zulu`: `to_iso8601_string` writes `Z` for the zone named UTC -/
def rIsoformat (sep : Char) (withUs : Bool) (zulu : Bool) (y m d h mi s us : Nat) (offMin : Int) : List Char :=
  rCalendar true y m d ++ sep :: rTime true h mi s (if us = 0 ∨ withUs = false then .hms else .frac false 6 us) ++
    (if zulu then ['Z'] else rOff (.hhmm (decide (offMin < 0)) true (offMin.natAbs / 60) (offMin.natAbs % 60)))

end Pendulum.Iso
