/-! Base types of the formatter model (imported by the regenerated `Gen/Format*.lean`):
strings as `List Char`, the record of fields a format rule reads, Python's `format(n, "0Wd")`,
the locale record. No Mathlib. -/
namespace Pendulum.Fmt

abbrev Str := List Char

/-- the attributes of a `DateTime` the formatter reads (formatter.py `_TOKENS_RULES`, `_format_token`,
    `_format_localizable_token`) -/
structure DTF where
  year : Int
  month : Int
  day : Int
  hour : Int
  minute : Int
  second : Int
  microsecond : Int
  quarter : Int
  day_of_year : Int
  day_of_week : Int        -- Monday = 0 (WeekDay)
  isoweekday : Int
  week_of_year : Int
  int_timestamp : Int
  aware : Bool             -- `dt.tzinfo is not None`
  offset : Int             -- `dt.utcoffset()` in seconds
  tzname : Str             -- `dt.tzname()`
  timezone_name : Str      -- `dt.timezone_name or ""`
  deriving Repr

def digitChar (d : Nat) : Char := Char.ofNat (48 + d)

/-- decimal digits of `n` using exactly `k` positions (most significant first; high digits dropped) -/
def digitsW : Nat → Nat → Str
  | 0, _ => []
  | k+1, n => digitChar (n / 10 ^ k % 10) :: digitsW k n

/-- number of decimal digits of `n` (1 for 0) — fuelled to stay structurally recursive -/
def numDigitsAux : Nat → Nat → Nat
  | 0, _ => 1
  | f+1, n => if n < 10 then 1 else numDigitsAux f (n / 10) + 1

def numDigits (n : Nat) : Nat := numDigitsAux n n

/-- Python `format(n, "d")` for a natural number -/
def natStr (n : Nat) : Str := digitsW (numDigits n) n

/-- Python `format(n, "0Wd")` (`W = 0` is plain `d`): sign first, then zero padding up to total width `W` -/
def pyFmtD (w : Nat) (n : Int) : Str :=
  if n < 0 then '-' :: digitsW (max (w - 1) (numDigits n.natAbs)) n.natAbs
  else digitsW (max w (numDigits n.toNat)) n.toNat

/-- conversion applied by `_PARSE_TOKENS[tok]` to the matched text -/
inductive PKind where
  | int (mul add : Int)    -- `int(x) * mul + add`
  | str                    -- the text itself
  | float                  -- `float(x)`
  | floatMs                -- `float(x) / 1e3`
  deriving Repr, DecidableEq

/-- the part of a locale the formatter reads -/
structure Loc where
  name : String
  monthsWide : List String      -- index 0 = month 1
  monthsAbbr : List String
  daysWide : List String        -- index 0 = Monday
  daysAbbr : List String
  daysShort : List String
  am : String
  pm : String
  amLower : String             -- `am.lower()` (Python's Unicode lower-casing, evaluated by the generator)
  pmLower : String
  firstDay : Option Int         -- translations.week_data.first_day
  ordinalCat : Int → String     -- CLDR ordinal category lambda
  ordinalSuffix : Option (List (String × String))   -- custom.ordinal (category → suffix)
  dateFormats : List (String × String)              -- custom.date_formats

end Pendulum.Fmt
