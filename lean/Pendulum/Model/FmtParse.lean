import Pendulum.Model.Fmt
import Pendulum.Model.LocalTime
import Pendulum.Gen.FormatZones
/-! Hand model of `Formatter.parse` (formatting/formatter.py:360-698), i.e. of `from_format`, **as repaired** by
the `fix:` commits of this property (zone names with several `/`, `Y` converter, `re.fullmatch`, values taken
from the full match, negative fractional timestamps, escapes tokenized like `format()`, meridiem test with absent members read as 0).

The code tokenizes the format with `_FORMAT_RE` (the same tokenization as `format()`), turns literal and
escaped text into `re.escape`d text and each token into a named group built from `_REGEX_TOKENS` / the locale,
matches the whole string with `re.fullmatch`, feeds the groups to `_get_parsed_value(s)` and finally
`_check_parsed` fills the gaps from `now`.  Regular expressions are not interpreted here: every group is
modelled as a hand-written recogniser returning the **candidate match lengths in the regex engine's priority
order** (greedy first, then backtracking), and a sequence of elements is matched depth-first over these
candidates, which is what a backtracking engine does for a concatenation.  The regex sources this was written
against are pinned by `Props.C08.regex_table_pinned`. -/
namespace Pendulum.Fmt
open Pendulum

/-! ### pattern elements -/

inductive PEl where
  | lit (c : Char)        -- one literal character (re.escape'd)
  | tok (t : String)      -- a named group
  deriving Repr, DecidableEq

/-- the pattern elements of a tokenized format: one literal element per character of literal / escaped text -/
def pelsOf : List Item → List PEl
  | [] => []
  | Item.lit t :: rest => t.map PEl.lit ++ pelsOf rest
  | Item.tok t :: rest => PEl.tok (String.ofList t) :: pelsOf rest

/-! ### recognisers: candidate lengths in priority order -/

def digitRun (s : Str) : Nat := (s.takeWhile Char.isDigit).length

/-- `hi, hi-1, …, lo` -/
def rangeDown (hi lo : Nat) : List Nat :=
  if hi < lo then [] else (List.range (hi + 1 - lo)).map (fun i => hi - i)

/-- `\d{lo,hi}` (hi = 0: unbounded) -/
def lensD (lo hi : Nat) (s : Str) : List Nat :=
  let n := digitRun s
  let n := if hi == 0 then n else min n hi
  rangeDown n lo

/-- `[0-9 ]\d?` -/
def lensPad (s : Str) : List Nat :=
  match s with
  | c :: rest => if c.isDigit || c == ' ' then (if digitRun rest ≥ 1 then [2, 1] else [1]) else []
  | [] => []

/-- `[+-]?\d+` -/
def lensSigned (s : Str) : List Nat :=
  match s with
  | c :: rest => if c == '+' || c == '-' then (lensD 1 0 rest).map (· + 1) else lensD 1 0 s
  | [] => []

/-- `[+-]?\d+(\.\d{1,6})?` -/
def lensTimestamp (s : Str) : List Nat :=
  let (sg, body) := match s with
    | c :: rest => if c == '+' || c == '-' then (1, rest) else (0, s)
    | [] => (0, s)
  (lensD 1 0 body).flatMap fun k =>
    let after := body.drop k
    let withFrac := match after with
      | '.' :: fr => (lensD 1 6 fr).map (fun j => sg + k + 1 + j)
      | _ => []
    withFrac ++ [sg + k]

def twoDigits (s : Str) : Bool := digitRun (s.take 2) == 2

/-- `[Zz]|[+-]\d\d:?\d\d` (short = false) / `[Zz]|[+-]\d\d(?::?\d\d)?` (short = true) -/
def lensOffset (short : Bool) (s : Str) : List Nat :=
  match s with
  | c :: rest =>
    if c == 'Z' || c == 'z' then [1]
    else if (c == '+' || c == '-') && twoDigits rest then
      let tail := rest.drop 2
      let long := match tail with
        | ':' :: t => if twoDigits t then [6] else []
        | _ => if twoDigits tail then [5] else []
      long ++ (if short then [3] else [])
    else []
  | [] => []

def isTzChar1 (c : Char) : Bool := c.isAlphanum || c == '-' || c == '+'
def isTzChar2 (c : Char) : Bool := isTzChar1 c || c == '_'

/-- `[A-Za-z0-9-+]+(/[A-Za-z0-9-+_]+)*` (formatter.py `_MATCH_TIMEZONE` after the F13 repair: any number of
    `/`-separated segments); `segs` bounds the number of further segments tried -/
def lensTzTail : Nat → Str → List Nat
  | 0, _ => [0]
  | f+1, s =>
    match s with
    | '/' :: rest =>
      let n := (rest.takeWhile isTzChar2).length
      (rangeDown n 1).flatMap (fun j => (lensTzTail f (rest.drop j)).map (fun t => 1 + j + t)) ++ [0]
    | _ => [0]

def lensTz (maxSegs : Nat) (s : Str) : List Nat :=
  let n := (s.takeWhile isTzChar1).length
  (rangeDown n 1).flatMap fun k => (lensTzTail maxSegs (s.drop k)).map (fun t => k + t)

/-- a locale word used as a regex: `.` matches any character but a newline, everything else itself -/
def wordMatch : Str → Str → Bool
  | [], _ => true
  | _ :: _, [] => false
  | p :: ps, c :: cs => (if p == '.' then c != '\n' else p == c) && wordMatch ps cs

def lensWords (ws : List Str) (s : Str) : List Nat :=
  ws.flatMap fun w => if wordMatch w s then [w.length] else []

/-- `\d+<suffix>` for each ordinal suffix -/
def lensOrdinal (sufs : List Str) (s : Str) : List Nat :=
  sufs.flatMap fun suf => (lensD 1 0 s).flatMap fun k => if wordMatch suf (s.drop k) then [k + suf.length] else []

/-- how `_replace_tokens` turns a token into a group; `error` = the exception it raises -/
inductive Group where
  | lens (f : Str → List Nat)
  | error (kind : String)

/-- number of `/segment` repetitions the `z` recogniser may take, read off the generated regex source:
    `[A-Za-z0-9-+]+(/[A-Za-z0-9-+_]+)?` → 1 (the shipped regex), `…)*` → unbounded (8: no IANA name has more) -/
def tzSegs : Option Nat :=
  match Gen.Format.regexTokens.find? (fun p => p.1 == "z") with
  | some (_, [src]) =>
    if src == "[A-Za-z0-9-+]+(/[A-Za-z0-9-+_]+)?" then some 1
    else if src == "[A-Za-z0-9-+]+(/[A-Za-z0-9-+_]+)*" then some 8
    else none
  | _ => none

def groupOf (L : Loc) (tok : String) : Group :=
  match Gen.Format.localizableKeys.find? (fun p => p.1 == tok) with
  | some (_, kind) =>
    if kind == "none" then Group.error "AttributeError"
    else if tok == "MMMM" then Group.lens (lensWords (L.monthsWide.map String.toList))
    else if tok == "MMM" then Group.lens (lensWords (L.monthsAbbr.map String.toList))
    else if tok == "dddd" then Group.lens (lensWords (L.daysWide.map String.toList))
    else if tok == "ddd" then Group.lens (lensWords (L.daysAbbr.map String.toList))
    else if tok == "dd" then Group.lens (lensWords (L.daysShort.map String.toList))
    else if tok == "Do" then
      match L.ordinalSuffix with
      | none => Group.error "AttributeError"
      | some tbl => if tbl.isEmpty then Group.error "ValueError" else Group.lens (lensOrdinal (tbl.map (·.2.toList)))
    else if tok == "A" then Group.lens (lensWords [L.am.toList, L.pm.toList])
    else if tok == "a" then Group.lens (lensWords [L.amLower.toList, L.pmLower.toList])
    else Group.error "Unmodelled"
  | none =>
    if (Gen.Format.regexTokens.find? (fun p => p.1 == tok)).isNone then Group.error "ValueError"
    else if tok == "Y" || tok == "x" then Group.lens lensSigned
    else if tok == "YY" then Group.lens (fun s => lensD 1 2 s ++ lensD 2 2 s)
    else if tok == "YYYY" then Group.lens (fun s => lensD 1 4 s ++ lensD 4 4 s)
    else if tok == "Q" || tok == "d" || tok == "E" then Group.lens (lensD 1 1)
    else if tok == "M" || tok == "D" || tok == "H" || tok == "h" || tok == "m" || tok == "s" then Group.lens (lensD 1 2)
    else if tok == "MM" || tok == "HH" || tok == "hh" || tok == "mm" || tok == "ss" then
      Group.lens (fun s => lensD 1 2 s ++ lensD 2 2 s)
    else if tok == "DD" then Group.lens (fun s => lensPad s ++ lensD 2 2 s)
    else if tok == "DDD" then Group.lens (lensD 1 3)
    else if tok == "DDDD" then Group.lens (lensD 3 3)
    else if tok == "S" then Group.lens (fun s => lensD 1 3 s ++ lensD 1 1 s)
    else if tok == "SS" then Group.lens (fun s => lensD 1 3 s ++ lensD 2 2 s)
    else if tok == "SSS" then Group.lens (fun s => lensD 1 3 s ++ lensD 3 3 s)
    else if tok == "SSSS" || tok == "SSSSS" || tok == "SSSSSS" then Group.lens (lensD 1 0)
    else if tok == "X" then Group.lens lensTimestamp
    else if tok == "ZZ" then Group.lens (lensOffset true)
    else if tok == "Z" then Group.lens (lensOffset false)
    else if tok == "z" then (match tzSegs with | some n => Group.lens (lensTz n) | none => Group.error "Unmodelled")
    else Group.error "Unmodelled"

/-! ### matching a sequence of elements -/

abbrev El := Str → List Nat

def firstSome {β : Type} (f : Nat → Option β) : List Nat → Option β
  | [] => none
  | n :: ns => match f n with
    | some r => some r
    | none => firstSome f ns

/-- depth-first search over candidate lengths: the lengths chosen for each element by a backtracking
    engine; `fin` is the condition on the remaining input (`$`, or nothing for an unanchored match) -/
def dfs (fin : Str → Bool) : List El → Str → Option (List Nat)
  | [], s => if fin s then some [] else none
  | e :: es, s => firstSome (fun n => (dfs fin es (s.drop n)).map (n :: ·)) (e s)

def litEl (c : Char) : El := fun s => if s.head? == some c then [1] else []

/-! ### collecting values (`_get_parsed_values`) -/

inductive TzP where
  | fixed (off : Int)
  | named (n : Str)
  deriving Repr, DecidableEq

structure Parsed where
  year : Option Int := none
  month : Option Int := none
  day : Option Int := none
  hour : Option Int := none
  minute : Option Int := none
  second : Option Int := none
  microsecond : Option Int := none
  tz : Option TzP := none
  quarter : Option Int := none
  day_of_week : Option Int := none
  day_of_year : Option Int := none
  meridiem : Option Bool := none          -- some true = "pm"
  timestamp : Option (Int × Int) := none  -- floor(seconds), microseconds read from the decimal text
  deriving Repr, DecidableEq

def digitVal (c : Char) : Nat := c.toNat - 48

/-- `int(text)` for a run of ASCII digits with optional surrounding blanks / sign -/
def natOfDigits (s : Str) : Nat := s.foldl (fun acc c => acc * 10 + digitVal c) 0

def intOf (s : Str) : Option Int :=
  let s := s.dropWhile (· == ' ')
  let (neg, body) := match s with
    | '-' :: r => (true, r)
    | '+' :: r => (false, r)
    | _ => (false, s)
  if body.isEmpty || !body.all Char.isDigit then none
  else some (if neg then -(natOfDigits body : Int) else (natOfDigits body : Int))

/-- key of the last entry equal to `v` (`{v: k for k, v in translations.items()}[value]`), keys counted from `base` -/
def matchTranslation (tbl : List String) (base : Int) (v : Str) : Option Int :=
  let idx := (tbl.zipIdx.filter (fun p => p.1.toList == v)).map (·.2)
  match idx.getLast? with
  | some i => some (base + (i : Int))
  | none => none

def strContains (t : String) (c : Char) : Bool := t.toList.contains c

/-- which branch of `_get_parsed_value` a (non-localizable) token takes — the `if`/`elif` chain in source order -/
inductive FKind where
  | year (twoDigit : Bool) | quarter | month | dayOfYear | day | hour | hour12 | minute | second | micro
  | dayOfWeek | timestamp (ms : Bool) | offset | zone | ignored
  deriving Repr, DecidableEq

def classify (tok : String) : FKind :=
  if strContains tok 'Y' then FKind.year (tok == "YY")
  else if tok == "Q" then FKind.quarter
  else if tok == "MM" || tok == "M" then FKind.month
  else if tok == "DDDD" || tok == "DDD" then FKind.dayOfYear
  else if strContains tok 'D' then FKind.day
  else if strContains tok 'H' then FKind.hour
  else if tok == "hh" || tok == "h" then FKind.hour12
  else if strContains tok 'm' then FKind.minute
  else if strContains tok 's' then FKind.second
  else if strContains tok 'S' then FKind.micro
  else if tok == "d" || tok == "E" then FKind.dayOfWeek
  else if tok == "X" || tok == "x" then FKind.timestamp (tok == "x")
  else if tok == "ZZ" || tok == "Z" then FKind.offset
  else if tok == "z" then FKind.zone
  else FKind.ignored

/-- `_PARSE_TOKENS[token](value)` for the integer converters -/
def convInt (kind : PKind) (value : Str) : Except String Int :=
  match kind with
  | PKind.int mul add =>
    match intOf value with
    | some n => .ok (n * mul + add)
    | none => .error "ValueError"
  | _ => .ok 0

/-- `float(text)` [`/ 1e3`], then `math.floor` for the seconds and the digits after the `.` of `str(float)` for the
    microseconds (exact for ≤ 15 significant digits); the repaired code complements the microseconds of a
    negative value -/
def parseTimestamp (ms : Bool) (value : Str) : Int × Int :=
  let (neg, body) := match value with
    | '-' :: r => (true, r)
    | '+' :: r => (false, r)
    | _ => (false, value)
  let ip := body.takeWhile Char.isDigit
  let fp := (body.drop (ip.length + 1)).takeWhile Char.isDigit
  let (whole, frac) : Nat × Str :=
    if !ms then (natOfDigits ip, fp)
    else (natOfDigits ip / 1000, digitsW 3 (natOfDigits ip % 1000))
  let fracUs : Nat := natOfDigits (frac ++ List.replicate (6 - frac.length) '0')
  let secs : Int := if neg then (if fracUs == 0 then -(whole : Int) else -(whole : Int) - 1) else whole
  let us : Nat := if neg && fracUs != 0 then 1000000 - fracUs else fracUs
  (secs, us)

/-- the `ZZ` / `Z` branch: the text after the sign cut into hour and minute digits (`hhmm`, `hh` or `hh:mm`) -/
def offsetParts (value : Str) : Str × Str :=
  let tz := value.drop 1
  if !tz.contains ':' then
    let tz := if tz.length == 2 then tz ++ ['0', '0'] else tz
    (tz.take 2, (tz.drop 2).take 2)
  else (tz.takeWhile (· != ':'), (tz.dropWhile (· != ':')).drop 1)

def parseOffset (value : Str) : Except String Int :=
  match intOf (offsetParts value).1, intOf (offsetParts value).2 with
  | some h, some m =>
    let off := (h * 60 + m) * 60
    .ok (if value.head? == some '-' then -off else off)
  | _, _ => .error "ValueError"

def applyKind (fk : FKind) (kind : PKind) (value : Str) (p : Parsed) : Except String Parsed :=
  match fk with
  | FKind.year two =>
    match convInt kind value with
    | .ok n => .ok { p with year := some (if two then (if n ≤ 68 then n + 2000 else n + 1900) else n) }
    | .error e => .error e
  | FKind.quarter => match convInt kind value with
    | .ok n => .ok { p with quarter := some n }
    | .error e => .error e
  | FKind.month => match convInt kind value with
    | .ok n => .ok { p with month := some n }
    | .error e => .error e
  | FKind.dayOfYear => match convInt kind value with
    | .ok n => .ok { p with day_of_year := some n }
    | .error e => .error e
  | FKind.day => match convInt kind value with
    | .ok n => .ok { p with day := some n }
    | .error e => .error e
  | FKind.hour => match convInt kind value with
    | .ok n => .ok { p with hour := some n }
    | .error e => .error e
  | FKind.hour12 => match convInt kind value with
    | .ok n => if n > 12 then .error "ValueError" else .ok { p with hour := some n }
    | .error e => .error e
  | FKind.minute => match convInt kind value with
    | .ok n => .ok { p with minute := some n }
    | .error e => .error e
  | FKind.second => match convInt kind value with
    | .ok n => .ok { p with second := some n }
    | .error e => .error e
  | FKind.micro => match convInt kind value with
    | .ok n => .ok { p with microsecond := some n }
    | .error e => .error e
  | FKind.dayOfWeek => match convInt kind value with
    | .ok n => .ok { p with day_of_week := some n }
    | .error e => .error e
  | FKind.timestamp ms => .ok { p with timestamp := some (parseTimestamp ms value) }
  | FKind.offset => match parseOffset value with
    | .ok o => .ok { p with tz := some (TzP.fixed o) }
    | .error e => .error e
  | FKind.zone =>
    if Gen.FormatZones.tzNames.contains (String.ofList value) then .ok { p with tz := some (TzP.named value) }
    else .error "ValueError"
  | FKind.ignored => .ok p

/-- `_get_parsed_locale_value` -/
def applyLocalized (L : Loc) (tok : String) (value : Str) (p : Parsed) : Except String Parsed :=
  if tok == "MMMM" then .ok { p with month := matchTranslation L.monthsWide 1 value }
  else if tok == "MMM" then .ok { p with month := matchTranslation L.monthsAbbr 1 value }
  else if tok == "Do" then .ok { p with day := some (natOfDigits (value.takeWhile Char.isDigit) : Int) }
  else if tok == "dddd" then .ok { p with day_of_week := matchTranslation L.daysWide 0 value }
  else if tok == "ddd" then .ok { p with day_of_week := matchTranslation L.daysAbbr 0 value }
  else if tok == "dd" then .ok { p with day_of_week := matchTranslation L.daysShort 0 value }
  else if tok == "A" then
    if value == L.am.toList then .ok { p with meridiem := some false }
    else if value == L.pm.toList then .ok { p with meridiem := some true }
    else .error "ValueError"
  else if tok == "a" then
    -- `value.lower()`: the text matched one of the two lower-cased words up to `.` wildcards
    if value == L.amLower.toList then .ok { p with meridiem := some false }
    else if value == L.pmLower.toList then .ok { p with meridiem := some true }
    else .error "ValueError"
  else .error "ValueError"

/-- `_get_parsed_values` for one group -/
def applyGroup (L : Loc) (tok : String) (value : Str) (p : Parsed) : Except String Parsed :=
  if (Gen.Format.localizableKeys.find? (fun q => q.1 == tok)).isSome then applyLocalized L tok value p
  else
    match Gen.Format.parseKind tok with
    | none => .error "KeyError"
    | some kind => applyKind (classify tok) kind value p

def applyGroups (L : Loc) : List (String × Str) → Parsed → Except String Parsed
  | [], p => .ok p
  | (t, v) :: rest, p =>
    match applyGroup L t v p with
    | .ok p' => applyGroups L rest p'
    | .error e => .error e

/-- cut the input into the matched pieces and keep those of the token groups, in pattern order -/
def groupValues : List PEl → List Nat → Str → List (String × Str)
  | PEl.tok t :: es, n :: ns, s => (t, s.take n) :: groupValues es ns (s.drop n)
  | PEl.lit _ :: es, n :: ns, s => groupValues es ns (s.drop n)
  | _, _, _ => []

/-! ### `_check_parsed` -/

structure Now where
  year : Int
  month : Int
  day : Int
  deriving Repr

structure Result where
  year : Int
  month : Int
  day : Int
  hour : Int
  minute : Int
  second : Int
  microsecond : Int
  tz : Option TzP
  deriving Repr, DecidableEq

/-- `x or 0`: a member the format did not supply (`None`) is read as 0 -/
def orZero (x : Option Int) : Int :=
  match x with
  | some v => v
  | none => 0

/-- tuple comparison `(h, mi or 0, s or 0, us or 0) >= (13, 0, 0, 0)` (the repaired "# Meridiem" test of
    `_check_parsed`: before the repair a `None` member reached on the tie `h = 13` raised `TypeError`) -/
def meridiemTooLate (h : Int) (mi s us : Option Int) : Bool :=
  if h > 13 then true else if h < 13 then false else
  if orZero mi > 0 then true else if orZero mi < 0 then false else
  if orZero s > 0 then true else if orZero s < 0 then false else
  decide (orZero us ≥ 0)

def validYMD (y m d : Int) : Bool := decide (1 ≤ y ∧ y ≤ 9999) && decide (Cal.validDate y m d)

def orNow (x : Option Int) (n : Int) : Int :=
  match x with
  | some v => if v == 0 then n else v
  | none => n

/-! `_check_parsed` by stages, in source order; each stage is one top-level statement of the method -/

/-- `if parsed["quarter"] is not None:` the first day of the quarter of the parsed year (else of `now`'s year) -/
def checkQuarter (p : Parsed) (now : Now) : Except String (Option Int × Option Int × Option Int) :=
  match p.quarter with
  | some q =>
    let y := p.year.getD now.year
    if decide (1 ≤ q ∧ q ≤ 4) && decide (1 ≤ y ∧ y ≤ 9999) then .ok (some y, some (3 * q - 2), some 1)
    else .error "ValueError"
  | none => .ok (p.year, p.month, p.day)

/-- `if parsed["day_of_year"] is not None:` `pendulum.parse(f"{year}-{doy:>03d}")` -/
def checkDayOfYear (p : Parsed) (year : Int) (month day : Option Int) : Except String (Option Int × Option Int) :=
  match p.day_of_year with
  | some doy =>
    -- the year is not zero-padded in the ISO string, so only four-digit years parse
    if decide (1 ≤ doy ∧ doy ≤ Cal.daysInYear year) && decide (1000 ≤ year ∧ year ≤ 9999) then
      .ok (some (Cal.ord2ymd (Cal.ymd2ord year 1 1 + doy - 1)).2.1, some (Cal.ord2ymd (Cal.ymd2ord year 1 1 + doy - 1)).2.2)
    else .error "ValueError"
  | none => .ok (month, day)

/-- `if parsed["day_of_week"] is not None:` the day with that weekday in the Monday-based week of the date -/
def checkDayOfWeek (p : Parsed) (now : Now) (year : Int) (month day : Option Int) :
    Except String (Int × Option Int × Option Int) :=
  match p.day_of_week with
  | some dow =>
    let m := orNow month now.month
    let d := orNow day now.day
    if !validYMD year m d then .error "ValueError"
    else
      -- source order: `start_of("week").subtract(days=1)` (OverflowError in the first week of year 1) comes before
      -- `next(dow)` (ValueError for a weekday outside 0..6, OverflowError past 9999-12-31)
      let ord := Cal.ymd2ord year m d
      let monday := ord - (ord + 6) % 7
      let r := monday + dow
      if decide (monday - 1 < 1) then .error "OverflowError"
      else if decide (dow < 0 ∨ dow > 6) then .error "ValueError"
      else if decide (r > 3652059) then .error "OverflowError"
      else .ok ((Cal.ord2ymd r).1, some (Cal.ord2ymd r).2.1, some (Cal.ord2ymd r).2.2)
  | none => .ok (year, month, day)

/-- `# Meridiem`: the hour on the 24-hour clock -/
def checkMeridiem (p : Parsed) : Except String (Option Int) :=
  match p.meridiem with
  | some pm =>
    match p.hour with
    | none => .error "ValueError"
    | some h =>
      if meridiemTooLate h p.minute p.second p.microsecond then .error "ValueError"
      else .ok (some (h % 12 + (if pm then 12 else 0)))
  | none => .ok p.hour

/-- the defaults for what is still missing, and the returned dictionary -/
def checkFinal (p : Parsed) (now : Now) (year : Int) (month day hour : Option Int) : Result :=
  ⟨year,
   (match month with
    | some m => m
    | none => if p.year.isSome then orNow p.month 1 else orNow p.month now.month),
   (match day with
    | some d => d
    | none => if p.year.isSome || p.month.isSome then orNow p.day 1 else orNow p.day now.day),
   hour.getD 0, p.minute.getD 0, p.second.getD 0, p.microsecond.getD 0, p.tz⟩

def checkParsed (p : Parsed) (now : Now) : Except String Result :=
  match p.timestamp with
  | some (secs, us) =>
    let (y, mo, d, h, mi, s) := LocalTime.localTime false LocalTime.pyTbl secs 0
    .ok ⟨y, mo, d, h, mi, s, us, none⟩
  | none => do
    let (year, month, day) ← checkQuarter p now
    let year : Int := year.getD now.year
    let (month, day) ← checkDayOfYear p year month day
    let (year, month, day) ← checkDayOfWeek p now year month day
    let hour ← checkMeridiem p
    pure (checkFinal p now year month day hour)

/-! ### `Formatter.parse` -/

def hasDup : List String → Bool
  | [] => false
  | t :: ts => ts.contains t || hasDup ts

def elsOf (L : Loc) : List PEl → Except String (List El)
  | [] => .ok []
  | PEl.lit c :: es => (elsOf L es).map (litEl c :: ·)
  | PEl.tok t :: es =>
    match groupOf L t with
    | Group.error k => .error k
    | Group.lens f => (elsOf L es).map (f :: ·)

def PEl.tokName? : PEl → Option String
  | PEl.tok t => some t
  | PEl.lit _ => none

/-- `Formatter.parse(time, fmt, now, locale)` -/
def parseItems (L : Loc) (time : Str) (items : List Item) (now : Now) : Except String Result :=
  let pes := pelsOf items
  if items.isEmpty then .error "ValueError" else
  match elsOf L pes with
  | .error k => .error k
  | .ok els =>
    if hasDup (pes.filterMap PEl.tokName?) then .error "error" else
    match dfs (fun s => s.isEmpty) els time with
    | none => .error "ValueError"
    | some ns =>
      match applyGroups L (groupValues pes ns time) {} with
      | .error e => .error e
      | .ok p => checkParsed p now

def parse (L : Loc) (time fmt : Str) (now : Now) : Except String Result :=
  parseItems L time (tokenize fmt) now

end Pendulum.Fmt
