import Pendulum.Model.DTOps
/-! C04 — the operator paths around `DateTime.add` / `Date.add`:
`subtract` (datetime.py:644-667), `_add_timedelta_` / `_subtract_timedelta` (datetime.py:672-710, the
latter *after* the `fix:` commits: a Duration goes through `_add_timedelta_(-delta)`),
`Duration.__new__` normalisation and `_signature` (duration.py:79-124), `Duration.__neg__`
(duration.py:352-360), `Date.add/subtract/_add_timedelta/_subtract_timedelta` (date.py:187-251).

A `Duration` is modelled as the pair (constructor signature, normalised components): `mkDur` computes the
components from the signature in exact integer microseconds (float bridge: DESIGN §5). -/
namespace Pendulum.CalOps
open Pendulum Pendulum.AddDur Pendulum.DTOps

/-- keyword arguments of `add()` / the `_signature` dict of a Duration (`microseconds` already contains
    `milliseconds * 1000`) -/
structure Sig where
  years : Int
  months : Int
  weeks : Int
  days : Int
  hours : Int
  minutes : Int
  seconds : Int
  micros : Int
deriving DecidableEq, Repr

/-- elapsed part of a signature in µs (what `timedelta.__new__` receives, without years/months) -/
def Sig.totalUs (s : Sig) : Int :=
  ((((s.weeks * 7 + s.days) * 24 + s.hours) * 60 + s.minutes) * 60 + s.seconds) * 1000000 + s.micros

/-- `Duration._sign` -/
def dsign (x : Int) : Int := if x < 0 then -1 else 1

/-- a Duration: signature + the "intuitive normalisation" of `Duration.__new__` -/
structure Dur where
  sig : Sig
  years : Int
  months : Int
  weeks : Int       -- `_weeks`
  rdays : Int       -- `_remaining_days`
  secs : Int        -- `_seconds`  (|.| < 86400, sign of the total)
  us : Int          -- `_microseconds`
  days : Int        -- `_days`
deriving DecidableEq, Repr

def mkDur (s : Sig) : Dur :=
  let t := s.totalUs
  let m : Int := if t < 0 then -1 else 1
  let a := abs' t
  let whole := a / 1000000              -- abs(int(total))
  let days := whole / 86400 * m
  { sig := s, years := s.years, months := s.months,
    us := a % 1000000 * m,
    secs := whole % 86400 * m,
    days := days,
    rdays := abs' days % 7 * m,
    weeks := abs' days / 7 * m }

/-- `Duration.hours` / `.minutes` / `.remaining_seconds` -/
def Dur.hours (d : Dur) : Int := if abs' d.secs ≥ 3600 then abs' d.secs / 3600 % 24 * dsign d.secs else 0
def Dur.minutes (d : Dur) : Int := if abs' d.secs ≥ 60 then abs' d.secs / 60 % 60 * dsign d.secs else 0
def Dur.rsecs (d : Dur) : Int := abs' d.secs % 60 * dsign d.secs

/-- `Duration.__neg__`: a *new* Duration built from the negated normalised components -/
def neg (d : Dur) : Dur :=
  mkDur ⟨-d.years, -d.months, -d.weeks, -d.rdays, 0, 0, -d.secs, -d.us⟩

/-- `self.add(**kwargs)` -/
def addSig (v : V) (s : Sig) : Except DTOps.Err V :=
  add v s.years s.months s.weeks s.days s.hours s.minutes s.seconds s.micros

/-- `DateTime.subtract`: `add` of the negated arguments -/
def subtract (v : V) (years months weeks days hours minutes seconds micros : Int) : Except DTOps.Err V :=
  add v (-years) (-months) (-weeks) (-days) (-hours) (-minutes) (-seconds) (-micros)

/-- `_add_timedelta_` for a Duration: `self.add(**delta._signature)` -/
def addDur (v : V) (d : Dur) : Except DTOps.Err V := addSig v d.sig

/-- `_subtract_timedelta` for a Duration (repaired code): `self._add_timedelta_(-delta)` -/
def subDur (v : V) (d : Dur) : Except DTOps.Err V := addDur v (neg d)

/-- `_subtract_timedelta` for a Duration as shipped before the fix:
    `self.subtract(years=delta.years, months=delta.months, seconds=delta._total)` — the whole elapsed part,
    days and weeks included, travels as seconds (kept for the counterexample in Props/C04) -/
def subDurOld (v : V) (d : Dur) : Except DTOps.Err V :=
  subtract v d.years d.months 0 0 0 0 0 d.sig.totalUs

/-- `dt.subtract(years=d.years, months=d.months, weeks=d.weeks, days=d.remaining_days, hours=d.hours,
    minutes=d.minutes, seconds=d.remaining_seconds, microseconds=d.microseconds)` -/
def subComponents (v : V) (d : Dur) : Except DTOps.Err V :=
  subtract v d.years d.months d.weeks d.rdays d.hours d.minutes d.rsecs d.us

/-! ### Date (a day number since 1970-01-01) -/

/-- `Date.add`: `add_duration(date(...), years, months, weeks, days)` -/
def dateAdd (n years months weeks days : Int) : Except AddDur.Err Int :=
  match addDuration (n * DAY) years months weeks days 0 0 0 0 with
  | .ok w => .ok (w / DAY)
  | .error e => .error e

def dateSubtract (n years months weeks days : Int) : Except AddDur.Err Int :=
  dateAdd n (-years) (-months) (-weeks) (-days)

/-- `Date._add_timedelta` for a Duration: normalised components (the time part is dropped) -/
def dateAddDur (n : Int) (d : Dur) : Except AddDur.Err Int := dateAdd n d.years d.months d.weeks d.rdays

/-- `Date._subtract_timedelta` for a Duration -/
def dateSubDur (n : Int) (d : Dur) : Except AddDur.Err Int := dateSubtract n d.years d.months d.weeks d.rdays

end Pendulum.CalOps
