import Pendulum.Gen.Tables
/-! Hand model of `local_time` (`_helpers.py:83-153`, `rust/src/helpers.rs:47-122`): the
400/100/4/1-year chunk loops and the month walk, literally, over the *generated* tables.
`rs = true` selects the Rust arithmetic (truncating `/`, `%` followed by the sign fix-up). -/
namespace Pendulum.LocalTime
open Pendulum.Gen

structure Tbl where
  epochYear : Int
  secsPerDay : Int
  secsPerHour : Int
  secsPerMin : Int
  s400 : Int
  s100 : Int → Int
  s4 : Int → Int
  s1 : Int → Int
  moff0 : Int → Int
  moff1 : Int → Int

def pyTbl : Tbl := ⟨py_EPOCH_YEAR, py_SECS_PER_DAY, py_SECS_PER_HOUR, py_SECS_PER_MIN, py_SECS_PER_400_YEARS,
  py_SECS_PER_100_YEARS, py_SECS_PER_4_YEARS, py_SECS_PER_YEAR, py_MONTHS_OFFSETS_0, py_MONTHS_OFFSETS_1⟩
def rsTbl : Tbl := ⟨rs_EPOCH_YEAR, rs_SECS_PER_DAY, rs_SECS_PER_HOUR, rs_SECS_PER_MIN, rs_SECS_PER_400_YEARS,
  rs_SECS_PER_100_YEARS, rs_SECS_PER_4_YEARS, rs_SECS_PER_YEAR, rs_MONTHS_OFFSETS_0, rs_MONTHS_OFFSETS_1⟩

/-- `while seconds >= size[leap]: seconds -= size[leap]; year += step; leap = after` -/
def chunkLoop : Nat → (Int → Int) → Int → Int → Int → Int → Int → Int × Int × Int
  | 0, _, _, _, s, y, lp => (s, y, lp)
  | f+1, size, step, after, s, y, lp =>
    if s ≥ size lp then chunkLoop f size step after (s - size lp) (y + step) after else (s, y, lp)

/-- `while month != 1: off = OFFSETS[leap][month]; if day > off: day -= off; break; month -= 1` -/
def monthWalk : Nat → (Int → Int) → Int → Int → Int × Int
  | 0, _, m, d => (m, d)
  | f+1, off, m, d =>
    if m == 1 then (m, d) else if d > off m then (m, d - off m) else monthWalk f off (m - 1) d

/-- the three chunk loops: (seconds into the year, year, leap flag) -/
def yearPart (T : Tbl) (s0 y0 : Int) : Int × Int × Int :=
  let r1 := chunkLoop 8 T.s100 100 0 s0 y0 1
  let r2 := chunkLoop 40 T.s4 4 1 r1.1 r1.2.1 r1.2.2
  chunkLoop 8 T.s1 1 0 r2.1 r2.2.1 r2.2.2

/-- shift to a 400-year aligned base year: (seconds, year) -/
def shiftBase (T : Tbl) (unixTime utcOffset : Int) : Int × Int :=
  if unixTime ≥ 0 then (unixTime - 10957 * T.secsPerDay + utcOffset, T.epochYear + 30)
  else (unixTime + (146097 - 10957) * T.secsPerDay + utcOffset, T.epochYear - 370)

/-- reduce into one 400-year cycle: Python floor `//`,`%`; Rust truncating `/`,`%` then the sign fix-up -/
def reduce400 (rs : Bool) (T : Tbl) (seconds year : Int) : Int × Int :=
  if rs then
    let year := year + 400 * Int.tdiv seconds T.s400
    let seconds := Int.tmod seconds T.s400
    if seconds < 0 then (seconds + T.s400, year - 400) else (seconds, year)
  else
    let year := year + 400 * (seconds / T.s400)
    let seconds := seconds % T.s400
    if seconds < 0 then (seconds + T.s400, year - 400) else (seconds, year)

def localTime (rs : Bool) (T : Tbl) (unixTime utcOffset : Int) : Int × Int × Int × Int × Int × Int :=
  let b := shiftBase T unixTime utcOffset
  let c := reduce400 rs T b.1 b.2
  let yp := yearPart T c.1 c.2
  let day := yp.1 / T.secsPerDay + 1
  let seconds := yp.1 % T.secsPerDay
  let md := monthWalk 12 (if yp.2.2 == 1 then T.moff1 else T.moff0) 12 day
  let hour := seconds / T.secsPerHour
  let seconds := seconds % T.secsPerHour
  (yp.2.1, md.1, md.2, hour, seconds / T.secsPerMin, seconds % T.secsPerMin)

end Pendulum.LocalTime
