/-! Reference proleptic Gregorian calendar (the standard library's `datetime` algorithms).
This is the *specification side*: pendulum's own helpers are in `Pendulum.Gen.Helpers`
(regenerated from source) and `Pendulum.Model.Rs` (hand model of the Rust twins). -/
namespace Pendulum.Cal

def isLeap (y : Int) : Bool := y % 4 == 0 && (y % 100 != 0 || y % 400 == 0)

/-- days before Jan 1 of year y (stdlib `_days_before_year`) -/
def daysBeforeYear (y : Int) : Int :=
  let y' := y - 1
  y' * 365 + y' / 4 - y' / 100 + y' / 400

def daysInYear (y : Int) : Int := if isLeap y then 366 else 365

def daysInMonth (y m : Int) : Int :=
  match m with
  | 1 => 31 | 2 => if isLeap y then 29 else 28 | 3 => 31 | 4 => 30 | 5 => 31 | 6 => 30
  | 7 => 31 | 8 => 31 | 9 => 30 | 10 => 31 | 11 => 30 | _ => 31

def daysBeforeMonth (leap : Bool) (m : Int) : Int :=
  match m with
  | 1 => 0 | 2 => 31
  | 3 => 59 + (if leap then 1 else 0)
  | 4 => 90 + (if leap then 1 else 0)
  | 5 => 120 + (if leap then 1 else 0)
  | 6 => 151 + (if leap then 1 else 0)
  | 7 => 181 + (if leap then 1 else 0)
  | 8 => 212 + (if leap then 1 else 0)
  | 9 => 243 + (if leap then 1 else 0)
  | 10 => 273 + (if leap then 1 else 0)
  | 11 => 304 + (if leap then 1 else 0)
  | _ => 334 + (if leap then 1 else 0)

/-- proleptic ordinal, 0001-01-01 = 1 (stdlib `_ymd2ord`) -/
def ymd2ord (y m d : Int) : Int := daysBeforeYear y + daysBeforeMonth (isLeap y) m + d

def validDate (y m d : Int) : Prop := 1 ≤ m ∧ m ≤ 12 ∧ 1 ≤ d ∧ d ≤ daysInMonth y m

instance (y m d : Int) : Decidable (validDate y m d) := by unfold validDate; infer_instance

/-- month walk used by `ord2ymd`: largest m with daysBeforeMonth m < n+1 (n = 0-based day of year) -/
def monthOfYday (leap : Bool) (n : Int) : Int :=
  if n < daysBeforeMonth leap 2 then 1 else
  if n < daysBeforeMonth leap 3 then 2 else
  if n < daysBeforeMonth leap 4 then 3 else
  if n < daysBeforeMonth leap 5 then 4 else
  if n < daysBeforeMonth leap 6 then 5 else
  if n < daysBeforeMonth leap 7 then 6 else
  if n < daysBeforeMonth leap 8 then 7 else
  if n < daysBeforeMonth leap 9 then 8 else
  if n < daysBeforeMonth leap 10 then 9 else
  if n < daysBeforeMonth leap 11 then 10 else
  if n < daysBeforeMonth leap 12 then 11 else 12

/-- inverse of `ymd2ord` (stdlib `_ord2ymd`, with the month found by a table walk) -/
def ord2ymd (ord : Int) : Int × Int × Int :=
  let n := ord - 1
  let n400 := n / 146097
  let n := n % 146097
  let n100 := n / 36524
  let n := n % 36524
  let n4 := n / 1461
  let n := n % 1461
  let n1 := n / 365
  let n := n % 365
  let year := n400 * 400 + 1 + n100 * 100 + n4 * 4 + n1
  if n1 == 4 || n100 == 4 then (year - 1, 12, 31)
  else
    let leap := n1 == 3 && (n4 != 24 || n100 == 3)
    let m := monthOfYday leap n
    (year, m, n - daysBeforeMonth leap m + 1)

/-- stdlib isoweekday: Monday=1..Sunday=7 ; ordinal 1 is a Monday -/
def isoweekdayOrd (ord : Int) : Int := (ord + 6) % 7 + 1
def isoweekday (y m d : Int) : Int := isoweekdayOrd (ymd2ord y m d)

/-- stdlib `_isoweek1monday` -/
def isoWeek1Monday (y : Int) : Int :=
  let firstday := ymd2ord y 1 1
  let firstweekday := (firstday + 6) % 7
  let w1 := firstday - firstweekday
  if firstweekday > 3 then w1 + 7 else w1

def isoWeeksInYear (y : Int) : Int := (isoWeek1Monday (y + 1) - isoWeek1Monday y) / 7

/-- stdlib `date.isocalendar` → (iso year, iso week, iso weekday) -/
def isoCalendar (y m d : Int) : Int × Int × Int :=
  let today := ymd2ord y m d
  let w1 := isoWeek1Monday y
  let week := (today - w1) / 7
  let day := (today - w1) % 7
  if today - w1 < 0 then
    let y' := y - 1
    let w1' := isoWeek1Monday y'
    (y', (today - w1') / 7 + 1, (today - w1') % 7 + 1)
  else if week ≥ 52 ∧ today ≥ isoWeek1Monday (y + 1) then
    (y + 1, 1, day + 1)
  else (y, week + 1, day + 1)

def dayOfYear (y m d : Int) : Int := daysBeforeMonth (isLeap y) m + d

/-- ordinal of 1970-01-01 -/
def epochOrd : Int := 719163

end Pendulum.Cal
