import Pendulum.Model.DTOps
/-! Model of `DateTime.start_of/end_of` (datetime.py `start_of` … `_end_of_week`, with the `_boundary` helper of
the repaired tree) and of `Date.start_of/end_of` (date.py). Values are wall-clock microseconds since
1970-01-01T00:00 (`AddDur.wallToFields` / `fieldsToWall`).

* second, minute, hour: `self.set(...)` → `create(fields, tz=self.tz, fold=self.fold)`;
* day, month, year, decade, century, week: `self._boundary(y, m, d, last)`: the fold handed to `create` is the
  instance's fold unless the boundary wall time is skipped or repeated in the zone, in which case it is
  `int((after > before) != last)`;
* week: `(day_of_week - _WEEK_STARTS_AT) % 7` days back / `(_WEEK_ENDS_AT - day_of_week) % 7` days forward on
  the calendar date (`Date.subtract/add(days=…)`, i.e. ordinal arithmetic), then `_boundary`. -/
namespace Pendulum.StartOf
open Pendulum Pendulum.Cal Pendulum.AddDur Pendulum.Zone Pendulum.DTOps

inductive U | second | minute | hour | day | week | month | year | decade | century
deriving DecidableEq, Repr

def U.ofString? : String → Option U
  | "second" => some .second | "minute" => some .minute | "hour" => some .hour | "day" => some .day
  | "week" => some .week | "month" => some .month | "year" => some .year | "decade" => some .decade
  | "century" => some .century | _ => none

def U.subDay : U → Bool
  | .second | .minute | .hour => true
  | _ => false

/-- wall value of 00:00 of the day with proleptic ordinal `n` -/
def ordWall (n : Int) : Int := (n - epochOrd) * DAY

/-- `day_of_week` (Monday = 0) of an ordinal; ordinal 1 is a Monday -/
def dow (n : Int) : Int := (n + 6) % 7

/-- first year of the decade / century as the code computes it -/
def decadeStart (y : Int) : Int := y - y % 10
def centuryStart (y : Int) : Int := y - 1 - (y - 1) % 100 + 1

/-- wall label of the first microsecond of the unit containing `w` (`wks` = `_WEEK_STARTS_AT`) -/
def lo (u : U) (wks : Int) (w : Int) : Int :=
  match wallToFields w with
  | (y, m, d, tod) =>
    match u with
    | .second => fieldsToWall y m d (tod - tod % US)
    | .minute => fieldsToWall y m d (tod - tod % MINUTE)
    | .hour => fieldsToWall y m d (tod - tod % HOUR)
    | .day => fieldsToWall y m d 0
    | .week => let n := ymd2ord y m d; ordWall (n - (dow n - wks) % 7)
    | .month => fieldsToWall y m 1 0
    | .year => fieldsToWall y 1 1 0
    | .decade => fieldsToWall (decadeStart y) 1 1 0
    | .century => fieldsToWall (centuryStart y) 1 1 0

/-- wall label of the last microsecond of the unit containing `w` (`wke` = `_WEEK_ENDS_AT`) -/
def hi (u : U) (wke : Int) (w : Int) : Int :=
  match wallToFields w with
  | (y, m, d, tod) =>
    match u with
    | .second => fieldsToWall y m d (tod - tod % US + (US - 1))
    | .minute => fieldsToWall y m d (tod - tod % MINUTE + (MINUTE - 1))
    | .hour => fieldsToWall y m d (tod - tod % HOUR + (HOUR - 1))
    | .day => fieldsToWall y m d (DAY - 1)
    | .week => let n := ymd2ord y m d; ordWall (n + (wke - dow n) % 7) + (DAY - 1)
    | .month => fieldsToWall y m (daysInMonth y m) (DAY - 1)
    | .year => fieldsToWall y 12 31 (DAY - 1)
    | .decade => fieldsToWall (decadeStart y + 9) 12 31 (DAY - 1)
    | .century => fieldsToWall (centuryStart y + 99) 12 31 (DAY - 1)

/-- the fold `_boundary` hands to `create`: the instance's own unless the label is skipped or repeated -/
def edgeFold (z : ZRef) (T : Int) (last fold : Bool) : Bool :=
  match z with
  | .named zt =>
    let before := zt.woff false T
    let after := zt.woff true T
    if before ≠ after then (decide (after > before)) != last else fold
  | _ => fold

/-- `_boundary`: build the boundary label in the zone with the corrected fold -/
def edge (z : ZRef) (T : Int) (last fold : Bool) : Except DTOps.Err V :=
  create z T (edgeFold z T last fold) false

/-- which exception an unrepresentable boundary raises: `datetime.datetime(year, …)` → ValueError,
    `date ± timedelta` (week) → OverflowError -/
def rangeErr (u : U) : DTOps.Err := match u with | .week => .overflow | _ => .valueError

/-- `DateTime.start_of(unit)` / `end_of(unit)` (`last = true`) -/
def bound (u : U) (wks wke : Int) (last : Bool) (x : V) : Except DTOps.Err V :=
  let T := if last then hi u wke x.w else lo u wks x.w
  if ¬ inRange T then .error (rangeErr u)
  else if u.subDay then create x.z T x.fold false
  else edge x.z T last x.fold

def startOf (u : U) (wks : Int) (x : V) : Except DTOps.Err V := bound u wks 0 false x
def endOf (u : U) (wke : Int) (x : V) : Except DTOps.Err V := bound u 0 wke true x

/-- `Date.start_of/end_of`: a Date is the wall value of its midnight; `day` returns the date itself -/
def boundDate (u : U) (wks wke : Int) (last : Bool) (w : Int) : Except DTOps.Err Int :=
  if u.subDay then .error .valueError
  else
    let T := if last then hi u wke w - (DAY - 1) else lo u wks w
    if ¬ inRange T then .error (rangeErr u) else .ok T

end Pendulum.StartOf
