import Pendulum.Model.Cal
import Pendulum.Model.IsoDur
/-! Concrete instance of the interval assembly of `Model/IsoDur.lean` for the correspondence run:
datetimes in the extended format `YYYY-MM-DDTHH:MM:SS[.f{1,6}][Z|±HH:MM]` (a fixed offset; none = UTC),
`DateTime.add` / `subtract` on a fixed-offset value = `helpers.add_duration` on the wall clock
(month-index arithmetic with the day clamped, then a plain timedelta). -/
namespace Pendulum.IsoInterval
open Pendulum Pendulum.IsoDur

structure DT where
  y : Int
  m : Int
  d : Int
  h : Int
  mi : Int
  s : Int
  us : Int
  off : Int
  deriving Repr, DecidableEq

def takeDigits : Nat → Nat → List Char → Option (Nat × List Char)
  | 0, acc, cs => some (acc, cs)
  | k + 1, acc, c :: cs => match digitVal c with
    | some d => takeDigits k (10 * acc + d) cs
    | none => none
  | _ + 1, _, [] => none

def expect (c : Char) : List Char → Option (List Char)
  | x :: cs => if x = c then some cs else none
  | [] => none

/-- up to 6 fraction digits, right-padded to microseconds -/
def takeFrac : Nat → Nat → List Char → Nat × List Char
  | 0, acc, cs => (acc, cs)
  | k + 1, acc, c :: cs => match digitVal c with
    | some d => takeFrac k (acc + d * 10 ^ k) cs
    | none => (acc, c :: cs)
  | _ + 1, acc, [] => (acc, [])

def parseOffset : List Char → Option Int
  | [] => some 0
  | ['Z'] => some 0
  | sg :: cs =>
    if sg = '+' ∨ sg = '-' then do
      let (hh, cs) ← takeDigits 2 0 cs
      let cs ← expect ':' cs
      let (mm, cs) ← takeDigits 2 0 cs
      if cs ≠ [] then none
      else
        let v : Int := (hh * 60 + mm) * 60
        some (if sg = '-' then -v else v)
    else none

def parseDTo (cs : List Char) : Option DT := do
  let (y, cs) ← takeDigits 4 0 cs
  let cs ← expect '-' cs
  let (m, cs) ← takeDigits 2 0 cs
  let cs ← expect '-' cs
  let (d, cs) ← takeDigits 2 0 cs
  let cs ← expect 'T' cs
  let (h, cs) ← takeDigits 2 0 cs
  let cs ← expect ':' cs
  let (mi, cs) ← takeDigits 2 0 cs
  let cs ← expect ':' cs
  let (s, cs) ← takeDigits 2 0 cs
  let (us, cs) := match cs with
    | '.' :: c :: rest => if (digitVal c).isSome then takeFrac 6 0 (c :: rest) else (0, cs)
    | _ => (0, cs)
  let off ← parseOffset cs
  if 1 ≤ y ∧ 1 ≤ m ∧ m ≤ 12 ∧ 1 ≤ d ∧ (d : Int) ≤ Cal.daysInMonth y m ∧ h ≤ 23 ∧ mi ≤ 59 ∧ s ≤ 59 then
    some ⟨y, m, d, h, mi, s, us, off⟩
  else none

def parseDT (cs : List Char) : Except Kind DT :=
  match parseDTo cs with
  | some dt => .ok dt
  | none => .error .syntax

def dayUs : Int := 86400000000

/-- wall clock in µs since 0001-01-01T00:00 -/
def DT.wall (t : DT) : Int :=
  (Cal.ymd2ord t.y t.m t.d - 1) * dayUs + ((t.h * 60 + t.mi) * 60 + t.s) * 1000000 + t.us

def ofWall (w off : Int) : DT :=
  let (y, m, d) := Cal.ord2ymd (w / dayUs + 1)
  let r := w % dayUs
  ⟨y, m, d, r / 3600000000, r / 60000000 % 60, r / 1000000 % 60, r % 1000000, off⟩

/-- `add_duration(dt, sign·years, sign·months, …)` followed by `+ timedelta(sign·rest)` -/
def shift (sign : Int) (t : DT) (du : Dur) : Except Kind DT :=
  let idx := t.y * 12 + (t.m - 1) + sign * (12 * du.years + du.months)
  let y' := idx / 12
  let m' := idx % 12 + 1
  if y' < 1 ∨ y' > 9999 then .error .range
  else
    let d' := min (Cal.daysInMonth y' m') t.d
    let w := DT.wall { t with y := y', m := m', d := d' } + sign * du.us
    if w < 0 ∨ w ≥ (Cal.ymd2ord 10000 1 1 - 1) * dayUs then .error .range
    else .ok (ofWall w t.off)

def add (t : DT) (du : Dur) : Except Kind DT := shift 1 t du
def sub (t : DT) (du : Dur) : Except Kind DT := shift (-1) t du

def parseInterval (b : Backend) (cs : List Char) : Except Kind (DT × DT) :=
  IsoDur.parseInterval b parseDT add sub cs

end Pendulum.IsoInterval
