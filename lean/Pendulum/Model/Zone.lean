/-! Model of an IANA zone as `zoneinfo` sees it: an initial offset and a finite list of
(utc instant, offset after) transitions. `offAt` is `fromutc`'s bisect on the UTC list, `wallOff fold`
is CPython's `utcoffset` of a naive wall value (bisect on the two wall-clock lists), `foldAt` is the
fold bit `fromutc` sets. Units are abstract integers (the harness uses microseconds). -/
namespace Pendulum.Zone

structure Tr where
  t : Int
  off : Int

def offAt (init : Int) : List Tr → Int → Int
  | [], _ => init
  | tr :: rest, u => if u < tr.t then init else offAt tr.off rest u

def thr (fold : Bool) (prev : Int) (tr : Tr) : Int :=
  tr.t + (if fold then min prev tr.off else max prev tr.off)

def wallOff (fold : Bool) (init : Int) : List Tr → Int → Int
  | [], _ => init
  | tr :: rest, w => if w < thr fold init tr then init else wallOff fold tr.off rest w

def foldAt (init : Int) : List Tr → Int → Bool
  | [], _ => false
  | tr :: rest, u =>
    if u < tr.t then false
    else match rest with
      | [] => decide (init - tr.off > u - tr.t)
      | nxt :: _ => if u < nxt.t then decide (init - tr.off > u - tr.t) else foldAt tr.off rest u

def absI (x : Int) : Int := if x < 0 then -x else x

/-- spacing well-formedness: each transition is further from the next than the two jumps -/
def WF (init : Int) : List Tr → Prop
  | [] => True
  | [_] => True
  | a :: b :: rest => b.t - a.t ≥ absI (a.off - init) + absI (b.off - a.off) ∧ WF a.off (b :: rest)

def inGap (init : Int) : List Tr → Int → Bool
  | [], _ => false
  | tr :: rest, w => (decide (init < tr.off) && decide (tr.t + init ≤ w) && decide (w < tr.t + tr.off)) || inGap tr.off rest w


structure Z where
  init : Int
  trs : List Tr

def Z.WF (z : Z) : Prop := Zone.WF z.init z.trs
def Z.off (z : Z) (u : Int) : Int := offAt z.init z.trs u
def Z.woff (z : Z) (f : Bool) (w : Int) : Int := wallOff f z.init z.trs w
def Z.foldOf (z : Z) (u : Int) : Bool := foldAt z.init z.trs u
def Z.skipped (z : Z) (w : Int) : Bool := inGap z.init z.trs w

/-- naive wall value + fold, as carried by datetime -/
structure Local where
  w : Int
  fold : Bool
deriving DecidableEq, Repr

def toUtc (z : Z) (l : Local) : Int := l.w - z.woff l.fold l.w
def fromUtc (z : Z) (u : Int) : Local := ⟨u + z.off u, z.foldOf u⟩

inductive ConvErr | nonExisting | ambiguous
deriving DecidableEq, Repr

/-- `Timezone.convert` on a naive value (then `DateTime.create` copies the fields) -/
def convertNaive (z : Z) (l : Local) (raise : Bool) : Except ConvErr Local :=
  let ob := z.woff false l.w
  let oa := z.woff true l.w
  if oa > ob then
    if raise then .error .nonExisting
    else .ok ⟨l.w + (if l.fold then oa - ob else ob - oa), false⟩
  else if ob > oa ∧ raise = true then .error .ambiguous
  else .ok l

/-- `in_timezone` / `astimezone` / `Timezone.convert` on an aware value -/
def inTz (z z' : Z) (l : Local) : Local := fromUtc z' (toUtc z l)


/-- `DateTime.add` with only h/m/s/µs on an aware value: subtract the offset, add on the UTC clock, convert back -/
def addFixed (z : Z) (l : Local) (delta : Int) : Local := fromUtc z (toUtc z l + delta)


end Pendulum.Zone
