/-! The reading of the pieces of the Rust standard library (and of PyO3) that the regenerated model of the compiled
ISO 8601 parser (`Gen/IsoRs.lean`, tools/gen_isors.py) refers to.  Hand-written, small, TRUSTED:

* a `&str` being parsed is a `List Char`; byte offsets (`CharIndices`, `str::len`) are UTF-8 offsets (`Char.utf8Size`);
  `str::as_bytes` is the UTF-8 encoding (`String.utf8EncodeChar`), a `&[u8]` is a `List Int`;
* `char::to_digit(10)` / `char::is_ascii_digit` accept exactly `'0'..='9'`;
* `u64::checked_add` / `checked_mul` are `none` from 2^64 on;
* a function result is `Except (Err E) _`: `Err.fail e` is the Rust `Err(e)`, `Err.fuel` marks a cut `while`/`loop`
  (the tie theorems show it is never produced once the fuel exceeds the length of the input by 8);
* `FlowR`/`FlowB`/`FlowRB`: how a compound statement is left (normally, by `return`, by `break`). -/
namespace Pendulum.RsStd

inductive Err (E : Type) where
  | fail (e : E)
  | fuel
  deriving Repr, DecidableEq

inductive FlowR (R W : Type) where
  | next (w : W)
  | ret (r : R)

inductive FlowB (W : Type) where
  | next (w : W)
  | brk (w : W)

inductive FlowRB (R W : Type) where
  | next (w : W)
  | ret (r : R)
  | brk (w : W)

/-- what a PyO3 call can raise -/
inductive PyErr where
  | valueError (msg : String)
  | other (name : String)
  deriving Repr, DecidableEq

def toDigit10 (c : Char) : Option Int :=
  if 48 ≤ c.toNat ∧ c.toNat ≤ 57 then some ((c.toNat : Int) - 48) else none

def isAsciiDigit (c : Char) : Bool := decide (48 ≤ c.toNat ∧ c.toNat ≤ 57)

/-- `str::len`: length in bytes -/
def ulen : List Char → Nat
  | [] => 0
  | c :: cs => c.utf8Size + ulen cs

def strLen (s : List Char) : Int := (ulen s : Nat)

def charIndicesFrom (i : Nat) : List Char → List (Int × Char)
  | [] => []
  | c :: cs => ((i : Nat), c) :: charIndicesFrom (i + c.utf8Size) cs

/-- `str::char_indices` -/
def charIndices (s : List Char) : List (Int × Char) := charIndicesFrom 0 s

/-- `str::as_bytes` -/
def asBytes : List Char → List Int
  | [] => []
  | c :: cs => (String.utf8EncodeChar c).map (fun b => (b.toNat : Int)) ++ asBytes cs

/-- `&bytes[a..b]` -/
def sliceBytes (l : List Int) (a b : Int) : List Int := (l.drop a.toNat).take (b.toNat - a.toNat)

def checkedAdd64 (a b : Nat) : Option Nat := if a + b < 2 ^ 64 then some (a + b) else none
def checkedMul64 (a b : Nat) : Option Nat := if a * b < 2 ^ 64 then some (a * b) else none

end Pendulum.RsStd
