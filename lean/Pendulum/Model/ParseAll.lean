import Pendulum.Model.Iso
import Pendulum.Model.IsoDur
import Pendulum.Model.IsoInterval
/-! Model of the whole `pendulum.parse(text, **options)` pipeline (property C17), for both parser backends, on top of
the two existing parser models (`Model/Iso.lean`: date/time strings, `Model/IsoDur.lean`: durations).

* `isoAny`            — `parse_iso8601(text)` of the backend: a date/time value or a duration
                         (compiled: `rust/src/python/parsing.rs`; Python: `parsing/iso8601.py::parse_iso8601`).
* `parseIntervalRaw`  — `parsing/__init__.py::_parse_iso8601_interval` (after the repair: the halves are type checked).
* `commonParseDF`     — `_parse_common` with the `day_first` option (`Iso.commonParse` is the `day_first=False` instance).
* `baseParse`         — `parsing/__init__.py::_parse`: iso8601 → interval → common → strict gate → dateutil, with
                         `suppress(ValueError)` / `suppress(ParserError)` catching exactly those kinds.
* `assemble`          — `parser.py::_interval` inside `try … except (OverflowError, ValueError): raise ParserError`.
* `parseAll`          — `parser.py::parse/_parse` + `parsing.parse/_normalize`.

Every operation of the Python code that can raise something that is not a `ValueError` has its own branch returning
`Kind.other "<ExceptionName>"` (`int(None)`, attribute access on a value of the wrong type, …); the theorems of
`Props/C17.lean` show these branches unreachable for the repaired code.

`dateutil.parser.parse` is a parameter `du : (dayfirst yearfirst : Bool) → List Char → Except Kind Value`.
The `tz` option (`TzOpt`) is absent (the default, UTC), a fixed offset in seconds, or `None` (values without an explicit
offset stay naive); named zones are exercised by the oracle only. -/
namespace Pendulum.ParseAll
open Pendulum Pendulum.Iso

/-- the `tz` option of `pendulum.parse` -/
inductive TzOpt
  | default                 -- no `tz=`: `options.get("tz", UTC)` is UTC
  | fixed (off : Int)       -- a `FixedTimezone(off)` object made by the caller (seconds)
  | shared (off : Int)      -- a number of hours / a `datetime.timezone`: `_safe_timezone` → `fixed_timezone(off)`, the cached
                            -- per-offset object (the one the compiled parser's explicit offsets resolve to as well)
  | naive                   -- `tz=None`: a value without explicit offset stays naive
  deriving Repr, DecidableEq

/-- the offset `pendulum.datetime(..., tz=tz)` / `pendulum.instance(dt, tz=tz)` give to a naive value; `none` = it stays naive -/
def TzOpt.fill : TzOpt → Option Int
  | .default => some 0
  | .fixed o => some o
  | .shared o => some o
  | .naive => none

/-- the options of `pendulum.parse`; `now` = the date given to bare times when `exact` is false -/
structure Options where
  exact : Bool := false
  strict : Bool := true
  dayFirst : Bool := false
  yearFirst : Bool := true
  tz : TzOpt := .default
  now : Int × Int × Int := (2001, 2, 3)
  deriving Repr

/-- `dateutil.parser.parse(text, dayfirst, yearfirst)`: opaque -/
abbrev Dateutil := Bool → Bool → List Char → Except Kind Value

/-- what `parse_iso8601` returns: a `date`/`time`/`datetime`, or a duration (Python: a `pendulum.Duration`, already
    range checked; compiled: the raw components of `_pendulum.Duration`) -/
inductive IsoRes
  | val (v : Value)
  | dur (p : IsoDur.Parsed)
  deriving Repr

/-- what `pendulum.parse` returns -/
inductive Out
  | dateTime (v : Value)
  | date (v : Value)
  | time (v : Value)
  | duration (d : IsoDur.Dur)
  | interval (s e : Value)          -- two DateTimes or two Dates
  | now                             -- `pendulum.now()`: a DateTime
  deriving Repr, DecidableEq

/-! ### `parse_iso8601` -/

/-- `\d` and `int()` of the Python duration code accept every Unicode decimal digit; what the code computes depends on the
    digit values only, so the Python duration parser on `s` is the one of `Model/IsoDur.lean` on `s` with every decimal
    digit replaced by its ASCII form -/
def asciiDigits (cs : List Char) : List Char :=
  cs.map fun c => match dv .py c with
    | some d => digitChar d
    | none => c

/-- the compiled parser hands its raw components to `add`/`subtract`, the Python one a normalised `Duration`:
    the same years, months and total length of the rest -/
def durOf (p : IsoDur.Parsed) : IsoDur.Dur := ⟨p.y, p.mo, p.restUs⟩

/-- `IsoDur.finish p` succeeds (then its value is `durOf p`): `Duration(...)` / `timedelta` does not raise OverflowError -/
def durOk (p : IsoDur.Parsed) : Bool := (IsoDur.finish p).toBool

/-! The pipeline is written over an arbitrary range predicate `rk` for durations and instantiated with `durOk` at the very
end (`parseAll`). Reason: `durOk` compares with the literal `10^9 · 86 400 000 000`; a definitional unfolding step through it in
a proof term makes the Lean kernel run out of stack. Over a variable `rk` there is nothing to unfold, and every theorem about
`parseAllG rk` specialises to `parseAll` by application. -/
variable (rk : IsoDur.Parsed → Bool)

def isoAny (b : Backend) (cs : List Char) : Except Kind IsoRes :=
  if cs.head? = some 'P' then
    match b with
    | .rust =>
      -- `Parser::parse` → `parse_duration`; every `ParseError` becomes `PyValueError`
      match IsoDur.parseParsed .rust cs with
      | .ok p => .ok (.dur p)
      | .error _ => .error .valueError
    | .py =>
      -- `_parse_iso8601_duration`: no match → `ISO8601_DT` cannot match either → ParserError;
      -- `Duration(...)` raising OverflowError → ParserError
      match IsoDur.parseParsed .py (asciiDigits cs) with
      | .ok p => if rk p then .ok (.dur p) else .error .parserError
      | .error _ => .error .parserError
  else
    match parseIso b cs with
    | .ok v => .ok (.val v)
    -- compiled parser, `/` after a complete date-time: the rest is parsed as a second element and the result is
    -- `(Some, _, _)` → "Not yet implemented", or the rest is malformed: a `PyValueError` in both cases
    | .error (.other n) => if n = "Interval" then .error .valueError else .error (.other n)
    | .error k => .error k

/-! ### `_parse_iso8601_interval` -/

inductive IntervalRaw
  | durEnd (d : IsoDur.Parsed) (e : Value)
  | startDur (s : Value) (d : IsoDur.Parsed)
  | startEnd (s e : Value)
  deriving Repr

/-- `if "/" not in text: raise ParserError`; `first, last = text.split("/")` (ValueError unless exactly two parts) -/
def intervalHalves (cs : List Char) : Except Kind (List Char × List Char) :=
  if cs.contains '/' then
    match IsoDur.splitSlash cs with
    | some p => .ok p
    | none => .error .valueError
  else .error .parserError

def isDateLike (v : Value) : Bool := v.kind = .date || v.kind = .datetime

def parseIntervalRaw (b : Backend) (cs : List Char) : Except Kind IntervalRaw :=
  match intervalHalves cs with
  | .error e => .error e
  | .ok (first, last) =>
    if first.head? = some 'P' then
      -- duration/end
      match isoAny rk b first with
      | .error e => .error e
      | .ok d =>
        match isoAny rk b last with
        | .error e => .error e
        | .ok e =>
          match e with
          | .dur _ => .error .parserError                       -- not isinstance(end, datetime)
          | .val ve =>
            if ve.kind = .datetime then
              match d with
              | .dur p => .ok (.durEnd p ve)
              | .val _ => .error (.other "AttributeError")      -- `duration.years` of a date/time object
            else .error .parserError
    else if last.head? = some 'P' then
      -- start/duration
      match isoAny rk b first with
      | .error e => .error e
      | .ok s =>
        match isoAny rk b last with
        | .error e => .error e
        | .ok d =>
          match s with
          | .dur _ => .error .parserError
          | .val vs =>
            if vs.kind = .datetime then
              match d with
              | .dur p => .ok (.startDur vs p)
              | .val _ => .error (.other "AttributeError")
            else .error .parserError
    else
      -- start/end
      match isoAny rk b first with
      | .error e => .error e
      | .ok s =>
        match isoAny rk b last with
        | .error e => .error e
        | .ok e =>
          match s, e with
          | .val vs, .val ve => if isDateLike vs && isDateLike ve then .ok (.startEnd vs ve) else .error .parserError
          | _, _ => .error .parserError                          -- a Duration is not a date

/-! ### `_parse_common` with `day_first` -/

def commonParseDF (df : Bool) (cs0 : List Char) : R :=
  let cs := stripNl cs0
  let withDate : Option R :=
    match exactN .py 4 0 cs with
    | none => none
    | some (y, r) =>
      (match exactN .py 2 0 (optSep r) with
        | none => none
        | some (mo, r2) =>
          match exactN .py 2 0 (optSep r2) with
          | none => none
          | some (d, r4) => cmTry (some (if df then (y, d, mo) else (y, mo, d))) r4)
      <|> cmTry (some (y, 1, 1)) r
  match withDate <|> cmTry none cs with
  | some r => r
  | none => .error .parserError

/-! ### `parsing/__init__.py::_parse` -/

inductive Parsed1
  | iso (r : IsoRes)
  | interval (r : IntervalRaw)
  deriving Repr

/-- the subclasses of `ArithmeticError` (builtins and `decimal`) -/
def isArithmetic (n : String) : Bool :=
  n == "ArithmeticError" || n == "OverflowError" || n == "ZeroDivisionError" || n == "FloatingPointError" ||
  n == "InvalidOperation" || n == "DivisionByZero" || n == "DecimalException" || n == "Overflow" || n == "Underflow" ||
  n == "Inexact" || n == "Rounded" || n == "Subnormal" || n == "Clamped" || n == "DivisionImpossible" ||
  n == "DivisionUndefined" || n == "InvalidContext" || n == "ConversionSyntax" || n == "FloatOperation"

/-- the dateutil fallback: `except (ValueError, ArithmeticError): raise ParserError` -/
def dateutilStep (du : Dateutil) (o : Options) (cs : List Char) : Except Kind Parsed1 :=
  match du o.dayFirst o.yearFirst cs with
  | .ok v => .ok (.iso (.val v))
  | .error .parserError => .error .parserError
  | .error .valueError => .error .parserError
  | .error (.other n) => if isArithmetic n then .error .parserError else .error (.other n)

def baseParse (b : Backend) (o : Options) (du : Dateutil) (cs : List Char) : Except Kind Parsed1 :=
  match isoAny rk b cs with
  | .ok r => .ok (.iso r)
  | .error (.other n) => .error (.other n)                  -- not a ValueError: escapes `suppress(ValueError)`
  | .error _ =>
    match parseIntervalRaw rk b cs with
    | .ok r => .ok (.interval r)
    | .error (.other n) => .error (.other n)
    | .error _ =>
      match commonParseDF o.dayFirst cs with
      | .ok v => .ok (.iso (.val v))
      | .error .parserError =>                               -- `suppress(ParserError)`
        if o.strict then .error .parserError else dateutilStep du o cs
      | .error e => .error e                                 -- a plain ValueError (field out of range) is not caught

/-! ### `parser.py::_interval` -/

def toDT (v : Value) (off : Int) : IsoInterval.DT := ⟨v.y, v.m, v.d, v.h, v.mi, v.s, v.us, off⟩

def offOk (o : Int) : Bool := decide (-86400 < o) && decide (o < 86400)

/-- the UTC instant of the value is itself a representable datetime (`_start - offset` in `Interval.__new__`,
    `current_dt - offset` / `fromutc` in `DateTime.add`) -/
def utcOk (t : IsoInterval.DT) : Bool :=
  decide (0 ≤ t.wall - t.off * 1000000) &&
  decide (t.wall - t.off * 1000000 < (Cal.ymd2ord 10000 1 1 - 1) * IsoInterval.dayUs)

/-- the UTC offset of an endpoint after `pendulum.instance(dt, tz=tz)` (`tz = dt.tzinfo or tz`); `none` = a naive DateTime
    (only under `tz=None`, for an endpoint written without offset) -/
def endOff (tz : TzOpt) (v : Value) : Option Int :=
  match v.off with
  | some o => some o
  | none => tz.fill

def isAware (tz : TzOpt) (v : Value) : Bool := (endOff tz v).isSome

/-- `pendulum.instance(dt, tz=tz)` for an endpoint: `dt.utcoffset()` raises ValueError for an offset of 24 h or more.
    A naive endpoint is carried with offset 0 (`isAware` tells the two apart; `add`/`subtract` do not look at the offset). -/
def instanceDT (tz : TzOpt) (v : Value) : Except Kind IsoInterval.DT :=
  match endOff tz v with
  | some o => if offOk o then .ok (toDT v o) else .error .valueError
  | none => .ok (toDT v 0)

/-- back to a value: an aware DateTime with its offset, or a naive one -/
def ofDTa (aware : Bool) (t : IsoInterval.DT) : Value :=
  ⟨.datetime, t.y, t.m, t.d, t.h, t.mi, t.s, t.us, if aware then some t.off else none⟩

/-- do the two endpoints carry the same tzinfo *object*? (then `Interval.__new__` subtracts the offsets by hand).
    Naive endpoints get the `tz` option (or the UTC singleton); the Python parser builds a fresh `FixedTimezone` per
    offset, the compiled one goes through the cache of `fixed_timezone` (one object per offset), and so does a `tz` option
    given as a number of hours or a `datetime.timezone` (`TzOpt.shared`). Irrelevant for offset 0. -/
def sameTzObj (b : Backend) (tz : TzOpt) (s e : Value) : Bool :=
  match s.off, e.off with
  | none, none => true
  | some a, some c => b == .rust && a == c
  | none, some c => b == .rust && tz == .shared c
  | some a, none => b == .rust && tz == .shared a

/-- `Interval.__init__` → the pure-Python `precise_diff` (after its `d1 == d2` shortcut) subtracts the offsets as well unless
    the two zone *names* are equal and the wall dates differ (the compiled `precise_diff` does the shift on plain integers
    and cannot overflow) -/
def needUtc (b : Backend) (tz : TzOpt) (s e : Value) (ts te : IsoInterval.DT) : Bool :=
  sameTzObj b tz s e ||
  (b == .py && ts.wall - ts.off * 1000000 != te.wall - te.off * 1000000 &&
    (ts.off != te.off || (s.y == e.y && s.m == e.m && s.d == e.d)))

/-- everything that fails inside `_interval` is an OverflowError or a ValueError; both are reported as ParserError -/
def assembleRaw (b : Backend) (tz : TzOpt) (r : IntervalRaw) : Except Kind Out :=
  match r with
  | .startDur s p =>
    match instanceDT tz s with
    | .error e => .error e
    | .ok t =>
      match IsoInterval.add t (durOf p) with
      | .error _ => .error (.other "OverflowError")
      | .ok t2 =>
        -- a naive DateTime is never shifted to UTC (`add`, `Interval.__new__`, `precise_diff`: `utcoffset()` is None)
        if !isAware tz s || (utcOk t && utcOk t2) then .ok (.interval (ofDTa (isAware tz s) t) (ofDTa (isAware tz s) t2))
        else .error (.other "OverflowError")
  | .durEnd p e =>
    match instanceDT tz e with
    | .error e => .error e
    | .ok t =>
      match IsoInterval.sub t (durOf p) with
      | .error _ => .error (.other "OverflowError")
      | .ok t2 =>
        if !isAware tz e || (utcOk t && utcOk t2) then .ok (.interval (ofDTa (isAware tz e) t2) (ofDTa (isAware tz e) t))
        else .error (.other "OverflowError")
  | .startEnd s e =>
    if s.kind = .date ∧ e.kind = .date then .ok (.interval s e)
    else if s.kind = .datetime ∧ e.kind = .datetime then
      match instanceDT tz s with
      | .error k => .error k
      | .ok ts =>
        match instanceDT tz e with
        | .error k => .error k
        | .ok te =>
          -- the repair: one endpoint naive (no offset in the string, `tz=None`), the other aware → ParserError
          -- (before: `Interval.__new__` raised TypeError "can't compare offset-naive and offset-aware datetimes")
          if isAware tz s != isAware tz e then .error .parserError
          else if isAware tz s && needUtc b tz s e ts te && !(utcOk ts && utcOk te) then .error (.other "OverflowError")
          else .ok (.interval (ofDTa (isAware tz s) ts) (ofDTa (isAware tz e) te))
    else .error .valueError         -- "Both start and end of an Interval must have the same type"

def assemble (b : Backend) (tz : TzOpt) (r : IntervalRaw) : Except Kind Out :=
  match assembleRaw b tz r with
  | .ok o => .ok o
  | .error .parserError => .error .parserError
  | .error .valueError => .error .parserError
  | .error (.other n) => if n = "OverflowError" then .error .parserError else .error (.other n)

/-! ### `parsing.parse` (`_normalize`) + `parser.py::_parse` -/

def outOfValue (v : Value) : Out :=
  match v.kind with
  | .datetime => .dateTime v
  | .date => .date v
  | .time => .time v

/-- `_normalize` + `parser._parse` for a date/time value: `Iso.wrap` for the default / a fixed offset; under `tz=None`
    `pendulum.datetime(..., tz=None)` builds a naive DateTime (an aware parsed datetime goes through `instance()` as before) -/
def wrapTz (exact : Bool) (tz : TzOpt) (now : Int × Int × Int) (v : Value) : R :=
  match tz with
  | .default => wrap exact none now v
  | .fixed o => wrap exact (some o) now v
  | .shared o => wrap exact (some o) now v
  | .naive =>
    match v.kind with
    | .datetime =>
      match v.off with
      | some o => if -86400 < o ∧ o < 86400 then .ok v else .error .valueError
      | none => .ok v
    | .date => if exact then .ok v else .ok { v with kind := .datetime, off := none }
    | .time =>
      if exact then .ok { v with off := none }
      else .ok { v with kind := .datetime, y := now.1, m := now.2.1, d := now.2.2, off := none }

def finishOut (b : Backend) (o : Options) (p : Parsed1) : Except Kind Out :=
  match p with
  | .iso (.val v) =>
    match wrapTz o.exact o.tz o.now v with
    | .ok w => .ok (outOfValue w)
    | .error e => .error e
  | .iso (.dur p) =>
    -- Python: the Duration itself; compiled: `pendulum.duration(**components)`, OverflowError → ParserError
    if rk p then .ok (.duration (durOf p)) else .error .parserError
  | .interval r => assemble b o.tz r

def parseAllG (b : Backend) (o : Options) (du : Dateutil) (cs : List Char) : Except Kind Out :=
  if cs = ['n', 'o', 'w'] then .ok .now else
  match baseParse rk b o du cs with
  | .error e => .error e
  | .ok p => finishOut rk b o p

/-- `pendulum.parse(text, **options)` -/
def parseAll (b : Backend) (o : Options) (du : Dateutil) (cs : List Char) : Except Kind Out := parseAllG durOk b o du cs

end Pendulum.ParseAll
