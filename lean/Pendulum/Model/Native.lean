import Pendulum.Model.DTOps
/-! Reference semantics of the standard library's `datetime` for the operations a pendulum `DateTime`
overrides or inherits (property C11): the comparison rule of `datetime._cmp` / `datetime_richcompare`,
`datetime.__sub__`, `astimezone`, and the field accessors. A value is a `DTOps.V`
(zone reference, wall µs, fold); `same` says whether two values carry the *same tzinfo object*. -/
namespace Pendulum.Native
open Pendulum Pendulum.Zone Pendulum.DTOps Pendulum.Cal

def sign (x : Int) : Int := if x < 0 then -1 else if x = 0 then 0 else 1

/-- does the fold bit change `utcoffset()` (PEP 495 "problematic" time)? -/
def V.problematic (v : V) : Bool :=
  match v.z with
  | .named z => z.woff false v.w != z.woff true v.w
  | _ => false

/-- `datetime._cmp` for two aware (or two naive) values: same tzinfo object, or equal offsets ⇒ compare the
    fields; otherwise compare `self - other` taking the offsets into account. Result −1 / 0 / 1 -/
def cmp (same : Bool) (a b : V) : Int :=
  if same || a.offset == b.offset then sign (a.w - b.w) else sign (a.instant - b.instant)

/-- `==`: like `cmp … = 0`, except that across different tzinfo objects a problematic time is never equal -/
def eq (same : Bool) (a b : V) : Bool :=
  if same then a.w == b.w
  else if V.problematic a || V.problematic b then false
  else cmp same a b == 0

/-- `datetime.__sub__` (µs): same tzinfo object ⇒ difference of the fields, otherwise of the instants -/
def sub (same : Bool) (a b : V) : Int :=
  if same then a.w - b.w else a.instant - b.instant

/-- pendulum's `DateTime.__sub__` = `other.diff(self, False)` = `Interval(other, self)`:
    `Interval.__new__` removes the offsets by hand when both share the tzinfo, so it is always the elapsed time -/
def pendulumSub (a b : V) : Int := a.instant - b.instant

/-- `DateTime.astimezone(tz)` = `super().astimezone(tz)` re-wrapped with `fold=dt.fold`; aware values only -/
def astimezone (v : V) (target : ZRef) (same : Bool) : Except Err V := inTz v target same

/-- `DateTime.replace` with every field given: `DateTime.create(…, tz=self.tzinfo, fold=fold)` -/
def replace (v : V) (w : Int) (fold : Bool) : Except Err V := create v.z w fold false

/-- the integer-valued accessors: utcoffset, timestamp (µs), toordinal, weekday, isocalendar, date(), time(),
    day of year, utctimetuple (ordinal, time of day) -/
structure Acc where
  offset : Int
  instant : Int
  ordinal : Int
  weekday : Int          -- Monday = 0
  isoY : Int
  isoW : Int
  isoD : Int
  year : Int
  month : Int
  day : Int
  tod : Int
  yday : Int
  utcOrdinal : Int
  utcTod : Int
deriving DecidableEq, Repr

def DAY : Int := 86400000000

def acc (v : V) : Acc :=
  let ord := v.w / DAY + epochOrd
  let (y, m, d) := ord2ymd ord
  let (iy, iw, id) := isoCalendar y m d
  let u := v.w - v.offset
  { offset := v.offset, instant := v.instant, ordinal := ord, weekday := isoweekdayOrd ord - 1,
    isoY := iy, isoW := iw, isoD := id, year := y, month := m, day := d, tod := v.w % DAY,
    yday := dayOfYear y m d, utcOrdinal := u / DAY + epochOrd, utcTod := u % DAY }

end Pendulum.Native
