import Pendulum.Model.DTOps
import Pendulum.Model.TimeOfDay
/-! Reference semantics of the standard library's `datetime` for the operations a pendulum `DateTime`
overrides or inherits (property C11): the comparison rule of `datetime._cmp` / `datetime_richcompare`,
`datetime.__sub__`, `astimezone`, and the field accessors. A value is a `DTOps.V`
(zone reference, wall µs, fold); `same` says whether two values carry the *same tzinfo object*. -/
namespace Pendulum.Native
open Pendulum Pendulum.Zone Pendulum.DTOps Pendulum.Cal

def sign (x : Int) : Int := if x < 0 then -1 else if x = 0 then 0 else 1

/-- does the fold bit change `utcoffset()` (PEP 495 "problematic" time)? -/
def V.problematic (v : V) : Bool :=
  match v.z with
  | .named z => z.woff false v.w != z.woff true v.w
  | _ => false

/-- `datetime._cmp` for two aware (or two naive) values: same tzinfo object, or equal offsets ⇒ compare the
    fields; otherwise compare `self - other` taking the offsets into account. Result −1 / 0 / 1 -/
def cmp (same : Bool) (a b : V) : Int :=
  if same || a.offset == b.offset then sign (a.w - b.w) else sign (a.instant - b.instant)

/-- `==`: like `cmp … = 0`, except that across different tzinfo objects a problematic time is never equal -/
def eq (same : Bool) (a b : V) : Bool :=
  if same then a.w == b.w
  else if V.problematic a || V.problematic b then false
  else cmp same a b == 0

/-- `datetime.__sub__` (µs): same tzinfo object ⇒ difference of the fields, otherwise of the instants -/
def sub (same : Bool) (a b : V) : Int :=
  if same then a.w - b.w else a.instant - b.instant

/-- pendulum's `DateTime.__sub__` = `other.diff(self, False)` = `Interval(other, self)`:
    `Interval.__new__` removes the offsets by hand when both share the tzinfo, so it is always the elapsed time -/
def pendulumSub (a b : V) : Int := a.instant - b.instant

/-- `DateTime.astimezone(tz)` = `super().astimezone(tz)` re-wrapped with `fold=dt.fold`; aware values only -/
def astimezone (v : V) (target : ZRef) (same : Bool) : Except Err V := inTz v target same

/-- `DateTime.replace` with every field given: `DateTime.create(…, tz=self.tzinfo, fold=fold)` -/
def replace (v : V) (w : Int) (fold : Bool) : Except Err V := create v.z w fold false

/-- the integer-valued accessors: utcoffset, timestamp (µs), toordinal, weekday, isocalendar, date(), time(),
    day of year, utctimetuple (ordinal, time of day) -/
structure Acc where
  offset : Int
  instant : Int
  ordinal : Int
  weekday : Int          -- Monday = 0
  isoY : Int
  isoW : Int
  isoD : Int
  year : Int
  month : Int
  day : Int
  tod : Int
  yday : Int
  utcOrdinal : Int
  utcTod : Int
deriving DecidableEq, Repr

def DAY : Int := 86400000000

def acc (v : V) : Acc :=
  let ord := v.w / DAY + epochOrd
  let (y, m, d) := ord2ymd ord
  let (iy, iw, id) := isoCalendar y m d
  let u := v.w - v.offset
  { offset := v.offset, instant := v.instant, ordinal := ord, weekday := isoweekdayOrd ord - 1,
    isoY := iy, isoW := iw, isoD := id, year := y, month := m, day := d, tod := v.w % DAY,
    yday := dayOfYear y m d, utcOrdinal := u / DAY + epochOrd, utcTod := u % DAY }

/-! ### `Date` / `Time` overrides and the `DateTime` methods that return dates and times

A date is its proleptic ordinal (1 = 0001-01-01), a time of day its microseconds since 00:00
(`TimeOfDay.fields` / `ofFields` are the hour/minute/second/microsecond view), a tzinfo *object* carried by a
`time` is an opaque identity. Every pendulum answer carries the class it is an instance of (`Ty`). -/

/-- the class of an answer -/
inductive Ty | pDate | pTime | pDateTime | pInterval | pDuration | nDate | nTime | nDateTime | nTimedelta
deriving DecidableEq, Repr

def Ty.code : Ty → Int
  | .pDate => 1 | .pTime => 2 | .pDateTime => 3 | .pInterval => 4 | .pDuration => 5
  | .nDate => 11 | .nTime => 12 | .nDateTime => 13 | .nTimedelta => 14

inductive Ex | valueError | typeError
deriving DecidableEq, Repr

def Ex.name : Ex → String
  | .valueError => "ValueError" | .typeError => "TypeError"

def maxOrd : Int := 3652059

/-- `date(y, m, d)` and `Date(y, m, d)` alike: `_check_date_fields`, then the value (its ordinal) -/
def mkDate (y m d : Int) : Except Ex Int :=
  if 1 ≤ y ∧ y ≤ 9999 ∧ validDate y m d then .ok (ymd2ord y m d) else .error .valueError

/-- `date.fromordinal(n)` -/
def nFromOrdinal (n : Int) : Except Ex Int :=
  if 1 ≤ n ∧ n ≤ maxOrd then .ok n else .error .valueError

/-- `Date.fromordinal`: `dt = super().fromordinal(n); cls(dt.year, dt.month, dt.day)` -/
def pFromOrdinal (n : Int) : Except Ex (Ty × Int) :=
  match nFromOrdinal n with
  | .error e => .error e
  | .ok k =>
    match mkDate (ord2ymd k).1 (ord2ymd k).2.1 (ord2ymd k).2.2 with
    | .error e => .error e
    | .ok r => .ok (.pDate, r)

/-- `date.replace(year=None, month=None, day=None)`: `type(self)(year, month, day)` -/
def nDateReplace (n : Int) (y m d : Option Int) : Except Ex Int :=
  mkDate (y.getD (ord2ymd n).1) (m.getD (ord2ymd n).2.1) (d.getD (ord2ymd n).2.2)

/-- `Date.replace`: the same defaults, `self.__class__(year, month, day)` -/
def pDateReplace (n : Int) (y m d : Option Int) : Except Ex (Ty × Int) :=
  match mkDate (y.getD (ord2ymd n).1) (m.getD (ord2ymd n).2.1) (d.getD (ord2ymd n).2.2) with
  | .error e => .error e
  | .ok r => .ok (.pDate, r)

/-- `date.__sub__(date)`: `timedelta(days)` in µs -/
def nDateSub (a b : Int) : Int := (a - b) * DAY

/-- `Date.__sub__(other: date)`: `dt = self.__class__(other.year, other.month, other.day)`, `dt.diff(self, False)` =
    `Interval(dt, self)` whose `timedelta` base is `date(self) - date(dt)` -/
def pDateSub (a b : Int) : Except Ex (Ty × Int) :=
  match mkDate (ord2ymd b).1 (ord2ymd b).2.1 (ord2ymd b).2.2 with
  | .error e => .error e
  | .ok b' => .ok (.pInterval, (a - b') * DAY)

/-- a `time` value: µs of the day, identity of the tzinfo object it carries, fold -/
structure TV where
  tod : Int
  tz : Option Nat
  fold : Bool
deriving DecidableEq, Repr

/-- `time(h, m, s, us)`: `_check_time_fields` -/
def mkTod (h m s us : Int) : Except Ex Int :=
  if 0 ≤ h ∧ h < 24 ∧ 0 ≤ m ∧ m < 60 ∧ 0 ≤ s ∧ s < 60 ∧ 0 ≤ us ∧ us < 1000000 then
    .ok (TimeOfDay.ofFields h m s us) else .error .valueError

/-- the `tzinfo=` argument of `replace`: `True` (keep, the default), `None`, or a tzinfo object -/
inductive TzArg | keep | clear | set (k : Nat)

def TzArg.apply : TzArg → Option Nat → Option Nat
  | .keep, cur => cur
  | .clear, _ => none
  | .set k, _ => some k

/-- `time.replace(hour=None, minute=None, second=None, microsecond=None, tzinfo=True, *, fold=None)` -/
def nTimeReplace (t : TV) (h m s us : Option Int) (tz : TzArg) (fold : Option Bool) : Except Ex TV :=
  let f := TimeOfDay.fields t.tod
  match mkTod (h.getD f.1) (m.getD f.2.1) (s.getD f.2.2.1) (us.getD f.2.2.2) with
  | .error e => .error e
  | .ok tod => .ok ⟨tod, tz.apply t.tz, fold.getD t.fold⟩

/-- `Time.replace(…, tzinfo=True, fold=0)`: `t = super().replace(…, fold=fold)`, then
    `self.__class__(t.hour, t.minute, t.second, t.microsecond, tzinfo=t.tzinfo)` — the fold is not passed on -/
def pTimeReplace (t : TV) (h m s us : Option Int) (tz : TzArg) (fold : Option Bool) : Except Ex (Ty × TV) :=
  match nTimeReplace t h m s us tz (some (fold.getD false)) with
  | .error e => .error e
  | .ok r =>
    let f := TimeOfDay.fields r.tod
    match mkTod f.1 f.2.1 f.2.2.1 f.2.2.2 with
    | .error e => .error e
    | .ok tod => .ok (.pTime, ⟨tod, r.tz, false⟩)

/-- `Time.__sub__(other: time)`: aware `other` → TypeError; `other = cls(other.hour, …)`; `other.diff(self, False)`
    = `Duration(microseconds=us(self) - us(other))` -/
def pTimeSub (a b : TV) : Except Ex (Ty × Int) :=
  if b.tz.isSome then .error .typeError else .ok (.pDuration, TimeOfDay.sub a.tod b.tod)

/-- `Time.__rsub__(other: time)` (a native `time` on the left): aware `other` → TypeError;
    `other = cls(other.hour, …)` (naive); `other.__sub__(self)` -/
def pTimeRsub (self other : TV) : Except Ex (Ty × Int) :=
  if other.tz.isSome then .error .typeError else pTimeSub ⟨other.tod, none, false⟩ self

/-- wall µs of `datetime.combine(date, time)` -/
def wallOf (ord tod : Int) : Int := (ord - epochOrd) * DAY + tod

/-- `DateTime.date()`: `Date(self.year, self.month, self.day)` -/
def pDateOf (v : V) : Except Ex (Ty × Int) :=
  let f := AddDur.wallToFields v.w
  match mkDate f.1 f.2.1 f.2.2.1 with
  | .error e => .error e
  | .ok r => .ok (.pDate, r)

/-- `datetime.time()`: `time(hour, minute, second, microsecond, fold=self.fold)` -/
def nTimeOf (v : V) : TV := ⟨v.w % DAY, none, v.fold⟩
/-- `datetime.timetz()`; `k` = identity of the value's tzinfo object (`none` for naive) -/
def nTimetzOf (v : V) (k : Option Nat) : TV := ⟨v.w % DAY, k, v.fold⟩

/-- `DateTime.time()`: `Time(self.hour, self.minute, self.second, self.microsecond)` -/
def pTimeOf (v : V) : Except Ex (Ty × TV) :=
  let f := TimeOfDay.fields (v.w % DAY)
  match mkTod f.1 f.2.1 f.2.2.1 f.2.2.2 with
  | .error e => .error e
  | .ok tod => .ok (.pTime, ⟨tod, none, false⟩)

/-- `DateTime.timetz()`: `Time(…, tzinfo=self.tzinfo, fold=self.fold)` -/
def pTimetzOf (v : V) (k : Option Nat) : Except Ex (Ty × TV) :=
  let f := TimeOfDay.fields (v.w % DAY)
  match mkTod f.1 f.2.1 f.2.2.1 f.2.2.2 with
  | .error e => .error e
  | .ok tod => .ok (.pTime, ⟨tod, k, v.fold⟩)

/-- `datetime.combine(date, time, tzinfo=True)`: the time's tzinfo unless one is given -/
def nCombine (ord tod : Int) (tz : ZRef) (tfold : Bool) (tzArg : Option ZRef) : V :=
  ⟨tzArg.getD tz, wallOf ord tod, tfold⟩

/-- `DateTime.combine(date, time, tzinfo=None)` = `cls.instance(datetime.combine(date, time), tz=tzinfo)`:
    `tz = dt.tzinfo or tz` — the argument only counts for a naive time; an aware value goes through the
    offset-matching fold choice of `instance`, a naive one straight to `create` with the time's fold -/
def pCombine (ord tod : Int) (tz : ZRef) (tfold : Bool) (tzArg : ZRef) : Except Err (Ty × V) :=
  let w := wallOf ord tod
  let r := match tz with
    | .naive => create tzArg w tfold false
    | z => instanceAware z w tfold (V.offset ⟨z, w, tfold⟩)
  match r with
  | .error e => .error e
  | .ok v => .ok (.pDateTime, v)

end Pendulum.Native
