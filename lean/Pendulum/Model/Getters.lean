import Pendulum.Model.Cal
/-! Hand model (specification side) of the calendar getters and small derived methods of `Date` / `DateTime`
(date.py, datetime.py) that have no model elsewhere: the date-level and datetime-level `closest` / `farthest` /
`average`, the selection rule of Python's `min` / `max`, the week globals. The calendar getters themselves are specified
directly by `Model/Cal.lean` (the standard library's proleptic Gregorian answers) — see `Drv/C15.lean::getters`.
`Gen/Getters.lean` (regenerated from the source) is tied to these definitions in `Proofs/GettersGen.lean`. -/
namespace Pendulum.Getters
open Pendulum

def absI (x : Int) : Int := if x < 0 then -x else x

/-! ### calendar getters of a valid date (the answers the property C15 asks for) -/

/-- `day_of_week`: Monday = 0 … Sunday = 6 -/
def dayOfWeek (y m d : Int) : Int := Cal.isoweekday y m d - 1
/-- `week_of_month`: 1-based index of the Monday-first calendar row of the month that contains the day -/
def weekOfMonth (y m d : Int) : Int := (d + Cal.isoweekday y m 1 - 2) / 7 + 1
/-- `quarter` -/
def quarter (m : Int) : Int := (m - 1) / 3 + 1

/-! ### `Date.closest` / `farthest` / `average` on proleptic ordinals -/

/-- `Date.closest(dt1, dt2)`: the first candidate only when it is *strictly* closer -/
def closestDate (o o1 o2 : Int) : Int := if absI (o1 - o) < absI (o2 - o) then o1 else o2
/-- `Date.farthest(dt1, dt2)`: the first candidate only when it is *strictly* farther -/
def farthestDate (o o1 o2 : Int) : Int := if absI (o1 - o) > absI (o2 - o) then o1 else o2
/-- `Date.average(dt)`: half of the signed day difference, rounded towards the instance -/
def averageDate (o o' : Int) : Int := o + Int.tdiv (o' - o) 2

/-! ### `DateTime.closest` / `farthest` / `average` -/

/-- the candidate `DateTime.closest` / `farthest` (`min` / `max` over `(abs(self - dt), dt)`) returns: the *first*
    candidate at the smallest / largest distance.  (Two `Interval`s compare equal only when their end points are equal, so
    for two different candidates at the same distance the tuple comparison is decided by `<` / `>` on the intervals,
    which is false: the earlier one in the argument list stays.) -/
def pickBy {α : Type} (dist : α → Int) (far : Bool) : List α → Option α
  | [] => none
  | c :: rest =>
    some (rest.foldl (fun cur x => if (if far then dist x > dist cur else dist x < dist cur) then x else cur) c)

/-- `DateTime.average(dt)` on instants (µs): half of the signed difference, rounded down -/
def averageInstant (t t' : Int) : Int := t + (t' - t) / 2

/-! ### week globals -/

/-- `week_starts_at(wday)` / `week_ends_at(wday)`: the value stored, `none` = ValueError -/
def setWeekDay (wday : Int) : Option Int := if 0 ≤ wday ∧ wday ≤ 6 then some wday else none

end Pendulum.Getters
