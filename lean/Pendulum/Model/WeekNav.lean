import Pendulum.Model.Cal
import Pendulum.Model.DTOps
import Pendulum.Model.StartOf
/-! Model of the weekday navigation of `pendulum.Date` (date.py:463-718) and `pendulum.DateTime`
(datetime.py:924-1171): `next`, `previous`, `first_of`, `last_of`, `nth_of` for month / quarter / year.

**Date level.** A `date` is its proleptic ordinal (`Cal.ymd2ord` / `Cal.ord2ymd` are the standard
library's field views, proved mutually inverse in `Proofs/CalRT.lean`); `dt.add(days=1)` is `o + 1`;
`set(day=k)` is `ymd2ord y m k` with `(y, m, _) = ord2ymd o`. The control flow is the code's:
`while dt.day_of_week != wd: dt = dt.add(days=1)` (fuel 7, proved sufficient),
`calendar.monthcalendar(y, m)[row][wd]` lookups (`mcal`), `range(nth - (1 if ...))` applications of
`next`, and the three different "still inside the unit?" tests of `_nth_of_month/_quarter/_year`.

**DateTime level** (repaired tree). A value is `DTOps.V` (zone reference, wall µs, fold). The target day is
computed on the calendar and its first moment is built by `self._boundary(y, m, d)` (`StartOf.edge`, the model of
`_boundary` in Model/StartOf.lean); only `next/previous(keep_time=True)` add whole days to the instance
(`add(days=n)` → `DateTime.create` with the default `fold=1`). -/
namespace Pendulum.WeekNav
open Pendulum Pendulum.Cal

/-- `weekday()` / `day_of_week` (Monday = 0 … Sunday = 6) of an ordinal; ordinal 1 is a Monday -/
def dow (o : Int) : Int := (o + 6) % 7

/-! ### Date.next / Date.previous -/

def nextLoop : Nat → Int → Int → Int
  | 0, o, _ => o
  | f+1, o, wd => if dow o = wd then o else nextLoop f (o + 1) wd

/-- `dt = self.add(days=1); while dt.day_of_week != wd: dt = dt.add(days=1)` -/
def next (o wd : Int) : Int := nextLoop 7 (o + 1) wd

def prevLoop : Nat → Int → Int → Int
  | 0, o, _ => o
  | f+1, o, wd => if dow o = wd then o else prevLoop f (o - 1) wd

def previous (o wd : Int) : Int := prevLoop 7 (o - 1) wd

/-- `for _ in range(n): dt = dt.next(wd)` -/
def iterNext : Nat → Int → Int → Int
  | 0, o, _ => o
  | n+1, o, wd => iterNext n (next o wd) wd

/-! ### calendar.monthcalendar -/

/-- entry `[r][c]` of `calendar.monthcalendar` for a month whose first day falls on weekday `f` and
    which has `dim` days: the day number, or 0 outside the month -/
def mcal (f dim r c : Int) : Int :=
  let day := r * 7 + c - f + 1
  if 1 ≤ day ∧ day ≤ dim then day else 0

/-- number of rows of the month calendar -/
def mrows (f dim : Int) : Int := (f + dim + 6) / 7

/-- `month[0][wd] if month[0][wd] > 0 else month[1][wd]` -/
def firstDom (y m wd : Int) : Int :=
  let f := dow (ymd2ord y m 1)
  let dim := daysInMonth y m
  if mcal f dim 0 wd > 0 then mcal f dim 0 wd else mcal f dim 1 wd

/-- `month[-1][wd] if month[-1][wd] > 0 else month[-2][wd]` -/
def lastDom (y m wd : Int) : Int :=
  let f := dow (ymd2ord y m 1)
  let dim := daysInMonth y m
  let rows := mrows f dim
  if mcal f dim (rows - 1) wd > 0 then mcal f dim (rows - 1) wd else mcal f dim (rows - 2) wd

/-- `self.quarter` = ceil(month / 3) -/
def quarter (m : Int) : Int := (m + 2) / 3

/-! ### Date.first_of / last_of / nth_of -/

def firstOfMonth (o : Int) (wd : Option Int) : Int :=
  let (y, m, _) := ord2ymd o
  match wd with
  | none => ymd2ord y m 1
  | some wd => ymd2ord y m (firstDom y m wd)

def lastOfMonth (o : Int) (wd : Option Int) : Int :=
  let (y, m, _) := ord2ymd o
  match wd with
  | none => ymd2ord y m (daysInMonth y m)
  | some wd => ymd2ord y m (lastDom y m wd)

/-- `_nth_of_month` -/
def nthOfMonth (o : Int) (nth : Nat) (wd : Int) : Option Int :=
  if nth = 1 then some (firstOfMonth o (some wd)) else
  let (y, m, _) := ord2ymd o
  let dt := firstOfMonth o none
  let (cy, cm, _) := ord2ymd dt                                   -- check = dt.format("YYYY-MM")
  let dt := iterNext (nth - (if dow dt = wd then 1 else 0)) dt wd
  let (y', m', d') := ord2ymd dt
  if y' = cy ∧ m' = cm then some (ymd2ord y m d') else none       -- self.set(day=dt.day)

/-- `self.set(self.year, self.quarter * 3 - 2, 1).first_of("month", wd)` -/
def firstOfQuarter (o : Int) (wd : Option Int) : Int :=
  let (y, m, _) := ord2ymd o
  firstOfMonth (ymd2ord y (quarter m * 3 - 2) 1) wd

/-- `self.set(self.year, self.quarter * 3, 1).last_of("month", wd)` -/
def lastOfQuarter (o : Int) (wd : Option Int) : Int :=
  let (y, m, _) := ord2ymd o
  lastOfMonth (ymd2ord y (quarter m * 3) 1) wd

/-- `_nth_of_quarter`: walk from the first day of the quarter; the result is rejected when
    `last_month < dt.month or year != dt.year` -/
def nthOfQuarter (o : Int) (nth : Nat) (wd : Int) : Option Int :=
  if nth = 1 then some (firstOfQuarter o (some wd)) else
  let (y, m, _) := ord2ymd o
  let dt := ymd2ord y (quarter m * 3) 1
  let (year, lastMonth, _) := ord2ymd dt
  let dt := firstOfQuarter dt none
  let dt := iterNext (nth - (if dow dt = wd then 1 else 0)) dt wd
  let (y', m', d') := ord2ymd dt
  if lastMonth < m' ∨ year ≠ y' then none else some (ymd2ord y m' d')

/-- `self.set(month=1).first_of("month", wd)` (the day of the month is kept by `set`) -/
def firstOfYear (o : Int) (wd : Option Int) : Int :=
  let (y, _, d) := ord2ymd o
  firstOfMonth (ymd2ord y 1 d) wd

/-- `self.set(month=12).last_of("month", wd)` -/
def lastOfYear (o : Int) (wd : Option Int) : Int :=
  let (y, _, d) := ord2ymd o
  lastOfMonth (ymd2ord y 12 d) wd

/-- `_nth_of_year`: walk from January 1st; rejected when `year != dt.year` -/
def nthOfYear (o : Int) (nth : Nat) (wd : Int) : Option Int :=
  if nth = 1 then some (firstOfYear o (some wd)) else
  let (y, _, _) := ord2ymd o
  let dt := firstOfYear o none
  let (year, _, _) := ord2ymd dt
  let dt := iterNext (nth - (if dow dt = wd then 1 else 0)) dt wd
  let (y', m', d') := ord2ymd dt
  if year ≠ y' then none else some (ymd2ord y m' d')

inductive Unit' | month | quarter | year
deriving DecidableEq, Repr

def firstOf : Unit' → Int → Option Int → Int
  | .month => firstOfMonth | .quarter => firstOfQuarter | .year => firstOfYear
def lastOf : Unit' → Int → Option Int → Int
  | .month => lastOfMonth | .quarter => lastOfQuarter | .year => lastOfYear
def nthOf : Unit' → Int → Nat → Int → Option Int
  | .month => nthOfMonth | .quarter => nthOfQuarter | .year => nthOfYear

/-! ### specification vocabulary: "inside the month / quarter / year of the instance" -/

def sameYear (o k : Int) : Prop := (ord2ymd k).1 = (ord2ymd o).1
def sameMonth (o k : Int) : Prop := (ord2ymd k).1 = (ord2ymd o).1 ∧ (ord2ymd k).2.1 = (ord2ymd o).2.1
def sameQuarter (o k : Int) : Prop :=
  (ord2ymd k).1 = (ord2ymd o).1 ∧ quarter (ord2ymd k).2.1 = quarter (ord2ymd o).2.1

def inUnit : Unit' → Int → Int → Prop
  | .month => sameMonth | .quarter => sameQuarter | .year => sameYear

/-! ### DateTime level -/

open DTOps

def DAY : Int := 86400000000
def dayOrd (w : Int) : Int := w / DAY + epochOrd
def tod (w : Int) : Int := w % DAY
def wallOf (o t : Int) : Int := (o - epochOrd) * DAY + t

/-- `self._boundary(y, m, d)` of the repaired tree = `StartOf.edge … last=false` (the model of `_boundary`,
    Model/StartOf.lean): 00:00 of the given day is created with the instance's fold unless that wall time is skipped or
    repeated in the zone — then with `fold = int(after > before)`: right after a gap / first occurrence of a repeated
    midnight, whatever the instance's fold. On an ordinal (the fields of a `date` are always a valid date): -/
def boundaryOrd (v : V) (o : Int) : Except Err V := StartOf.edge v.z (wallOf o 0) false v.fold

/-- … and on explicit fields: `datetime.datetime(year, month, day, 0, 0, 0, 0)` rejects an impossible date -/
def boundaryYMD (v : V) (y m d : Int) : Except Err V :=
  if validDate y m d then boundaryOrd v (ymd2ord y m d) else .error .valueError

/-- `add(days=n)`: wall clock + n days, re-created with the default `fold=1` -/
def addDays (v : V) (n : Int) : Except Err V := create v.z (v.w + n * DAY) true false

def vdow (v : V) : Int := dow (dayOrd v.w)

/-- repaired `DateTime.next`: `days = (wd - self.day_of_week - 1) % 7 + 1`; with `keep_time` `self.add(days=days)`,
    otherwise `day = self.date().add(days=days); self._boundary(day.year, day.month, day.day)` -/
def dtNext (v : V) (wd : Int) (keep : Bool) : Except Err V :=
  let days := (wd - vdow v - 1) % 7 + 1
  if keep then addDays v days else boundaryOrd v (dayOrd v.w + days)

/-- repaired `DateTime.previous` -/
def dtPrevious (v : V) (wd : Int) (keep : Bool) : Except Err V :=
  let days := (vdow v - wd - 1) % 7 + 1
  if keep then addDays v (-days) else boundaryOrd v (dayOrd v.w - days)

def dtIterNext : Nat → V → Int → Except Err V
  | 0, v, _ => .ok v
  | n+1, v, wd => (dtNext v wd false).bind fun v' => dtIterNext n v' wd

def ymdOf (v : V) : Int × Int × Int := ord2ymd (dayOrd v.w)

/-- `_first_of_month`: `self._boundary(self.year, self.month, 1 | monthcalendar lookup)` -/
def dtFirstOfMonth (v : V) (wd : Option Int) : Except Err V :=
  let (y, m, _) := ymdOf v
  match wd with
  | none => boundaryYMD v y m 1
  | some wd => boundaryYMD v y m (firstDom y m wd)

def dtLastOfMonth (v : V) (wd : Option Int) : Except Err V :=
  let (y, m, _) := ymdOf v
  match wd with
  | none => boundaryYMD v y m (daysInMonth y m)
  | some wd => boundaryYMD v y m (lastDom y m wd)

def dtNthOfMonth (v : V) (nth : Nat) (wd : Int) : Except Err (Option V) :=
  if nth = 1 then (dtFirstOfMonth v (some wd)).map some else
  (dtFirstOfMonth v none).bind fun dt =>
  let (cy, cm, _) := ymdOf dt
  (dtIterNext (nth - (if vdow dt = wd then 1 else 0)) dt wd).bind fun dt =>
  let (y', m', d') := ymdOf dt
  if y' = cy ∧ m' = cm then
    let (y, m, _) := ymdOf v
    (boundaryYMD v y m d').map some                               -- self._boundary(self.year, self.month, dt.day)
  else .ok none

/-- `self._boundary(self.year, self.quarter * 3 - 2, 1).first_of("month", wd)` -/
def dtFirstOfQuarter (v : V) (wd : Option Int) : Except Err V :=
  let (y, m, _) := ymdOf v
  (boundaryYMD v y (quarter m * 3 - 2) 1).bind fun dt => dtFirstOfMonth dt wd

def dtLastOfQuarter (v : V) (wd : Option Int) : Except Err V :=
  let (y, m, _) := ymdOf v
  (boundaryYMD v y (quarter m * 3) 1).bind fun dt => dtLastOfMonth dt wd

def dtNthOfQuarter (v : V) (nth : Nat) (wd : Int) : Except Err (Option V) :=
  if nth = 1 then (dtFirstOfQuarter v (some wd)).map some else
  let (y, m, _) := ymdOf v
  (boundaryYMD v y (quarter m * 3) 1).bind fun dt =>              -- self._boundary(self.year, self.quarter * 3, 1)
  let (year, lastMonth, _) := ymdOf dt
  (dtFirstOfQuarter dt none).bind fun dt =>
  (dtIterNext (nth - (if vdow dt = wd then 1 else 0)) dt wd).bind fun dt =>
  let (y', m', d') := ymdOf dt
  if lastMonth < m' ∨ year ≠ y' then .ok none
  else (boundaryYMD v y m' d').map some                           -- self._boundary(self.year, dt.month, dt.day)

/-- `self._boundary(self.year, 1, 1).first_of("month", wd)` -/
def dtFirstOfYear (v : V) (wd : Option Int) : Except Err V :=
  let (y, _, _) := ymdOf v
  (boundaryYMD v y 1 1).bind fun dt => dtFirstOfMonth dt wd

/-- `self._boundary(self.year, 12, 1).last_of("month", wd)` -/
def dtLastOfYear (v : V) (wd : Option Int) : Except Err V :=
  let (y, _, _) := ymdOf v
  (boundaryYMD v y 12 1).bind fun dt => dtLastOfMonth dt wd

def dtNthOfYear (v : V) (nth : Nat) (wd : Int) : Except Err (Option V) :=
  if nth = 1 then (dtFirstOfYear v (some wd)).map some else
  let (y, _, _) := ymdOf v
  (dtFirstOfYear v none).bind fun dt =>
  let (year, _, _) := ymdOf dt
  (dtIterNext (nth - (if vdow dt = wd then 1 else 0)) dt wd).bind fun dt =>
  let (y', m', d') := ymdOf dt
  if year ≠ y' then .ok none
  else (boundaryYMD v y m' d').map some

def dtFirstOf : Unit' → V → Option Int → Except Err V
  | .month => dtFirstOfMonth | .quarter => dtFirstOfQuarter | .year => dtFirstOfYear
def dtLastOf : Unit' → V → Option Int → Except Err V
  | .month => dtLastOfMonth | .quarter => dtLastOfQuarter | .year => dtLastOfYear
def dtNthOf : Unit' → V → Nat → Int → Except Err (Option V)
  | .month => dtNthOfMonth | .quarter => dtNthOfQuarter | .year => dtNthOfYear

end Pendulum.WeekNav
