import Pendulum.Model.DTOps
import Pendulum.Model.PreciseDiff
/-! Model of `Interval.__new__/__init__` (interval.py:38-190) and of `start + interval`
(`DateTime._add_timedelta_` / `Date._add_timedelta`, Interval branch).

An endpoint is a `DTOps.V` (zone reference, wall µs, fold) plus the *zone tag* that stands for the identity and
the name of its tzinfo object (see `Model/PreciseDiff.lean`) and a flag telling `DateTime` from `Date`. -/
namespace Pendulum.IntervalPD
open Pendulum Pendulum.DTOps Pendulum.PreciseDiff

structure EP where
  v : V
  tag : Int
  isDt : Bool

/-- the native `datetime(…, tzinfo=start.tzinfo)` / `date(…)` rebuilt by `__init__` for `precise_diff`:
    same fields, **fold dropped** (so `utcoffset()` is the first-pass reading of the wall time) -/
def EP.native (e : EP) : E :=
  let (y, m, d, tod) := AddDur.wallToFields e.v.w
  let off := match e.v.z.table with
    | some z => z.woff false e.v.w
    | none => 0
  if e.isDt then
    ⟨y, m, d, tod / AddDur.HOUR, tod % AddDur.HOUR / AddDur.MINUTE, tod % AddDur.MINUTE / AddDur.US,
     tod % AddDur.US, off / AddDur.US, e.tag, true⟩
  else ⟨y, m, d, 0, 0, 0, 0, 0, 0, false⟩

/-- `start > end` on pendulum values: same tzinfo object ⇒ wall-clock order, else order of the instants -/
def gtEP (a b : EP) : Bool :=
  if a.tag = b.tag then decide (b.v.w < a.v.w) else decide (b.v.instant < a.v.instant)

structure Iv where
  start : EP
  stop : EP
  absolute : Bool
  invert : Bool
  delta : PD
  /-- elapsed microseconds (`Interval.__new__`, exact-integer reading of the float pipeline) -/
  elapsed : Int

def mk (rs : Bool) (a b : EP) (absolute : Bool) : Iv :=
  let inv := gtEP a b
  let s := if absolute && inv then b else a
  let e := if absolute && inv then a else b
  let pd := if rs then preciseDiffRs s.native e.native else preciseDiffPy s.native e.native
  ⟨s, e, absolute, inv, pd, e.v.instant - s.v.instant⟩

/-- years, months, weeks, remaining_days, hours, minutes, remaining_seconds, microseconds, in_months(), in_days() -/
def Iv.components (i : Iv) : List Int :=
  [i.delta.years, i.delta.months, weeksOf i.delta, remainingDaysOf i.delta i.elapsed, i.delta.hours,
   i.delta.minutes, i.delta.seconds, i.delta.micros, inMonthsOf i.delta, i.delta.totalDays]

/-- `interval.start + interval` -/
def Iv.rebuild (i : Iv) : Except Err V :=
  let p := i.delta
  if i.start.isDt then
    add i.start.v p.years p.months (weeksOf p) (remainingDaysOf p i.elapsed) p.hours p.minutes p.seconds p.micros
  else
    match AddDur.addDuration i.start.v.w p.years p.months (weeksOf p) (remainingDaysOf p i.elapsed) 0 0 0 0 with
    | .ok w => .ok ⟨.naive, w, false⟩
    | .error .valueError => .error .valueError
    | .error .overflow => .error .overflow

end Pendulum.IntervalPD
