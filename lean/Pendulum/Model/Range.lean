import Pendulum.Model.IntervalPD
/-! Model of `Interval.range` / `__iter__` / `__contains__` (interval.py:293-320).

```
i = amount
while op(start, end):            # op = <= (forward / absolute) or >= (inverted, not absolute)
    yield start
    start = getattr(self.start, method)(**{unit: i})     # always computed from self.start
    i += amount
```
The loop is modelled generically over the type of values (`step i` = `self.start.add(unit = ±i)`,
`inside v` = `op(v, end)`), with fuel; `Proofs/Range.lean` shows that enough fuel always exists. -/
namespace Pendulum.Range
open Pendulum Pendulum.DTOps Pendulum.IntervalPD

def rangeLoop {α : Type} (step : Int → α) (inside : α → Bool) (amount : Int) : Nat → α → Int → List α
  | 0, _, _ => []
  | fuel + 1, cur, i =>
    if inside cur then cur :: rangeLoop step inside amount fuel (step i) (i + amount) else []

/-- `range(unit, amount)`: the first value is the start itself (`step 0`) -/
def range {α : Type} (step : Int → α) (inside : α → Bool) (amount : Int) (fuel : Nat) : List α :=
  rangeLoop step inside amount fuel (step 0) amount

/-- k-th candidate, computed from the start (no drift) -/
def cand {α : Type} (step : Int → α) (amount : Int) (k : Nat) : α := step (amount * k)

/-! ### the concrete instance -/

/-- `start.add(**{unit: k})`; units 0..7 = years, months, weeks, days, hours, minutes, seconds, microseconds.
    A `Date` has the first four only (`Date.add`). `k = 0` is the start itself (the first yield is `self.start`). -/
def addUnit (s : EP) (unit : Nat) (k : Int) : Except Err V :=
  if k = 0 then .ok s.v else
  let a : Int → Int := fun u => if u = unit then k else 0
  if s.isDt then add s.v (a 0) (a 1) (a 2) (a 3) (a 4) (a 5) (a 6) (a 7)
  else if unit > 3 then .error .valueError
  else match AddDur.addDuration s.v.w (a 0) (a 1) (a 2) (a 3) 0 0 0 0 with
    | .ok w => .ok ⟨.naive, w, false⟩
    | .error .valueError => .error .valueError
    | .error .overflow => .error .overflow

/-- `a <= b` on pendulum values: same tzinfo object ⇒ wall-clock order, else order of the instants -/
def leV (tagA : Int) (a : V) (tagB : Int) (b : V) : Bool :=
  if tagA = tagB then decide (a.w ≤ b.w) else decide (a.instant ≤ b.instant)

/-- the comparison of the loop: forward `cur <= end`, inverted `cur >= end`; an exception ends the iteration -/
def insideOf (iv : Iv) (r : Except Err V) : Bool :=
  match r with
  | .error _ => false
  | .ok v =>
    if !iv.absolute && iv.invert then leV iv.stop.tag iv.stop.v iv.start.tag v
    else leV iv.start.tag v iv.stop.tag iv.stop.v

def stepOf (iv : Iv) (unit : Nat) (i : Int) : Except Err V :=
  addUnit iv.start unit (if !iv.absolute && iv.invert then -i else i)

def rangeIv (iv : Iv) (unit : Nat) (amount : Int) (fuel : Nat) : List (Except Err V) :=
  range (stepOf iv unit) (insideOf iv) amount fuel

/-- `item in interval` = `self.start <= item <= self.end` -/
def containsIv (iv : Iv) (tagX : Int) (x : V) : Bool :=
  leV iv.start.tag iv.start.v tagX x && leV tagX x iv.stop.tag iv.stop.v

end Pendulum.Range
