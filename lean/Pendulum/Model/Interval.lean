import Pendulum.Model.DTOps
/-! C05 — model of `Interval.__new__` (interval.py:39-120) and of the paths that reach it
(`DateTime.__sub__/__rsub__/diff`, `pendulum.interval`, `Interval.__abs__/__neg__`, `Date.__sub__/diff`),
plus the truncating `in_seconds/in_minutes/in_hours` of `Duration` (duration.py:225-239).

The length is an exact integer number of microseconds (float bridge `Duration(seconds=delta.total_seconds())`:
DESIGN §5). `same` = both endpoints carry the very same tzinfo object (`_start.tzinfo is _end.tzinfo`); two naive
endpoints share `None`. -/
namespace Pendulum.Interval
open Pendulum Pendulum.Zone Pendulum.DTOps Pendulum.AddDur

/-- stdlib `datetime.__gt__`: operands with the same tzinfo object compare their wall clocks (fold ignored),
    otherwise their UTC instants (`utcoffset()` honours fold) -/
def gt (a b : V) (same : Bool) : Bool :=
  if same then decide (a.w > b.w) else decide (a.instant > b.instant)

/-- is the value aware? (`tzinfo is not None`) -/
def aware (v : V) : Bool := match v.z with | .naive => false | _ => true

/-- `(_x - x.utcoffset()).replace(tzinfo=None)`; the shifted naive value must be representable -/
def strip (v : V) : Except DTOps.Err Int :=
  if aware v then
    let u := v.w - v.offset
    if inRange u then .ok u else .error .overflow
  else .ok v.w

/-- `delta = _end - _start` after the endpoints were rebuilt as natives (with fold):
    * same tzinfo object: both offsets are removed by hand, then a naive subtraction;
    * different objects: stdlib aware subtraction `(end_fields - start_fields) + start.utcoffset() - end.utcoffset()` -/
def delta (s e : V) (same : Bool) : Except DTOps.Err Int :=
  if same then
    match strip s with
    | .error x => .error x
    | .ok us =>
      match strip e with
      | .error x => .error x
      | .ok ue => .ok (ue - us)
  else .ok ((e.w - s.w) + s.offset - e.offset)

/-- `Interval.__new__(start, end, absolute)`: optional swap decided by `start > end`, then `delta` -/
def new (start end_ : V) (same absolute : Bool) : Except DTOps.Err Int :=
  if absolute && gt start end_ same then delta end_ start same else delta start end_ same

/-- `DateTime.__sub__`: `self - other` = `other.diff(self, False)` -/
def sub (self other : V) (same : Bool) : Except DTOps.Err Int := new other self same false
/-- `DateTime.diff(dt, abs)` -/
def diff (self dt : V) (same abs : Bool) : Except DTOps.Err Int := new self dt same abs
/-- `abs(b - a)`: `Interval.__abs__` rebuilds `Interval(start, end, absolute=True)` -/
def absSub (self other : V) (same : Bool) : Except DTOps.Err Int := new other self same true
/-- `-(b - a)`: `Interval.__neg__` rebuilds `Interval(end, start, absolute)` -/
def negSub (self other : V) (same : Bool) : Except DTOps.Err Int := new self other same false

/-- a native operand first goes through `instance()` = `create(fields, tz, fold=dt.fold)` (naive stays naive) -/
def instanceOf (n : V) : Except DTOps.Err V := create n.z n.w n.fold false

/-- `self - <native datetime>` -/
def subNative (self native : V) (same : Bool) : Except DTOps.Err Int :=
  match instanceOf native with
  | .error x => .error x
  | .ok o => sub self o same

/-- `<native datetime> - self` (`__rsub__`): `self.diff(instance(other), False)` -/
def rsubNative (self native : V) (same : Bool) : Except DTOps.Err Int :=
  match instanceOf native with
  | .error x => .error x
  | .ok o => diff self o same false

/-- Date pairs (day numbers): `date.__sub__` of the rebuilt natives; swap by date comparison -/
def dateNew (start end_ : Int) (absolute : Bool) : Int :=
  if absolute && decide (start > end_) then (start - end_) * DAY else (end_ - start) * DAY

/-! ### truncating unit counts -/
def inSeconds (len : Int) : Int := Int.tdiv len 1000000
def inMinutes (len : Int) : Int := Int.tdiv len 60000000
def inHours (len : Int) : Int := Int.tdiv len 3600000000

/-! ### calendar day counts: `Interval.in_days()` / `Interval.in_weeks()` (interval.py:243-254)

`in_days()` returns `self._delta.total_days` of the `precise_diff` computed in `Interval.__init__` — a difference of
CALENDAR day numbers of the (wall) dates of the endpoints, not the elapsed time truncated to days. Covered: naive pairs
and pairs sharing one tzinfo object (operands compare by their wall clocks), and Date pairs. -/

/-- calendar day (days since 1970-01-01) a wall value lies in: floor division -/
def dayOf (w : Int) : Int := w / DAY

/-- `precise_diff(d1, d2).total_days` (_helpers.py:165-198): `k1`, `k2` are what `d1 == d2` / `d1 > d2` compare
    (the wall clocks of naive or same-tzinfo datetimes, the day numbers of dates), `n1`, `n2` the day numbers of the
    operands' dates. Early zero for equal operands, swap + `sign = -1` when `d1 > d2`, `sign * total_days`. -/
def totalDays (k1 k2 n1 n2 : Int) : Int :=
  if k1 = k2 then 0
  else
    let sw := decide (k1 > k2)
    let sign : Int := if sw then -1 else 1
    let m1 := if sw then n2 else n1
    let m2 := if sw then n1 else n2
    sign * (m2 - m1)

/-- the endpoints `Interval.__init__` keeps: `if start > end: … if absolute: end, start = start, end`
    (one shared tzinfo object / naive: `>` compares the wall clocks) -/
def initEnds (s e : V) (absolute : Bool) : V × V :=
  if gt s e true && absolute then (e, s) else (s, e)

/-- `Interval(s, e, absolute).in_days()` for naive endpoints or endpoints on one tzinfo object -/
def inDays (s e : V) (absolute : Bool) : Int :=
  let p := initEnds s e absolute
  totalDays p.1.w p.2.w (dayOf p.1.w) (dayOf p.2.w)

/-- `Interval(Date a, Date b, absolute).in_days()` on day numbers -/
def dateInDays (a b : Int) (absolute : Bool) : Int :=
  let p : Int × Int := if decide (a > b) && absolute then (b, a) else (a, b)
  totalDays p.1 p.2 p.1 p.2

/-- `Interval.in_weeks()`: `sign * (abs(days) // 7)` with `sign = -1` iff `days < 0` -/
def inWeeks (days : Int) : Int :=
  let sign : Int := if days < 0 then -1 else 1
  sign * ((if days < 0 then -days else days) / 7)

end Pendulum.Interval
