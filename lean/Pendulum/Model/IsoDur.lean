/-! Model of the two ISO 8601 *duration* parsers of pendulum (property C13), after the repairs
`fix: compute ISO 8601 duration fractions exactly …`, `fix: reject … too large …`,
`fix: check the order of ISO 8601 duration designators by position …`.

* Rust: `rust/src/parsing.rs` `parse_duration`, `parse_duration_number(_frac)`,
  `fraction_to_microseconds`, `ParsedDuration::add_fraction` — a loop over "number, designator" pairs
  with the state `got_t`, `last_had_fraction`, `last_unit`.
* Python: `src/pendulum/parsing/iso8601.py` `ISO8601_DURATION` + `_parse_iso8601_duration` — a regular
  expression made of optional groups in a fixed order, then one block of code per group with the flag
  `fractional`; `_fraction_to_microseconds`.
* both: the components end in `Duration.__new__` → `timedelta.__new__`, whose range check
  (|days| ≤ 999 999 999 after adding 365·years + 30·months days) is `finish`; an `OverflowError` there is
  turned into a `ParserError` by `iso8601.py` / `parser.py`.

Both parsers read the same token language (a number is `digit+ ([.,] digit+)?` followed by one designator
character, `T` stands alone), so the lexer is shared; what differs is how the token sequence is checked and
evaluated (`rsRun`: state machine; `pyRun`: optional groups in order, then per-group code).
All arithmetic is exact (`Nat`); no Mathlib. -/
namespace Pendulum.IsoDur

inductive Backend | rust | py
  deriving DecidableEq, Repr

/-- why a string is rejected; every kind reaches the caller of `pendulum.parse` as `ParserError` -/
inductive Kind
  | syntax        -- not `P`, not a number where one is expected, empty fraction, missing designator
  | unit          -- unknown designator for the section (date / time)
  | order         -- designators out of order or repeated, `T` repeated
  | weekMix       -- `nW` combined with anything else
  | fracYM        -- fractional years or months
  | fracNotLast   -- a fraction on a component that is not the last one
  | tooLarge      -- a number or the whole duration is too large to represent
  | range         -- (intervals) the computed endpoint is not a representable datetime
  deriving DecidableEq, Repr

/-! ## tokens -/

def digitVal (c : Char) : Option Nat :=
  if '0' ≤ c ∧ c ≤ '9' then some (c.toNat - 48) else none

/-- `n [.,] f U` : integer value, fraction digits (most significant first) if any, designator -/
structure Item where
  int : Nat
  frac : Option (List Nat)
  unit : Char
  deriving DecidableEq, Repr

inductive Tok
  | T
  | item (i : Item)
  deriving DecidableEq, Repr

inductive LSt
  | start                               -- between tokens
  | int (v : Nat)                       -- inside the integer digits
  | sep (v : Nat)                       -- just after `.` / `,`
  | frac (v : Nat) (ds : List Nat)      -- inside the fraction digits
  deriving Repr

/-- the shared lexer (one character at a time). Rust: `parse_duration_number_frac` + the designator that
follows; Python: `\d+(?:[.,]\d+)?X` pieces of the regular expression. `$` of the Python expression also
matches before one final newline. -/
def lexGo (b : Backend) : LSt → List Char → Except Kind (List Tok)
  | .start, [] => .ok []
  | .start, c :: cs =>
    if c = 'T' then (lexGo b .start cs).map (Tok.T :: ·) else
    match digitVal c with
    | some d => lexGo b (.int d) cs
    | none => if b = .py ∧ c = '\n' ∧ cs = [] then .ok [] else .error .syntax
  | .int _, [] => .error .syntax
  | .int v, c :: cs =>
    match digitVal c with
    | some d => lexGo b (.int (10 * v + d)) cs
    | none =>
      if c = '.' ∨ c = ',' then lexGo b (.sep v) cs
      else (lexGo b .start cs).map (Tok.item ⟨v, none, c⟩ :: ·)
  | .sep _, [] => .error .syntax
  | .sep v, c :: cs =>
    match digitVal c with
    | some d => lexGo b (.frac v [d]) cs
    | none => .error .syntax
  | .frac _ _, [] => .error .syntax
  | .frac v ds, c :: cs =>
    match digitVal c with
    | some d => lexGo b (.frac v (ds ++ [d])) cs
    | none => (lexGo b .start cs).map (Tok.item ⟨v, some ds, c⟩ :: ·)

def lex (b : Backend) (cs : List Char) : Except Kind (List Tok) := lexGo b .start cs

/-! ## values -/

def usS : Nat := 1000000
def usMi : Nat := 60000000
def usH : Nat := 3600000000
def usD : Nat := 86400000000
def usW : Nat := 604800000000

/-- value of a digit list, most significant first -/
def numVal (ds : List Nat) : Nat := ds.foldl (fun a d => 10 * a + d) 0

/-- Python `_fraction_to_microseconds`: `0.ds` units of `U` µs, exact value rounded half up -/
def fracUs (ds : List Nat) (U : Nat) : Nat :=
  (2 * (numVal ds * U) + 10 ^ ds.length) / (2 * 10 ^ ds.length)

/-- one step of the Rust loop `for digit in digits.iter().rev()`: state = (carry, first dropped digit) -/
def rsFracStep (U : Nat) (d : Nat) (st : Nat × Nat) : Nat × Nat :=
  ((d * U + st.1) / 10, (d * U + st.1) % 10)

/-- Rust `fraction_to_microseconds`: schoolbook multiplication from the last digit -/
def fracUsRs (ds : List Nat) (U : Nat) : Nat :=
  let r := ds.foldr (rsFracStep U) (0, 0)
  if r.2 ≥ 5 then r.1 + 1 else r.1

/-- what a parser hands to `Duration(...)` -/
structure Parsed where
  y : Nat := 0
  mo : Nat := 0
  w : Nat := 0
  d : Nat := 0
  h : Nat := 0
  mi : Nat := 0
  s : Nat := 0
  us : Nat := 0
  deriving DecidableEq, Repr

/-- length of everything but years and months, in µs -/
def Parsed.restUs (p : Parsed) : Nat :=
  p.w * usW + p.d * usD + p.h * usH + p.mi * usMi + p.s * usS + p.us

/-- Rust `ParsedDuration::add_fraction` after `fraction_to_microseconds`: spread over smaller components -/
def Parsed.addMicros (p : Parsed) (m : Nat) : Parsed :=
  { p with
    d := p.d + m / usD,
    h := p.h + m % usD / usH,
    mi := p.mi + m % usD % usH / usMi,
    s := p.s + m % usD % usH % usMi / usS,
    us := p.us + m % usD % usH % usMi % usS }

/-- the parsed duration as observed: years, months and the exact length of the rest -/
structure Dur where
  years : Nat
  months : Nat
  us : Nat
  deriving DecidableEq, Repr

/-- `Duration.__new__` → `timedelta.__new__(days + 365 years + 30 months, …)`: the normalised number of days
must not exceed 999 999 999, else `OverflowError`, which the parsers report as a `ParserError` -/
def finish (p : Parsed) : Except Kind Dur :=
  if (p.y * 365 + p.mo * 30) * usD + p.restUs < 1000000000 * usD then .ok ⟨p.y, p.mo, p.restUs⟩
  else .error .tooLarge

/-! ## Rust: `parse_duration` -/

structure RsState where
  gotT : Bool := false
  lastFrac : Bool := false
  last : Nat := 0          -- `last_unit`: Y 1, M 2, D 3, T 4, H 5, M 6, S 7, W 8
  p : Parsed := {}
  deriving Repr

/-- `if let Some(fraction) = op_fraction { duration.add_fraction(fraction, U)… }` with its checked additions -/
def rsFrac (i : Item) (U : Nat) (p : Parsed) : Except Kind Parsed :=
  match i.frac with
  | some ds =>
    let q := p.addMicros (fracUsRs ds U)
    if q.d ≥ 2 ^ 64 ∨ q.h ≥ 2 ^ 64 ∨ q.mi ≥ 2 ^ 64 ∨ q.s ≥ 2 ^ 64 then .error .tooLarge else .ok q
  | none => .ok p

/-- end of a designator arm: new `last_had_fraction`, `last_unit`, components -/
def rsDone (st : RsState) (lf : Bool) (last : Nat) (r : Except Kind Parsed) : Except Kind RsState :=
  match r with
  | .ok p => .ok { st with lastFrac := lf, last := last, p := p }
  | .error k => .error k

def rsStep (st : RsState) : Tok → Except Kind RsState
  | .T =>
    if st.gotT then .error .order
    else if st.last > 3 then .error .weekMix
    else .ok { st with gotT := true, last := 4 }
  | .item i =>
    -- parse_duration_number: checked u64 accumulation
    if i.int ≥ 2 ^ 64 then .error .tooLarge
    else if st.lastFrac then .error .fracNotLast
    else
      let lf := i.frac.isSome
      if st.gotT then
        if i.unit = 'H' then
          if st.last ≥ 5 then .error .order
          else rsDone st lf 5 (rsFrac i usH { st.p with h := st.p.h + i.int })
        else if i.unit = 'M' then
          if st.last ≥ 6 then .error .order
          else rsDone st lf 6 (rsFrac i usMi { st.p with mi := st.p.mi + i.int })
        else if i.unit = 'S' then
          if st.last ≥ 7 then .error .order
          else rsDone st lf 7 (rsFrac i usS { st.p with s := i.int })
        else .error .unit
      else
        if i.unit = 'Y' then
          if lf then .error .fracYM
          else if st.last ≥ 1 then .error .order
          else rsDone st lf 1 (.ok { st.p with y := i.int })
        else if i.unit = 'M' then
          if lf then .error .fracYM
          else if st.last ≥ 2 then .error .order
          else rsDone st lf 2 (.ok { st.p with mo := i.int })
        else if i.unit = 'W' then
          if st.last ≠ 0 then .error .weekMix
          else rsDone st lf 8 (rsFrac i usW { st.p with w := i.int })
        else if i.unit = 'D' then
          if st.last ≥ 3 then (if st.last = 8 then .error .weekMix else .error .order)
          else rsDone st lf 3 (rsFrac i usD { st.p with d := st.p.d + i.int })
        else .error .unit

def rsFold (st : RsState) : List Tok → Except Kind RsState
  | [] => .ok st
  | t :: ts => match rsStep st t with
    | .ok st' => rsFold st' ts
    | .error k => .error k

/-- the loop body runs at least once: a bare `P` is "Invalid number in duration" -/
def rsRun (ts : List Tok) : Except Kind Parsed :=
  match ts with
  | [] => .error .syntax
  | _ => (rsFold {} ts).map (·.p)

/-! ## Python: `ISO8601_DURATION` + `_parse_iso8601_duration` -/

/-- an optional group `(?P<x>\d+(?:[.,]\d+)?U)?` at the head of the remaining input -/
def takeUnit (u : Char) : List Tok → Option Item × List Tok
  | .item i :: ts => if i.unit = u then (some i, ts) else (none, .item i :: ts)
  | ts => (none, ts)

structure PyGroups where
  w : Option Item
  y : Option Item
  mo : Option Item
  d : Option Item
  hms : Option (Option Item × Option Item × Option Item)
  deriving Repr

/-- the regular expression: `^P (w)? (y? m? d?)? (T h? m? s?)? $` -/
def pyMatch (ts : List Tok) : Option PyGroups :=
  let (w, ts) := takeUnit 'W' ts
  let (y, ts) := takeUnit 'Y' ts
  let (mo, ts) := takeUnit 'M' ts
  let (d, ts) := takeUnit 'D' ts
  match ts with
  | [] => some ⟨w, y, mo, d, none⟩
  | .T :: ts =>
    let (h, ts) := takeUnit 'H' ts
    let (mi, ts) := takeUnit 'M' ts
    let (s, ts) := takeUnit 'S' ts
    match ts with
    | [] => some ⟨w, y, mo, d, some (h, mi, s)⟩
    | _ => none
  | _ => none

def pyFrac (i : Item) (U : Nat) (p : Parsed) : Parsed :=
  match i.frac with
  | some ds => { p with us := p.us + fracUs ds U }
  | none => p

/-- one `if _x:` block of `_parse_iso8601_duration` for a component that may carry a fraction;
state = (`fractional`, components) -/
def pyBlock (setsFlag : Bool) (U : Nat) (upd : Parsed → Nat → Parsed) (g : Option Item)
    (st : Bool × Parsed) : Except Kind (Bool × Parsed) :=
  match g with
  | none => .ok st
  | some i =>
    if st.1 then .error .fracNotLast
    else .ok (st.1 || (setsFlag && i.frac.isSome), pyFrac i U (upd st.2 i.int))

/-- the `years` / `months` blocks: a fraction is refused -/
def pyBlockYM (upd : Parsed → Nat → Parsed) (g : Option Item) (st : Bool × Parsed) :
    Except Kind (Bool × Parsed) :=
  match g with
  | none => .ok st
  | some i => if i.frac.isSome then .error .fracYM else .ok (st.1, upd st.2 i.int)

/-- `if m.group("w")`: weeks exclude everything else (the ymd group is truthy iff it is not empty,
the hms group iff the T is there) -/
def pyWeeks (g : PyGroups) : Except Kind (Bool × Parsed) :=
  match g.w with
  | some i =>
    if g.y.isSome ∨ g.mo.isSome ∨ g.d.isSome ∨ g.hms.isSome then .error .weekMix
    else .ok (false, pyFrac i usW { w := i.int })
  | none => .ok (false, {})

def pyEval (g : PyGroups) : Except Kind Parsed := do
  let st0 ← pyWeeks g
  let st1 ← pyBlockYM (fun p v => { p with y := v }) g.y st0
  let st2 ← pyBlockYM (fun p v => { p with mo := v }) g.mo st1
  let st3 ← pyBlock true usD (fun p v => { p with d := v }) g.d st2
  match g.hms with
  | none => .ok st3.2
  | some (h, mi, s) =>
    let st4 ← pyBlock true usH (fun p v => { p with h := p.h + v }) h st3
    let st5 ← pyBlock true usMi (fun p v => { p with mi := p.mi + v }) mi st4
    let st6 ← pyBlock false usS (fun p v => { p with s := p.s + v }) s st5
    .ok st6.2

def pyRun (ts : List Tok) : Except Kind Parsed :=
  match pyMatch ts with
  | none => .error .syntax
  | some g => pyEval g

/-! ## entry point -/

def run (b : Backend) (ts : List Tok) : Except Kind Parsed :=
  match b with
  | .rust => rsRun ts
  | .py => pyRun ts

/-- `parse_iso8601(s)` on strings that start with `P`: the components handed to `Duration(...)` -/
def parseParsed (b : Backend) (cs : List Char) : Except Kind Parsed :=
  match cs with
  | 'P' :: rest =>
    match lex b rest with
    | .error k => .error k
    | .ok ts => run b ts
  | _ => .error .syntax

/-- `pendulum.parse(s)` restricted to strings that start with `P` -/
def parse (b : Backend) (cs : List Char) : Except Kind Dur :=
  match parseParsed b cs with
  | .error k => .error k
  | .ok p => finish p

/-- the duration inside an interval string: the Python parser has already built a `Duration` (range
checked); the compiled parser hands its raw components straight to `add`/`subtract` -/
def parseForInterval (b : Backend) (cs : List Char) : Except Kind Dur :=
  match b with
  | .py => parse b cs
  | .rust => (parseParsed b cs).map fun p => ⟨p.y, p.mo, p.restUs⟩

/-! ## intervals: `_parse_iso8601_interval` + `parser._parse` -/

/-- `text.split("/")` must give exactly two parts -/
def splitSlash : List Char → Option (List Char × List Char)
  | [] => none
  | c :: cs =>
    if c = '/' then (if cs.contains '/' then none else some ([], cs))
    else (splitSlash cs).map fun (a, b) => (c :: a, b)

/-- The three interval forms over an abstract datetime parser and abstract `add`/`subtract`
(instantiated in `Model/IsoInterval.lean` for the correspondence run). -/
def parseInterval {DT : Type} (b : Backend) (parseDT : List Char → Except Kind DT)
    (add sub : DT → Dur → Except Kind DT) (cs : List Char) : Except Kind (DT × DT) :=
  match splitSlash cs with
  | none => .error .syntax
  | some (first, last) =>
    if first.head? = some 'P' then do
      let d ← parseForInterval b first
      let e ← parseDT last
      let s ← sub e d
      .ok (s, e)
    else if last.head? = some 'P' then do
      let s ← parseDT first
      let d ← parseForInterval b last
      let e ← add s d
      .ok (s, e)
    else do
      let s ← parseDT first
      let e ← parseDT last
      .ok (s, e)

end Pendulum.IsoDur
