import Pendulum.Model.Diff
import Pendulum.Gen.DiffFmt
import Pendulum.Proofs.GenTie
/-! Tie between the *generated* translation of the human-readable-difference code (`Pendulum.Gen.DiffFmt`, regenerated
from difference_formatter.py, helpers.py, duration.py, interval.py, datetime.py, date.py, time.py and locales/locale.py on
every run by tools/gen_difffmt.py) and the hand model `Pendulum.Loc` (Model/Diff.lean) the C18 theorems are stated about.

Interface between the two vocabularies (hand-written, small):
* `PV` — the Python objects the generated code handles: a value of the locale dictionary (or `None`), a rendered text,
  an `int`;
* `pyM : PyOps Err PV` — the Python built-ins (`is None`, truthiness, `str.format`, subscripting, `join`, f-strings,
  the `:.2f` rendering) as the hand model reads them (`asTemplate`, `fmtSegs`, `falsy`, `lookup`, `joinSep`, `fmtMicro`);
* `locM ℓ : LocaleOps Err PV` — a loaded locale = a locale of the generated tree (`Locale.get`, `plural`, `ordinal`);
* `argStr` — a `PV` read as the text the model returns;
* `attrs c` — the model's `Comps` as the attribute record of the generated code. -/
namespace Pendulum.DiffFmtGen
open Pendulum.Loc Pendulum.GenTie
open Pendulum.Gen.DiffFmt (PyOps LocaleOps DiffAttrs)

inductive PV where
  | node (o : Option Node)
  | text (s : Str)
  | int (n : Int)

/-- a Python object as the text the model works with (`str(x)` where the model has one) -/
def argStr : PV → Except Err Str
  | .int n => .ok (showInt n)
  | .text s => .ok s
  | .node (some n) => nodeStr n
  | .node none => .error .modelGap

def texts : List PV → Except Err (List Str)
  | [] => .ok []
  | .text s :: r =>
    match texts r with
    | .error e => .error e
    | .ok l => .ok (s :: l)
  | _ :: _ => .error .typeError

def strs : List PV → Except Err Str
  | [] => .ok []
  | x :: r =>
    match argStr x with
    | .error e => .error e
    | .ok s =>
      match strs r with
      | .error e => .error e
      | .ok l => .ok (s ++ l)

def pyM : PyOps Err PV where
  isNone v := match v with
    | .node none => true
    | _ => false
  truthy v := match v with
    | .node o => !falsy o
    | .text s => !s.isEmpty
    | .int n => n != 0
  ofInt := .int
  format t a :=
    match argStr a with
    | .error e => .error e
    | .ok s =>
      match t with
      | .node o =>
        match asTemplate o with
        | .error e => .error e
        | .ok segs =>
          match fmtSegs segs s with
          | .error e => .error e
          | .ok r => .ok (.text r)
      | _ => .error .modelGap
  item v k := match v with
    | .node (some (.dict kvs)) =>
      match lookup k kvs with
      | none => .error .keyError
      | some n => .ok (.node (some n))
    | _ => .error .typeError
  float2f a b := if b = 1000000 then .text (fmtMicro a.natAbs) else .node none
  join sep parts := match sep with
    | .text s =>
      match texts parts with
      | .error e => .error e
      | .ok l => .ok (.text (joinSep s l))
    | _ => .error .typeError
  fstring parts :=
    match strs parts with
    | .error e => .error e
    | .ok s => .ok (.text s)
  isExc e s := e.name == s

def locM (ℓ : Locale) : LocaleOps Err PV where
  get path :=
    match ℓ.get path with
    | .error e => .error e
    | .ok o => .ok (.node o)
  plural := ℓ.plural
  ordinal := ℓ.ordinal

abbrev attrs (c : Comps) : DiffAttrs := ⟨c.years, c.months, c.weeks, c.days, c.hours, c.minutes, c.seconds, c.invert⟩

/-- the result of a generated function read as the model's result -/
def obs (r : Except Err PV) : Except Err Str :=
  match r with
  | .error e => .error e
  | .ok v => argStr v

/-! ## the cascade -/

theorem select_unit_eq (c : Comps) :
    Gen.DiffFmt.select_unit (attrs c) = (selectUnit c).map (fun un => (un.1.key, un.2)) := by
  gen_tie "Pendulum.DiffFmtGen.select_unit_eq" "Gen.DiffFmt.select_unit (the if/elif cascade of DifferenceFormatter.format)" =>
    unfold Gen.DiffFmt.select_unit selectUnit
    dsimp only [attrs]
    simp only [Bool.and_eq_true, decide_eq_true_eq]
    by_cases h1 : c.years > 0
    · simp only [if_pos h1, Option.map, TUnit.key]
    by_cases h2 : c.months = 11 ∧ c.weeks * 7 + c.days > 15
    · simp only [if_neg h1, if_pos h2, Option.map, TUnit.key]
    by_cases h3 : c.months > 0
    · simp only [if_neg h1, if_neg h2, if_pos h3, Option.map, TUnit.key]
    by_cases h4 : c.weeks > 0
    · simp only [if_neg h1, if_neg h2, if_neg h3, if_pos h4, Option.map, TUnit.key]
    by_cases h5 : c.days > 0
    · simp only [if_neg h1, if_neg h2, if_neg h3, if_neg h4, if_pos h5, Option.map, TUnit.key]
    by_cases h6 : c.hours > 0
    · simp only [if_neg h1, if_neg h2, if_neg h3, if_neg h4, if_neg h5, if_pos h6, Option.map, TUnit.key]
    by_cases h7 : c.minutes > 0
    · simp only [if_neg h1, if_neg h2, if_neg h3, if_neg h4, if_neg h5, if_neg h6, if_pos h7, Option.map, TUnit.key]
    by_cases h8 : 10 < c.seconds ∧ c.seconds ≤ 59
    · simp only [if_neg h1, if_neg h2, if_neg h3, if_neg h4, if_neg h5, if_neg h6, if_neg h7, if_pos h8, Option.map, TUnit.key]
    simp only [if_neg h1, if_neg h2, if_neg h3, if_neg h4, if_neg h5, if_neg h6, if_neg h7, if_neg h8, Option.map]

/-! ## the rendering after the cascade -/

open Pendulum.Gen.DiffFmt (bindE)

@[simp] theorem bindE_ok {ε α β : Type} (v : α) (f : α → Except ε β) : (Except.ok v >>=ₑ f) = f v := rfl
@[simp] theorem bindE_error {ε α β : Type} (e : ε) (f : α → Except ε β) : ((Except.error e : Except ε α) >>=ₑ f) = .error e := rfl

/-- one `.format` step of the model, with the result as a Python object -/
def stepM (st : Step) (s : Str) : Except Err PV :=
  match st with
  | .error e => .error e
  | .ok segs =>
    match fmtSegs segs s with
    | .error e => .error e
    | .ok r => .ok (.text r)

theorem get_format2 {β : Type} (ℓ : Locale) (p : List String) (a : PV) (s : Str) (ha : argStr a = .ok s)
    (g : PV → Except Err β) :
    ((locM ℓ).get p >>=ₑ fun t => pyM.format t a >>=ₑ g) = (stepM (tmplAt ℓ p) s >>=ₑ g) := by
  simp only [locM, tmplAt, pyM, ha]
  cases ℓ.get p with
  | error e => rfl
  | ok o =>
    simp only [bindE_ok, stepM]

theorem get_format (ℓ : Locale) (p : List String) (a : PV) (s : Str) (ha : argStr a = .ok s) :
    ((locM ℓ).get p >>=ₑ fun t => pyM.format t a) = stepM (tmplAt ℓ p) s := by
  have h := get_format2 ℓ p a s ha Except.ok
  have e1 : ∀ x : Except Err PV, (x >>=ₑ Except.ok) = x := by intro x; cases x <;> rfl
  simp only [e1] at h
  exact h

theorem item_format2 {β : Type} (o : Option Node) (pc : String) (a : PV) (s : Str) (ha : argStr a = .ok s)
    (g : PV → Except Err β) :
    (pyM.item (.node o) pc >>=ₑ fun t => pyM.format t a >>=ₑ g) = (stepM (indexTmpl o pc) s >>=ₑ g) := by
  simp only [pyM, ha]
  match o with
  | none => rfl
  | some (.str _) => rfl
  | some (.tmpl _) => rfl
  | some (.int _) => rfl
  | some (.dict kvs) =>
    simp only [indexTmpl]
    cases lookup pc kvs with
    | none => rfl
    | some n =>
      simp only [bindE_ok, stepM]

theorem obs_stepM (st : Step) (s : Str) : obs (stepM st s) = runSteps [st] s := by
  cases st with
  | error e => rfl
  | ok segs =>
    simp only [stepM, runSteps]
    cases fmtSegs segs s <;> rfl

theorem obs_stepM2 (ℓ : Locale) (st : Step) (s : Str) (q : List String) :
    obs (stepM st s >>=ₑ fun time => (locM ℓ).get q >>=ₑ fun t => pyM.format t time) = runSteps [st, tmplAt ℓ q] s := by
  cases st with
  | error e => rfl
  | ok segs =>
    simp only [stepM, runSteps]
    cases fmtSegs segs s with
    | error e => rfl
    | ok r =>
      simp only [bindE_ok]
      rw [get_format ℓ q (.text r) r rfl, obs_stepM]

theorem truthy_node (o : Option Node) : pyM.truthy (.node o) = !falsy o := rfl

/-- the comparison with another value: `custom.units_relative…` when present, else the plain unit phrase, wrapped by
    `custom.after|before` -/
theorem rel_case (ℓ : Locale) (K P Q : List String) (pc : String) (k : Int) :
    obs ((locM ℓ).get K >>=ₑ fun trans =>
        if (!pyM.truthy trans) = true then
          (locM ℓ).get P >>=ₑ fun t => pyM.format t (pyM.ofInt k) >>=ₑ fun time =>
            (locM ℓ).get Q >>=ₑ fun t' => pyM.format t' time
        else
          pyM.item trans pc >>=ₑ fun t => pyM.format t (pyM.ofInt k) >>=ₑ fun time =>
            (locM ℓ).get Q >>=ₑ fun t' => pyM.format t' time) =
    (match (match ℓ.get K with
        | .error e => .error e
        | .ok trans => .ok [if falsy trans = true then tmplAt ℓ P else indexTmpl trans pc, tmplAt ℓ Q]
        : Except Err (List Step)) with
     | .error e => .error e
     | .ok steps => runSteps steps (showInt k)) := by
  have e : (locM ℓ).get K = (match ℓ.get K with
      | .error e => .error e
      | .ok o => .ok (.node o)) := rfl
  have hint : argStr (pyM.ofInt k) = .ok (showInt k) := rfl
  simp only [get_format2 ℓ P _ _ hint]
  rw [e]
  cases ℓ.get K with
  | error e => rfl
  | ok trans =>
    simp only [bindE_ok, truthy_node, Bool.not_not]
    cases hf : falsy trans with
    | true => simp only [if_true, obs_stepM2]
    | false =>
      simp only [Bool.false_eq_true, if_false, item_format2 trans pc _ _ hint, obs_stepM2]

/-- what the model does once unit and count are known -/
def modelRender (ℓ : Locale) (u : String) (n : Int) (invert isNow ab : Bool) : Except Err Str :=
  match stepsUC ℓ u (ℓ.plural (fixCount n)) invert isNow ab with
  | .error e => .error e
  | .ok steps => runSteps steps (showInt (fixCount n))

theorem render_eq (ℓ : Locale) (d : DiffAttrs) (isNow ab : Bool) (u : String) (n : Int) :
    obs (Gen.DiffFmt.render pyM (locM ℓ) d isNow ab u n) = modelRender ℓ u n d.invert isNow ab := by
  gen_tie "Pendulum.DiffFmtGen.render_eq" "Gen.DiffFmt.render (key and template choice of DifferenceFormatter.format)" =>
    unfold Gen.DiffFmt.render modelRender stepsUC
    have hc : (if decide (n = 0) = true then (1 : Int) else n) = fixCount n := by
      unfold fixCount; simp only [decide_eq_true_eq]
    simp only [hc]
    have hpl : (locM ℓ).plural = ℓ.plural := rfl
    have hint : ∀ k : Int, argStr (pyM.ofInt k) = .ok (showInt k) := fun _ => rfl
    obtain ⟨y, mo, w, dd, h, mi, sec, inv⟩ := d
    cases ab <;> cases isNow <;> cases inv <;>
      simp only [hpl, get_format ℓ _ _ _ (hint _), obs_stepM, dirKey, relKey, if_true, if_false, Bool.false_eq_true,
        List.cons_append, List.nil_append]
    all_goals exact rel_case ℓ _ _ _ _ _

/-! ## the "few seconds" arm and the whole of `format` -/

theorem mainPlan_run (ℓ : Locale) (u : TUnit) (n : Int) (inv isNow ab : Bool) :
    (match mainPlan ℓ u n inv isNow ab with
     | .error e => .error e
     | .ok p => p.run) = modelRender ℓ u.key n inv isNow ab := by
  unfold mainPlan modelRender
  dsimp only
  cases stepsUC ℓ u.key (ℓ.plural (fixCount n)) inv isNow ab <;> rfl

/-- when `custom.units.few_second` resolves, `custom` is a dictionary, so `custom.<k>` cannot raise -/
theorem get_custom_ok {ℓ : Locale} {node : Node} (h : ℓ.get ["custom", "units", "few_second"] = .ok (some node))
    (k : String) : ∃ o, ℓ.get ["custom", k] = .ok o := by
  unfold Locale.get at h ⊢
  match hd : ℓ.data, h with
  | .dict kvs, h =>
    simp only [getFrom] at h ⊢
    cases hl : lookup "custom" kvs with
    | none => simp [hl] at h
    | some c =>
      simp only [hl] at h ⊢
      match c, h with
      | .dict kvs2, _ =>
        simp only [getFrom]
        cases lookup k kvs2 with
        | none => exact ⟨none, rfl⟩
        | some c' => exact ⟨some c', rfl⟩
      | .str _, h => simp [getFrom] at h
      | .tmpl _, h => simp [getFrom] at h
      | .int _, h => simp [getFrom] at h
  | .str _, h => simp [getFrom] at h
  | .tmpl _, h => simp [getFrom] at h
  | .int _, h => simp [getFrom] at h

theorem isNone_none : pyM.isNone (.node none) = true := rfl
theorem isNone_some (n : Node) : pyM.isNone (.node (some n)) = false := rfl

/-- the model's "few seconds" arm, run -/
def modelFew (ℓ : Locale) (secs : Int) (inv isNow ab : Bool) : Except Err Str :=
  match fewPlan ℓ secs inv isNow ab with
  | .error e => .error e
  | .ok p => p.run

theorem few_eq (ℓ : Locale) (d : DiffAttrs) (isNow ab : Bool) :
    obs (Gen.DiffFmt.few_seconds pyM (locM ℓ) d isNow ab
      (fun unit count => Gen.DiffFmt.render pyM (locM ℓ) d isNow ab unit count)) =
      modelFew ℓ d.remaining_seconds d.invert isNow ab := by
  gen_tie "Pendulum.DiffFmtGen.few_eq" "Gen.DiffFmt.few_seconds (the final else of the cascade)" =>
    unfold Gen.DiffFmt.few_seconds modelFew fewPlan
    have e : (locM ℓ).get ["custom", "units", "few_second"] = (match ℓ.get ["custom", "units", "few_second"] with
        | .error e => .error e
        | .ok o => .ok (.node o)) := rfl
    rw [e]
    cases hg : ℓ.get ["custom", "units", "few_second"] with
    | error e => rfl
    | ok o =>
      cases o with
      | none =>
        simp only [bindE_ok, isNone_none, Bool.not_true, Bool.false_eq_true, if_false]
        rw [render_eq]
        exact (mainPlan_run ℓ .second d.remaining_seconds d.invert isNow ab).symm
      | some node =>
        simp only [bindE_ok, isNone_some, Bool.not_false, if_true]
        cases ab with
        | true =>
          simp only [if_true, obs, argStr]
          cases nodeStr node <;> rfl
        | false =>
          simp only [Bool.false_eq_true, if_false]
          obtain ⟨y, mo, w, dd, h, mi, sec, inv⟩ := d
          have fin : ∀ k : String, obs ((locM ℓ).get ["custom", k] >>=ₑ fun t => pyM.format t (.node (some node))) =
              (match nodeStr node with
               | .error e => .error e
               | .ok time => runSteps [tmplAt ℓ ["custom", k]] time) := by
            intro k
            obtain ⟨o, ho⟩ := get_custom_ok hg k
            cases hn : nodeStr node with
            | error e =>
              have e2 : (locM ℓ).get ["custom", k] = .ok (.node o) := by simp only [locM, ho]
              rw [e2]; simp only [bindE_ok, pyM, argStr, hn]; rfl
            | ok time =>
              rw [get_format ℓ _ (.node (some node)) time (by simp only [argStr, hn]), obs_stepM]
          cases isNow <;> cases inv <;>
            simp only [if_true, if_false, Bool.false_eq_true, nowKey, relKey, fin] <;>
            cases nodeStr node <;> rfl

theorem locM_ite (b : Bool) (ℓ₁ ℓ₂ : Locale) : (if b = true then locM ℓ₁ else locM ℓ₂) = locM (if b = true then ℓ₁ else ℓ₂) := by
  cases b <;> rfl

/-- generated `DifferenceFormatter.format` = the model's `format`, for every locale (any `Locale` value), every
    component tuple and every flag combination -/
theorem format_eq (ℓs : Locale) (L : String → Locale) (c : Comps) (isNow ab : Bool) (locNone : Bool) (loc : String) :
    obs (Gen.DiffFmt.format pyM (locM ℓs) (fun n => locM (L n)) (attrs c) isNow ab locNone loc) =
      Loc.format (if locNone then ℓs else L loc) c isNow ab := by
  gen_tie "Pendulum.DiffFmtGen.format_eq" "Gen.DiffFmt.format (DifferenceFormatter.format)" =>
    unfold Gen.DiffFmt.format Loc.format plan
    simp only [locM_ite, select_unit_eq]
    cases selectUnit c with
    | none =>
      simp only [Option.map]
      exact few_eq _ (attrs c) isNow ab
    | some un =>
      obtain ⟨u, n⟩ := un
      simp only [Option.map]
      rw [render_eq, ← mainPlan_run]
      rfl

/-! ## in_words -/

open Pendulum.Gen.DiffFmt (pyFor absInt)

theorem absInt_natAbs (n : Int) : absInt n = (n.natAbs : Int) := by unfold absInt; split <;> omega
theorem absInt_pos (n : Int) : (absInt n > 0) ↔ n ≠ 0 := by unfold absInt; split <;> omega

theorem texts_map (l : List Str) : texts (l.map PV.text) = .ok l := by
  induction l with
  | nil => rfl
  | cons a r ih => simp only [List.map, texts, ih]

/-- one part of `in_words` as a Python object -/
theorem words_part (ℓ : Locale) (u pc : String) (a : PV) (s : Str) (ha : argStr a = .ok s) {β : Type} (g : PV → Except Err β) :
    ((locM ℓ).get ["translations", "units", u, pc] >>=ₑ fun t => pyM.format t a >>=ₑ g) =
      (match (match tmplAt ℓ ["translations", "units", u, pc] with
          | .error e => .error e
          | .ok segs => fmtSegs segs s : Except Err Str) with
       | .error e => .error e
       | .ok r => g (.text r)) := by
  rw [get_format2 ℓ _ a s ha]
  cases tmplAt ℓ ["translations", "units", u, pc] with
  | error e => rfl
  | ok segs => simp only [stepM]; cases fmtSegs segs s <;> rfl

/-- the loop of `in_words`: a fold over the component list that appends the rendered non-zero components -/
theorem pyFor_words (ℓ : Locale) (f : List PV → String × Int → Except Err (List PV))
    (hf : ∀ parts u n, f parts (u, n) =
      if n = 0 then .ok parts
      else match wordsPart ℓ u n.natAbs (showInt n) with
        | .error e => .error e
        | .ok s => .ok (parts ++ [PV.text s])) :
    ∀ (xs : List (String × Int)) (parts : List PV),
      pyFor xs parts f = (match wordsParts ℓ xs with
        | .error e => .error e
        | .ok l => .ok (parts ++ l.map PV.text)) := by
  intro xs
  induction xs with
  | nil => intro parts; simp only [pyFor, wordsParts, List.map, List.append_nil]
  | cons x r ih =>
    intro parts
    obtain ⟨u, n⟩ := x
    simp only [pyFor, wordsParts, hf]
    by_cases h0 : n = 0
    · simp only [h0, if_true, bindE_ok, ih]
    · simp only [h0, if_false]
      cases wordsPart ℓ u n.natAbs (showInt n) with
      | error e => rfl
      | ok s =>
        simp only [bindE_ok, ih]
        cases wordsParts ℓ r with
        | error e => rfl
        | ok l => simp only [List.map, List.append_assoc, List.singleton_append]

/-- the proof script shared by `Duration.in_words` and `Interval.in_words` (the two sources differ in how the locale
    name is resolved only) -/
macro "in_words_tac" us:ident : tactic => `(tactic| (
    simp only [Gen.DiffFmt.helpers_locale, Gen.DiffFmt.locale_translation, List.cons_append, List.nil_append]
    rw [pyFor_words _ _ ?hf]
    case hf =>
      intro parts u n
      have hp : ∀ ℓ : Locale, (locM ℓ).plural = ℓ.plural := fun _ => rfl
      simp only [decide_eq_true_eq, absInt_pos]
      by_cases h0 : n = 0
      · simp only [h0, if_true, ne_eq, not_true_eq_false, if_false]
      · simp only [h0, if_false, ne_eq, not_false_eq_true, if_true, hp, absInt_natAbs]
        rw [words_part _ _ _ (pyM.ofInt n) (showInt n) rfl]
        simp only [wordsPart, bindE_ok]
        cases tmplAt _ _ <;> rfl
    unfold inWords
    cases wordsParts _ _ with
    | error e => rfl
    | ok l =>
      have hp : ∀ ℓ : Locale, (locM ℓ).plural = ℓ.plural := fun _ => rfl
      cases l with
      | nil =>
        simp only [bindE_ok, List.map, List.append_nil, List.isEmpty_nil, Bool.not_true, Bool.not_false, if_true,
          decide_eq_true_eq, absInt_pos, hp]
        by_cases h0 : $us = 0
        · simp only [h0, ne_eq, not_true_eq_false, if_false]
          rw [words_part _ _ _ (pyM.ofInt 0) (showInt 0) rfl]
          simp only [wordsPart]
          cases tmplAt _ _ with
          | error e => rfl
          | ok segs => dsimp only; cases fmtSegs segs (showInt 0) <;> rfl
        · simp only [h0, ne_eq, not_false_eq_true, if_true, if_false]
          rw [words_part _ _ _ (pyM.float2f (absInt $us) 1000000) (fmtMicro (Int.natAbs $us)) (by
            simp only [pyM, if_true, argStr, absInt_natAbs, Int.natAbs_natCast])]
          simp only [wordsPart]
          cases tmplAt _ _ with
          | error e => rfl
          | ok segs => dsimp only; cases fmtSegs segs (fmtMicro (Int.natAbs $us)) <;> rfl
      | cons p ps =>
        simp only [bindE_ok, List.nil_append, List.map, List.isEmpty_cons, Bool.not_false, Bool.not_true,
          Bool.false_eq_true, if_false]
        have := texts_map (p :: ps)
        simp only [List.map] at this
        simp only [pyM, this, obs, argStr]))

theorem duration_in_words_eq (L : String → Locale) (cur : String) (c : Comps) (us : Int) (locNone : Bool) (loc : String)
    (sep : Str) :
    obs (Gen.DiffFmt.duration_in_words pyM (fun n => locM (L n)) cur c.years c.months c.weeks c.days c.hours c.minutes
      c.seconds us locNone loc (.text sep)) =
      inWords (L (resolveLocale (if locNone then none else some loc) cur)) c us sep := by
  gen_tie "Pendulum.DiffFmtGen.duration_in_words_eq" "Gen.DiffFmt.duration_in_words (Duration.in_words)" =>
    have hl : resolveLocale (if locNone then none else some loc) cur = (if locNone = true then cur else loc) := by
      cases locNone <;> rfl
    rw [hl]
    unfold Gen.DiffFmt.duration_in_words
    in_words_tac us

theorem interval_in_words_eq (L : String → Locale) (cur : String) (c : Comps) (us : Int) (locNone : Bool) (loc : String)
    (sep : Str) :
    obs (Gen.DiffFmt.interval_in_words pyM (fun n => locM (L n)) cur c.years c.months c.weeks c.days c.hours c.minutes
      c.seconds us locNone loc (.text sep)) =
      inWords (L (resolveLocaleOr (if locNone then none else some loc) cur)) c us sep := by
  gen_tie "Pendulum.DiffFmtGen.interval_in_words_eq" "Gen.DiffFmt.interval_in_words (Interval.in_words)" =>
    have hl : resolveLocaleOr (if locNone then none else some loc) cur = (if (locNone || loc == "") = true then cur else loc) := by
      cases locNone <;> simp [resolveLocaleOr]
    rw [hl]
    unfold Gen.DiffFmt.interval_in_words
    in_words_tac us

/-! ## format_diff and diff_for_humans -/

theorem format_diff_eq (L : String → Locale) (cur : String) (c : Comps) (isNow ab locNone : Bool) (loc : String) :
    obs (Gen.DiffFmt.format_diff pyM (fun n => locM (L n)) cur (attrs c) isNow ab locNone loc) =
      Loc.format (L (resolveLocale (if locNone then none else some loc) cur)) c isNow ab := by
  gen_tie "Pendulum.DiffFmtGen.format_diff_eq" "Gen.DiffFmt.format_diff (helpers.format_diff)" =>
    unfold Gen.DiffFmt.format_diff Gen.DiffFmt.init_locale
    rw [format_eq (L "en") L c isNow ab false]
    cases locNone <;> rfl

def compsOf (d : DiffAttrs) : Comps := ⟨d.years, d.months, d.weeks, d.remaining_days, d.hours, d.minutes, d.remaining_seconds, d.invert⟩

theorem attrs_compsOf (d : DiffAttrs) : attrs (compsOf d) = d := by cases d; rfl

/-- what the model says `x.diff_for_humans(other, absolute, locale)` returns, given the class's `diff` -/
def modelHumans {O : Type} (L : String → Locale) (cur : String) (now : O) (diff : O → Bool → DiffAttrs)
    (other : Option O) (ab : Bool) (loc : Option String) : Except Err Str :=
  let r := diffForHumans now other ab loc cur
  Loc.format (L r.locale) (compsOf (diff r.other r.diffAbs)) r.isNow r.absolute

macro "dfh_tac" diff:ident otherNone:ident : tactic => `(tactic| (
    simp only [modelHumans, diffForHumans]
    rw [← attrs_compsOf ($diff _ true), format_diff_eq]
    cases $otherNone:ident <;> rfl))

theorem datetime_dfh_eq {O : Type} (L : String → Locale) (cur : String) (now : O) (diff : O → Bool → DiffAttrs)
    (otherNone : Bool) (other : O) (ab locNone : Bool) (loc : String) :
    obs (Gen.DiffFmt.datetime_diff_for_humans pyM (fun n => locM (L n)) cur now diff otherNone other ab locNone loc) =
      modelHumans L cur now diff (if otherNone then none else some other) ab (if locNone then none else some loc) := by
  gen_tie "Pendulum.DiffFmtGen.datetime_dfh_eq" "Gen.DiffFmt.datetime_diff_for_humans (DateTime.diff_for_humans)" =>
    unfold Gen.DiffFmt.datetime_diff_for_humans
    dfh_tac diff otherNone

theorem date_dfh_eq {O : Type} (L : String → Locale) (cur : String) (now : O) (diff : O → Bool → DiffAttrs)
    (otherNone : Bool) (other : O) (ab locNone : Bool) (loc : String) :
    obs (Gen.DiffFmt.date_diff_for_humans pyM (fun n => locM (L n)) cur now diff otherNone other ab locNone loc) =
      modelHumans L cur now diff (if otherNone then none else some other) ab (if locNone then none else some loc) := by
  gen_tie "Pendulum.DiffFmtGen.date_dfh_eq" "Gen.DiffFmt.date_diff_for_humans (Date.diff_for_humans)" =>
    unfold Gen.DiffFmt.date_diff_for_humans
    dfh_tac diff otherNone

theorem time_dfh_eq {O : Type} (L : String → Locale) (cur : String) (now : O) (diff : O → Bool → DiffAttrs)
    (otherNone : Bool) (other : O) (ab locNone : Bool) (loc : String) :
    obs (Gen.DiffFmt.time_diff_for_humans pyM (fun n => locM (L n)) cur now diff otherNone other ab locNone loc) =
      modelHumans L cur now diff (if otherNone then none else some other) ab (if locNone then none else some loc) := by
  gen_tie "Pendulum.DiffFmtGen.time_dfh_eq" "Gen.DiffFmt.time_diff_for_humans (Time.diff_for_humans)" =>
    unfold Gen.DiffFmt.time_diff_for_humans
    dfh_tac diff otherNone

/-- `Date.diff` / `DateTime.diff` are not translated: their text is pinned, so an edit breaks this theorem -/
theorem diff_pinned :
    Gen.DiffFmt.datetime_diff_src = "def diff(self, dt: datetime.datetime | None=None, abs: bool=True) -> Interval[datetime.datetime]:\n    if dt is None:\n        dt = self.now(self.tz)\n    return Interval(self, dt, absolute=abs)" ∧
    Gen.DiffFmt.date_diff_src = "def diff(self, dt: date | None=None, abs: bool=True) -> Interval[Date]:\n    if dt is None:\n        dt = self.today()\n    return Interval(self, Date(dt.year, dt.month, dt.day), absolute=abs)" := by
  gen_tie "Pendulum.DiffFmtGen.diff_pinned" "the pinned text of DateTime.diff / Date.diff" =>
    exact ⟨rfl, rfl⟩

/-! ## locales/locale.py -/

theorem match_translation_pinned :
    Gen.DiffFmt.match_translation_src = "def match_translation(self, key: str, value: Any) -> dict[str, str] | None:\n    translations = self.translation(key)\n    if value not in translations.values():\n        return None\n    return cast(Dict[str, str], {v: k for k, v in translations.items()}[value])" := by
  gen_tie "Pendulum.DiffFmtGen.match_translation_pinned" "the pinned text of Locale.match_translation" =>
    rfl

/-- `Locale.translation/plural/ordinal` as written: a `get` under `translations.`, the two lambdas of the locale data -/
theorem locale_methods_eq (ℓ : Locale) (key : List String) (n : Int) :
    Gen.DiffFmt.locale_translation (locM ℓ) key = (locM ℓ).get ("translations" :: key) ∧
    Gen.DiffFmt.locale_plural ℓ.plural n = ℓ.plural n ∧ Gen.DiffFmt.locale_ordinal ℓ.ordinal n = ℓ.ordinal n := by
  gen_tie "Pendulum.DiffFmtGen.locale_methods_eq" "Gen.DiffFmt.locale_translation/plural/ordinal" =>
    exact ⟨rfl, rfl, rfl⟩

theorem ordinalize_eq (ℓ : Locale) (n : Int) :
    obs (Gen.DiffFmt.locale_ordinalize pyM (locM ℓ) n) = Loc.ordinalize ℓ n := by
  gen_tie "Pendulum.DiffFmtGen.ordinalize_eq" "Gen.DiffFmt.locale_ordinalize (Locale.ordinalize)" =>
    unfold Gen.DiffFmt.locale_ordinalize Loc.ordinalize
    have e : ∀ p, (locM ℓ).get p = (match ℓ.get p with
        | .error e => .error e
        | .ok o => .ok (.node o)) := fun _ => rfl
    have ho : (locM ℓ).ordinal = ℓ.ordinal := rfl
    rw [e, ho]
    cases ℓ.get ["custom", "ordinal", ℓ.ordinal n] with
    | error e => rfl
    | ok o =>
      simp only [bindE_ok, truthy_node, Bool.not_not]
      cases hf : falsy o with
      | true => simp [pyM, strs, argStr, obs]
      | false =>
        simp only [Bool.false_eq_true, if_false]
        match o, hf with
        | none, hf => simp [falsy] at hf
        | some (.str s), _ => simp [pyM, strs, argStr, obs, nodeStr]
        | some (.tmpl _), _ => simp [pyM, strs, argStr, obs, nodeStr]
        | some (.int _), _ => simp [pyM, strs, argStr, obs, nodeStr]
        | some (.dict _), _ => simp [pyM, strs, argStr, obs, nodeStr]

theorem isExc_key (e : Err) : pyM.isExc e "KeyError" = (e == .keyError) := by
  cases e <;> decide

theorem pyFor_walk (f : PV → String → Except Err PV)
    (hf : ∀ v part, f v part = pyM.item v part) :
    ∀ (ps : List String) (n : Node),
      (match (pyFor ps (PV.node (some n)) f : Except Err PV) with
       | .ok r => .ok r
       | .error e => if pyM.isExc e "KeyError" = true then .ok (PV.node none) else .error e) =
      (match getFrom n ps with
       | .error e => .error e
       | .ok o => .ok (PV.node o) : Except Err PV) := by
  intro ps
  induction ps with
  | nil => intro n; rfl
  | cons p r ih =>
    intro n
    simp only [pyFor, hf]
    match n with
    | .dict kvs =>
      simp only [pyM, getFrom]
      cases lookup p kvs with
      | none => rfl
      | some c => simp only [bindE_ok]; exact ih c
    | .str _ => rfl
    | .tmpl _ => rfl
    | .int _ => rfl

theorem get_eq (data : Node) (p : String) (ps : List String) :
    Gen.DiffFmt.locale_get pyM (.node (some data)) (.node none) p ps =
      (match getFrom data (p :: ps) with
       | .error e => .error e
       | .ok o => .ok (.node o)) := by
  gen_tie "Pendulum.DiffFmtGen.get_eq" "Gen.DiffFmt.locale_get (Locale.get)" =>
    unfold Gen.DiffFmt.locale_get
    match data with
    | .dict kvs =>
      simp only [getFrom]
      have e : pyM.item (.node (some (.dict kvs))) p = (match lookup p kvs with
          | none => .error .keyError
          | some n => .ok (.node (some n))) := rfl
      rw [e]
      cases lookup p kvs with
      | none => rfl
      | some c =>
        simp only [bindE_ok]
        have h := pyFor_walk (fun result part => pyM.item result part >>=ₑ fun r => Except.ok r)
          (fun v part => by cases pyM.item v part <;> rfl) ps c
        rw [← h]
        cases pyFor ps (PV.node (some c)) _ <;> rfl
    | .str _ => rfl
    | .tmpl _ => rfl
    | .int _ => rfl

theorem re_class_0_eq (c : Char) : Gen.DiffFmt.re_class_0 c = isLetterI c := by
  unfold Gen.DiffFmt.re_class_0 isLetterI
  rw [Bool.eq_iff_iff]
  simp only [Bool.or_eq_true, Bool.and_eq_true, decide_eq_true_eq, beq_iff_eq]
  omega

theorem re_class_1_eq (c : Char) : Gen.DiffFmt.re_class_1 c = (c == '-' || c == '_') := by
  unfold Gen.DiffFmt.re_class_1
  rw [Bool.eq_iff_iff]
  simp only [Bool.or_eq_true, decide_eq_true_eq, beq_iff_eq]
  have h : ∀ d : Char, c = d ↔ c.toNat = d.toNat := fun d =>
    ⟨fun h => by rw [h], fun h => Char.ext (UInt32.toNat_inj.mp h)⟩
  rw [h '-', h '_']
  rfl

theorem normalize_eq (lower : Str → Str) (s : Str) :
    Gen.DiffFmt.normalize_locale lower s = normalizeLocale lower s := by
  gen_tie "Pendulum.DiffFmtGen.normalize_eq" "Gen.DiffFmt.normalize_locale (Locale.normalize_locale and its regex)" =>
    unfold Gen.DiffFmt.normalize_locale normalizeLocale Gen.DiffFmt.re_match
    match s with
    | [] => rfl
    | [_] => rfl
    | [_, _] => rfl
    | [_, _, _] => rfl
    | [_, _, _, _] => rfl
    | a :: b :: sep :: c :: d :: r =>
      simp only [re_class_0_eq, re_class_1_eq]
      cases isLetterI a && isLetterI b && (sep == '-' || sep == '_') && isLetterI c && isLetterI d <;> rfl

theorem load_eq (lower : Str → Str) (pathExists : Str → Bool) (s : Str) :
    Gen.DiffFmt.locale_load lower pathExists s = loadKey lower pathExists s := by
  gen_tie "Pendulum.DiffFmtGen.load_eq" "Gen.DiffFmt.locale_load (Locale.load)" =>
    unfold Gen.DiffFmt.locale_load loadKey
    simp only [normalize_eq, Gen.DiffFmt.load_loop_1]
    cases pathExists (normalizeLocale lower s) <;> simp

end Pendulum.DiffFmtGen
