import Pendulum.Proofs.DTArithGenOps
/-! the Interval built by `__sub__/__rsub__` with a datetime (split out of the former Proofs/DTArithGen.lean so that a broken tie of one group of methods
does not stop the properties that only depend on another group) -/
set_option linter.unusedSimpArgs false
namespace Pendulum.DTArithGen
open Pendulum Pendulum.Cal Pendulum.AddDur Pendulum.Zone Pendulum.DTOps Pendulum.CalOps
open Pendulum.Gen.DTArith

/-! ### `__sub__` / `__rsub__` with a datetime: the Interval they build (Model/Interval.lean) -/

/-- which model value an endpoint is: `ov` = the operand as it stands, `inst` = what `self.instance(other)` returns -/
def whoV (sv ov : V) (inst : Except DTOps.Err V) : Who → Except DTOps.Err V
  | .self => .ok sv
  | .other => .ok ov
  | .naive y m d h mi s us => .ok ⟨.naive, toWall ⟨y, m, d, h, mi, s, us⟩, true⟩
  | .instance_other => inst
  | _ => .error .valueError

/-- length in µs of the Interval an operator result denotes -/
def resLen (sv ov : V) (inst : Except DTOps.Err V) (same : Bool) : Res → Except DTOps.Err Int
  | .interval a b abs =>
    match whoV sv ov inst a, whoV sv ov inst b with
    | .ok x, .ok y => Interval.new x y same abs
    | .error e, _ => .error e
    | _, .error e => .error e
  | _ => .error .valueError

theorem new_naive_fold (w : Int) (f g : Bool) (e : V) (same abs : Bool) :
    Interval.new ⟨.naive, w, f⟩ e same abs = Interval.new ⟨.naive, w, g⟩ e same abs ∧
    Interval.new e ⟨.naive, w, f⟩ same abs = Interval.new e ⟨.naive, w, g⟩ same abs := by
  simp [Interval.new, Interval.gt, Interval.delta, Interval.strip, Interval.aware, V.instant, V.offset, ZRef.table]

/-- `self - other` and `other - self` (reflected) for a datetime operand are the model's `sub` / `subNative` /
    `diff` / `rsubNative`: an instance of the class is used as it stands, a native value is first rebuilt (naive: from
    its fields; aware: through `instance`, here the model's `instanceOf`) -/
theorem sub_datetime_model (I : Inst) (sv ov : V) (o no : Operand) (same : Bool)
    (hf : toWall ⟨o.year, o.month, o.day, o.hour, o.minute, o.second, o.microsecond⟩ = ov.w)
    (ha : o.aware = Interval.aware ov) :
    (o.kind = .pendulumDT →
      (dt_op_sub I o no).toOption.map (resLen sv ov (.ok ov) same) = some (Interval.sub sv ov same) ∧
      (dt_op_rsub I o).toOption.map (resLen sv ov (.ok ov) same) = some (Interval.diff sv ov same false)) ∧
    (o.kind = .datetime →
      (dt_op_sub I o no).toOption.map (resLen sv ov (Interval.instanceOf ov) same) = some (Interval.subNative sv ov same) ∧
      (dt_op_rsub I o).toOption.map (resLen sv ov (Interval.instanceOf ov) same) = some (Interval.rsubNative sv ov same)) := by
  obtain ⟨oz, ow, ofl⟩ := ov
  simp only [] at hf
  constructor
  · intro hk
    simp [op_sub_eq, op_rsub_eq, isDelta, rebuilt, hk, resLen, whoV, Interval.sub, Interval.diff, Except.toOption]
  · intro hk
    cases oz with
    | naive =>
      have ha' : o.aware = false := by simpa [Interval.aware] using ha
      have n1 := new_naive_fold ow true ofl sv same false
      simp [op_sub_eq, op_rsub_eq, isDelta, rebuilt, hk, ha', resLen, whoV, hf, Interval.subNative, Interval.rsubNative,
        Interval.instanceOf, create, Interval.sub, Interval.diff, Except.toOption, n1.1, n1.2]
    | fixed off =>
      have ha' : o.aware = true := by simpa [Interval.aware] using ha
      simp [op_sub_eq, op_rsub_eq, isDelta, rebuilt, hk, ha', resLen, whoV, Interval.subNative, Interval.rsubNative,
        Interval.instanceOf, create, Interval.sub, Interval.diff, Except.toOption]
    | named zt =>
      have ha' : o.aware = true := by simpa [Interval.aware] using ha
      simp only [op_sub_eq, op_rsub_eq, isDelta, rebuilt, hk, ha', resLen, whoV, Interval.subNative, Interval.rsubNative,
        Interval.sub, Interval.diff, Except.toOption]
      cases Interval.instanceOf ⟨.named zt, ow, ofl⟩ <;> simp [resLen, whoV]


end Pendulum.DTArithGen
