import Pendulum.Proofs.IsoDurPy
import Pendulum.Proofs.GenTie
import Pendulum.Gen.IsoPy
/-! Tie between the *generated* translation of the pure-Python ISO 8601 duration parser (`Pendulum.Gen.IsoPy`: `py_iso_duration`,
its three lifted sections and `py_fraction_to_microseconds`, regenerated from `parsing/iso8601.py` on every run by
tools/gen_isopy.py) and the Python side of the hand model `Model/IsoDur.lean` (`pyEval` over `PyGroups`, `fracUs`, `finish`)
the C13 theorems are stated about.

The hand model reads a duration string in three steps: the shared lexer, the regular expression as optional groups in order
(`pyMatch : List Tok → Option PyGroups`, groups = numbers), then one block of code per group (`pyEval`). The generated code is
the source's per-group code on the group *texts* and the group start positions. Interface (hand-written, small):
* `WG`: a match as written — which component groups took part, each a written number + designator (`WItem` of
  Proofs/IsoDur.lean); `valid` = the regex-shape facts (`\d+(?:[.,]\d+)?U` with the group's own designator `U`);
  `durGroups` = the match object (11 named groups with their texts and `m.start()` positions, computed from the text lengths);
  `WG.py` = the groups the model's matcher yields;
* `liftK`: every rejection kind of the model is a `ParserError` for the caller; `argsOf` = the `Duration(...)` keywords;
* `DigitOk`: `int()` reads ASCII digits with their value (the model's inputs are ASCII). -/
set_option linter.unusedSimpArgs false
set_option linter.unusedVariables false
namespace Pendulum.IsoPyDurGen
open Pendulum Pendulum.IsoDur
open Pendulum.Gen.IsoPy (Text bindE tryExcept truthy DurGroups DurArgs Ext)
open Pendulum.GenTie

elab "dur_short_err " t:tacticSeq : tactic => do
  try
    Lean.Elab.Tactic.withoutRecover (Lean.Elab.Tactic.evalTactic t)
  catch e =>
    if e.isRuntime || !(e matches .error ..) then throw e
    let msg ← e.toMessageData.toString
    let msg := if msg.length > 600 then (msg.take 600).toString ++ " …" else msg
    throwError "{msg}"

/-- `dtie "theorem" "source" => tacs` = `gen_tie` (Proofs/GenTie.lean) around `dur_short_err tacs` -/
macro "dtie " n:str src:str " => " t:tacticSeq : tactic => `(tactic| gen_tie $n $src => dur_short_err $t)

/-! ## vocabulary -/

/-- every rejection of the model reaches the caller as a `ParserError` -/
def liftK {α β : Type} (f : α → β) : Except Kind α → Except String β
  | .ok v => .ok (f v)
  | .error _ => .error "ParserError"

@[simp] theorem bindE_ok {α β : Type} (v : α) (f : α → Except String β) : bindE (.ok v) f = f v := rfl
@[simp] theorem bindE_error {α β : Type} (e : String) (f : α → Except String β) :
    bindE (.error e : Except String α) f = .error e := rfl

/-- what the model says about `int()`: ASCII digits have their value (the model's inputs are ASCII) -/
def DigitOk {V : Type} (ext : Ext V) : Prop := ∀ c d, digitVal c = some d → ext.digit c = some d

/-! ## digit texts -/

theorem digitVal_minus : digitVal '-' = none := by decide
theorem digitVal_plus : digitVal '+' = none := by decide
theorem digitVal_dot : digitVal '.' = none := by decide
theorem digitVal_comma : digitVal ',' = none := by decide

theorem digitChar_ne_of_none (d : Nat) (h : d < 10) (c : Char) (hc : digitVal c = none) : digitChar d ≠ c := by
  intro e; rw [← e, digitVal_digitChar d h] at hc; cases hc

theorem py_nat_render {V : Type} (ext : Ext V) (hx : DigitOk ext) (ds : List Nat) (h : ∀ d ∈ ds, d < 10) (acc : Nat) :
    Gen.IsoPy.py_nat ext.digit (renderDigits ds) (acc : Int) = .ok ((ds.foldl (fun a d => 10 * a + d) acc : Nat) : Int) := by
  induction ds generalizing acc with
  | nil => rfl
  | cons d ds ih =>
    have hd : d < 10 := h d (by simp)
    have := ih (fun x hx' => h x (by simp [hx'])) (10 * acc + d)
    simp only [renderDigits, List.map_cons, Gen.IsoPy.py_nat, hx _ _ (digitVal_digitChar d hd), List.foldl_cons] at this ⊢
    rw [← this]
    congr 1
    all_goals simp

theorem py_int_render {V : Type} (ext : Ext V) (hx : DigitOk ext) (ds : List Nat) (h : digitsOk ds) :
    Gen.IsoPy.py_int ext.digit (renderDigits ds) = .ok ((numVal ds : Nat) : Int) := by
  obtain ⟨hne, hlt⟩ := h
  cases ds with
  | nil => exact absurd rfl hne
  | cons d ds =>
    have hd : d < 10 := hlt d (by simp)
    have h1 := digitChar_ne_of_none d hd '-' digitVal_minus
    have h2 := digitChar_ne_of_none d hd '+' digitVal_plus
    have := py_nat_render ext hx (d :: ds) hlt 0
    simp only [renderDigits, List.map_cons] at this ⊢
    unfold Gen.IsoPy.py_int
    split
    · rename_i e; cases e
    · rename_i e; injection e with e1; exact absurd e1 h1
    · rename_i e; injection e with e1; exact absurd e1 h2
    · rename_i e; injection e with e1; exact absurd e1 h1
    · rename_i e; injection e with e1; exact absurd e1 h2
    · simpa [numVal] using this

theorem replace_render (u : Char) (new : Text) (hu : digitVal u = none) (ds : List Nat) (h : ∀ d ∈ ds, d < 10) :
    Gen.IsoPy.py_replace u new (renderDigits ds) = renderDigits ds := by
  induction ds with
  | nil => rfl
  | cons d ds ih =>
    have hd : d < 10 := h d (by simp)
    have hne := digitChar_ne_of_none d hd u hu
    have := ih (fun x hx' => h x (by simp [hx']))
    simp only [Gen.IsoPy.py_replace, renderDigits, List.map_cons, List.flatMap_cons] at this ⊢
    rw [this]
    simp [hne]

theorem replace_append (u : Char) (new a b : Text) :
    Gen.IsoPy.py_replace u new (a ++ b) = Gen.IsoPy.py_replace u new a ++ Gen.IsoPy.py_replace u new b := by
  simp [Gen.IsoPy.py_replace]

theorem replace_single (u : Char) (new : Text) (c : Char) :
    Gen.IsoPy.py_replace u new [c] = if c = u then new else [c] := by
  simp [Gen.IsoPy.py_replace]

/-- a component after `.replace(",", ".").replace(U, "")`: the integer digits, and `.` + the fraction digits if any -/
theorem comp_text (w : WItem) (hw : w.valid) :
    Gen.IsoPy.py_replace w.unit [] (Gen.IsoPy.py_replace ',' ['.'] w.render) =
      renderDigits w.ids ++ (match w.frac with | some f => '.' :: renderDigits f | none => []) := by
  obtain ⟨hi, hs, hf, hu, hud, huc⟩ := hw
  unfold WItem.render
  cases hfr : w.frac with
  | none =>
    simp only [List.append_nil, replace_append, replace_single, replace_render ',' _ digitVal_comma _ hi.2,
      replace_render w.unit _ hu _ hi.2, if_neg huc, if_true]
    all_goals simp
  | some f =>
    have hfd := hf f hfr
    have hsep : Gen.IsoPy.py_replace ',' ['.'] [w.sep] = ['.'] := by
      rw [replace_single]; rcases hs with h | h <;> simp [h]
    have e : w.sep :: renderDigits f = [w.sep] ++ renderDigits f := rfl
    have hdot : ¬ ('.' = w.unit) := fun e => hud e.symm
    simp only [e, replace_append, hsep, replace_single, replace_render ',' _ digitVal_comma _ hi.2,
      replace_render ',' _ digitVal_comma _ hfd.2, replace_render w.unit _ hu _ hi.2, replace_render w.unit _ hu _ hfd.2,
      if_neg huc, if_true, if_neg hdot]
    all_goals simp

theorem contains_render (c : Char) (hc : digitVal c = none) (ds : List Nat) (h : ∀ d ∈ ds, d < 10) :
    List.contains (renderDigits ds) c = false := by
  induction ds with
  | nil => rfl
  | cons d ds ih =>
    have hd : d < 10 := h d (by simp)
    have hne := digitChar_ne_of_none d hd c hc
    have := ih (fun x hx' => h x (by simp [hx']))
    simp only [renderDigits, List.map_cons, List.contains_cons] at this ⊢
    rw [this]
    simp [Ne.symm hne]

theorem split_render (a b : List Nat) (ha : ∀ d ∈ a, d < 10) (hb : ∀ d ∈ b, d < 10) :
    Gen.IsoPy.py_split '.' (renderDigits a ++ '.' :: renderDigits b) = [renderDigits a, renderDigits b] := by
  have hb' : Gen.IsoPy.py_split '.' (renderDigits b) = [renderDigits b] := by
    clear ha
    induction b with
    | nil => rfl
    | cons d ds ih =>
      have hd : d < 10 := hb d (by simp)
      have hne := digitChar_ne_of_none d hd '.' digitVal_dot
      have := ih (fun x hx' => hb x (by simp [hx']))
      simp only [renderDigits, List.map_cons, Gen.IsoPy.py_split, if_neg hne] at this ⊢
      rw [this]
  induction a with
  | nil => simp [renderDigits, Gen.IsoPy.py_split] at hb' ⊢; exact hb'
  | cons d ds ih =>
    have hd : d < 10 := ha d (by simp)
    have hne := digitChar_ne_of_none d hd '.' digitVal_dot
    have := ih (fun x hx' => ha x (by simp [hx']))
    simp only [renderDigits, List.map_cons, List.cons_append, Gen.IsoPy.py_split, if_neg hne] at this ⊢
    rw [this]

/-- `_fraction_to_microseconds` as regenerated is the model's `fracUs` (exact value rounded half up) -/
theorem fraction_tie {V : Type} (ext : Ext V) (hx : DigitOk ext) (f : List Nat) (hf : digitsOk f) (U : Nat) :
    Gen.IsoPy.py_fraction_to_microseconds ext (renderDigits f) (U : Int) = .ok ((fracUs f (U * 1000000) : Nat) : Int) := by
  dtie "C13.fraction_source_eq_model" "iso8601.py::_fraction_to_microseconds" =>
    unfold Gen.IsoPy.py_fraction_to_microseconds
    have hlen : (renderDigits f).length = f.length := by simp [renderDigits]
    simp only [py_int_render ext hx f hf, bindE_ok, Gen.IsoPy.py_len, Gen.IsoPy.py_pow, Gen.py_US_PER_SECOND, hlen,
      Int.ofNat_eq_natCast, Int.toNat_natCast]
    have hpos : (2 : Int) * (10 : Int) ^ f.length ≠ 0 := by
      have : (0 : Int) < (10 : Int) ^ f.length := Int.pow_pos (by decide)
      omega
    unfold Gen.IsoPy.py_floordiv
    have hb : ((2 : Int) * (10 : Int) ^ f.length == 0) = false := by simpa using hpos
    simp only [hb, Bool.false_eq_true, if_false]
    congr 1
    rw [Int.fdiv_eq_ediv_of_nonneg _ (by have : (0 : Int) < (10 : Int) ^ f.length := Int.pow_pos (by decide); omega)]
    unfold fracUs
    simp only [Int.natCast_ediv, Int.natCast_add, Int.natCast_mul, Int.natCast_pow]
    congr 2
    simp [Int.mul_assoc]

/-! ## matches as written -/

/-- a match of `ISO8601_DURATION` as written: which component groups took part, each as a written number + designator -/
structure WG where
  w : Option WItem
  y : Option WItem
  mo : Option WItem
  d : Option WItem
  hms : Option (Option WItem × Option WItem × Option WItem)

/-- the regex-shape facts about one optional group `(\d+(?:[.,]\d+)?U)?` -/
def ValidU (u : Char) (o : Option WItem) : Prop := ∀ w, o = some w → w.valid ∧ w.unit = u

def WG.valid (g : WG) : Prop :=
  ValidU 'W' g.w ∧ ValidU 'Y' g.y ∧ ValidU 'M' g.mo ∧ ValidU 'D' g.d ∧
  ∀ h mi s, g.hms = some (h, mi, s) → ValidU 'H' h ∧ ValidU 'M' mi ∧ ValidU 'S' s

def itemOf (o : Option WItem) : Option Item := o.map fun w => ⟨numVal w.ids, w.frac, w.unit⟩

/-- the groups the model's matcher yields -/
def WG.py (g : WG) : PyGroups :=
  ⟨itemOf g.w, itemOf g.y, itemOf g.mo, itemOf g.d, g.hms.map fun x => (itemOf x.1, itemOf x.2.1, itemOf x.2.2)⟩

def optR (o : Option WItem) : Text :=
  match o with
  | none => []
  | some w => w.render

def optG (o : Option WItem) : Option Text := o.map WItem.render

def len (o : Option WItem) : Int := Int.ofNat (optR o).length

/-- `m.start(name)`: the position of a group that took part, -1 otherwise -/
def startOf (o : Option WItem) (pos : Int) : Int := if o.isSome then pos else -1

def hmsH (x : Option (Option WItem × Option WItem × Option WItem)) : Option WItem := x.bind (·.1)
def hmsM (x : Option (Option WItem × Option WItem × Option WItem)) : Option WItem := x.bind (·.2.1)
def hmsS (x : Option (Option WItem × Option WItem × Option WItem)) : Option WItem := x.bind (·.2.2)

/-- the match object of `ISO8601_DURATION` for the string `P` + the written groups: texts and start positions -/
def durGroups (g : WG) : DurGroups where
  w := optG g.w
  weeks := optG g.w
  ymd := some (optR g.y ++ (optR g.mo ++ optR g.d))
  years := optG g.y
  months := optG g.mo
  days := optG g.d
  hms := g.hms.map fun x => 'T' :: (optR x.1 ++ (optR x.2.1 ++ optR x.2.2))
  timesep := g.hms.map fun _ => ['T']
  hours := optG (hmsH g.hms)
  minutes := optG (hmsM g.hms)
  seconds := optG (hmsS g.hms)
  w_start := startOf g.w 1
  weeks_start := startOf g.w 1
  ymd_start := 1 + len g.w
  years_start := startOf g.y (1 + len g.w)
  months_start := startOf g.mo (1 + len g.w + len g.y)
  days_start := startOf g.d (1 + len g.w + len g.y + len g.mo)
  hms_start := if g.hms.isSome then 1 + len g.w + len g.y + len g.mo + len g.d else -1
  timesep_start := if g.hms.isSome then 1 + len g.w + len g.y + len g.mo + len g.d else -1
  hours_start := startOf (hmsH g.hms) (2 + len g.w + len g.y + len g.mo + len g.d)
  minutes_start := startOf (hmsM g.hms) (2 + len g.w + len g.y + len g.mo + len g.d + len (hmsH g.hms))
  seconds_start := startOf (hmsS g.hms) (2 + len g.w + len g.y + len g.mo + len g.d + len (hmsH g.hms) + len (hmsM g.hms))

/-- the keyword arguments of `Duration(...)` for the model's components -/
def argsOf (p : IsoDur.Parsed) : DurArgs :=
  ⟨p.y, p.mo, p.w, p.d, p.h, p.mi, p.s, p.us⟩

/-! ### small facts about texts -/

theorem truthy_none : truthy none = false := rfl
theorem truthy_nil : truthy (some []) = false := rfl
theorem truthy_cons (c : Char) (cs : Text) : truthy (some (c :: cs)) = true := rfl
theorem truthy_append (a b : Text) : truthy (some (a ++ b)) = (truthy (some a) || truthy (some b)) := by
  cases a with
  | nil => simp [truthy_nil]
  | cons c cs => simp [truthy_cons]

theorem render_length (w : WItem) (hw : w.valid) : 2 ≤ w.render.length := by
  obtain ⟨⟨hne, _⟩, _⟩ := hw
  unfold WItem.render renderDigits
  cases h : w.ids with
  | nil => exact absurd h hne
  | cons d ds => simp; omega

theorem truthy_render (w : WItem) (hw : w.valid) : truthy (some w.render) = true := by
  have := render_length w hw
  cases h : w.render with
  | nil => rw [h] at this; simp at this
  | cons c cs => rfl

theorem truthy_optR (o : Option WItem) (u : Char) (h : ValidU u o) : truthy (some (optR o)) = o.isSome := by
  cases o with
  | none => rfl
  | some w => exact truthy_render w (h w rfl).1

theorem truthy_optG (o : Option WItem) (u : Char) (h : ValidU u o) : truthy (optG o) = o.isSome := by
  cases o with
  | none => rfl
  | some w => exact truthy_render w (h w rfl).1

theorem len_nonneg (o : Option WItem) : 0 ≤ len o := by unfold len; exact Int.natCast_nonneg _
theorem len_some (w : WItem) (hw : w.valid) : 2 ≤ len (some w) := by
  have := render_length w hw
  unfold len optR; simp; omega
theorem len_none : len none = 0 := rfl

theorem comp_none (w : WItem) (hw : w.valid) (u : Char) (hu : w.unit = u) (hfr : w.frac = none) :
    Gen.IsoPy.py_replace u [] (Gen.IsoPy.py_replace ',' ['.'] w.render) = renderDigits w.ids := by
  rw [← hu, comp_text w hw, hfr]; simp

theorem comp_some (w : WItem) (hw : w.valid) (u : Char) (hu : w.unit = u) (f : List Nat) (hfr : w.frac = some f) :
    Gen.IsoPy.py_replace u [] (Gen.IsoPy.py_replace ',' ['.'] w.render) = renderDigits w.ids ++ '.' :: renderDigits f := by
  rw [← hu, comp_text w hw, hfr]

theorem contains_dot_none (ds : List Nat) (h : digitsOk ds) : List.contains (renderDigits ds) '.' = false :=
  contains_render '.' digitVal_dot ds h.2

theorem notin_dot (ds : List Nat) (h : digitsOk ds) : '.' ∉ renderDigits ds := by
  have := contains_dot_none ds h
  simpa using this

theorem contains_dot_some (a r : Text) : List.contains (a ++ '.' :: r) '.' = true := by simp

theorem usW_eq : usW = (7 * 86400) * 1000000 := by decide
theorem usD_eq : usD = 86400 * 1000000 := by decide
theorem usH_eq : usH = 3600 * 1000000 := by decide
theorem usMi_eq : usMi = 60 * 1000000 := by decide
theorem usS_eq : usS = 1 * 1000000 := by decide

/-! ## the three sections -/

theorem weeks_tie {V : Type} (ext : Ext V) (hx : DigitOk ext) (g : WG) (hv : g.valid) :
    Gen.IsoPy.py_iso_duration_weeks ext (durGroups g) 0 0 =
      liftK (fun st => (((st.2.w : Nat) : Int), ((st.2.us : Nat) : Int))) (pyWeeks g.py) := by
  dtie "C13.iso_duration_weeks_source_eq_model" "iso8601.py::_parse_iso8601_duration (the `if m.group(\"w\"):` block)" =>
    obtain ⟨hw, hy, hmo, hd, hhms⟩ := hv
    unfold Gen.IsoPy.py_iso_duration_weeks pyWeeks
    obtain ⟨gw, gy, gmo, gd, ghms⟩ := g
    cases gw with
    | none => rfl
    | some w =>
      obtain ⟨hwv, hwu⟩ := hw w rfl
      have tw := truthy_render w hwv
      simp only [durGroups, optG, Option.map_some, tw, if_true, truthy_append, truthy_optR _ _ hy, truthy_optR _ _ hmo,
        truthy_optR _ _ hd, WG.py, itemOf, Option.getD_some]
      have thms : truthy (ghms.map fun x => 'T' :: (optR x.1 ++ (optR x.2.1 ++ optR x.2.2))) = ghms.isSome := by
        cases ghms <;> rfl
      rw [thms]
      cases gy <;> cases gmo <;> cases gd <;> cases ghms
      all_goals try (simp [liftK, itemOf]; done)
      simp only [Option.isSome_none, Bool.or_self, Bool.false_eq_true, if_false, tw, Bool.not_true, Option.map_none,
        or_self, if_false]
      cases hfr : w.frac with
      | none =>
        simp [comp_none w hwv 'W' hwu hfr, notin_dot _ hwv.1, py_int_render ext hx _ hwv.1, liftK, pyFrac, hfr]
      | some f =>
        have hfd := hwv.2.2.1 f hfr
        have hft := fraction_tie ext hx f hfd (7 * 86400)
        simp [Gen.py_DAYS_PER_WEEK, Gen.py_SECONDS_PER_DAY] at hft ⊢
        simp [comp_some w hwv 'W' hwu f hfr, split_render _ _ hwv.1.2 hfd.2, py_int_render ext hx _ hwv.1,
          liftK, pyFrac, hfr, usW_eq, hft]

/-- the `ymd` blocks of `pyEval` -/
def ymdM (g : PyGroups) (st0 : Bool × IsoDur.Parsed) : Except Kind (Bool × IsoDur.Parsed) :=
  match pyBlockYM (fun p v => { p with y := v }) g.y st0 with
  | .error k => .error k
  | .ok st1 =>
    match pyBlockYM (fun p v => { p with mo := v }) g.mo st1 with
    | .error k => .error k
    | .ok st2 => pyBlock true usD (fun p v => { p with d := v }) g.d st2

/-- the `hms` blocks of `pyEval` -/
def hmsMd (g : PyGroups) (st3 : Bool × IsoDur.Parsed) : Except Kind IsoDur.Parsed :=
  match g.hms with
  | none => .ok st3.2
  | some (h, mi, s) =>
    match pyBlock true usH (fun p v => { p with h := p.h + v }) h st3 with
    | .error k => .error k
    | .ok st4 =>
      match pyBlock true usMi (fun p v => { p with mi := p.mi + v }) mi st4 with
      | .error k => .error k
      | .ok st5 =>
        match pyBlock false usS (fun p v => { p with s := p.s + v }) s st5 with
        | .error k => .error k
        | .ok st6 => .ok st6.2

theorem pyEval_eq (g : PyGroups) :
    pyEval g = (match pyWeeks g with
      | .error k => .error k
      | .ok st0 => match ymdM g st0 with
        | .error k => .error k
        | .ok st3 => hmsMd g st3) := by
  unfold pyEval ymdM hmsMd
  cases pyWeeks g with
  | error k => rfl
  | ok st0 =>
    simp only [bind, Except.bind]
    cases pyBlockYM (fun p v => { p with y := v }) g.y st0 with
    | error k => rfl
    | ok st1 =>
      dsimp only
      cases pyBlockYM (fun p v => { p with mo := v }) g.mo st1 with
      | error k => rfl
      | ok st2 =>
        dsimp only
        cases pyBlock true usD (fun p v => { p with d := v }) g.d st2 with
        | error k => rfl
        | ok st3 =>
          dsimp only
          cases g.hms with
          | none => rfl
          | some x =>
            obtain ⟨h, mi, s⟩ := x
            dsimp only
            cases pyBlock true usH (fun p v => { p with h := p.h + v }) h st3 with
            | error k => rfl
            | ok st4 =>
              dsimp only
              cases pyBlock true usMi (fun p v => { p with mi := p.mi + v }) mi st4 with
              | error k => rfl
              | ok st5 =>
                dsimp only
                cases pyBlock false usS (fun p v => { p with s := p.s + v }) s st5 <;> rfl

theorem comp_none' (ids : List Nat) (sep unit : Char) (hw : (WItem.mk ids sep none unit).valid) :
    Gen.IsoPy.py_replace unit [] (Gen.IsoPy.py_replace ',' ['.'] (WItem.mk ids sep none unit).render) = renderDigits ids :=
  comp_none _ hw unit rfl rfl

theorem comp_some' (ids : List Nat) (sep unit : Char) (f : List Nat) (hw : (WItem.mk ids sep (some f) unit).valid) :
    Gen.IsoPy.py_replace unit [] (Gen.IsoPy.py_replace ',' ['.'] (WItem.mk ids sep (some f) unit).render) =
      renderDigits ids ++ '.' :: renderDigits f :=
  comp_some _ hw unit rfl f rfl

theorem ymd_tie {V : Type} (ext : Ext V) (hx : DigitOk ext) (g : WG) (hv : g.valid) (w0 us0 : Nat) :
    Gen.IsoPy.py_iso_duration_ymd ext (durGroups g) 0 false 0 0 (us0 : Int) =
      liftK (fun st => (((st.2.y : Nat) : Int), ((st.2.mo : Nat) : Int), st.1, ((st.2.d : Nat) : Int), ((st.2.us : Nat) : Int)))
        (ymdM g.py (false, { w := w0, us := us0 })) := by
  dtie "C13.iso_duration_ymd_source_eq_model" "iso8601.py::_parse_iso8601_duration (the `if m.group(\"ymd\"):` block)" =>
    obtain ⟨hw, hy, hmo, hd, hhms⟩ := hv
    unfold Gen.IsoPy.py_iso_duration_ymd ymdM
    obtain ⟨gw, gy, gmo, gd, ghms⟩ := g
    simp only [] at hy hmo hd
    have lw := len_nonneg gw
    rcases gy with _ | ⟨yi, ysep, _ | yf, yu⟩ <;> rcases gmo with _ | ⟨mi, msep, _ | mf, mu⟩ <;>
      rcases gd with _ | ⟨di, dsep, _ | df, du⟩ <;>
      (try obtain ⟨vy, rfl⟩ := hy _ rfl) <;> (try obtain ⟨vm, rfl⟩ := hmo _ rfl) <;> (try obtain ⟨vd, rfl⟩ := hd _ rfl) <;>
      (try have ly := len_some _ vy) <;> (try have lm := len_some _ vm) <;> (try have ld := len_some _ vd) <;>
      (try have ty := truthy_render _ vy) <;> (try have tm := truthy_render _ vm) <;> (try have td := truthy_render _ vd) <;>
      (try have cy := comp_none' _ _ _ vy) <;> (try have cy := comp_some' _ _ _ _ vy) <;>
      (try have cm := comp_none' _ _ _ vm) <;> (try have cm := comp_some' _ _ _ _ vm) <;>
      (try have cd := comp_none' _ _ _ vd) <;> (try have cd := comp_some' _ _ _ _ vd) <;>
      (try have iy := py_int_render ext hx _ vy.1) <;> (try have im := py_int_render ext hx _ vm.1) <;>
      (try have id := py_int_render ext hx _ vd.1) <;>
      (try have ny := notin_dot _ vy.1) <;> (try have nm := notin_dot _ vm.1) <;> (try have nd := notin_dot _ vd.1) <;>
      (try have fd := by simpa using fraction_tie ext hx _ (vd.2.2.1 _ rfl) 86400) <;>
      (try have sd := split_render _ _ vd.1.2 (vd.2.2.1 _ rfl).2) <;>
      simp [*, durGroups, optG, optR, startOf, truthy_append, truthy_nil, truthy_none, WG.py, itemOf, pyBlockYM, pyBlock,
        pyFrac, liftK, len_none, Gen.py_SECONDS_PER_DAY, usD_eq] <;>
      first | omega | (split <;> first | omega | (simp [*]; done))

theorem py_or0_optG (o : Option WItem) (u : Char) (h : ValidU u o) : Gen.IsoPy.py_or0 (optG o) = optG o := by
  unfold Gen.IsoPy.py_or0
  rw [truthy_optG o u h]
  cases o <;> rfl

theorem hms_tie {V : Type} (ext : Ext V) (hx : DigitOk ext) (g : WG) (hv : g.valid) (fr : Bool) (p0 : IsoDur.Parsed)
    (h0 : p0.h = 0 ∧ p0.mi = 0 ∧ p0.s = 0) :
    Gen.IsoPy.py_iso_duration_hms ext (durGroups g) fr 0 ((p0.us : Nat) : Int) 0 0 =
      liftK (fun p => (((p.h : Nat) : Int), ((p.us : Nat) : Int), ((p.mi : Nat) : Int), ((p.s : Nat) : Int)))
        (hmsMd g.py (fr, p0)) := by
  dtie "C13.iso_duration_hms_source_eq_model" "iso8601.py::_parse_iso8601_duration (the `if m.group(\"hms\"):` block)" =>
    obtain ⟨hw, hy, hmo, hd, hhms⟩ := hv
    obtain ⟨py, pmo, pw, pd, ph, pmi, ps, pus⟩ := p0
    obtain ⟨rfl, rfl, rfl⟩ := h0
    unfold Gen.IsoPy.py_iso_duration_hms hmsMd
    obtain ⟨gw, gy, gmo, gd, ghms⟩ := g
    cases ghms with
    | none => rfl
    | some x =>
      obtain ⟨gh, gmi, gs⟩ := x
      obtain ⟨hh, hmi, hs⟩ := hhms gh gmi gs rfl
      have lw := len_nonneg gw
      have ly := len_nonneg gy
      have lmo := len_nonneg gmo
      have ld := len_nonneg gd
      simp only [durGroups, Option.map_some, truthy_cons, if_true, hmsH, hmsM, hmsS, Option.bind_some,
        py_or0_optG _ _ hh, py_or0_optG _ _ hmi, py_or0_optG _ _ hs, WG.py]
      cases fr <;>
      rcases gh with _ | ⟨hi, hsep, _ | hf, hu⟩ <;> rcases gmi with _ | ⟨mi, msep, _ | mf, mu⟩ <;>
        rcases gs with _ | ⟨si, ssep, _ | sf, su⟩ <;>
        (try obtain ⟨vh, rfl⟩ := hh _ rfl) <;> (try obtain ⟨vm, rfl⟩ := hmi _ rfl) <;> (try obtain ⟨vs, rfl⟩ := hs _ rfl) <;>
        (try have lh := len_some _ vh) <;> (try have lm := len_some _ vm) <;> (try have ls := len_some _ vs) <;>
        (try have th := truthy_render _ vh) <;> (try have tm := truthy_render _ vm) <;> (try have ts := truthy_render _ vs) <;>
        (try have ch := comp_none' _ _ _ vh) <;> (try have ch := comp_some' _ _ _ _ vh) <;>
        (try have cm := comp_none' _ _ _ vm) <;> (try have cm := comp_some' _ _ _ _ vm) <;>
        (try have cs := comp_none' _ _ _ vs) <;> (try have cs := comp_some' _ _ _ _ vs) <;>
        (try have ih := py_int_render ext hx _ vh.1) <;> (try have im := py_int_render ext hx _ vm.1) <;>
        (try have is := py_int_render ext hx _ vs.1) <;>
        (try have nh := notin_dot _ vh.1) <;> (try have nm := notin_dot _ vm.1) <;> (try have ns := notin_dot _ vs.1) <;>
        (try have fh := by simpa using fraction_tie ext hx _ (vh.2.2.1 _ rfl) 3600) <;>
        (try have fm := by simpa using fraction_tie ext hx _ (vm.2.2.1 _ rfl) 60) <;>
        (try have fs := by simpa using fraction_tie ext hx _ (vs.2.2.1 _ rfl) 1) <;>
        (try have sh := split_render _ _ vh.1.2 (vh.2.2.1 _ rfl).2) <;>
        (try have sm := split_render _ _ vm.1.2 (vm.2.2.1 _ rfl).2) <;>
        (try have ss := split_render _ _ vs.1.2 (vs.2.2.1 _ rfl).2) <;>
        simp [*, optG, optR, startOf, truthy_none, itemOf, pyBlock, pyFrac, liftK, len_none, Gen.IsoPy.py_text,
          Gen.py_SECONDS_PER_HOUR, Gen.py_SECONDS_PER_MINUTE, usH_eq, usMi_eq, usS_eq] <;>
        first | omega | (split <;> first | omega | (simp [*]; done))

/-! ## the whole function -/

theorem pyWeeks_shape (g : PyGroups) (st0 : Bool × IsoDur.Parsed) (h : pyWeeks g = .ok st0) :
    st0.1 = false ∧ st0.2 = { w := st0.2.w, us := st0.2.us } := by
  unfold pyWeeks at h
  cases hw : g.w with
  | none => rw [hw] at h; simp at h; subst h; exact ⟨rfl, rfl⟩
  | some i =>
    rw [hw] at h
    simp only [] at h
    split at h
    · cases h
    · injection h with h
      subst h
      unfold pyFrac
      cases i.frac <;> exact ⟨rfl, rfl⟩

theorem pyBlockYM_frame (upd : IsoDur.Parsed → Nat → IsoDur.Parsed) (o : Option Item) (st st' : Bool × IsoDur.Parsed)
    (P : IsoDur.Parsed → IsoDur.Parsed → Prop) (h : pyBlockYM upd o st = .ok st') (hP : ∀ p, P p p)
    (hu : ∀ p v, P p (upd p v)) : P st.2 st'.2 := by
  unfold pyBlockYM at h
  cases o with
  | none => simp at h; subst h; exact hP _
  | some i =>
    simp only [] at h
    split at h
    · cases h
    · injection h with h; subst h; exact hu _ _

theorem pyBlock_frame (sf : Bool) (U : Nat) (upd : IsoDur.Parsed → Nat → IsoDur.Parsed) (o : Option Item)
    (st st' : Bool × IsoDur.Parsed) (P : IsoDur.Parsed → IsoDur.Parsed → Prop) (h : pyBlock sf U upd o st = .ok st')
    (hP : ∀ p, P p p) (hu : ∀ p v us, P p { upd p v with us := us }) : P st.2 st'.2 := by
  unfold pyBlock at h
  cases o with
  | none => simp at h; subst h; exact hP _
  | some i =>
    simp only [] at h
    split at h
    · cases h
    · injection h with h
      subst h
      unfold pyFrac
      cases i.frac with
      | none => have := hu st.2 i.int (upd st.2 i.int).us; simpa using this
      | some ds => exact hu _ _ _

/-- the `ymd` blocks leave the weeks and the time components alone -/
theorem ymdM_frame (g : PyGroups) (st0 st3 : Bool × IsoDur.Parsed) (h : ymdM g st0 = .ok st3) :
    st3.2.w = st0.2.w ∧ st3.2.h = st0.2.h ∧ st3.2.mi = st0.2.mi ∧ st3.2.s = st0.2.s := by
  unfold ymdM at h
  split at h
  · cases h
  · rename_i st1 h1
    split at h
    · cases h
    · rename_i st2 h2
      have f1 := pyBlockYM_frame _ _ _ _ (fun p q => q.w = p.w ∧ q.h = p.h ∧ q.mi = p.mi ∧ q.s = p.s)
        h1 (fun _ => ⟨rfl, rfl, rfl, rfl⟩) (fun _ _ => ⟨rfl, rfl, rfl, rfl⟩)
      have f2 := pyBlockYM_frame _ _ _ _ (fun p q => q.w = p.w ∧ q.h = p.h ∧ q.mi = p.mi ∧ q.s = p.s)
        h2 (fun _ => ⟨rfl, rfl, rfl, rfl⟩) (fun _ _ => ⟨rfl, rfl, rfl, rfl⟩)
      have f3 := pyBlock_frame _ _ _ _ _ _ (fun p q => q.w = p.w ∧ q.h = p.h ∧ q.mi = p.mi ∧ q.s = p.s)
        h (fun _ => ⟨rfl, rfl, rfl, rfl⟩) (fun _ _ _ => ⟨rfl, rfl, rfl, rfl⟩)
      try simp only [] at f1 f2 f3
      obtain ⟨a1, a2, a3, a4⟩ := f1
      obtain ⟨b1, b2, b3, b4⟩ := f2
      obtain ⟨c1, c2, c3, c4⟩ := f3
      exact ⟨by rw [c1, b1, a1], by rw [c2, b2, a2], by rw [c3, b3, a3], by rw [c4, b4, a4]⟩

/-- the `hms` blocks leave years, months, weeks and days alone -/
theorem hmsMd_frame (g : PyGroups) (st3 : Bool × IsoDur.Parsed) (p : IsoDur.Parsed) (h : hmsMd g st3 = .ok p) :
    p.y = st3.2.y ∧ p.mo = st3.2.mo ∧ p.w = st3.2.w ∧ p.d = st3.2.d := by
  unfold hmsMd at h
  split at h
  · injection h with h; subst h; exact ⟨rfl, rfl, rfl, rfl⟩
  · split at h
    · cases h
    · rename_i st4 h4
      split at h
      · cases h
      · rename_i st5 h5
        split at h
        · cases h
        · rename_i st6 h6
          injection h with h
          subst h
          have f1 := pyBlock_frame _ _ _ _ _ _ (fun p q => q.y = p.y ∧ q.mo = p.mo ∧ q.w = p.w ∧ q.d = p.d)
            h4 (fun _ => ⟨rfl, rfl, rfl, rfl⟩) (fun _ _ _ => ⟨rfl, rfl, rfl, rfl⟩)
          have f2 := pyBlock_frame _ _ _ _ _ _ (fun p q => q.y = p.y ∧ q.mo = p.mo ∧ q.w = p.w ∧ q.d = p.d)
            h5 (fun _ => ⟨rfl, rfl, rfl, rfl⟩) (fun _ _ _ => ⟨rfl, rfl, rfl, rfl⟩)
          have f3 := pyBlock_frame _ _ _ _ _ _ (fun p q => q.y = p.y ∧ q.mo = p.mo ∧ q.w = p.w ∧ q.d = p.d)
            h6 (fun _ => ⟨rfl, rfl, rfl, rfl⟩) (fun _ _ _ => ⟨rfl, rfl, rfl, rfl⟩)
          try simp only [] at f1 f2 f3
          obtain ⟨a1, a2, a3, a4⟩ := f1
          obtain ⟨b1, b2, b3, b4⟩ := f2
          obtain ⟨c1, c2, c3, c4⟩ := f3
          exact ⟨by rw [c1, b1, a1], by rw [c2, b2, a2], by rw [c3, b3, a3], by rw [c4, b4, a4]⟩

/-- `_parse_iso8601_duration` after the match, as regenerated: the model's `pyEval` on the groups, then `Duration(...)` on its
    components inside `try … except OverflowError: raise ParserError` -/
theorem duration_core {V : Type} (ext : Ext V) (hx : DigitOk ext) (g : WG) (hv : g.valid) :
    Gen.IsoPy.py_iso_duration ext (durGroups g) =
      (match pyEval g.py with
        | .ok p => tryExcept (ext.Duration (argsOf p)) [(["OverflowError"], fun _ => .error "ParserError")]
        | .error _ => .error "ParserError") := by
  dtie "C13.iso_duration_source_eq_model" "iso8601.py::_parse_iso8601_duration (after the match)" =>
    unfold Gen.IsoPy.py_iso_duration
    simp only []
    rw [weeks_tie ext hx g hv, pyEval_eq]
    cases hW : pyWeeks g.py with
    | error k => rfl
    | ok st0 =>
      obtain ⟨s1, s2⟩ := pyWeeks_shape _ _ hW
      have hy := ymd_tie ext hx g hv st0.2.w st0.2.us
      have e0 : (false, ({ w := st0.2.w, us := st0.2.us } : IsoDur.Parsed)) = st0 := by
        obtain ⟨a, b⟩ := st0
        simp only [] at s1 s2 ⊢
        rw [s1, ← s2]
      rw [e0] at hy
      simp only [liftK, bindE_ok, hy]
      cases hY : ymdM g.py st0 with
      | error k => rfl
      | ok st3 =>
        obtain ⟨f1, f2, f3, f4⟩ := ymdM_frame _ _ _ hY
        have hh := hms_tie ext hx g hv st3.1 st3.2 ⟨by rw [f2, s2], by rw [f3, s2], by rw [f4, s2]⟩
        simp only [liftK, bindE_ok, hh]
        cases hH : hmsMd g.py st3 with
        | error k => rfl
        | ok p =>
          obtain ⟨e1, e2, e3, e4⟩ := hmsMd_frame _ _ _ hH
          simp only [liftK, bindE_ok, argsOf]
          rw [← e1, ← e2, ← e4, ← f1, ← e3]

end Pendulum.IsoPyDurGen
