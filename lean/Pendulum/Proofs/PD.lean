import Pendulum.Proofs.CalRT
import Pendulum.Model.PreciseDiff
/-! Calendar core of C06: the year/month/day part of the (repaired) `precise_diff`, with the day borrowed by
the time-of-day part as a parameter, rebuilds the end date through `add_duration`'s month step + clamp. -/
namespace Pendulum.PreciseDiff
open Pendulum Pendulum.Cal

theorem dby_succ (y : Int) : daysBeforeYear (y + 1) = daysBeforeYear y + 365 + (if isLeap y then 1 else 0) := by
  unfold daysBeforeYear isLeap
  simp only [Int.add_sub_cancel]
  by_cases h4 : y % 4 = 0 <;> by_cases h100 : y % 100 = 0 <;> by_cases h400 : y % 400 = 0 <;>
    simp [h4, h100, h400] <;> omega

theorem dbm_succ (leap : Bool) (m : Int) (h1 : 1 ≤ m) (h2 : m ≤ 11) :
    daysBeforeMonth leap (m + 1) = daysBeforeMonth leap m + dimL leap m := by
  have : m = 1 ∨ m = 2 ∨ m = 3 ∨ m = 4 ∨ m = 5 ∨ m = 6 ∨ m = 7 ∨ m = 8 ∨ m = 9 ∨ m = 10 ∨ m = 11 := by omega
  rcases this with h|h|h|h|h|h|h|h|h|h|h <;> subst h <;> cases leap <;> simp [daysBeforeMonth, dimL]

/-- lexicographic order on dates -/
def dateLe (y1 m1 d1 y2 m2 d2 : Int) : Prop :=
  y1 < y2 ∨ (y1 = y2 ∧ (m1 < m2 ∨ (m1 = m2 ∧ d1 ≤ d2)))

/-- `add_duration`'s year/month step for a canonical month count, followed by the day clamp -/
def addYMc (y m d years months : Int) : Int × Int × Int :=
  let y' := y + years
  let m' := m + months
  let y'' := if m' > 12 then y' + 1 else y'
  let m'' := if m' > 12 then m' - 12 else m'
  (y'', m'', min (dimL (isLeap y'') m'') d)

/-- the year/month/day part over the reference month lengths -/
def dateDiffL (y1 m1 d1 y2 m2 d2 br : Int) : Int × Int × Int :=
  dateDiff (fun y m => dimL (isLeap y) m) y1 m1 d1 y2 m2 d2 br

theorem dateDiff_rebuild (y1 m1 d1 y2 m2 d2 br : Int)
    (ha : validDate y1 m1 d1) (hb : validDate y2 m2 d2) (hbr : br = 0 ∨ br = -1)
    (hle : dateLe y1 m1 d1 y2 m2 d2) (hne : br = -1 → ¬ (y1 = y2 ∧ m1 = m2 ∧ d1 = d2)) :
    let r := dateDiffL y1 m1 d1 y2 m2 d2 br
    let a := addYMc y1 m1 d1 r.1 r.2.1
    0 ≤ r.1 ∧ 0 ≤ r.2.1 ∧ r.2.1 ≤ 11 ∧ 0 ≤ r.2.2 ∧ r.2.2 ≤ 30 ∧
    ymd2ord a.1 a.2.1 a.2.2 + r.2.2 = ymd2ord y2 m2 d2 + br ∧
    y1 ≤ a.1 ∧ a.1 ≤ y2 ∧ 1 ≤ a.2.1 ∧ a.2.1 ≤ 12 := by
  obtain ⟨ha1, ha2, ha3, ha4⟩ := ha
  obtain ⟨hb1, hb2, hb3, hb4⟩ := hb
  rw [daysInMonth_eq] at ha4 hb4
  have hdim1 := dimL_pos (isLeap y1) m1
  have hdim2 := dimL_pos (isLeap y2) m2
  unfold dateLe at hle
  simp only [dateDiffL, dateDiff, addYMc]
  by_cases hdd : br + (d2 - d1) < 0
  · by_cases hfull : d2 = dimL (isLeap y2) m2 ∧ d2 - d1 = br + (d2 - d1)
    · -- clamped full month: anchor is (y2, m2, d2)
      have hbr0 : br = 0 := by omega
      by_cases hmd : m2 - m1 + 1 - 1 < 0
      · simp only [if_pos hdd, if_pos hfull, if_pos hmd]
        have e1 : m1 + (m2 - m1 + 1 - 1 + 12) > 12 := by omega
        have e2 : y1 + (y2 - y1 - 1) + 1 = y2 := by omega
        have e3 : m1 + (m2 - m1 + 1 - 1 + 12) - 12 = m2 := by omega
        simp only [if_pos e1, e2, e3]
        have e4 : min (dimL (isLeap y2) m2) d1 = d2 := by omega
        rw [e4]
        refine ⟨by omega, by omega, by omega, by omega, by omega, by omega, by omega, by omega, by omega, by omega⟩
      · simp only [if_pos hdd, if_pos hfull, if_neg hmd]
        have e1 : ¬ (m2 > 12) := by omega
        have e2 : y1 + (y2 - y1) = y2 := by omega
        have e3 : m1 + (m2 - m1 + 1 - 1) = m2 := by omega
        simp only [e2, e3, if_neg e1]
        have e4 : min (dimL (isLeap y2) m2) d1 = d2 := by omega
        rw [e4]
        refine ⟨by omega, by omega, by omega, by omega, by omega, by omega, by omega, by omega, by omega, by omega⟩
    · -- borrow from the month before (y2, m2)
      simp only [if_pos hdd, if_neg hfull]
      by_cases hm1 : m2 = 1
      · subst hm1
        have hmd : (1:Int) - m1 - 1 < 0 := by omega
        simp only [if_pos hmd, if_true]
        have e2 : y1 + (y2 - y1 - 1) = y2 - 1 := by omega
        have e3 : m1 + (1 - m1 - 1 + 12) = 12 := by omega
        simp only [e2, e3]
        have h12 : ¬ ((12:Int) > 12) := by omega
        simp only [if_neg h12]
        have hd12 : dimL (isLeap (y2 - 1)) 12 = 31 := by simp [dimL]
        have hd1 : dimL (isLeap y2) 1 = 31 := by simp [dimL]
        rw [hd12]
        have hs := dby_succ (y2 - 1)
        simp only [Int.sub_add_cancel] at hs
        unfold ymd2ord
        have hb12 : daysBeforeMonth (isLeap (y2 - 1)) 12 = 334 + (if isLeap (y2 - 1) then 1 else 0) := by
          simp [daysBeforeMonth]
        have hb1 : daysBeforeMonth (isLeap y2) 1 = 0 := by simp [daysBeforeMonth]
        rw [hb12, hb1, hs]
        rw [hd1] at hb4
        have hy : y1 < y2 := by
          rcases hle with h | ⟨h, h' | ⟨h', h''⟩⟩
          · exact h
          · omega
          · exfalso; rcases hbr with hb0 | hb0
            · omega
            · exact hne hb0 ⟨h, by omega, by omega⟩
        refine ⟨by omega, by omega, by omega, by omega, by omega, by omega, by omega, by omega, by omega, by omega⟩
      · have hm2 : 2 ≤ m2 := by omega
        simp only [if_neg hm1]
        have hsucc := dbm_succ (isLeap y2) (m2 - 1) (by omega) (by omega)
        simp only [Int.sub_add_cancel] at hsucc
        have hdimp := dimL_pos (isLeap y2) (m2 - 1)
        by_cases hmd : m2 - m1 - 1 < 0
        · simp only [if_pos hmd]
          have e1 : m1 + (m2 - m1 - 1 + 12) > 12 := by omega
          have e2 : y1 + (y2 - y1 - 1) + 1 = y2 := by omega
          have e3 : m1 + (m2 - m1 - 1 + 12) - 12 = m2 - 1 := by omega
          simp only [if_pos e1, e2, e3]
          unfold ymd2ord
          rw [hsucc]
          have hy : y1 < y2 := by
            rcases hle with h | ⟨h, h' | ⟨h', h''⟩⟩
            · exact h
            · omega
            · exfalso; rcases hbr with hb0 | hb0
              · omega
              · exact hne hb0 ⟨h, h', by omega⟩
          refine ⟨by omega, by omega, by omega, by omega, by omega, by omega, by omega, by omega, by omega, by omega⟩
        · simp only [if_neg hmd]
          have e1 : ¬ (m2 - 1 > 12) := by omega
          have e2 : y1 + (y2 - y1) = y2 := by omega
          have e3 : m1 + (m2 - m1 - 1) = m2 - 1 := by omega
          simp only [e2, e3, if_neg e1]
          unfold ymd2ord
          rw [hsucc]
          have hy : y1 ≤ y2 := by
            rcases hle with h | ⟨h, _⟩ <;> omega
          refine ⟨by omega, by omega, by omega, by omega, by omega, by omega, by omega, by omega, by omega, by omega⟩
  · -- no borrow: anchor is (y2, m2, d1)
    simp only [if_neg hdd]
    by_cases hmd : m2 - m1 < 0
    · simp only [if_pos hmd]
      have e1 : m1 + (m2 - m1 + 12) > 12 := by omega
      have e2 : y1 + (y2 - y1 - 1) + 1 = y2 := by omega
      have e3 : m1 + (m2 - m1 + 12) - 12 = m2 := by omega
      simp only [if_pos e1, e2, e3]
      have e4 : min (dimL (isLeap y2) m2) d1 = d1 := by omega
      rw [e4]; unfold ymd2ord
      have hy : y1 < y2 := by
        rcases hle with h | ⟨h, h' | ⟨h', h''⟩⟩ <;> omega
      refine ⟨by omega, by omega, by omega, by omega, by omega, by omega, by omega, by omega, by omega, by omega⟩
    · simp only [if_neg hmd]
      have e1 : ¬ (m2 > 12) := by omega
      have e2 : y1 + (y2 - y1) = y2 := by omega
      have e3 : m1 + (m2 - m1) = m2 := by omega
      simp only [e2, e3, if_neg e1]
      have e4 : min (dimL (isLeap y2) m2) d1 = d1 := by omega
      rw [e4]; unfold ymd2ord
      have hy : y1 ≤ y2 := by
        rcases hle with h | ⟨h, _⟩ <;> omega
      refine ⟨by omega, by omega, by omega, by omega, by omega, by omega, by omega, by omega, by omega, by omega⟩

end Pendulum.PreciseDiff
