import Pendulum.Proofs.WeekNav2
/-! DateTime level of C16: when the wall times the algorithm constructs are not skipped in the zone
(`Plain`), the zone-aware functions land on the Date-level result at 00:00 (or at the kept time). -/
namespace Pendulum.WeekNav
open Pendulum Pendulum.Cal Pendulum.DTOps

/-- the wall value `w` is constructed unchanged by `DateTime.create` in zone reference `z`
    (whatever fold is passed): it is not skipped and lies inside years 1..9999 -/
def Plain (z : ZRef) (w : Int) : Prop := ∀ f, ∃ f', create z w f false = .ok ⟨z, w, f'⟩

/-- `Plain` on the midnights and on the time of day `t` of all days `lo..hi` -/
def RegularOn (z : ZRef) (t lo hi : Int) : Prop :=
  ∀ k, lo ≤ k → k ≤ hi → Plain z (wallOf k 0) ∧ Plain z (wallOf k t)

theorem plain_naive (w : Int) : Plain .naive w := fun f => ⟨f, rfl⟩
theorem plain_fixed (off w : Int) : Plain (.fixed off) w := fun _ => ⟨false, rfl⟩

/-- for a named zone: not skipped (the code's own test `offset_after > offset_before` fails) and in range -/
theorem plain_named (zt : Zone.Z) (w : Int) (hs : ¬ zt.woff true w > zt.woff false w) (hr : inRange w = true) :
    Plain (.named zt) w := by
  intro f
  refine ⟨f, ?_⟩
  unfold create Zone.convertNaive
  simp only [hs, if_false]
  simp [hr]

/-- conversely a skipped wall value is never `Plain` -/
theorem not_plain_of_skipped (zt : Zone.Z) (w : Int) (hs : zt.woff true w > zt.woff false w) :
    ¬ Plain (.named zt) w := by
  intro h
  obtain ⟨f', hf⟩ := h true
  unfold create Zone.convertNaive at hf
  simp only [hs, if_true, Bool.false_eq_true, if_false] at hf
  split at hf
  · injection hf with hf
    injection hf with _ hw _
    omega
  · cases hf

theorem dayOrd_wallOf (o t : Int) (ht : 0 ≤ t ∧ t < DAY) : dayOrd (wallOf o t) = o ∧ tod (wallOf o t) = t := by
  unfold dayOrd tod wallOf DAY at *; omega

theorem wallOf_split (w : Int) : wallOf (dayOrd w) (tod w) = w := by
  unfold dayOrd tod wallOf DAY; omega

theorem tod_range (w : Int) : 0 ≤ tod w ∧ tod w < DAY := by unfold tod DAY; omega

theorem wallOf_add (o t n : Int) : wallOf o t + n * DAY = wallOf (o + n) t := by
  unfold wallOf DAY; omega

theorem startOfDay_plain (v : V) (h : Plain v.z (wallOf (dayOrd v.w) 0)) :
    ∃ f', startOfDay v = .ok ⟨v.z, wallOf (dayOrd v.w) 0, f'⟩ := h v.fold

theorem addDays_plain (v : V) (n : Int) (h : Plain v.z (v.w + n * DAY)) :
    ∃ f', addDays v n = .ok ⟨v.z, v.w + n * DAY, f'⟩ := h true

theorem setYMD_plain (v : V) (y m d : Int) (hv : validDate y m d)
    (h : Plain v.z (wallOf (ymd2ord y m d) (tod v.w))) :
    ∃ f', setYMD v y m d = .ok ⟨v.z, wallOf (ymd2ord y m d) (tod v.w), f'⟩ := by
  unfold setYMD; rw [if_pos hv]; exact h v.fold

theorem bind_ok {α β ε : Type} (a : α) (f : α → Except ε β) : (Except.ok a : Except ε α).bind f = f a := rfl

/-- `DateTime.next(wd)` -/
theorem dtNext_plain (v : V) (wd : Int) (hwd : 0 ≤ wd ∧ wd ≤ 6)
    (hs : Plain v.z (wallOf (dayOrd v.w) 0)) (ht : Plain v.z (wallOf (next (dayOrd v.w) wd) 0)) :
    ∃ f', dtNext v wd false = .ok ⟨v.z, wallOf (next (dayOrd v.w) wd) 0, f'⟩ := by
  obtain ⟨f1, h1⟩ := startOfDay_plain v hs
  unfold dtNext
  simp only [Bool.false_eq_true, if_false, h1, bind_ok]
  have hd := dayOrd_wallOf (dayOrd v.w) 0 (by unfold DAY; omega)
  have e : wallOf (dayOrd v.w) 0 + ((wd - vdow ⟨v.z, wallOf (dayOrd v.w) 0, f1⟩ - 1) % 7 + 1) * DAY
      = wallOf (next (dayOrd v.w) wd) 0 := by
    rw [wallOf_add]; unfold vdow; simp only [hd.1]
    rw [(next_closed (dayOrd v.w) wd hwd)]; unfold firstIn dow; congr 1; omega
  have := addDays_plain ⟨v.z, wallOf (dayOrd v.w) 0, f1⟩ ((wd - vdow ⟨v.z, wallOf (dayOrd v.w) 0, f1⟩ - 1) % 7 + 1)
    (by simp only [e]; exact ht)
  simp only [e] at this
  exact this

theorem dtNext_keep_plain (v : V) (wd : Int) (hwd : 0 ≤ wd ∧ wd ≤ 6)
    (ht : Plain v.z (wallOf (next (dayOrd v.w) wd) (tod v.w))) :
    ∃ f', dtNext v wd true = .ok ⟨v.z, wallOf (next (dayOrd v.w) wd) (tod v.w), f'⟩ := by
  unfold dtNext
  simp only [if_true, bind_ok]
  have e : v.w + ((wd - vdow v - 1) % 7 + 1) * DAY = wallOf (next (dayOrd v.w) wd) (tod v.w) := by
    conv => lhs; rw [← wallOf_split v.w]
    rw [wallOf_add]; unfold vdow
    rw [(next_closed (dayOrd v.w) wd hwd)]; unfold firstIn dow; congr 1; omega
  have := addDays_plain v ((wd - vdow v - 1) % 7 + 1) (by rw [e]; exact ht)
  rw [e] at this
  exact this

/-- `DateTime.previous(wd)` -/
theorem dtPrevious_plain (v : V) (wd : Int) (hwd : 0 ≤ wd ∧ wd ≤ 6)
    (hs : Plain v.z (wallOf (dayOrd v.w) 0)) (ht : Plain v.z (wallOf (previous (dayOrd v.w) wd) 0)) :
    ∃ f', dtPrevious v wd false = .ok ⟨v.z, wallOf (previous (dayOrd v.w) wd) 0, f'⟩ := by
  obtain ⟨f1, h1⟩ := startOfDay_plain v hs
  unfold dtPrevious
  simp only [Bool.false_eq_true, if_false, h1, bind_ok]
  have hd := dayOrd_wallOf (dayOrd v.w) 0 (by unfold DAY; omega)
  have e : wallOf (dayOrd v.w) 0 + (-((vdow ⟨v.z, wallOf (dayOrd v.w) 0, f1⟩ - wd - 1) % 7 + 1)) * DAY
      = wallOf (previous (dayOrd v.w) wd) 0 := by
    rw [wallOf_add]; unfold vdow; simp only [hd.1]
    rw [(previous_closed (dayOrd v.w) wd hwd)]; unfold lastIn dow; congr 1; omega
  have := addDays_plain ⟨v.z, wallOf (dayOrd v.w) 0, f1⟩ (-((vdow ⟨v.z, wallOf (dayOrd v.w) 0, f1⟩ - wd - 1) % 7 + 1))
    (by simp only [e]; exact ht)
  simp only [e] at this
  exact this

theorem dtPrevious_keep_plain (v : V) (wd : Int) (hwd : 0 ≤ wd ∧ wd ≤ 6)
    (ht : Plain v.z (wallOf (previous (dayOrd v.w) wd) (tod v.w))) :
    ∃ f', dtPrevious v wd true = .ok ⟨v.z, wallOf (previous (dayOrd v.w) wd) (tod v.w), f'⟩ := by
  unfold dtPrevious
  simp only [if_true, bind_ok]
  have e : v.w + (-((vdow v - wd - 1) % 7 + 1)) * DAY = wallOf (previous (dayOrd v.w) wd) (tod v.w) := by
    conv => lhs; rw [← wallOf_split v.w]
    rw [wallOf_add]; unfold vdow
    rw [(previous_closed (dayOrd v.w) wd hwd)]; unfold lastIn dow; congr 1; omega
  have := addDays_plain v (-((vdow v - wd - 1) % 7 + 1)) (by rw [e]; exact ht)
  rw [e] at this
  exact this

theorem firstDom_valid (y m wd : Int) (hm : 1 ≤ m ∧ m ≤ 12) (hwd : 0 ≤ wd ∧ wd ≤ 6) : validDate y m (firstDom y m wd) := by
  have h := firstDom_eq y m wd hwd
  have hd := dimL_pos (isLeap y) m; rw [← daysInMonth_eq] at hd
  exact ⟨hm.1, hm.2, by omega, by omega⟩

theorem lastDom_valid (y m wd : Int) (hm : 1 ≤ m ∧ m ≤ 12) (hwd : 0 ≤ wd ∧ wd ≤ 6) : validDate y m (lastDom y m wd) := by
  have h := lastDom_eq y m wd hwd
  have hd := dimL_pos (isLeap y) m; rw [← daysInMonth_eq] at hd
  exact ⟨hm.1, hm.2, by omega, by omega⟩

/-- `DateTime.first_of("month", wd)` -/
theorem dtFirstOfMonth_plain (v : V) (wd : Option Int) (hwd : ∀ w, wd = some w → 0 ≤ w ∧ w ≤ 6)
    (hs : Plain v.z (wallOf (dayOrd v.w) 0)) (ht : Plain v.z (wallOf (firstOfMonth (dayOrd v.w) wd) 0)) :
    ∃ f', dtFirstOfMonth v wd = .ok ⟨v.z, wallOf (firstOfMonth (dayOrd v.w) wd) 0, f'⟩ := by
  obtain ⟨f1, h1⟩ := startOfDay_plain v hs
  obtain ⟨y, m, d, hf, hv, he⟩ := fields_of (dayOrd v.w)
  have hm : 1 ≤ m ∧ m ≤ 12 := ⟨hv.1, hv.2.1⟩
  have hd := dayOrd_wallOf (dayOrd v.w) 0 (by unfold DAY; omega)
  unfold dtFirstOfMonth
  simp only [h1, bind_ok, ymdOf, hd.1, hf]
  unfold firstOfMonth at ht ⊢
  simp only [hf] at ht ⊢
  cases wd with
  | none =>
    simp only at ht ⊢
    have := setYMD_plain ⟨v.z, wallOf (dayOrd v.w) 0, f1⟩ y m 1 (valid_first y m hm) (by simp only [hd.2]; exact ht)
    simp only [hd.2] at this; exact this
  | some w =>
    simp only at ht ⊢
    have := setYMD_plain ⟨v.z, wallOf (dayOrd v.w) 0, f1⟩ y m (firstDom y m w) (firstDom_valid y m w hm (hwd w rfl))
      (by simp only [hd.2]; exact ht)
    simp only [hd.2] at this; exact this

/-- `DateTime.last_of("month", wd)` -/
theorem dtLastOfMonth_plain (v : V) (wd : Option Int) (hwd : ∀ w, wd = some w → 0 ≤ w ∧ w ≤ 6)
    (hs : Plain v.z (wallOf (dayOrd v.w) 0)) (ht : Plain v.z (wallOf (lastOfMonth (dayOrd v.w) wd) 0)) :
    ∃ f', dtLastOfMonth v wd = .ok ⟨v.z, wallOf (lastOfMonth (dayOrd v.w) wd) 0, f'⟩ := by
  obtain ⟨f1, h1⟩ := startOfDay_plain v hs
  obtain ⟨y, m, d, hf, hv, he⟩ := fields_of (dayOrd v.w)
  have hm : 1 ≤ m ∧ m ≤ 12 := ⟨hv.1, hv.2.1⟩
  have hd := dayOrd_wallOf (dayOrd v.w) 0 (by unfold DAY; omega)
  unfold dtLastOfMonth
  simp only [h1, bind_ok, ymdOf, hd.1, hf]
  unfold lastOfMonth at ht ⊢
  simp only [hf] at ht ⊢
  cases wd with
  | none =>
    simp only at ht ⊢
    have := setYMD_plain ⟨v.z, wallOf (dayOrd v.w) 0, f1⟩ y m (daysInMonth y m) (valid_last y m hm) (by simp only [hd.2]; exact ht)
    simp only [hd.2] at this; exact this
  | some w =>
    simp only at ht ⊢
    have := setYMD_plain ⟨v.z, wallOf (dayOrd v.w) 0, f1⟩ y m (lastDom y m w) (lastDom_valid y m w hm (hwd w rfl))
      (by simp only [hd.2]; exact ht)
    simp only [hd.2] at this; exact this

theorem iterNext_bounds (n : Nat) : ∀ (o wd : Int), 0 ≤ wd ∧ wd ≤ 6 → o ≤ iterNext n o wd ∧ iterNext n o wd ≤ o + 7 * n := by
  induction n with
  | zero => intro o wd _; simp [iterNext]
  | succ n ih =>
    intro o wd hwd
    obtain ⟨_, h2, h3, _⟩ := next_spec' o wd hwd
    have := ih (next o wd) wd hwd
    simp only [iterNext]; omega

/-- `for _ in range(n): dt = dt.next(wd)` on a value sitting at midnight of day `k` -/
theorem dtIterNext_plain (n : Nat) : ∀ (z : ZRef) (k : Int) (f : Bool) (wd : Int), 0 ≤ wd ∧ wd ≤ 6 →
    (∀ j, k ≤ j → j ≤ k + 7 * n → Plain z (wallOf j 0)) →
    ∃ f', dtIterNext n ⟨z, wallOf k 0, f⟩ wd = .ok ⟨z, wallOf (iterNext n k wd) 0, f'⟩ := by
  induction n with
  | zero => intro z k f wd _ _; exact ⟨f, rfl⟩
  | succ n ih =>
    intro z k f wd hwd hp
    have hd := dayOrd_wallOf k 0 (by unfold DAY; omega)
    obtain ⟨_, h2, h3, _⟩ := next_spec' k wd hwd
    obtain ⟨f1, h1⟩ := dtNext_plain ⟨z, wallOf k 0, f⟩ wd hwd
      (by simp only [hd.1]; exact hp k (by omega) (by omega))
      (by simp only [hd.1]; exact hp _ (by omega) (by omega))
    simp only [hd.1] at h1
    simp only [dtIterNext, iterNext, h1, bind_ok]
    exact ih z (next k wd) f1 wd hwd (fun j a b => hp j (by omega) (by omega))

/-- `DateTime.nth_of("month", n, wd)`: when the midnights of the days `first of month … + 7 n`, the midnight of the
    instance's day and the instance's time of day on those days are all constructible unchanged, the result is the
    Date-level result at 00:00 in the same zone (and `PendulumException` in exactly the same cases) -/
theorem dtNthOfMonth_plain (v : V) (nth : Nat) (wd : Int) (hn : 1 ≤ nth) (hwd : 0 ≤ wd ∧ wd ≤ 6)
    (hs : Plain v.z (wallOf (dayOrd v.w) 0))
    (hp : RegularOn v.z (tod v.w) (uLo .month (dayOrd v.w)) (uLo .month (dayOrd v.w) + 7 * nth)) :
    (∃ r f', nthOfMonth (dayOrd v.w) nth wd = some r ∧ dtNthOfMonth v nth wd = .ok (some ⟨v.z, wallOf r 0, f'⟩)) ∨
    (nthOfMonth (dayOrd v.w) nth wd = none ∧ dtNthOfMonth v nth wd = .ok none) := by
  have hlen := unit_len .month (dayOrd v.w)
  have hfi := firstIn_spec (uLo .month (dayOrd v.w)) wd hwd
  by_cases h1 : nth = 1
  · subst h1
    left
    have hfo : firstOfMonth (dayOrd v.w) (some wd) = firstIn (uLo .month (dayOrd v.w)) wd := firstOfMonth_some _ _ hwd
    obtain ⟨f', h⟩ := dtFirstOfMonth_plain v (some wd) (by intro w hw; cases hw; exact hwd) hs
      (by rw [hfo]; exact (hp _ (by omega) (by omega)).1)
    refine ⟨_, f', by unfold nthOfMonth; rw [if_pos rfl], ?_⟩
    unfold dtNthOfMonth; rw [if_pos rfl, h]; rfl
  · obtain ⟨y, m, d, hf, hv, he⟩ := fields_of (dayOrd v.w)
    have hm : 1 ≤ m ∧ m ≤ 12 := ⟨hv.1, hv.2.1⟩
    have hlo : firstOfMonth (dayOrd v.w) none = ymd2ord y m 1 := by simp only [firstOfMonth, hf]
    have hlo' : uLo .month (dayOrd v.w) = ymd2ord y m 1 := by simp only [uLo, hf]
    rw [hlo'] at hp hfi hlen
    have hhi' : uHi .month (dayOrd v.w) = ymd2ord y m 1 + daysInMonth y m - 1 := by simp only [uHi, hf]
    obtain ⟨f0, h0⟩ := dtFirstOfMonth_plain v none (by intro w hw; cases hw) hs
      (by rw [hlo]; exact (hp _ (by omega) (by omega)).1)
    rw [hlo] at h0
    have hd0 := dayOrd_wallOf (ymd2ord y m 1) 0 (by unfold DAY; omega)
    have hj1 := ord2ymd_ymd2ord y m 1 (valid_first y m hm)
    -- the walk
    have hcnt : nth - (if dow (ymd2ord y m 1) = wd then 1 else 0) ≤ nth := by split <;> omega
    obtain ⟨f2, h2⟩ := dtIterNext_plain (nth - (if dow (ymd2ord y m 1) = wd then 1 else 0)) v.z (ymd2ord y m 1) f0 wd hwd
      (fun j a b => (hp j a (by omega)).1)
    have hr := iterNext_nth (ymd2ord y m 1) wd nth hn hwd
    generalize hrr : iterNext (nth - (if dow (ymd2ord y m 1) = wd then 1 else 0)) (ymd2ord y m 1) wd = r at h2 hr
    have hge : ymd2ord y m 1 ≤ r := by omega
    have hle : r ≤ ymd2ord y m 1 + 7 * nth := by omega
    have hdr := dayOrd_wallOf r 0 (by unfold DAY; omega)
    unfold dtNthOfMonth nthOfMonth
    simp only [h1, if_false, h0, bind_ok, ymdOf, hd0.1, hj1, vdow, hf, hlo, hrr, h2, hdr.1]
    by_cases hin : r ≤ ymd2ord y m 1 + daysInMonth y m - 1
    · left
      have hday := day_in_month y m r hm ⟨hge, hin⟩
      simp only [hday, and_self, if_true]
      have hvd : validDate y m (r - ymd2ord y m 1 + 1) := ⟨hm.1, hm.2, by omega, by omega⟩
      have hord : ymd2ord y m (r - ymd2ord y m 1 + 1) = r := by rw [ord_eq]; omega
      obtain ⟨f3, h3⟩ := setYMD_plain v y m _ hvd (by rw [hord]; exact (hp r hge hle).2)
      rw [hord] at h3
      have htr := tod_range v.w
      have hd3 := dayOrd_wallOf r (tod v.w) htr
      obtain ⟨f4, h4⟩ := startOfDay_plain ⟨v.z, wallOf r (tod v.w), f3⟩ (by simp only [hd3.1]; exact (hp r hge hle).1)
      simp only [hd3.1] at h4
      refine ⟨r, f4, by rw [hord], ?_⟩
      rw [h3, bind_ok, h4]; rfl
    · right
      have : ¬ ((ord2ymd r).1 = y ∧ (ord2ymd r).2.1 = m) := fun h => hin ((in_month_iff y m r hm).mp h).2
      simp only [this, if_false, and_self]

end Pendulum.WeekNav
