import Pendulum.Proofs.WeekNav2
import Pendulum.Proofs.StartOf
/-! DateTime level of C16 on the repaired tree: every function (without `keep_time`) returns
`_boundary` (`StartOf.edge`) of the Date-level result; `boundaryOrd` is characterised through the lemmas of
`Proofs/StartOf.lean` (`edge_start_eq`, `startVal`). -/
namespace Pendulum.WeekNav
open Pendulum Pendulum.Cal Pendulum.DTOps

theorem dayOrd_wallOf (o t : Int) (ht : 0 ≤ t ∧ t < DAY) : dayOrd (wallOf o t) = o ∧ tod (wallOf o t) = t := by
  unfold dayOrd tod wallOf DAY at *; omega

theorem wallOf_split (w : Int) : wallOf (dayOrd w) (tod w) = w := by
  unfold dayOrd tod wallOf DAY; omega

theorem tod_range (w : Int) : 0 ≤ tod w ∧ tod w < DAY := by unfold tod DAY; omega

theorem wallOf_add (o t n : Int) : wallOf o t + n * DAY = wallOf (o + n) t := by
  unfold wallOf DAY; omega

theorem bind_ok {α β ε : Type} (a : α) (f : α → Except ε β) : (Except.ok a : Except ε α).bind f = f a := rfl

theorem boundaryYMD_valid (v : V) (y m d : Int) (hv : validDate y m d) :
    boundaryYMD v y m d = boundaryOrd v (ymd2ord y m d) := by unfold boundaryYMD; rw [if_pos hv]

/-- `_boundary` depends on the instance only through its zone and fold -/
theorem boundaryOrd_congr (v v' : V) (o : Int) (hz : v.z = v'.z) (hf : v.fold = v'.fold) :
    boundaryOrd v o = boundaryOrd v' o := by unfold boundaryOrd; rw [hz, hf]

/-! ### what `_boundary` returns -/

theorem boundaryOrd_naive (w : Int) (f : Bool) (o : Int) :
    boundaryOrd ⟨.naive, w, f⟩ o = .ok ⟨.naive, wallOf o 0, f⟩ := rfl

theorem boundaryOrd_fixed (off w : Int) (f : Bool) (o : Int) :
    boundaryOrd ⟨.fixed off, w, f⟩ o = .ok ⟨.fixed off, wallOf o 0, false⟩ := rfl

theorem boundaryOrd_named (zt : Zone.Z) (w : Int) (f : Bool) (o : Int) :
    boundaryOrd ⟨.named zt, w, f⟩ o =
      if inRange (StartOf.startVal zt (wallOf o 0) f).w then .ok (StartOf.startVal zt (wallOf o 0) f)
      else .error .overflow := StartOf.edge_start_eq zt (wallOf o 0) f

/-- wall time of the value `_boundary` builds: 00:00 of the day, moved forward by the length of the gap when
    00:00 is skipped — the same for both folds of the instance -/
theorem startVal_wall (zt : Zone.Z) (T : Int) (f : Bool) :
    (StartOf.startVal zt T f).w =
      if zt.woff true T > zt.woff false T then T + (zt.woff true T - zt.woff false T) else T := by
  unfold StartOf.startVal
  split
  · rfl
  · split <;> rfl

/-! ### next / previous -/

theorem one_step (o wd : Int) (hwd : 0 ≤ wd ∧ wd ≤ 6) :
    next o wd = o + ((wd - dow o - 1) % 7 + 1) ∧ previous o wd = o - ((dow o - wd - 1) % 7 + 1) := by
  have h1 := next_closed o wd hwd
  have h2 := previous_closed o wd hwd
  unfold firstIn lastIn dow at *; omega

theorem dtNext_eq (v : V) (wd : Int) (hwd : 0 ≤ wd ∧ wd ≤ 6) :
    dtNext v wd false = boundaryOrd v (next (dayOrd v.w) wd) := by
  unfold dtNext vdow
  simp only [Bool.false_eq_true, if_false]
  rw [(one_step (dayOrd v.w) wd hwd).1]

theorem dtPrevious_eq (v : V) (wd : Int) (hwd : 0 ≤ wd ∧ wd ≤ 6) :
    dtPrevious v wd false = boundaryOrd v (previous (dayOrd v.w) wd) := by
  unfold dtPrevious vdow
  simp only [Bool.false_eq_true, if_false]
  rw [(one_step (dayOrd v.w) wd hwd).2]

theorem add_days_wall (w n : Int) : w + n * DAY = wallOf (dayOrd w + n) (tod w) := by
  rw [← wallOf_add, wallOf_split]

theorem dtNext_keep_eq (v : V) (wd : Int) (hwd : 0 ≤ wd ∧ wd ≤ 6) :
    dtNext v wd true = create v.z (wallOf (next (dayOrd v.w) wd) (tod v.w)) true false := by
  unfold dtNext addDays vdow
  simp only [if_true]
  rw [add_days_wall, (one_step (dayOrd v.w) wd hwd).1]

theorem dtPrevious_keep_eq (v : V) (wd : Int) (hwd : 0 ≤ wd ∧ wd ≤ 6) :
    dtPrevious v wd true = create v.z (wallOf (previous (dayOrd v.w) wd) (tod v.w)) true false := by
  unfold dtPrevious addDays vdow
  simp only [if_true]
  rw [add_days_wall, (one_step (dayOrd v.w) wd hwd).2]
  congr 2

/-! ### first_of / last_of month -/

theorem firstDom_valid (y m wd : Int) (hm : 1 ≤ m ∧ m ≤ 12) (hwd : 0 ≤ wd ∧ wd ≤ 6) : validDate y m (firstDom y m wd) := by
  have h := firstDom_eq y m wd hwd
  have hd := dimL_pos (isLeap y) m; rw [← daysInMonth_eq] at hd
  exact ⟨hm.1, hm.2, by omega, by omega⟩

theorem lastDom_valid (y m wd : Int) (hm : 1 ≤ m ∧ m ≤ 12) (hwd : 0 ≤ wd ∧ wd ≤ 6) : validDate y m (lastDom y m wd) := by
  have h := lastDom_eq y m wd hwd
  have hd := dimL_pos (isLeap y) m; rw [← daysInMonth_eq] at hd
  exact ⟨hm.1, hm.2, by omega, by omega⟩

theorem dtFirstOfMonth_eq (v : V) (wd : Option Int) (hwd : ∀ w, wd = some w → 0 ≤ w ∧ w ≤ 6) :
    dtFirstOfMonth v wd = boundaryOrd v (firstOfMonth (dayOrd v.w) wd) := by
  obtain ⟨y, m, d, hf, hv, he⟩ := fields_of (dayOrd v.w)
  have hm : 1 ≤ m ∧ m ≤ 12 := ⟨hv.1, hv.2.1⟩
  unfold dtFirstOfMonth firstOfMonth ymdOf
  simp only [hf]
  cases wd with
  | none => exact boundaryYMD_valid v y m 1 (valid_first y m hm)
  | some w => exact boundaryYMD_valid v y m _ (firstDom_valid y m w hm (hwd w rfl))

theorem dtLastOfMonth_eq (v : V) (wd : Option Int) (hwd : ∀ w, wd = some w → 0 ≤ w ∧ w ≤ 6) :
    dtLastOfMonth v wd = boundaryOrd v (lastOfMonth (dayOrd v.w) wd) := by
  obtain ⟨y, m, d, hf, hv, he⟩ := fields_of (dayOrd v.w)
  have hm : 1 ≤ m ∧ m ≤ 12 := ⟨hv.1, hv.2.1⟩
  unfold dtLastOfMonth lastOfMonth ymdOf
  simp only [hf]
  cases wd with
  | none => exact boundaryYMD_valid v y m _ (valid_last y m hm)
  | some w => exact boundaryYMD_valid v y m _ (lastDom_valid y m w hm (hwd w rfl))

/-! ### nth_of month -/

/-- the first moment of day `o` in zone `z` exists and lies on day `o` — false only when the whole calendar day is
    skipped in the zone (Pacific/Kiritimati 1994-12-31, Pacific/Apia 2011-12-30) or lies outside years 1..9999 -/
def OnDay (z : ZRef) (o : Int) : Prop :=
  ∀ (w : Int) (f : Bool), ∃ r, boundaryOrd ⟨z, w, f⟩ o = .ok r ∧ r.z = z ∧ dayOrd r.w = o

theorem onDay_naive (o : Int) : OnDay .naive o := fun w f =>
  ⟨_, boundaryOrd_naive w f o, rfl, (dayOrd_wallOf o 0 (by unfold DAY; omega)).1⟩

theorem onDay_fixed (off o : Int) : OnDay (.fixed off) o := fun w f =>
  ⟨_, boundaryOrd_fixed off w f o, rfl, (dayOrd_wallOf o 0 (by unfold DAY; omega)).1⟩

/-- for a named zone it is enough that 00:00 is not skipped, or that the gap that skips it is shorter than a day -/
theorem onDay_named (zt : Zone.Z) (o : Int)
    (hg : zt.woff true (wallOf o 0) - zt.woff false (wallOf o 0) < DAY)
    (hr : ∀ f, inRange (StartOf.startVal zt (wallOf o 0) f).w = true) : OnDay (.named zt) o := by
  intro w f
  refine ⟨StartOf.startVal zt (wallOf o 0) f, ?_, ?_, ?_⟩
  · rw [boundaryOrd_named, if_pos (hr f)]
  · unfold StartOf.startVal; split
    · rfl
    · split <;> rfl
  · rw [startVal_wall]
    split
    · unfold dayOrd wallOf DAY at *; omega
    · exact (dayOrd_wallOf o 0 (by unfold DAY; omega)).1

theorem iterNext_bounds (n : Nat) : ∀ (o wd : Int), 0 ≤ wd ∧ wd ≤ 6 → o ≤ iterNext n o wd ∧ iterNext n o wd ≤ o + 7 * n := by
  induction n with
  | zero => intro o wd _; simp [iterNext]
  | succ n ih =>
    intro o wd hwd
    obtain ⟨_, h2, h3, _⟩ := next_spec' o wd hwd
    have := ih (next o wd) wd hwd
    simp only [iterNext]; omega

/-- `for _ in range(n): dt = dt.next(wd)` follows the Date-level walk as long as no walked day is skipped entirely -/
theorem dtIterNext_onDay (n : Nat) : ∀ (v : V) (wd : Int), 0 ≤ wd ∧ wd ≤ 6 →
    (∀ j, dayOrd v.w < j → j ≤ dayOrd v.w + 7 * n → OnDay v.z j) →
    ∃ r, dtIterNext n v wd = .ok r ∧ r.z = v.z ∧ dayOrd r.w = iterNext n (dayOrd v.w) wd := by
  induction n with
  | zero => intro v wd _ _; exact ⟨v, rfl, rfl, rfl⟩
  | succ n ih =>
    intro v wd hwd hp
    obtain ⟨_, h2, h3, _⟩ := next_spec' (dayOrd v.w) wd hwd
    obtain ⟨r1, e1, z1, d1⟩ := hp (next (dayOrd v.w) wd) h2 (by omega) v.w v.fold
    have hv : (⟨v.z, v.w, v.fold⟩ : V) = v := rfl
    rw [hv] at e1
    obtain ⟨r, e, z, d⟩ := ih r1 wd hwd (by
      intro j a b; rw [z1]; rw [d1] at a b; exact hp j (by omega) (by omega))
    refine ⟨r, ?_, by rw [z, z1], by rw [d, d1]; rfl⟩
    simp only [dtIterNext, dtNext_eq v wd hwd, e1, bind_ok, e]

/-- `DateTime.nth_of("month", n, wd)` = `_boundary` of the Date-level result, `PendulumException` in exactly the same
    cases, provided none of the days `first of month … first of month + 7 n` is skipped entirely in the zone -/
theorem dtNthOfMonth_eq (v : V) (nth : Nat) (wd : Int) (hn : 1 ≤ nth) (hwd : 0 ≤ wd ∧ wd ≤ 6)
    (hp : ∀ j, uLo .month (dayOrd v.w) ≤ j → j ≤ uLo .month (dayOrd v.w) + 7 * nth → OnDay v.z j) :
    dtNthOfMonth v nth wd =
      match nthOfMonth (dayOrd v.w) nth wd with
      | some r => (boundaryOrd v r).map some
      | none => .ok none := by
  by_cases h1 : nth = 1
  · subst h1
    unfold dtNthOfMonth nthOfMonth
    rw [if_pos rfl, if_pos rfl, dtFirstOfMonth_eq v (some wd) (by intro w hw; cases hw; exact hwd)]
  · obtain ⟨y, m, d, hf, hv, he⟩ := fields_of (dayOrd v.w)
    have hm : 1 ≤ m ∧ m ≤ 12 := ⟨hv.1, hv.2.1⟩
    have hlo : firstOfMonth (dayOrd v.w) none = ymd2ord y m 1 := by simp only [firstOfMonth, hf]
    have hlo' : uLo .month (dayOrd v.w) = ymd2ord y m 1 := by simp only [uLo, hf]
    rw [hlo'] at hp
    have hfi := firstIn_spec (ymd2ord y m 1) wd hwd
    obtain ⟨r0, e0, z0, d0⟩ := hp (ymd2ord y m 1) (by omega) (by omega) v.w v.fold
    have hvv : (⟨v.z, v.w, v.fold⟩ : V) = v := rfl
    rw [hvv] at e0
    have hj1 := ord2ymd_ymd2ord y m 1 (valid_first y m hm)
    have hcnt : nth - (if dow (ymd2ord y m 1) = wd then 1 else 0) ≤ nth := by split <;> omega
    obtain ⟨r, e, z, dd⟩ := dtIterNext_onDay (nth - (if dow (ymd2ord y m 1) = wd then 1 else 0)) r0 wd hwd (by
      intro j a b; rw [z0]; rw [d0] at a b; exact hp j (by omega) (by omega))
    rw [d0] at dd
    have hr := iterNext_nth (ymd2ord y m 1) wd nth hn hwd
    generalize hrr : iterNext (nth - (if dow (ymd2ord y m 1) = wd then 1 else 0)) (ymd2ord y m 1) wd = R at dd hr
    have hge : ymd2ord y m 1 ≤ R := by omega
    unfold dtNthOfMonth nthOfMonth
    simp only [h1, if_false, dtFirstOfMonth_eq v none (by intro w hw; cases hw), hlo, e0, bind_ok, ymdOf, d0, hj1,
      vdow, hf, hrr, e, dd]
    by_cases hin : R ≤ ymd2ord y m 1 + daysInMonth y m - 1
    · have hday := day_in_month y m R hm ⟨hge, hin⟩
      simp only [hday, and_self, if_true]
      have hvd : validDate y m (R - ymd2ord y m 1 + 1) := ⟨hm.1, hm.2, by omega, by omega⟩
      rw [boundaryYMD_valid v y m _ hvd]
    · have : ¬ ((ord2ymd R).1 = y ∧ (ord2ymd R).2.1 = m) := fun h => hin ((in_month_iff y m R hm).mp h).2
      simp only [this, if_false]

end Pendulum.WeekNav
