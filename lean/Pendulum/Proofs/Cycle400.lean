import Pendulum.Model.Cal
/-! 400-year decomposition / periodicity lemmas for the reference calendar.
`omega` is incomplete on goals mixing `y/4`, `y/100`, `y/400`; every calendar fact is therefore
reduced to one 400-year cycle (periodicity by `omega`) and the cycle fact is checked by kernel
evaluation (`decide +kernel`), then lifted with `all_range`. -/
namespace Pendulum.Cal

/-- Gregorian leap-day count function used by pendulum's `week_day`/`is_long_year` -/
def gp (y : Int) : Int := y + y / 4 - y / 100 + y / 400

theorem gp_decomp (y : Int) : gp y = 497 * (y / 400) + gp (y % 400) := by
  unfold gp; omega

theorem gp_shift (y k : Int) : gp (y + 400 * k) = gp y + 497 * k := by unfold gp; omega

theorem dby_decomp (y : Int) : daysBeforeYear (y+1) = 146097 * (y / 400) + daysBeforeYear (y % 400 + 1) := by
  unfold daysBeforeYear; simp only []; omega

theorem dby_shift (y k : Int) : daysBeforeYear (y + 400 * k) = daysBeforeYear y + 146097 * k := by
  unfold daysBeforeYear; simp only []; omega

theorem isLeap_mod (y : Int) : isLeap y = isLeap (y % 400) := by
  unfold isLeap
  have h4 : y % 400 % 4 = y % 4 := by omega
  have h100 : y % 400 % 100 = y % 100 := by omega
  have h400 : y % 400 % 400 = y % 400 := by omega
  rw [h4, h100, h400]

theorem isLeap_shift (y k : Int) : isLeap (y + 400 * k) = isLeap y := by
  rw [isLeap_mod (y + 400 * k), isLeap_mod y]; congr 1; omega

theorem all_range {n : Nat} {p : Nat → Bool} (h : (List.range n).all p = true) (i : Nat) (hi : i < n) : p i = true := by
  rw [List.all_eq_true] at h
  exact h i (List.mem_range.mpr hi)

theorem ord_shift (y m d k : Int) : ymd2ord (y + 400 * k) m d = ymd2ord y m d + 146097 * k := by
  unfold ymd2ord
  rw [isLeap_shift, dby_shift]; omega

theorem ord_day (y m d : Int) : ymd2ord y m d = ymd2ord y m 0 + d := by unfold ymd2ord; omega

theorem iso_periodic_y (y m d k : Int) : isoweekday (y + 400 * k) m d = isoweekday y m d := by
  unfold isoweekday isoweekdayOrd
  rw [ord_shift]; omega

theorem iso_periodic_d (y m d j : Int) : isoweekday y m (d + 7 * j) = isoweekday y m d := by
  unfold isoweekday isoweekdayOrd ymd2ord; omega

theorem w1_shift (y k : Int) : isoWeek1Monday (y + 400 * k) = isoWeek1Monday y + 146097 * k := by
  unfold isoWeek1Monday
  rw [ord_shift]
  simp only []
  split <;> split <;> omega

theorem weeks_periodic (y k : Int) : isoWeeksInYear (y + 400 * k) = isoWeeksInYear y := by
  unfold isoWeeksInYear
  have : y + 400 * k + 1 = (y + 1) + 400 * k := by omega
  rw [this, w1_shift, w1_shift]; omega

theorem daysInYear_shift (y k : Int) : daysInYear (y + 400 * k) = daysInYear y := by
  unfold daysInYear; rw [isLeap_shift]

/-- every year is a representative `r + 400` of its residue class shifted by whole cycles -/
theorem year_rep (y : Int) : y = (y % 400 + 400) + 400 * (y / 400 - 1) := by omega

end Pendulum.Cal
