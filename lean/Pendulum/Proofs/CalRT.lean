import Pendulum.Proofs.Cycle400
/-! `ymd2ord` / `ord2ymd` round trip for the reference calendar, every ordinal (any sign). -/
namespace Pendulum.Cal

/-- month length by leap flag -/
def dimL (leap : Bool) (m : Int) : Int :=
  match m with
  | 1 => 31 | 2 => if leap then 29 else 28 | 3 => 31 | 4 => 30 | 5 => 31 | 6 => 30
  | 7 => 31 | 8 => 31 | 9 => 30 | 10 => 31 | 11 => 30 | _ => 31

theorem daysInMonth_eq (y m : Int) : daysInMonth y m = dimL (isLeap y) m := by
  unfold daysInMonth dimL; rfl

def moyOK (leap : Bool) (n : Nat) : Bool :=
  let m := monthOfYday leap n
  decide (1 ≤ m) && decide (m ≤ 12) && decide (daysBeforeMonth leap m ≤ n) &&
    decide ((n : Int) - daysBeforeMonth leap m + 1 ≤ dimL leap m)

theorem moy_false : (List.range 365).all (moyOK false) = true := by decide +kernel
theorem moy_true : (List.range 366).all (moyOK true) = true := by decide +kernel

/-- the month found by the table walk brackets the day-of-year -/
theorem monthOfYday_spec (leap : Bool) (n : Int) (h0 : 0 ≤ n) (h1 : n < (if leap then 366 else 365)) :
    1 ≤ monthOfYday leap n ∧ monthOfYday leap n ≤ 12 ∧ daysBeforeMonth leap (monthOfYday leap n) ≤ n ∧
    n - daysBeforeMonth leap (monthOfYday leap n) + 1 ≤ dimL leap (monthOfYday leap n) := by
  have e : ((n.toNat : Nat) : Int) = n := by omega
  cases leap
  · have h := all_range moy_false n.toNat (by simp at h1; omega)
    simp only [moyOK, e, Bool.and_eq_true, decide_eq_true_eq] at h
    omega
  · have h := all_range moy_true n.toNat (by simp at h1; omega)
    simp only [moyOK, e, Bool.and_eq_true, decide_eq_true_eq] at h
    omega

/-- closed form of `daysBeforeYear` on the 400/100/4/1 decomposition -/
theorem dby_decomp4 (a b c d : Int) (hb : 0 ≤ b ∧ b ≤ 3) (hc : 0 ≤ c ∧ c ≤ 24) (hd : 0 ≤ d ∧ d ≤ 3) :
    daysBeforeYear (400 * a + 100 * b + 4 * c + d + 1) = 146097 * a + 36524 * b + 1461 * c + 365 * d := by
  unfold daysBeforeYear; simp only []; omega

theorem isLeap_decomp4 (a b c d : Int) (hb : 0 ≤ b ∧ b ≤ 3) (hc : 0 ≤ c ∧ c ≤ 24) (hd : 0 ≤ d ∧ d ≤ 3) :
    isLeap (400 * a + 100 * b + 4 * c + d + 1) = (d == 3 && (c != 24 || b == 3)) := by
  unfold isLeap
  have h4 : (400 * a + 100 * b + 4 * c + d + 1) % 4 = (d + 1) % 4 := by omega
  have h100 : (400 * a + 100 * b + 4 * c + d + 1) % 100 = (4 * c + d + 1) % 100 := by omega
  have h400 : (400 * a + 100 * b + 4 * c + d + 1) % 400 = (100 * b + 4 * c + d + 1) % 400 := by omega
  rw [h4, h100, h400]
  rw [Bool.eq_iff_iff]
  simp only [Bool.and_eq_true, Bool.or_eq_true, beq_iff_eq, bne_iff_ne, ne_eq]
  omega

/-- `ord2ymd` returns a valid date whose ordinal is the argument -/
theorem ymd2ord_ord2ymd (n : Int) :
    ymd2ord (ord2ymd n).1 (ord2ymd n).2.1 (ord2ymd n).2.2 = n ∧
    validDate (ord2ymd n).1 (ord2ymd n).2.1 (ord2ymd n).2.2 := by
  unfold ord2ymd
  simp only []
  generalize hq : (n - 1) / 146097 = a
  generalize hr : (n - 1) % 146097 = r
  have hr0 : 0 ≤ r ∧ r < 146097 := by omega
  generalize hb : r / 36524 = b
  generalize hr1 : r % 36524 = r1
  generalize hc : r1 / 1461 = c
  generalize hr2 : r1 % 1461 = r2
  generalize hd : r2 / 365 = d
  generalize hr3 : r2 % 365 = r3
  have hn : n - 1 = 146097 * a + 36524 * b + 1461 * c + 365 * d + r3 := by omega
  have hb' : 0 ≤ b ∧ b ≤ 4 := by omega
  have hc' : 0 ≤ c ∧ c ≤ 24 := by omega
  have hd' : 0 ≤ d ∧ d ≤ 4 := by omega
  have hr3' : 0 ≤ r3 ∧ r3 < 365 := by omega
  by_cases hsp : (d == 4 || b == 4) = true
  · simp only [hsp, if_true]
    simp only [Bool.or_eq_true, beq_iff_eq] at hsp
    -- last day of a leap year (d = 4) or of a 400-year cycle (b = 4)
    have hy : a * 400 + 1 + b * 100 + c * 4 + d - 1 = 400 * a + 100 * b + 4 * c + d := by omega
    rw [hy]
    rcases hsp with h4 | h4
    · -- d = 4 : r2 = 1460, r3 = 0, year index = … + 3
      have hr3z : r3 = 0 := by omega
      have hb3 : b ≤ 3 ∨ b = 4 := by omega
      rcases hb3 with hb3 | hb3
      · have e : 400 * a + 100 * b + 4 * c + d = 400 * a + 100 * b + 4 * c + 3 + 1 := by omega
        have hl := isLeap_decomp4 a b c 3 ⟨by omega, by omega⟩ hc' ⟨by omega, by omega⟩
        have hdb := dby_decomp4 a b c 3 ⟨by omega, by omega⟩ hc' ⟨by omega, by omega⟩
        have hcne : c ≠ 24 ∨ b = 3 := by omega
        have hleap : isLeap (400 * a + 100 * b + 4 * c + 3 + 1) = true := by
          rw [hl]; rcases hcne with h | h <;> simp [h]
        refine ⟨?_, ?_⟩
        · unfold ymd2ord; rw [e, hleap, hdb]; simp [daysBeforeMonth]; omega
        · unfold validDate daysInMonth; rw [e, hleap]; simp
      · -- b = 4 and d = 4 cannot both happen (r = 146096 ⇒ r1 = 0)
        omega
    · -- b = 4 : r = 146096, r1 = 0, c = 0, d = 0, r3 = 0 ; year index = 400a + 399
      have : r1 = 0 := by omega
      have hc0 : c = 0 := by omega
      have hd0 : d = 0 := by omega
      have hr3z : r3 = 0 := by omega
      have e : 400 * a + 100 * b + 4 * c + d = 400 * a + 100 * 3 + 4 * 24 + 3 + 1 := by omega
      have hl := isLeap_decomp4 a 3 24 3 ⟨by omega, by omega⟩ ⟨by omega, by omega⟩ ⟨by omega, by omega⟩
      have hdb := dby_decomp4 a 3 24 3 ⟨by omega, by omega⟩ ⟨by omega, by omega⟩ ⟨by omega, by omega⟩
      have hleap : isLeap (400 * a + 100 * 3 + 4 * 24 + 3 + 1) = true := by rw [hl]; simp
      refine ⟨?_, ?_⟩
      · unfold ymd2ord; rw [e, hleap, hdb]; simp [daysBeforeMonth]; omega
      · unfold validDate daysInMonth; rw [e, hleap]; simp
  · simp only [hsp, Bool.false_eq_true, if_false]
    simp only [Bool.or_eq_true, beq_iff_eq, not_or] at hsp
    have hb3 : 0 ≤ b ∧ b ≤ 3 := by omega
    have hd3 : 0 ≤ d ∧ d ≤ 3 := by omega
    have hy : a * 400 + 1 + b * 100 + c * 4 + d = 400 * a + 100 * b + 4 * c + d + 1 := by omega
    rw [hy]
    have hl := isLeap_decomp4 a b c d hb3 hc' hd3
    have hdb := dby_decomp4 a b c d hb3 hc' hd3
    generalize hlp : (d == 3 && (c != 24 || b == 3)) = leap at *
    have hbound : r3 < (if leap then 366 else 365) := by split <;> omega
    obtain ⟨m1, m2, m3, m4⟩ := monthOfYday_spec leap r3 hr3'.1 hbound
    refine ⟨?_, ?_⟩
    · unfold ymd2ord; rw [hl, hdb]; omega
    · unfold validDate; rw [daysInMonth_eq, hl]; omega

end Pendulum.Cal

namespace Pendulum.Cal

theorem dby_mono (y y' : Int) (h : y < y') : daysBeforeYear (y + 1) ≤ daysBeforeYear y' := by
  unfold daysBeforeYear; simp only []; omega

def mmOK (leap : Bool) : Bool :=
  (List.range 12).all fun i => (List.range 12).all fun j =>
    !(decide (i < j)) || decide (daysBeforeMonth leap ((i : Int) + 1) + dimL leap ((i : Int) + 1) ≤ daysBeforeMonth leap ((j : Int) + 1))

theorem mmOK_all : mmOK false = true ∧ mmOK true = true := by decide +kernel

theorem dbm_mono (leap : Bool) (m m' : Int) (hm : 1 ≤ m) (hlt : m < m') (hm' : m' ≤ 12) :
    daysBeforeMonth leap m + dimL leap m ≤ daysBeforeMonth leap m' := by
  have hi : (m - 1).toNat < 12 := by omega
  have hj : (m' - 1).toNat < 12 := by omega
  have ei : (((m - 1).toNat : Nat) : Int) + 1 = m := by omega
  have ej : (((m' - 1).toNat : Nat) : Int) + 1 = m' := by omega
  have hlt' : (m - 1).toNat < (m' - 1).toNat := by omega
  cases leap
  · have h := all_range (all_range mmOK_all.1 _ hi) _ hj
    simp only [Bool.or_eq_true, Bool.not_eq_true', decide_eq_false_iff_not, decide_eq_true_eq, ei, ej] at h
    omega
  · have h := all_range (all_range mmOK_all.2 _ hi) _ hj
    simp only [Bool.or_eq_true, Bool.not_eq_true', decide_eq_false_iff_not, decide_eq_true_eq, ei, ej] at h
    omega

theorem dbm_bounds (leap : Bool) (m : Int) (hm : 1 ≤ m ∧ m ≤ 12) :
    0 ≤ daysBeforeMonth leap m ∧ daysBeforeMonth leap m ≤ 335 := by
  obtain ⟨h1, h2⟩ := hm
  have : m = 1 ∨ m = 2 ∨ m = 3 ∨ m = 4 ∨ m = 5 ∨ m = 6 ∨ m = 7 ∨ m = 8 ∨ m = 9 ∨ m = 10 ∨ m = 11 ∨ m = 12 := by omega
  rcases this with h|h|h|h|h|h|h|h|h|h|h|h <;> subst h <;> cases leap <;> simp [daysBeforeMonth]

theorem dimL_pos (leap : Bool) (m : Int) : 28 ≤ dimL leap m ∧ dimL leap m ≤ 31 := by
  unfold dimL; split <;> (try split) <;> omega

/-- a valid date lies inside its year -/
theorem ord_in_year (y m d : Int) (hv : validDate y m d) :
    daysBeforeYear y + 1 ≤ ymd2ord y m d ∧ ymd2ord y m d ≤ daysBeforeYear (y + 1) := by
  obtain ⟨h1, h2, h3, h4⟩ := hv
  rw [daysInMonth_eq] at h4
  have hb := dbm_bounds (isLeap y) m ⟨h1, h2⟩
  -- dbm + dim ≤ days in year
  have hlast : daysBeforeMonth (isLeap y) m + dimL (isLeap y) m ≤ daysInYear y := by
    by_cases h12 : m = 12
    · subst h12; unfold daysInYear; cases isLeap y <;> simp [daysBeforeMonth, dimL]
    · have := dbm_mono (isLeap y) m 12 h1 (by omega) (by omega)
      have h12' : daysBeforeMonth (isLeap y) 12 ≤ daysInYear y := by
        unfold daysInYear; cases isLeap y <;> simp [daysBeforeMonth]
      omega
  have hdiy : daysBeforeYear (y + 1) = daysBeforeYear y + daysInYear y := by
    unfold daysInYear
    have e : y = (y - 1) + 1 := by omega
    have hy : y - 1 = 400 * ((y - 1) / 400) + 100 * ((y - 1) % 400 / 100) + 4 * ((y - 1) % 100 / 4) + (y - 1) % 4 := by omega
    have hl := isLeap_decomp4 ((y - 1) / 400) ((y - 1) % 400 / 100) ((y - 1) % 100 / 4) ((y - 1) % 4)
      (by omega) (by omega) (by omega)
    rw [← hy, Int.sub_add_cancel] at hl
    rw [hl]
    unfold daysBeforeYear; simp only []
    by_cases c : ((y - 1) % 4 == 3 && ((y - 1) % 100 / 4 != 24 || (y - 1) % 400 / 100 == 3)) = true
    · rw [if_pos c]
      simp only [Bool.and_eq_true, Bool.or_eq_true, beq_iff_eq, bne_iff_ne, ne_eq] at c
      omega
    · rw [if_neg c]
      simp only [Bool.and_eq_true, Bool.or_eq_true, beq_iff_eq, bne_iff_ne, ne_eq] at c
      omega
  unfold ymd2ord
  constructor <;> omega

/-- `ymd2ord` is injective on valid dates -/
theorem ymd2ord_inj (y m d y' m' d' : Int) (hv : validDate y m d) (hv' : validDate y' m' d')
    (he : ymd2ord y m d = ymd2ord y' m' d') : y = y' ∧ m = m' ∧ d = d' := by
  have a := ord_in_year y m d hv
  have a' := ord_in_year y' m' d' hv'
  have hy : y = y' := by
    rcases Int.lt_trichotomy y y' with h | h | h
    · have := dby_mono y y' h; omega
    · exact h
    · have := dby_mono y' y h; omega
  subst hy
  obtain ⟨h1, h2, h3, h4⟩ := hv
  obtain ⟨h1', h2', h3', h4'⟩ := hv'
  rw [daysInMonth_eq] at h4 h4'
  unfold ymd2ord at he
  have hm : m = m' := by
    rcases Int.lt_trichotomy m m' with h | h | h
    · have := dbm_mono (isLeap y) m m' h1 h h2'; omega
    · exact h
    · have := dbm_mono (isLeap y) m' m h1' h h2; omega
  subst hm
  exact ⟨rfl, rfl, by omega⟩

/-- `ord2ymd` inverts `ymd2ord` on valid dates -/
theorem ord2ymd_ymd2ord (y m d : Int) (hv : validDate y m d) : ord2ymd (ymd2ord y m d) = (y, m, d) := by
  obtain ⟨e, v⟩ := ymd2ord_ord2ymd (ymd2ord y m d)
  obtain ⟨a, b, c⟩ := ymd2ord_inj _ _ _ _ _ _ v hv e
  rw [Prod.ext_iff, Prod.ext_iff]; exact ⟨a, b, c⟩

end Pendulum.Cal
