import Pendulum.Model.Zone
namespace Pendulum.Zone

theorem wf_tail {init : Int} {a : Tr} {rest : List Tr} (h : WF init (a :: rest)) : WF a.off rest := by
  cases rest with
  | nil => trivial
  | cons b r => exact h.2

/-- L1: once past the head transition, local time is at least head.t + head.off -/
theorem wall_lower (r : List Tr) : ∀ (init : Int) (b : Tr) (u : Int),
    WF init (b :: r) → b.t ≤ u → b.t + b.off ≤ u + offAt init (b :: r) u := by
  induction r with
  | nil => intro init b u _ hu; simp [offAt]; omega
  | cons c r' ih =>
    intro init b u hwf hu
    have h1 : ¬ u < b.t := by omega
    by_cases hc : u < c.t
    · simp [offAt, hc, h1]; omega
    · have hc' : c.t ≤ u := by omega
      have := ih b.off c u hwf.2 hc'
      have hsp := hwf.1
      have e : offAt init (b :: c :: r') u = offAt b.off (c :: r') u := by simp [offAt, h1]
      rw [e]
      unfold absI at hsp
      split at hsp <;> split at hsp <;> omega

theorem roundtrip (l : List Tr) : ∀ (init u : Int), WF init l →
    wallOff (foldAt init l u) init l (u + offAt init l u) = offAt init l u := by
  induction l with
  | nil => intro init u _; simp [wallOff, offAt]
  | cons a rest ih =>
    intro init u hwf
    by_cases hu : u < a.t
    · simp [wallOff, offAt, foldAt, hu, thr]; omega
    · have hu' : a.t ≤ u := by omega
      cases rest with
      | nil =>
        simp only [wallOff, offAt, foldAt, hu, if_false, thr]
        by_cases hf : init - a.off > u - a.t
        · simp [hf]; omega
        · simp [hf]; omega
      | cons b r =>
        by_cases hb : u < b.t
        · simp only [wallOff, offAt, foldAt, hu, hb, if_false, if_true, thr]
          have hsp := hwf.1
          unfold absI at hsp
          by_cases hf : init - a.off > u - a.t
          · simp only [hf, decide_true, if_true]
            split at hsp <;> split at hsp <;>
              (rw [if_neg (by omega), if_pos (by omega)])
          · simp only [hf, decide_false]
            split at hsp <;> split at hsp <;>
              (rw [if_neg (by simp; omega), if_pos (by simp; omega)])
        · have hb' : b.t ≤ u := by omega
          have hlow := wall_lower r a.off b u hwf.2 hb'
          have hsp := hwf.1
          have e1 : offAt init (a :: b :: r) u = offAt a.off (b :: r) u := by
            simp [offAt, hu]
          have e2 : foldAt init (a :: b :: r) u = foldAt a.off (b :: r) u := by
            simp [foldAt, hu, hb]
          rw [e1, e2]
          have := ih a.off u hwf.2
          simp only [wallOff] at this ⊢
          have hpass : ¬ (u + offAt a.off (b :: r) u < thr (foldAt a.off (b :: r) u) init a) := by
            unfold thr absI at *
            split at hsp <;> split at hsp <;> split <;> omega
          rw [if_neg hpass]
          exact this

end Pendulum.Zone
