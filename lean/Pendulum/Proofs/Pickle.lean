import Pendulum.Model.Pickle
/-! helper lemmas for C14 -/
namespace Pendulum.Pickle
open Pendulum Pendulum.Zone Pendulum.DTOps

theorem mkFixed_wf' (o : Int) (n : Str) : (mkFixed o n).wf := by
  cases n with
  | nil => simp [mkFixed, Tz.wf, defaultName]
  | cons a r => simp [mkFixed, Tz.wf]

theorem tz_roundtrip' (t : Tz) : rebuildTz (reduceTz t) = t := by
  cases t with
  | named n z => rfl
  | zinfo n z => rfl
  | ntz o => rfl
  | fixed o n => cases n <;> rfl

/-- even without the restored state the constructor arguments alone rebuild a well-formed FixedTimezone -/
theorem fixed_args_suffice (o : Int) (n : Str) (h : n ≠ []) : mkFixed o n = .fixed o n := by
  cases n with
  | nil => exact absurd rfl h
  | cons a r => rfl

theorem pickleDT_eq (v : DT) : pickleDT v = v := by
  cases v with
  | mk tz w fold =>
    cases tz with
    | none => cases fold <;> rfl
    | some t =>
      have ht := tz_roundtrip' t
      cases fold <;> simp [pickleDT, reduceDT, rebuildDT, ht]

theorem base_total_ofTotal (t : Int) : Base.total (Base.ofTotal t) = t := by
  unfold Base.total Base.ofTotal
  simp only
  omega

theorem argTotal_base (b : Base) : argTotal b.d b.s b.us 0 0 0 0 = b.total := by
  unfold argTotal Base.total; omega

theorem dur_reduce_roundtrip' (days seconds micros millis minutes hours weeks years months : Int) :
    rebuildDur (reduceDur (Dur.new days seconds micros millis minutes hours weeks years months)) =
      Dur.new days seconds micros millis minutes hours weeks years months := by
  unfold rebuildDur reduceDur
  simp only
  unfold Dur.new
  simp only [argTotal_base, base_total_ofTotal]
  simp

theorem dur_old_noym (days seconds micros millis minutes hours weeks : Int) :
    (let d := Dur.new days seconds micros millis minutes hours weeks 0 0
     Dur.new d.base.d d.base.s d.base.us 0 0 0 0 0 0) =
      Dur.new days seconds micros millis minutes hours weeks 0 0 := by
  simp only
  unfold Dur.new
  simp only [argTotal_base, base_total_ofTotal]
  simp

theorem comps_total (t y mo : Int) :
    argTotal (normState t y mo).rdays (normState t y mo).rsecs (normState t y mo).micros 0
      (normState t y mo).minutes (normState t y mo).hours (normState t y mo).weeks = t := by
  unfold argTotal DurState.rsecs DurState.minutes DurState.hours normState sgn absI
  simp only
  by_cases h : t < 0
  · simp only [h, if_true]
    repeat' split
    all_goals omega
  · simp only [h, if_false]
    repeat' split
    all_goals omega

theorem iv_roundtrip' (f : DT → DT) (same : Bool) (s e : DT) (a : Bool) (hs : f s = s) (he : f e = e) :
    rebuildIv f same (reduceIv (mkIv same s e a)) = mkIv same s e a := by
  unfold rebuildIv reduceIv mkIv
  cases a <;> cases hg : gtDT same s e <;> simp [hs, he, hg]

end Pendulum.Pickle
