import Pendulum.Model.Pickle
/-! helper lemmas for C14 -/
namespace Pendulum.Pickle
open Pendulum Pendulum.Zone Pendulum.DTOps

theorem mkFixed_wf' (o : Int) (n : Str) : (mkFixed o n).wf := by
  cases n with
  | nil => simp [mkFixed, Tz.wf, defaultName]
  | cons a r => simp [mkFixed, Tz.wf]

theorem tz_roundtrip' (t : Tz) : rebuildTz (reduceTz t) = t := by
  cases t with
  | named n z => rfl
  | zinfo n z => rfl
  | ntz o => rfl
  | fixed o n => cases n <;> rfl

/-- even without the restored state the constructor arguments alone rebuild a well-formed FixedTimezone -/
theorem fixed_args_suffice (o : Int) (n : Str) (h : n ≠ []) : mkFixed o n = .fixed o n := by
  cases n with
  | nil => exact absurd rfl h
  | cons a r => rfl

theorem pickleDT_eq (v : DT) : pickleDT v = v := by
  cases v with
  | mk tz w fold =>
    cases tz with
    | none => cases fold <;> rfl
    | some t =>
      have ht := tz_roundtrip' t
      cases fold <;> simp [pickleDT, reduceDT, rebuildDT, ht]

theorem base_total_ofTotal (t : Int) : Base.total (Base.ofTotal t) = t := by
  unfold Base.total Base.ofTotal
  simp only
  omega

theorem argTotal_base (b : Base) : argTotal b.d b.s b.us 0 0 0 0 = b.total := by
  unfold argTotal Base.total; omega

theorem dur_reduce_roundtrip' (days seconds micros millis minutes hours weeks years months : Int) :
    rebuildDur (reduceDur (Dur.new days seconds micros millis minutes hours weeks years months)) =
      Dur.new days seconds micros millis minutes hours weeks years months := by
  unfold rebuildDur reduceDur
  simp only
  unfold Dur.new
  simp only [argTotal_base, base_total_ofTotal]
  simp

theorem dur_old_noym (days seconds micros millis minutes hours weeks : Int) :
    (let d := Dur.new days seconds micros millis minutes hours weeks 0 0
     Dur.new d.base.d d.base.s d.base.us 0 0 0 0 0 0) =
      Dur.new days seconds micros millis minutes hours weeks 0 0 := by
  simp only
  unfold Dur.new
  simp only [argTotal_base, base_total_ofTotal]
  simp

theorem comps_total (t y mo : Int) :
    argTotal (normState t y mo).rdays (normState t y mo).rsecs (normState t y mo).micros 0
      (normState t y mo).minutes (normState t y mo).hours (normState t y mo).weeks = t := by
  unfold argTotal DurState.rsecs DurState.minutes DurState.hours normState sgn absI
  simp only
  by_cases h : t < 0
  · simp only [h, if_true]
    repeat' split
    all_goals omega
  · simp only [h, if_false]
    repeat' split
    all_goals omega

/-! AbsoluteDuration -/

theorem absdur_reduce_roundtrip' (days seconds micros millis minutes hours weeks years months : Int) :
    rebuildAbs (reduceDur (AbsDur.new days seconds micros millis minutes hours weeks years months)) =
      AbsDur.new days seconds micros millis minutes hours weeks years months := by
  unfold rebuildAbs reduceDur
  simp only
  unfold AbsDur.new
  simp only [argTotal_base, base_total_ofTotal]

theorem abs_comps_total (t y mo : Int) :
    argTotal (absState t y mo).rdays (absState t y mo).rsecs (absState t y mo).micros 0
      (absState t y mo).minutes (absState t y mo).hours (absState t y mo).weeks = absI t := by
  unfold argTotal DurState.rsecs DurState.minutes DurState.hours absState sgn
  simp only
  have h0 : 0 ≤ absI t := by unfold absI; split <;> omega
  generalize absI t = a at h0 ⊢
  unfold absI
  repeat' split
  all_goals omega

theorem abs_comps_nonneg (t y mo : Int) :
    let s := absState t y mo
    0 ≤ s.years ∧ 0 ≤ s.months ∧ 0 ≤ s.weeks ∧ 0 ≤ s.rdays ∧ s.rdays < 7 ∧ 0 ≤ s.hours ∧ s.hours < 24 ∧
      0 ≤ s.minutes ∧ s.minutes < 60 ∧ 0 ≤ s.rsecs ∧ s.rsecs < 60 ∧ 0 ≤ s.micros ∧ s.micros < 1000000 ∧ 0 ≤ s.days := by
  intro s
  have h0 : 0 ≤ absI t := by unfold absI; split <;> omega
  have hy : 0 ≤ absI y := by unfold absI; split <;> omega
  have hm : 0 ≤ absI mo := by unfold absI; split <;> omega
  have hd : 0 ≤ absI (absI t / 1000000 / 86400 + y * 365 + mo * 30) := by unfold absI; split <;> omega
  simp only [s, DurState.rsecs, DurState.minutes, DurState.hours, absState, sgn]
  generalize absI t = a at h0 hd ⊢
  generalize absI y = ay at hy ⊢
  generalize absI mo = am at hm ⊢
  generalize absI (a / 1000000 / 86400 + y * 365 + mo * 30) = ad at hd ⊢
  unfold absI
  refine ⟨hy, hm, by omega, by omega, by omega, ?_, ?_, ?_, ?_, ?_, ?_, by omega, by omega, hd⟩
  all_goals (repeat' split)
  all_goals omega

theorem iv_roundtrip' (f : DT → DT) (same : Bool) (s e : DT) (a : Bool) (hs : f s = s) (he : f e = e) :
    rebuildIv f same (reduceIv (mkIv same s e a)) = mkIv same s e a := by
  unfold rebuildIv reduceIv mkIv
  cases a <;> cases hg : gtDT same s e <;> simp [hs, he, hg]

end Pendulum.Pickle
