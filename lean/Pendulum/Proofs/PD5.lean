import Pendulum.Proofs.PD4
/-! order of ordinals vs lexicographic order of dates; the UTC shift; Rust = Python on unshifted pairs -/
namespace Pendulum.PreciseDiff
open Pendulum Pendulum.Cal Pendulum.AddDur

theorem ord_lt_of_lex (y m d y' m' d' : Int) (hv : validDate y m d) (hv' : validDate y' m' d')
    (h : y < y' ∨ (y = y' ∧ (m < m' ∨ (m = m' ∧ d < d')))) : ymd2ord y m d < ymd2ord y' m' d' := by
  have a := ord_in_year y m d hv
  have a' := ord_in_year y' m' d' hv'
  rcases h with h | ⟨h, h' | ⟨h', h''⟩⟩
  · have := dby_mono y y' h; omega
  · subst h
    obtain ⟨h1, h2, h3, h4⟩ := hv
    obtain ⟨h1', h2', h3', h4'⟩ := hv'
    rw [daysInMonth_eq] at h4
    have := dbm_mono (isLeap y) m m' h1 h' h2'
    unfold ymd2ord; omega
  · subst h; subst h'; unfold ymd2ord; omega

theorem dateLe_of_ord_le (y m d y' m' d' : Int) (hv : validDate y m d) (hv' : validDate y' m' d')
    (h : ymd2ord y m d ≤ ymd2ord y' m' d') : dateLe y m d y' m' d' := by
  unfold dateLe
  by_cases c : y' < y ∨ (y' = y ∧ (m' < m ∨ (m' = m ∧ d' < d)))
  · have := ord_lt_of_lex y' m' d' y m d hv' hv c; omega
  · omega

/-- the UTC shift yields a valid field tuple that denotes `wall − offset` -/
theorem pyShift_spec (e : E) (hv : e.Valid) :
    (pyShift e).Valid ∧
    ymd2ord (pyShift e).y (pyShift e).m (pyShift e).d * 86400 + (pyShift e).secOfDay = e.instSec ∧
    (pyShift e).us = e.us := by
  obtain ⟨hd, t1, t2, t3, t4, t5, t6, t7, t8⟩ := hv
  unfold pyShift
  by_cases h0 : e.off = 0
  · simp only [if_pos h0]
    refine ⟨⟨hd, t1, t2, t3, t4, t5, t6, t7, t8⟩, ?_, trivial⟩
    unfold E.instSec; omega
  · simp only [if_neg h0]
    obtain ⟨ho, hvd⟩ := ymd2ord_ord2ymd (e.instSec / 86400)
    generalize ord2ymd (e.instSec / 86400) = r at ho hvd
    obtain ⟨y, m, d⟩ := r
    simp only [] at ho hvd ⊢
    refine ⟨⟨hvd, ?_⟩, ?_, trivial⟩
    · unfold E.timeOK; simp only []; omega
    · unfold E.secOfDay; simp only []; omega

theorem dimRs_eq (y m : Int) (hy : 0 ≤ y) : dimRs y m = dimPy y m := by
  unfold dimRs dimPy daysPerMonth
  rw [Pendulum.Props.C15.rs_is_leap_eq y hy, Pendulum.Props.C15.rs_tables_eq_py.1 m,
    Pendulum.Props.C15.rs_tables_eq_py.2.1 m]

theorem dateDiff_rs (y1 m1 d1 y2 m2 d2 br : Int) (hy : 1 ≤ y2) :
    dateDiff dimRs y1 m1 d1 y2 m2 d2 br = dateDiff dimPy y1 m1 d1 y2 m2 d2 br := by
  apply dateDiff_congr
  · apply dimRs_eq; split <;> omega
  · apply dimRs_eq; omega

end Pendulum.PreciseDiff
