import Pendulum.Gen.AddDuration
import Pendulum.Proofs.AddDur
/-! The regenerated `add_duration` (tools/gen_addduration.py, one definition per source statement) is the hand
model `Model/AddDur.lean` that the C03/C04/C20 theorems are about. -/
namespace Pendulum.AddDur
open Pendulum

theorem carry_gen (x lim base next : Int) :
    (let r := if (decide ((if x < 0 then -x else x) > lim)) then
        (let s : Int := (if x < 0 then (-1 : Int) else 1)
         let q : Int := (x * s) / base
         let r : Int := (x * s) % base
         (r * s, next + (q * s)))
      else (x, next)
     (r.1, r.2)) = carry x lim base next := by
  unfold carry abs' sgn
  by_cases c : (if x < 0 then -x else x) > lim <;> simp [c]

theorem ad_s3_eq (a b c yrs mo wk dd h mi s us : Int) :
    Gen.ad_s3 a b c yrs mo wk dd h mi s us = carry us 999999 1000000 s := by
  unfold Gen.ad_s3; exact carry_gen us 999999 1000000 s

theorem ad_s4_eq (a b c yrs mo wk dd h mi s us : Int) :
    Gen.ad_s4 a b c yrs mo wk dd h mi s us = carry s 59 60 mi := by
  unfold Gen.ad_s4; exact carry_gen s 59 60 mi

theorem ad_s5_eq (a b c yrs mo wk dd h mi s us : Int) :
    Gen.ad_s5 a b c yrs mo wk dd h mi s us = carry mi 59 60 h := by
  unfold Gen.ad_s5; exact carry_gen mi 59 60 h

theorem ad_s6_eq (a b c yrs mo wk dd h mi s us : Int) :
    Gen.ad_s6 a b c yrs mo wk dd h mi s us = carry h 23 24 dd := by
  unfold Gen.ad_s6; exact carry_gen h 23 24 dd

theorem ad_s7_eq (a b c yrs mo wk dd h mi s us : Int) :
    Gen.ad_s7 a b c yrs mo wk dd h mi s us = carry mo 11 12 yrs := by
  unfold Gen.ad_s7; exact carry_gen mo 11 12 yrs

/-- statements 8–10 (`year = dt.year + years`, `month = dt.month`, `if months: …` with the one-step overflow) applied to
    the output of statement 7 are the hand model's `addYM` -/
theorem addYM_gen (y m d years months wk dd h mi s us : Int) :
    ((Gen.ad_s10 y m d (carry months 11 12 years).2 (carry months 11 12 years).1 wk dd h mi s us
        (Gen.ad_s8 y m d (carry months 11 12 years).2 (carry months 11 12 years).1 wk dd h mi s us)
        (Gen.ad_s9 y m d (carry months 11 12 years).2 (carry months 11 12 years).1 wk dd h mi s us
          (Gen.ad_s8 y m d (carry months 11 12 years).2 (carry months 11 12 years).1 wk dd h mi s us))).2,
     (Gen.ad_s10 y m d (carry months 11 12 years).2 (carry months 11 12 years).1 wk dd h mi s us
        (Gen.ad_s8 y m d (carry months 11 12 years).2 (carry months 11 12 years).1 wk dd h mi s us)
        (Gen.ad_s9 y m d (carry months 11 12 years).2 (carry months 11 12 years).1 wk dd h mi s us
          (Gen.ad_s8 y m d (carry months 11 12 years).2 (carry months 11 12 years).1 wk dd h mi s us))).1)
      = addYM y m years months := by
  unfold Gen.ad_s10 Gen.ad_s8 Gen.ad_s9 addYM carry
  simp only []
  by_cases c : abs' months > 11
  · simp only [c, if_true]
    by_cases c0 : months * sgn months % 12 * sgn months ≠ 0
    · simp only [c0, decide_true, if_true, ne_eq, not_false_eq_true]
      split <;> split <;> simp_all <;> omega
    · simp only [c0, decide_false, if_false, Bool.false_eq_true, ne_eq, not_true_eq_false]
  · simp only [c, if_false]
    by_cases c0 : months ≠ 0
    · simp only [c0, decide_true, if_true, ne_eq, not_false_eq_true]
      split <;> split <;> simp_all <;> omega
    · simp only [c0, decide_false, if_false, Bool.false_eq_true, ne_eq, not_true_eq_false]

theorem ad_s11_eq (a b dtd yrs mo wk dd h mi s us y m : Int) :
    Gen.ad_s11 a b dtd yrs mo wk dd h mi s us y m = min (daysPerMonth y m) dtd := by
  unfold Gen.ad_s11 daysPerMonth; rfl

/-- the whole regenerated function, for a datetime argument: the replaced date fields are the month-index step with the
    day clamp, the timedelta arguments are the carried components -/
theorem add_duration_gen (y m d years months weeks days hours minutes seconds micros : Int) :
    Gen.add_duration y m d false years months weeks days hours minutes seconds micros =
      .ok ((addYM y m years months).1, (addYM y m years months).2,
           min (daysPerMonth (addYM y m years months).1 (addYM y m years months).2) d,
           (normTime (days + weeks * 7) hours minutes seconds micros).1,
           (normTime (days + weeks * 7) hours minutes seconds micros).2.1,
           (normTime (days + weeks * 7) hours minutes seconds micros).2.2.1,
           (normTime (days + weeks * 7) hours minutes seconds micros).2.2.2.1,
           (normTime (days + weeks * 7) hours minutes seconds micros).2.2.2.2) := by
  unfold Gen.add_duration
  simp only [Gen.ad_s1, Gen.ad_s2, Bool.false_and, Bool.false_eq_true, if_false, ad_s3_eq, ad_s4_eq, ad_s5_eq, ad_s6_eq,
    ad_s7_eq, ad_s11_eq]
  have h := addYM_gen y m d years months weeks
    (carry (carry (carry (carry micros 999999 1000000 seconds).2 59 60 minutes).2 59 60 hours).2 23 24 (days + weeks * 7)).2
    (carry (carry (carry (carry micros 999999 1000000 seconds).2 59 60 minutes).2 59 60 hours).2 23 24 (days + weeks * 7)).1
    (carry (carry (carry micros 999999 1000000 seconds).2 59 60 minutes).2 59 60 hours).1
    (carry (carry micros 999999 1000000 seconds).2 59 60 minutes).1
    (carry micros 999999 1000000 seconds).1
  rw [Prod.ext_iff] at h
  simp only [] at h
  rw [h.1, h.2]
  simp only [normTime]

/-- for a plain `date` argument the function raises RuntimeError exactly when a time component is given -/
theorem add_duration_gen_date (y m d years months weeks days hours minutes seconds micros : Int) :
    (Gen.add_duration y m d true years months weeks days hours minutes seconds micros = .error "RuntimeError") ↔
      (hours ≠ 0 ∨ minutes ≠ 0 ∨ seconds ≠ 0 ∨ micros ≠ 0) := by
  unfold Gen.add_duration
  simp only [Gen.ad_s1, Gen.ad_s2, Bool.true_and]
  by_cases c : (decide (hours ≠ 0) || decide (minutes ≠ 0) || decide (seconds ≠ 0) || decide (micros ≠ 0)) = true
  · rw [if_pos c]; simp at c ⊢; omega
  · rw [if_neg c]; simp at c ⊢; omega

end Pendulum.AddDur
