import Pendulum.Proofs.DTArithGenBase
/-! ties for `DateTime.add/subtract/_add_timedelta_/_subtract_timedelta` and their model-level forms (split out of the former Proofs/DTArithGen.lean so that a broken tie of one group of methods
does not stop the properties that only depend on another group) -/
set_option linter.unusedSimpArgs false
namespace Pendulum.DTArithGen
open Pendulum Pendulum.Cal Pendulum.AddDur Pendulum.Zone Pendulum.DTOps Pendulum.CalOps
open Pendulum.Gen.DTArith

theorem add_eq (I : Inst) (v : V) (L : Linked I v) (hv : inRange v.w = true)
    (y mo wk d h mi : Int) (s : Sec) (us : Int) :
    interp v (dt_add I y mo wk d h mi s us) = addChecked v y mo wk d h mi (secS s) (us + secU s) := by
  dta_tie "Pendulum.DTArithGen.add_eq" =>
    obtain ⟨z, w, f⟩ := v
    have hw := L.fields
    have hu := L.utcoffset
    have ht := L.hasTz
    simp only [] at hw hu ht hv
    by_cases hvar : (y ≠ 0 ∨ mo ≠ 0 ∨ wk ≠ 0 ∨ d ≠ 0)
    · have hb : ((decide (y ≠ (0:Int))) || (decide (mo ≠ (0:Int))) || (decide (wk ≠ (0:Int))) || (decide (d ≠ (0:Int)))) = true := by
        simp only [Bool.or_eq_true, decide_eq_true_eq]; omega
      have hn : ¬ (y = 0 ∧ mo = 0 ∧ wk = 0 ∧ d = 0 ∧ inRange (w - V.offset ⟨z, w, f⟩) = false) := by omega
      unfold dt_add
      simp only [hb, L.add_duration, hw, Bool.or_true, Bool.true_or, Bool.or_false, Bool.false_or, Bool.and_true, Bool.true_and, Bool.and_false, Bool.false_and, Bool.not_true, Bool.not_false, Bool.or_self, Bool.and_self, if_true, Bool.false_eq_true, if_false]
      unfold addChecked
      rw [if_neg hn]
      unfold DTOps.add
      simp only [hvar, if_true]
      cases hA : addDuration w y mo wk d h mi (secS s) (us + secU s) with
      | error e => cases e <;> simp [liftAD, interp, errOf]
      | ok r =>
        simp only [liftAD, interp, reqV, n7_eta, toWall_fromWall]
    · have hz : y = 0 ∧ mo = 0 ∧ wk = 0 ∧ d = 0 := by omega
      obtain ⟨rfl, rfl, rfl, rfl⟩ := hz
      unfold dt_add
      simp only [ne_eq, not_true_eq_false, decide_false, Bool.or_true, Bool.true_or, Bool.or_false, Bool.false_or, Bool.and_true, Bool.true_and, Bool.and_false, Bool.false_and, Bool.not_true, Bool.not_false, Bool.or_self, Bool.and_self, if_true]
      have hvar' : ¬((0:Int) ≠ 0 ∨ (0:Int) ≠ 0 ∨ (0:Int) ≠ 0 ∨ (0:Int) ≠ 0) := by omega
      cases z with
      | naive =>
        simp only [ZRef.table] at hu
        simp only [] at ht
        simp only [hu, ht, td_truthy, L.add_duration, hw, Bool.or_true, Bool.true_or, Bool.or_false, Bool.false_or, Bool.and_true, Bool.true_and, Bool.and_false, Bool.false_and, Bool.not_true, Bool.not_false, Bool.or_self, Bool.and_self, if_true]
        unfold addChecked DTOps.add
        simp only [V.offset, ZRef.table, Int.sub_zero, hv, hvar', if_false, Bool.true_eq_false, and_false]
        cases hA : addDuration w 0 0 0 0 h mi (secS s) (us + secU s) with
        | error e => cases e <;> simp [liftAD, interp, errOf]
        | ok r => simp [liftAD, interp, reqV, n7_eta, toWall_fromWall, create]
      | fixed off =>
        have ho : (fixedZ off).woff f w = off := by simp [fixedZ, Z.woff, wallOff]
        simp only [ZRef.table, ho] at hu
        simp only [] at ht
        unfold addChecked DTOps.add
        simp only [V.offset, ZRef.table, ho, hvar', if_false]
        by_cases h0 : off = 0
        · subst h0
          simp only [hu, ht, td_truthy, L.add_duration, L.convert_utc, hw, Int.sub_zero, hv, Bool.or_true, Bool.true_or, Bool.or_false, Bool.false_or, Bool.and_true, Bool.true_and, Bool.and_false, Bool.false_and, Bool.not_true, Bool.not_false, Bool.or_self, Bool.and_self]
          cases hA : addDuration w 0 0 0 0 h mi (secS s) (us + secU s) with
          | error e => cases e <;> simp [liftAD, interp, errOf]
          | ok r =>
            simp only [liftAD, n7_eta, toWall_fromWall, DTOps.inTz, fixed0_instant, ZRef.table, fromUtc_fixed]
            simp only [Int.add_zero]
            by_cases hr : inRange r = true
            · simp [hr, liftConv, interp, reqV, toWall_fromWall]
            · simp [hr, liftConv, interp, errOf, Err.name]
        · have ht2 : td_truthy (some off) = some off := by simp [td_truthy, h0]
          simp only [hu, ht, ht2, L.sub_td, L.add_duration, L.convert_utc, hw, Bool.or_true, Bool.true_or, Bool.or_false, Bool.false_or, Bool.and_true, Bool.true_and, Bool.and_false, Bool.false_and, Bool.not_true, Bool.not_false, Bool.or_self, Bool.and_self]
          by_cases hs : inRange (w - off) = true
          · simp only [hs, if_true, toWall_fromWall, Bool.true_eq_false, and_false, if_false, Bool.not_true, Bool.false_eq_true]
            cases hA : addDuration (w - off) 0 0 0 0 h mi (secS s) (us + secU s) with
            | error e => cases e <;> simp [liftAD, interp, errOf]
            | ok r =>
              simp only [liftAD, n7_eta, toWall_fromWall, DTOps.inTz, fixed0_instant, ZRef.table, fromUtc_fixed]
              by_cases hr : inRange (r + off) = true
              · simp [hr, liftConv, interp, reqV, toWall_fromWall]
              · simp [hr, liftConv, interp, errOf, Err.name]
          · simp [hs, interp, errOf]
      | named zt =>
        simp only [ZRef.table] at hu
        simp only [] at ht
        unfold addChecked DTOps.add
        simp only [V.offset, ZRef.table, hvar', if_false]
        generalize zt.woff f w = off at hu ⊢
        by_cases h0 : off = 0
        · subst h0
          simp only [hu, ht, td_truthy, L.add_duration, L.convert_utc, hw, Int.sub_zero, hv, Bool.or_true, Bool.true_or, Bool.or_false, Bool.false_or, Bool.and_true, Bool.true_and, Bool.and_false, Bool.false_and, Bool.not_true, Bool.not_false, Bool.or_self, Bool.and_self]
          cases hA : addDuration w 0 0 0 0 h mi (secS s) (us + secU s) with
          | error e => cases e <;> simp [liftAD, interp, errOf]
          | ok r =>
            simp only [liftAD, n7_eta, toWall_fromWall, DTOps.inTz, fixed0_instant, ZRef.table]
            by_cases hr : inRange (fromUtc zt r).w = true
            · simp [hr, liftConv, interp, reqV, toWall_fromWall]
            · simp [hr, liftConv, interp, errOf, Err.name]
        · have ht2 : td_truthy (some off) = some off := by simp [td_truthy, h0]
          simp only [hu, ht, ht2, L.sub_td, L.add_duration, L.convert_utc, hw, Bool.or_true, Bool.true_or, Bool.or_false, Bool.false_or, Bool.and_true, Bool.true_and, Bool.and_false, Bool.false_and, Bool.not_true, Bool.not_false, Bool.or_self, Bool.and_self]
          by_cases hs : inRange (w - off) = true
          · simp only [hs, if_true, toWall_fromWall, Bool.true_eq_false, and_false, if_false, Bool.not_true, Bool.false_eq_true]
            cases hA : addDuration (w - off) 0 0 0 0 h mi (secS s) (us + secU s) with
            | error e => cases e <;> simp [liftAD, interp, errOf]
            | ok r =>
              simp only [liftAD, n7_eta, toWall_fromWall, DTOps.inTz, fixed0_instant, ZRef.table]
              by_cases hr : inRange (fromUtc zt r).w = true
              · simp [hr, liftConv, interp, reqV, toWall_fromWall]
              · simp [hr, liftConv, interp, errOf, Err.name]
          · simp [hs, interp, errOf]

/-! ### `subtract`, `_add_timedelta_`, `_subtract_timedelta` -/

/-- `DateTime.subtract` hands every keyword, negated, to `add` -/
theorem subtract_eq (I : Inst) (y mo wk d h mi : Int) (s : Sec) (us : Int) :
    dt_subtract I y mo wk d h mi s us = dt_add I (-y) (-mo) (-wk) (-d) (-h) (-mi) (Sec.neg s) (-us) := by
  dta_tie "Pendulum.DTArithGen.subtract_eq" =>
    simp only [dt_subtract]

/-- `_add_timedelta_`: an Interval travels as its eight calendar/clock components, a Duration as its constructor
    signature, a plain timedelta as `seconds=total_seconds()` -/
theorem add_timedelta_eq (I : Inst) (δ : Operand) :
    (δ.kind = .interval → dt_add_timedelta I δ =
      dt_add I δ.years δ.months δ.weeks δ.remaining_days δ.hours δ.minutes (.int δ.remaining_seconds) δ.microseconds) ∧
    (δ.kind = .duration → dt_add_timedelta I δ =
      dt_add I δ.sig_years δ.sig_months δ.sig_weeks δ.sig_days δ.sig_hours δ.sig_minutes (.int δ.sig_seconds) δ.sig_microseconds) ∧
    (δ.kind = .timedelta → dt_add_timedelta I δ = dt_add I 0 0 0 0 0 0 (.us δ.total_seconds) 0) := by
  dta_tie "Pendulum.DTArithGen.add_timedelta_eq" =>
    refine ⟨?_, ?_, ?_⟩ <;> intro hk <;> simp [dt_add_timedelta, hk]

/-- `_subtract_timedelta`: an Interval → `subtract` of its components, a Duration → `_add_timedelta_(-delta)`,
    a plain timedelta → `subtract(seconds=total_seconds())` -/
theorem subtract_timedelta_eq (I : Inst) (δ nδ : Operand) :
    (δ.kind = .interval → dt_subtract_timedelta I δ nδ =
      dt_subtract I δ.years δ.months δ.weeks δ.remaining_days δ.hours δ.minutes (.int δ.remaining_seconds) δ.microseconds) ∧
    (δ.kind = .duration → dt_subtract_timedelta I δ nδ = dt_add_timedelta I nδ) ∧
    (δ.kind = .timedelta → dt_subtract_timedelta I δ nδ = dt_subtract I 0 0 0 0 0 0 (.us δ.total_seconds) 0) := by
  dta_tie "Pendulum.DTArithGen.subtract_timedelta_eq" =>
    refine ⟨?_, ?_, ?_⟩ <;> intro hk <;> simp [dt_subtract_timedelta, hk]

/-! ### the same on the model level -/

theorem subtract_model (I : Inst) (v : V) (L : Linked I v) (hv : inRange v.w = true)
    (y mo wk d h mi : Int) (s : Sec) (us : Int) :
    interp v (dt_subtract I y mo wk d h mi s us) =
      addChecked v (-y) (-mo) (-wk) (-d) (-h) (-mi) (-(secS s)) (-(us + secU s)) := by
  rw [subtract_eq, add_eq I v L hv, secS_neg, secU_neg]
  congr 1; omega

/-- `add(**sig)` with the range limit of the intermediate value -/
def addSigC (v : V) (s : Sig) : Except DTOps.Err V :=
  addChecked v s.years s.months s.weeks s.days s.hours s.minutes s.seconds s.micros

theorem addSigC_eq (v : V) (s : Sig) (h : inRange (v.w - v.offset) = true) : addSigC v s = addSig v s := by
  unfold addSigC addSig addChecked; simp [h]

/-- `dt + d` for a Duration: `add(**d._signature)` -/
theorem add_duration_model (I : Inst) (v : V) (L : Linked I v) (hv : inRange v.w = true) (d : Dur) :
    interp v (dt_add_timedelta I (opOfDur d)) = addSigC v d.sig := by
  rw [(add_timedelta_eq I (opOfDur d)).2.1 rfl, add_eq I v L hv]
  simp [opOfDur, addSigC, secS, secU]

/-- `dt - d` for a Duration: `dt + (-d)`, `-d` being the operand `Duration.__neg__` returns -/
theorem sub_duration_model (I : Inst) (v : V) (L : Linked I v) (hv : inRange v.w = true) (d : Dur) (nδ : Operand)
    (hn : nδ = opOfDur (neg d)) :
    interp v (dt_subtract_timedelta I (opOfDur d) nδ) = addSigC v (neg d).sig := by
  rw [(subtract_timedelta_eq I (opOfDur d) nδ).2.1 rfl, hn, add_duration_model I v L hv]

/-- `dt ± td` for a plain timedelta of `t` µs: the instant / own clock moves by exactly `± t` µs -/
theorem timedelta_model (I : Inst) (v : V) (L : Linked I v) (hv : inRange v.w = true) (δ nδ : Operand)
    (hk : δ.kind = .timedelta) :
    interp v (dt_add_timedelta I δ) = addChecked v 0 0 0 0 0 0 0 δ.total_seconds ∧
    interp v (dt_subtract_timedelta I δ nδ) = addChecked v 0 0 0 0 0 0 0 (-δ.total_seconds) := by
  constructor
  · rw [(add_timedelta_eq I δ).2.2 hk, add_eq I v L hv]; simp [secS, secU]
  · rw [(subtract_timedelta_eq I δ nδ).2.2 hk, subtract_model I v L hv]; simp [secS, secU]

/-- `dt ± iv` for an Interval: `add` / `subtract` of the eight components the Interval reports -/
theorem interval_model (I : Inst) (v : V) (L : Linked I v) (hv : inRange v.w = true) (δ nδ : Operand)
    (hk : δ.kind = .interval) :
    interp v (dt_add_timedelta I δ) =
      addChecked v δ.years δ.months δ.weeks δ.remaining_days δ.hours δ.minutes δ.remaining_seconds δ.microseconds ∧
    interp v (dt_subtract_timedelta I δ nδ) =
      addChecked v (-δ.years) (-δ.months) (-δ.weeks) (-δ.remaining_days) (-δ.hours) (-δ.minutes)
        (-δ.remaining_seconds) (-δ.microseconds) := by
  constructor
  · rw [(add_timedelta_eq I δ).1 hk, add_eq I v L hv]; simp [secS, secU]
  · rw [(subtract_timedelta_eq I δ nδ).1 hk, subtract_model I v L hv]; simp [secS, secU]


end Pendulum.DTArithGen
