import Pendulum.Proofs.StartOf
/-! Sub-day half of C12 (second, minute, hour): what `create` returns on a wall label that is not skipped, and why
"the pair (utcoffset fold=0, utcoffset fold=1) is constant over a range of labels" is the right way of saying that
no edge of a gap or overlap falls inside the range: it follows when every label of the range is ordinary
(`const_of_unique_range`). -/
namespace Pendulum.StartOf
open Pendulum Pendulum.Zone Pendulum.DTOps Pendulum.AddDur

theorem named_offset (zt : Z) (w : Int) (f : Bool) : (⟨.named zt, w, f⟩ : V).offset = zt.woff f w := rfl

/-- `create` on a wall value that is not skipped (ordinary or repeated) returns it unchanged with the given fold -/
theorem create_valid (zt : Z) (T : Int) (f : Bool) (hv : ¬ zt.woff true T > zt.woff false T) :
    create (.named zt) T f false = if inRange T then .ok ⟨.named zt, T, f⟩ else .error .overflow := by
  unfold create convertNaive
  simp [hv]

/-- a wall value that is not skipped, read with either fold, is the rendering of the instant it denotes -/
theorem valid_off (zt : Z) (h : zt.WF) (T : Int) (f : Bool) (hv : ¬ zt.woff true T > zt.woff false T) :
    zt.off (T - zt.woff f T) = zt.woff f T := by
  have hp := pre f zt.trs zt.init T h (not_skipped_of_le zt h T hv)
  unfold Z.off Z.woff; exact hp

/-- the offset does not change between two adjacent ordinary wall labels -/
theorem unique_succ (zt : Z) (h : zt.WF) (T : Int) (h1 : zt.unique T) (h2 : zt.unique (T + 1)) :
    zt.woff false (T + 1) = zt.woff false T := by
  have v1 : ¬ zt.woff true T > zt.woff false T := by rw [h1.2]; omega
  have v2 : ¬ zt.woff true (T + 1) > zt.woff false (T + 1) := by rw [h2.2]; omega
  have ri := valid_off zt h T false v1
  have rj := valid_off zt h (T + 1) false v2
  have e1 := h1.2
  apply Classical.byContradiction; intro c
  by_cases hlt : zt.woff false (T + 1) < zt.woff false T
  · -- the instant after `T`'s would render strictly between `T` and `T + 1`
    have a := after_last zt h T (T - zt.woff false T + 1) h1.endOK (by omega)
    have b := before_first zt h (T + 1) (T - zt.woff false T + 1) h2.startOK (by omega)
    omega
  · by_cases heq : T + 1 - zt.woff false (T + 1) = T - zt.woff false T
    · rw [heq] at rj; omega
    · have b := before_first zt h T (T + 1 - zt.woff false (T + 1)) h1.startOK (by omega)
      omega

/-- over a range of ordinary wall labels both readings of the offset are constant -/
theorem const_of_unique_range (zt : Z) (h : zt.WF) (L H w : Int) (hL : L ≤ w) (hH : w ≤ H)
    (hall : ∀ T, L ≤ T → T ≤ H → zt.unique T) :
    ∀ T, L ≤ T → T ≤ H → zt.woff false T = zt.woff false w ∧ zt.woff true T = zt.woff true w := by
  have up : ∀ n : Nat, w + n ≤ H → zt.woff false (w + n) = zt.woff false w := by
    intro n
    induction n with
    | zero => intro _; simp
    | succ k ih =>
      intro hk
      have e : w + ((k + 1 : Nat) : Int) = w + (k : Int) + 1 := by omega
      rw [e, unique_succ zt h (w + k) (hall _ (by omega) (by omega)) (hall _ (by omega) (by omega))]
      exact ih (by omega)
  have down : ∀ n : Nat, L ≤ w - n → zt.woff false (w - n) = zt.woff false w := by
    intro n
    induction n with
    | zero => intro _; simp
    | succ k ih =>
      intro hk
      have e : w - (k : Int) = w - ((k + 1 : Nat) : Int) + 1 := by omega
      have := unique_succ zt h (w - ((k + 1 : Nat) : Int)) (hall _ (by omega) (by omega)) (hall _ (by omega) (by omega))
      rw [← e] at this
      rw [← this]; exact ih (by omega)
  have f0 : ∀ T, L ≤ T → T ≤ H → zt.woff false T = zt.woff false w := by
    intro T h1 h2
    by_cases c : w ≤ T
    · have := up (T - w).toNat (by omega)
      have e : w + ((T - w).toNat : Int) = T := by omega
      rw [e] at this; exact this
    · have := down (w - T).toNat (by omega)
      have e : w - ((w - T).toNat : Int) = T := by omega
      rw [e] at this; exact this
  intro T h1 h2
  refine ⟨f0 T h1 h2, ?_⟩
  rw [← (hall T h1 h2).2, ← (hall w hL hH).2]
  exact f0 T h1 h2

end Pendulum.StartOf
