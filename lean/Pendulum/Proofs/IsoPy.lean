import Pendulum.Proofs.IsoTime
/-! The pure-Python parser model on rendered strings: time groups, date candidates. -/
set_option linter.unusedSimpArgs false
namespace Pendulum.Iso
open Pendulum

/-- the greedy clock-field matcher stops here: end of input, an offset, or a fraction separator -/
def Stop (tl : List Char) : Prop :=
  tl = [] ∨ ∃ c r, tl = c :: r ∧ (c = 'Z' ∨ c = '+' ∨ c = '-' ∨ c = '.' ∨ c = ',')

theorem Stop_of_TzStart {tl : List Char} (h : TzStart tl) : Stop tl := by
  rcases h with h | ⟨c, r, h, hc | hc | hc⟩
  · exact Or.inl h
  all_goals exact Or.inr ⟨c, r, h, by simp [hc]⟩

theorem up2_stop {tl : List Char} (h : Stop tl) : up2 .py tl = (0, 0, tl) := by
  rcases h with h | ⟨c, r, h, hc | hc | hc | hc | hc⟩ <;> subst h <;> try subst hc
  · rfl
  · simp [up2, (dv_sep .py).2.2.2.2.2.2.2.2.1]
  · simp [up2, (dv_sep .py).2.2.2.2.2.2.2.1]
  · simp [up2, (dv_sep .py).1]
  · simp [up2, (dv_sep .py).2.2.2.2.2.1]
  · simp [up2, (dv_sep .py).2.2.2.2.2.2.1]

theorem optColon_stop {tl : List Char} (h : Stop tl) : optChar ':' tl = (false, tl) := by
  rcases h with h | ⟨c, r, h, hc | hc | hc | hc | hc⟩ <;> subst h <;> try subst hc
  all_goals simp [optChar]

theorem up2_digits2 (n : Nat) (r : List Char) (h : n < 100) : up2 .py (digits 2 n ++ r) = (2, n, r) := by
  simp only [digits, List.cons_append, List.nil_append, up2, dv_digitChar_mod]
  congr 2
  omega

theorem pyFrac_none {tl : List Char} (h : TzStart tl) : pyFrac tl = some (none, tl) := by
  rcases h with h | ⟨c, r, h, hc | hc | hc⟩ <;> subst h <;> try subst hc
  all_goals simp [pyFrac]

theorem pyFrac_frac (comma : Bool) (k n : Nat) (hk : 1 ≤ k ∧ k ≤ 9) (tl : List Char) (h : TzStart tl) :
    pyFrac ((if comma then ',' else '.') :: (digits k n ++ tl)) = some (some (digitVals k n), tl) := by
  cases comma <;> simp [pyFrac, spanD_digits _ _ _ _ h, digitVals_length, hk]

/-- the `tz` group of a rendered offset -/
def pyTzOf : Off → Option PyTz
  | .naive => none
  | .z => some .z
  | .hh neg h => some (.off neg h false none)
  | .hhmm neg c h m => some (.off neg h c (some m))

theorem exactN_nil (b : Backend) (k acc : Nat) : exactN b (k + 1) acc [] = none := rfl

theorem pyTzMatch_spec (o : Off) (ho : OffOk o) : pyTzMatch (rOff o) = some (pyTzOf o) := by
  cases o with
  | naive => rfl
  | z => simp [rOff, pyTzMatch, pyTzOf]
  | hh neg h =>
    have hh : h < 100 := by simp [OffOk] at ho; omega
    cases neg <;> simp [rOff, sign, pyTzMatch, pyTzOf, exactN2_nil _ _ hh, exactN_nil]
  | hhmm neg c h m =>
    obtain ⟨h23, m59⟩ := ho
    have hh : h < 100 := by omega
    have hm : m < 100 := by omega
    cases neg <;> cases c <;>
      simp [rOff, sign, colon, pyTzMatch, pyTzOf, exactN2 _ _ _ hh, exactN2_nil _ _ hm]

theorem pyTzOffset_spec (o : Off) : pyTzOffset (pyTzOf o) = .ok (offSeconds o) := by
  cases o with
  | naive => rfl
  | z => rfl
  | hh neg h => cases neg <;> simp [pyTzOf, pyTzOffset, offSeconds] <;> omega
  | hhmm neg c h m => cases neg <;> simp [pyTzOf, pyTzOffset, offSeconds] <;> omega


/-- the named groups of the `time` part for a rendered time -/
def pyGroups (ts ext : Bool) (h mi s : Nat) (p : Prec) (o : Off) : PyT :=
  match p with
  | .h => ⟨ts, h, false, none, false, none, none, pyTzOf o⟩
  | .hm => ⟨ts, h, ext, some mi, false, none, none, pyTzOf o⟩
  | .hms => ⟨ts, h, ext, some mi, ext, some s, none, pyTzOf o⟩
  | .frac _ k n => ⟨ts, h, ext, some mi, ext, some s, some (digitVals k n), pyTzOf o⟩

theorem stop_frac (comma : Bool) (r : List Char) : Stop ((if comma then ',' else '.') :: r) := by
  right; cases comma <;> simp

/-- everything after the optional `T`/space -/
theorem pyTimeCore_spec (ts ext : Bool) (h mi s : Nat) (p : Prec) (o : Off) (hb : HmsOk h mi s) (hp : PrecOk p) (ho : OffOk o) :
    pyTimeCore ts (rTime ext h mi s p ++ rOff o) = some (pyGroups ts ext h mi s p o) := by
  unfold pyTimeCore
  obtain ⟨hh, hmi, hs⟩ := hb
  have tz := rOff_TzStart o
  have st := Stop_of_TzStart tz
  rw [rTime_eq]
  cases p with
  | h =>
    simp [rTail, up2_digits2 _ _ hh, optColon_stop st, up2_stop st, pyFrac_none tz, pyTzMatch_spec o ho, pyGroups, optNum]
  | hm =>
    cases ext <;>
    simp [rTail, colon, up2_digits2 _ _ hh, up2_digits2 _ _ hmi, optColon_stop st, up2_stop st, pyFrac_none tz,
      pyTzMatch_spec o ho, pyGroups, optNum]
  | hms =>
    cases ext <;>
    simp [rTail, colon, up2_digits2 _ _ hh, up2_digits2 _ _ hmi, up2_digits2 _ _ hs, optColon_stop st, up2_stop st,
      pyFrac_none tz, pyTzMatch_spec o ho, pyGroups, optNum]
  | frac comma k n =>
    obtain ⟨k1, k2, hn⟩ := hp
    have sf := stop_frac comma (digits k n ++ rOff o)
    cases ext <;>
    simp [rTail, colon, up2_digits2 _ _ hh, up2_digits2 _ _ hmi, up2_digits2 _ _ hs, optColon_stop sf, up2_stop sf,
      pyFrac_frac comma k n ⟨k1, k2⟩ _ tz, pyTzMatch_spec o ho, pyGroups, optNum]

theorem pyTimeMatch_sep (sep : Char) (hsep : sep = 'T' ∨ sep = ' ') (ext : Bool) (h mi s : Nat) (p : Prec) (o : Off)
    (hb : HmsOk h mi s) (hp : PrecOk p) (ho : OffOk o) :
    pyTimeMatch (sep :: (rTime ext h mi s p ++ rOff o)) = some (pyGroups true ext h mi s p o) := by
  unfold pyTimeMatch
  rw [if_pos (by rcases hsep with e | e <;> subst e <;> simp)]
  exact pyTimeCore_spec true ext h mi s p o hb hp ho

theorem pyTimeMatch_bare (ext : Bool) (h mi s : Nat) (p : Prec) (o : Off)
    (hb : HmsOk h mi s) (hp : PrecOk p) (ho : OffOk o) :
    pyTimeMatch (rTime ext h mi s p ++ rOff o) = some (pyGroups false ext h mi s p o) := by
  unfold pyTimeMatch
  rw [if_neg (by rw [rTime_eq]; simp [digits])]
  exact pyTimeCore_spec false ext h mi s p o hb hp ho

theorem pyTimeFields_spec (ts ext : Bool) (h mi s : Nat) (p : Prec) (o : Off) (hp : PrecOk p) :
    pyTimeFields (pyGroups ts ext h mi s p o) =
      .ok ⟨h, (precFields mi s p).1, (precFields mi s p).2.1, (precFields mi s p).2.2, offSeconds o⟩ := by
  cases p with
  | h => simp [pyGroups, pyTimeFields, pyTzOffset_spec, precFields]
  | hm => cases ext <;> simp [pyGroups, pyTimeFields, pyTzOffset_spec, precFields]
  | hms => cases ext <;> simp [pyGroups, pyTimeFields, pyTzOffset_spec, precFields]
  | frac comma k n =>
    obtain ⟨k1, k2, hn⟩ := hp
    cases ext <;> simp [pyGroups, pyTimeFields, pyTzOffset_spec, precFields, micro_spec k n ⟨k1, k2⟩ hn]

/-! ### date candidates of the regex on rendered strings -/

theorem exactN_sep (b : Backend) (k acc : Nat) {rest : List Char} (h : SepStart rest) : exactN b (k + 1) acc rest = none := by
  rcases h with h | ⟨r, h | h⟩ <;> subst h
  · rfl
  · simp [exactN, (dv_sep b).2.2.1]
  · simp [exactN, (dv_sep b).2.2.2.1]

theorem optDash_sep {rest : List Char} (h : SepStart rest) : optChar '-' rest = (false, rest) := by
  rcases h with h | ⟨r, h | h⟩ <;> subst h <;> simp [optChar]

theorem pyMatch_cal (ext : Bool) (y m d : Nat) (hy : y < 10000) (hm : m < 100) (hd : d < 100) (rest : List Char)
    (x : PyD × Option PyT) (hx : tryCand (.ymd y ext m ext 2 d) rest = some x) :
    pyMatch (rCalendar ext y m d ++ rest) = some x := by
  unfold pyMatch pyClassic
  cases ext <;>
    simp [rCalendar, dash, List.append_assoc, exactN4 _ _ _ hy, exactN2 _ _ _ hm, exactN2 _ _ _ hd, hx]


theorem pyMatch_ord (ext : Bool) (y n : Nat) (hy : y < 10000) (hn : n < 1000) (rest : List Char) (hr : SepStart rest)
    (x : PyD × Option PyT) (hx : tryCand (.ymd y ext (n / 10) false 1 (n % 10)) rest = some x) :
    pyMatch (rOrdinal ext y n ++ rest) = some x := by
  unfold pyMatch pyClassic
  rw [rOrdinal, digits3_split]
  have e1 : exactN .py 2 0 (digits 1 n ++ rest) = none := by
    simp [digits, exactN, exactN_sep _ _ _ hr]
  have e2 : exactN .py 1 0 (digits 1 n ++ rest) = some (n % 10, rest) := by
    rw [exactN_digits]; simp
  cases ext <;>
    simp [dash, List.append_assoc, exactN4 _ _ _ hy, exactN2 _ _ _ (show n / 10 < 100 by omega), e1, e2, hx]

theorem tryCand_dash (d : PyD) (r : List Char) : tryCand d ('-' :: r) = none := by
  simp [tryCand, pyTimeMatch, pyTimeCore, up2, (dv_sep .py).1]

theorem tryCand_W (d : PyD) (r : List Char) : tryCand d ('W' :: r) = none := by
  simp [tryCand, pyTimeMatch, pyTimeCore, up2, (dv_sep .py).2.2.2.2.1]

theorem exactN_W (k acc : Nat) (r : List Char) : exactN .py (k + 1) acc ('W' :: r) = none := by
  simp [exactN, (dv_sep .py).2.2.2.2.1]

theorem pyMatch_weekday (ext : Bool) (y w wd : Nat) (hy : y < 10000) (hw : w < 100) (hwd : wd < 10) (rest : List Char)
    (x : PyD × Option PyT) (hx : tryCand (.week y ext w ext (some wd)) rest = some x) :
    pyMatch (rWeekDay ext y w wd ++ rest) = some x := by
  unfold pyMatch pyClassic pyIsoCal
  cases ext <;>
    simp [rWeekDay, dash, List.append_assoc, exactN4 _ _ _ hy, exactN2 _ _ _ hw, exactN1 _ _ _ hwd, exactN_W, tryCand_dash,
      tryCand_W, hx]

theorem pyMatch_week (ext : Bool) (y w : Nat) (hy : y < 10000) (hw : w < 100) (rest : List Char) (hr : SepStart rest)
    (x : PyD × Option PyT) (hx : tryCand (.week y ext w false none) rest = some x) :
    pyMatch (rWeek ext y w ++ rest) = some x := by
  unfold pyMatch pyClassic pyIsoCal
  cases ext <;>
    simp [rWeek, dash, List.append_assoc, exactN4 _ _ _ hy, exactN2 _ _ _ hw, exactN_W, tryCand_dash,
      tryCand_W, optDash_sep hr, exactN_sep _ _ _ hr, hx]

theorem pyMatch_ym (y m : Nat) (hy : y < 10000) (hm : m < 100) (rest : List Char) (hr : SepStart rest)
    (x : PyD × Option PyT) (hx : tryCand (.ym y true m) rest = some x) :
    pyMatch (rYearMonth y m ++ rest) = some x := by
  unfold pyMatch pyClassic
  simp [rYearMonth, List.append_assoc, exactN4 _ _ _ hy, exactN2 _ _ _ hm, optDash_sep hr, exactN_sep _ _ _ hr, hx]

theorem pyMatch_y (y : Nat) (hy : y < 10000) (rest : List Char) (hr : SepStart rest)
    (x : PyD × Option PyT) (hx : tryCand (.year y) rest = some x) :
    pyMatch (rYear y ++ rest) = some x := by
  unfold pyMatch pyClassic
  simp [rYear, exactN4 _ _ _ hy, optDash_sep hr, exactN_sep _ _ _ hr, hx]



end Pendulum.Iso
