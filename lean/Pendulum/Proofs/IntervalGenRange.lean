import Pendulum.Proofs.IntervalGen
/-! Tie of `Gen.Interval.range` / `range_loop` / `iter` / `contains` to `Model/Range.lean` (C19). -/
set_option linter.unusedSimpArgs false
set_option linter.unusedVariables false
namespace Pendulum.IntervalGen
open Pendulum Pendulum.DTOps Pendulum.AddDur
open Pendulum.Gen.Interval (Ep Kind Cls Env Ops Self PDt InitRes Method EqRes isinst)

/-! ## `range`, `__iter__`, `__contains__` -/

open Pendulum.Range Pendulum.IntervalPD in
/-- a step of the model (a value or an exception) as the generated `Except String EP`: the value keeps the tzinfo of the start -/
def liftStep (s : IntervalPD.EP) : Except DTOps.Err V → Except String IntervalPD.EP
  | .ok v => .ok ⟨v, s.tag, s.isDt⟩
  | .error e => .error e.name

/-- what the model assumes about the calls `Interval.range` makes: `<=`/`>=` on pendulum values, and
    `self.start.add(**{unit: n})` / `.subtract(..)` = the model's `addUnit` with `±n` (unit index `u` for the keyword `unit`) -/
structure OpsOk (ops : Ops IntervalPD.EP) (start : IntervalPD.EP) (u : Nat) (unit : String) : Prop where
  le_ok : ∀ a b, ops.le a b = Range.leV a.tag a.v b.tag b.v
  ge_ok : ∀ a b, ops.ge a b = Range.leV b.tag b.v a.tag a.v
  add_ok : ∀ n, ops.call .add start unit n = liftStep start (Range.addUnit start u n)
  sub_ok : ∀ n, ops.call .subtract start unit n = liftStep start (Range.addUnit start u (-n))

/-- the attributes the methods read are those of the model interval -/
structure SelfRep (sf : Self IntervalPD.EP) (iv : IntervalPD.Iv) : Prop where
  start : sf.start = iv.start
  stop : sf.end_ = iv.stop
  absolute : sf.absolute = iv.absolute
  invert : sf.invert = iv.invert

/-- the model's step never raises anything but ValueError / OverflowError (`add` normalises a non-existing or ambiguous
    wall time instead of raising) -/
theorem create_err (z : ZRef) (w : Int) (f : Bool) (e : DTOps.Err) (h : create z w f false = .error e) : e = .overflow := by
  unfold create at h
  cases z with
  | naive => simp at h
  | fixed off => simp at h
  | named zt =>
    simp only [] at h
    have hc : ∃ l, Zone.convertNaive zt ⟨w, f⟩ false = .ok l := by
      unfold Zone.convertNaive
      simp only [Bool.false_eq_true, if_false, and_false]
      split <;> exact ⟨_, rfl⟩
    obtain ⟨l, hl⟩ := hc
    rw [hl] at h
    simp only [] at h
    split at h
    · cases h
    · cases h; rfl

theorem add_err (v : V) (y mo w d hh mi s us : Int) (e : DTOps.Err) (h : DTOps.add v y mo w d hh mi s us = .error e) :
    e = .valueError ∨ e = .overflow := by
  unfold DTOps.add at h
  simp only [] at h
  generalize addDuration _ _ _ _ _ _ _ _ _ = r at h
  cases r with
  | error x => cases x <;> simp only [] at h <;> cases h <;> simp
  | ok dt =>
    simp only [] at h
    split at h
    · right; exact create_err _ _ _ _ h
    · cases hz : v.z with
      | naive => rw [hz] at h; simp at h
      | fixed off =>
        rw [hz] at h; simp only [] at h
        split at h
        · cases h
        · cases h; right; rfl
      | named zt =>
        rw [hz] at h; simp only [] at h
        split at h
        · cases h
        · cases h; right; rfl

theorem addUnit_err (s : IntervalPD.EP) (u : Nat) (k : Int) (e : DTOps.Err) (h : Range.addUnit s u k = .error e) :
    e = .valueError ∨ e = .overflow := by
  unfold Range.addUnit at h
  split at h
  · cases h
  · simp only [] at h
    split at h
    · exact add_err _ _ _ _ _ _ _ _ _ e h
    · split at h
      · cases h; left; rfl
      · generalize addDuration _ _ _ _ _ _ _ _ _ = r at h
        cases r with
        | ok w => simp at h
        | error x => cases x <;> simp only [] at h <;> cases h <;> simp

theorem ycons_fst {α : Type} (v : α) (r : List α × Option String) :
    (Gen.Interval.ycons v r).1 = v :: r.1 ∧ (Gen.Interval.ycons v r).2 = r.2 := ⟨rfl, rfl⟩

/-- one unfolding of the generated loop -/
theorem loop_step {α : Type} (ops : Ops α) (self : Self α) (unit : String) (amount : Int) (m : Method) (op : α → α → Bool)
    (stop : α) (fuel : Nat) (cur : α) (i : Int) :
    Gen.Interval.range_loop ops self unit amount m op stop (fuel + 1) cur i =
      if op cur stop = true then
        Gen.Interval.ycons cur
          (match ops.call m self.start unit i with
           | .error err => if err = "OverflowError" ∨ err = "ValueError" then ([], none) else ([], some err)
           | .ok nxt => Gen.Interval.range_loop ops self unit amount m op stop fuel nxt (i + amount))
      else ([], none) := by
  gen_tie "Pendulum.IntervalGen.loop_step (under Props.C19.range_source_eq_model, range_stop_source)" "Gen/Interval.lean `range_loop` (the while loop of Interval.range)" =>
    first | rfl | (simp only [Gen.Interval.range_loop, Gen.Interval.p_start]; rfl)
    done

theorem loop_zero {α : Type} (ops : Ops α) (self : Self α) (unit : String) (amount : Int) (m : Method) (op : α → α → Bool)
    (stop : α) (cur : α) (i : Int) :
    Gen.Interval.range_loop ops self unit amount m op stop 0 cur i = ([], none) := by
  simp only [Gen.Interval.range_loop]

open Pendulum.Range Pendulum.IntervalPD in
theorem loop_eq (ops : Ops EP) (self : Self EP) (iv : Iv) (u : Nat) (unit : String) (amount : Int)
    (hs : SelfRep self iv) (hops : OpsOk ops iv.start u unit) :
    ∀ (fuel : Nat) (cur : EP) (i : Int), cur.tag = iv.start.tag →
      ((Gen.Interval.range_loop ops self unit amount
          (if (!iv.absolute && iv.invert) = true then Method.subtract else Method.add)
          (if (!iv.absolute && iv.invert) = true then ops.ge else ops.le) iv.stop fuel cur i).1.map (fun e => Except.ok e.v)
        = rangeLoop (stepOf iv u) (insideOf iv) amount fuel (.ok cur.v) i) ∧
      (Gen.Interval.range_loop ops self unit amount
          (if (!iv.absolute && iv.invert) = true then Method.subtract else Method.add)
          (if (!iv.absolute && iv.invert) = true then ops.ge else ops.le) iv.stop fuel cur i).2 = none := by
  intro fuel
  induction fuel with
  | zero => intro cur i _; rw [loop_zero]; exact ⟨rfl, rfl⟩
  | succ f ih =>
    intro cur i htag
    rw [loop_step, hs.start]
    simp only [rangeLoop]
    have hin : (if (!iv.absolute && iv.invert) = true then ops.ge else ops.le) cur iv.stop = insideOf iv (.ok cur.v) := by
      unfold insideOf
      cases hinv : (!iv.absolute && iv.invert)
      · simp only [Bool.false_eq_true, if_false]; rw [hops.le_ok, htag]
      · simp only [if_true]; rw [hops.ge_ok, htag]
    rw [hin]
    cases hi : insideOf iv (.ok cur.v)
    · simp
    · simp only [if_true]
      have hcall : ops.call (if (!iv.absolute && iv.invert) = true then Method.subtract else Method.add) iv.start unit i
          = liftStep iv.start (stepOf iv u i) := by
        unfold stepOf
        cases hinv : (!iv.absolute && iv.invert)
        · simp only [Bool.false_eq_true, if_false]; exact hops.add_ok i
        · simp only [if_true]; exact hops.sub_ok i
      rw [hcall]
      cases hst : stepOf iv u i with
      | ok v =>
        simp only [liftStep]
        obtain ⟨h1, h2⟩ := ih ⟨v, iv.start.tag, iv.start.isDt⟩ (i + amount) rfl
        rw [(ycons_fst _ _).1, (ycons_fst _ _).2, List.map_cons, h1, h2]
        exact ⟨rfl, rfl⟩
      | error e =>
        have he := addUnit_err iv.start u _ e (by unfold stepOf at hst; exact hst)
        have hstop : rangeLoop (stepOf iv u) (insideOf iv) amount f (.error e) (i + amount) = [] := by
          cases f with
          | zero => rfl
          | succ f' => simp only [rangeLoop, insideOf, Bool.false_eq_true, if_false]
        rw [hstop]
        rcases he with rfl | rfl <;> simp only [liftStep, DTOps.Err.name] <;> exact ⟨rfl, rfl⟩

open Pendulum.Range Pendulum.IntervalPD in
/-- `Interval.range(unit, amount)` as written in the source yields exactly the model's `rangeIv` list, for every fuel, and no
    exception escapes the generator -/
theorem range_eq (ops : Ops EP) (self : Self EP) (iv : Iv) (u : Nat) (unit : String) (amount : Int) (fuel : Nat)
    (hs : SelfRep self iv) (hops : OpsOk ops iv.start u unit) :
    (Gen.Interval.range ops self unit amount fuel).1.map (fun e => Except.ok e.v) = rangeIv iv u amount fuel ∧
    (Gen.Interval.range ops self unit amount fuel).2 = none := by
  have key : Gen.Interval.range ops self unit amount fuel =
      Gen.Interval.range_loop ops self unit amount
          (if (!iv.absolute && iv.invert) = true then Method.subtract else Method.add)
          (if (!iv.absolute && iv.invert) = true then ops.ge else ops.le) iv.stop fuel iv.start amount := by
    gen_tie "Pendulum.IntervalGen.range_eq (under Props.C19.range_source_eq_model)" "Gen/Interval.lean `range` (method/op choice of Interval.range)" =>
      simp only [Gen.Interval.range, Gen.Interval.p_start, Gen.Interval.p_end, hs.start, hs.stop, hs.absolute, hs.invert]
      done
  rw [key]
  have h0 : stepOf iv u 0 = .ok iv.start.v := by
    unfold stepOf addUnit
    cases (!iv.absolute && iv.invert) <;> simp
  unfold rangeIv Range.range
  rw [h0]
  exact loop_eq ops self iv u unit amount hs hops fuel iv.start amount rfl

/-- `__iter__` is `range("days", 1)` -/
theorem iter_eq {α : Type} (ops : Ops α) (self : Self α) (fuel : Nat) :
    Gen.Interval.iter ops self fuel = Gen.Interval.range ops self "days" 1 fuel := by
  gen_tie "Pendulum.IntervalGen.iter_eq (under Props.C19.range_source_eq_model)" "Gen/Interval.lean `iter` (Interval.__iter__)" =>
    simp only [Gen.Interval.iter]
    done

/-- stop conditions: an exception of the step other than OverflowError / ValueError escapes the generator after the value
    yielded so far; OverflowError / ValueError end it silently -/
theorem range_stop {α : Type} (ops : Ops α) (self : Self α) (unit : String) (amount : Int) (m : Method) (op : α → α → Bool)
    (stop cur : α) (fuel : Nat) (i : Int) (err : String) (hop : op cur stop = true) (hcall : ops.call m self.start unit i = .error err) :
    Gen.Interval.range_loop ops self unit amount m op stop (fuel + 1) cur i =
      if err = "OverflowError" ∨ err = "ValueError" then ([cur], none) else ([cur], some err) := by
  rw [loop_step, hop, hcall]
  simp only [if_true]
  split <;> rfl

open Pendulum.Range Pendulum.IntervalPD in
/-- `item in interval` as written in the source is the model's `containsIv` -/
theorem contains_eq (ops : Ops EP) (self : Self EP) (iv : Iv) (item : EP) (hs : SelfRep self iv)
    (hle : ∀ a b, ops.le a b = leV a.tag a.v b.tag b.v) (hge : ∀ a b, ops.ge a b = leV b.tag b.v a.tag a.v) :
    Gen.Interval.contains ops self item = containsIv iv item.tag item.v := by
  gen_tie "Pendulum.IntervalGen.contains_eq (under Props.C19.contains_source_eq_model)" "Gen/Interval.lean `contains` (Interval.__contains__)" =>
    simp only [Gen.Interval.contains, Gen.Interval.p_start, Gen.Interval.p_end, hs.start, hs.stop, hle, hge, containsIv]
    first | done | (rw [Bool.and_comm]; done)
    done


open Pendulum.Range Pendulum.IntervalPD in
/-- `<=`, `>=`, `add`, `subtract` as the model `Model/Range.lean` reads them -/
def refOps (u : Nat) : Ops EP where
  le a b := leV a.tag a.v b.tag b.v
  ge a b := leV b.tag b.v a.tag a.v
  call m s _ n := liftStep s (addUnit s u (match m with | .add => n | .subtract => -n))
  deepcopy x := x

theorem refOps_ok (start : IntervalPD.EP) (u : Nat) (unit : String) : OpsOk (refOps u) start u unit where
  le_ok := by intros; rfl
  ge_ok := by intros; rfl
  add_ok := by intros; rfl
  sub_ok := by intros; rfl


end Pendulum.IntervalGen
