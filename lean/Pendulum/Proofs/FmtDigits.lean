import Pendulum.Model.FmtParse
/-! Decimal rendering lemmas for the formatter model: `digitsW`, `numDigits`, `pyFmtD`, `natOfDigits`, `intOf`. -/
namespace Pendulum.Fmt

theorem digitChar_cases (d : Nat) (h : d < 10) :
    (digitChar d).isDigit = true ∧ digitVal (digitChar d) = d ∧ digitChar d ≠ ' ' ∧ digitChar d ≠ '-' ∧ digitChar d ≠ '+'
      ∧ digitChar d ≠ ':' ∧ digitChar d ≠ '.' := by
  have : d = 0 ∨ d = 1 ∨ d = 2 ∨ d = 3 ∨ d = 4 ∨ d = 5 ∨ d = 6 ∨ d = 7 ∨ d = 8 ∨ d = 9 := by omega
  rcases this with h|h|h|h|h|h|h|h|h|h <;> subst h <;> decide

theorem digitsW_length (k n : Nat) : (digitsW k n).length = k := by
  induction k with
  | zero => rfl
  | succ k ih => simp [digitsW, ih]

theorem digitsW_all_digit (k n : Nat) : (digitsW k n).all Char.isDigit = true := by
  induction k with
  | zero => rfl
  | succ k ih =>
    have hd : n / 10 ^ k % 10 < 10 := Nat.mod_lt _ (by decide)
    simp [digitsW, ih, (digitChar_cases _ hd).1]

/-- folding the digits of `digitsW k n` onto an accumulator -/
theorem foldl_digitsW (k : Nat) : ∀ (acc n : Nat) (rest : Str),
    (digitsW k n ++ rest).foldl (fun a c => a * 10 + digitVal c) acc
      = rest.foldl (fun a c => a * 10 + digitVal c) (acc * 10 ^ k + n % 10 ^ k) := by
  induction k with
  | zero => intro acc n rest; simp [digitsW, Nat.mod_one]
  | succ k ih =>
    intro acc n rest
    have hd : n / 10 ^ k % 10 < 10 := Nat.mod_lt _ (by decide)
    simp only [digitsW, List.cons_append, List.foldl_cons, (digitChar_cases _ hd).2.1]
    rw [ih]
    congr 1
    have h1 : n % 10 ^ (k + 1) = (n / 10 ^ k % 10) * 10 ^ k + n % 10 ^ k := by
      rw [Nat.pow_succ, Nat.mod_mul, Nat.add_comm, Nat.mul_comm]
    rw [h1, Nat.pow_succ, Nat.add_mul]
    have e : acc * 10 * 10 ^ k = acc * (10 ^ k * 10) := by
      rw [Nat.mul_assoc, Nat.mul_comm 10]
    rw [e]
    omega

theorem natOfDigits_digitsW (k n : Nat) : natOfDigits (digitsW k n) = n % 10 ^ k := by
  have := foldl_digitsW k 0 n []
  simpa [natOfDigits] using this

/-! ### number of digits -/

theorem numDigitsAux_le : ∀ (f n k : Nat), 1 ≤ k → n < 10 ^ k → numDigitsAux f n ≤ k := by
  intro f
  induction f with
  | zero => intro n k hk _; simpa [numDigitsAux] using hk
  | succ f ih =>
    intro n k hk hn
    unfold numDigitsAux
    split
    · exact hk
    · rename_i h10
      have hk2 : 2 ≤ k := by
        rcases Nat.lt_or_ge k 2 with h | h
        · have : k = 1 := by omega
          subst this; simp at hn; omega
        · exact h
      obtain ⟨j, rfl⟩ : ∃ j, k = j + 1 := ⟨k - 1, by omega⟩
      have : n / 10 < 10 ^ j := by
        rw [Nat.pow_succ] at hn
        exact Nat.div_lt_of_lt_mul (by rw [Nat.mul_comm]; exact hn)
      have := ih (n / 10) j (by omega) this
      omega

theorem numDigitsAux_ge : ∀ (f n k : Nat), k ≤ f + 1 → 10 ^ (k - 1) ≤ n → k ≤ numDigitsAux f n := by
  intro f
  induction f with
  | zero => intro n k hk _; simp [numDigitsAux]; omega
  | succ f ih =>
    intro n k hk hn
    unfold numDigitsAux
    split
    · rename_i h10
      rcases Nat.lt_or_ge k 2 with h | h
      · omega
      · have : 10 ^ 1 ≤ 10 ^ (k - 1) := Nat.pow_le_pow_right (by decide) (by omega)
        simp at this; omega
    · rcases Nat.lt_or_ge k 2 with h | h
      · omega
      · have e : k - 1 = (k - 2) + 1 := by omega
        rw [e, Nat.pow_succ] at hn
        have : 10 ^ (k - 1 - 1) ≤ n / 10 := by
          rw [show k - 1 - 1 = k - 2 by omega]
          exact (Nat.le_div_iff_mul_le (by decide)).2 hn
        have := ih (n / 10) (k - 1) (by omega) this
        omega

theorem lt_pow_numDigitsAux : ∀ (f n : Nat), n < 10 ^ (f + 1) → n < 10 ^ numDigitsAux f n := by
  intro f
  induction f with
  | zero => intro n hn; simpa [numDigitsAux] using hn
  | succ f ih =>
    intro n hn
    unfold numDigitsAux
    split
    · rename_i h; simpa using h
    · have h1 : n / 10 < 10 ^ (f + 1) := by
        rw [Nat.pow_succ] at hn
        exact Nat.div_lt_of_lt_mul (by rw [Nat.mul_comm]; exact hn)
      have h2 := ih (n / 10) h1
      rw [Nat.pow_succ]
      have : n < (n / 10 + 1) * 10 := by omega
      calc n < (n / 10 + 1) * 10 := this
        _ ≤ 10 ^ numDigitsAux f (n / 10) * 10 := Nat.mul_le_mul_right 10 h2

theorem lt_pow_numDigits (n : Nat) : n < 10 ^ numDigits n := by
  unfold numDigits
  apply lt_pow_numDigitsAux
  calc n < 10 ^ n := Nat.lt_pow_self (by decide)
    _ ≤ 10 ^ (n + 1) := Nat.pow_le_pow_right (by decide) (by omega)

theorem numDigits_pos (n : Nat) : 1 ≤ numDigits n := by
  unfold numDigits
  cases n with
  | zero => simp [numDigitsAux]
  | succ n => unfold numDigitsAux; split <;> omega

/-- `numDigits n = k` exactly when `10^(k-1) ≤ n < 10^k` (for `k ≥ 1`, `n ≥ 1` or `k = 1`) -/
theorem numDigits_eq (n k : Nat) (hk : 1 ≤ k) (hlo : 10 ^ (k - 1) ≤ n ∨ k = 1) (hhi : n < 10 ^ k) : numDigits n = k := by
  have h1 := numDigitsAux_le n n k hk hhi
  have h0 := numDigits_pos n
  unfold numDigits at *
  rcases hlo with hlo | hlo
  · have hf : k ≤ n + 1 := by
      have : k - 1 < 10 ^ (k - 1) := Nat.lt_pow_self (by decide)
      omega
    have h2 := numDigitsAux_ge n n k hf hlo
    omega
  · omega

/-! ### `pyFmtD` -/

theorem pyFmtD_nonneg (w : Nat) (n : Int) (h : 0 ≤ n) :
    pyFmtD w n = digitsW (max w (numDigits n.toNat)) n.toNat := by
  unfold pyFmtD
  simp [Int.not_lt.mpr h]

/-- zero-padded fixed width: a value below `10^w` renders as exactly `w` digits -/
theorem pyFmtD_fixed (w : Nat) (n : Int) (h0 : 0 ≤ n) (hw : 1 ≤ w) (h1 : n.toNat < 10 ^ w) :
    pyFmtD w n = digitsW w n.toNat := by
  rw [pyFmtD_nonneg w n h0]
  have := numDigitsAux_le n.toNat n.toNat w hw h1
  unfold numDigits
  rw [Nat.max_eq_left this]

/-- plain `d`: a value with exactly `k` digits renders as `k` digits -/
theorem pyFmtD_plain (k : Nat) (n : Int) (h0 : 0 ≤ n) (hk : 1 ≤ k) (hlo : 10 ^ (k - 1) ≤ n.toNat ∨ k = 1)
    (hhi : n.toNat < 10 ^ k) : pyFmtD 0 n = digitsW k n.toNat := by
  rw [pyFmtD_nonneg 0 n h0, numDigits_eq n.toNat k hk hlo hhi]
  simp

/-- the digits written by `pyFmtD` read back as the number (any width, non-negative values) -/
theorem natOfDigits_pyFmtD (w : Nat) (n : Int) (h0 : 0 ≤ n) : (natOfDigits (pyFmtD w n) : Int) = n := by
  rw [pyFmtD_nonneg w n h0, natOfDigits_digitsW]
  have h := lt_pow_numDigits n.toNat
  have : n.toNat < 10 ^ max w (numDigits n.toNat) :=
    Nat.lt_of_lt_of_le h (Nat.pow_le_pow_right (by decide) (Nat.le_max_right _ _))
  rw [Nat.mod_eq_of_lt this]
  omega

theorem pyFmtD_all_digit (w : Nat) (n : Int) (h0 : 0 ≤ n) : (pyFmtD w n).all Char.isDigit = true := by
  rw [pyFmtD_nonneg w n h0]; exact digitsW_all_digit _ _

theorem pyFmtD_ne_nil (w : Nat) (n : Int) (h0 : 0 ≤ n) : pyFmtD w n ≠ [] := by
  rw [pyFmtD_nonneg w n h0]
  have h := numDigits_pos n.toNat
  intro e
  have := congrArg List.length e
  rw [digitsW_length] at this
  simp at this
  omega

end Pendulum.Fmt
